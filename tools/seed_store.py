#!/usr/bin/env python3
"""usage: seed_store.py <src dir> <name> <property> <caught-by (comma list or 'none')> <needs...>"""
import json, os, shutil, sys
src, name, prop, caught = sys.argv[1:5]
needs = ' '.join(sys.argv[5:])
dst = os.path.join('/verif/seeded', name)
os.makedirs(dst, exist_ok=True)
for f in ('patch.diff', 'demo.py', 'notes.md'):
    if os.path.exists(os.path.join(src, f)):
        shutil.copy(os.path.join(src, f), os.path.join(dst, f))
meta = dict(id=name, breaks_property=prop, needs_to_manifest=needs,
            author='independent sub-agent given only the property text and a scratch worktree',
            confirmed=dict(suite_with_change='300 passed, 4 errors (the baseline)', demo_unmodified='exit 0', demo_with_change='exit 1',
                           how='tools/seed_eval.sh: git -C /repo apply patch.diff; pytest; demo.py /repo; ./check <props>; git -C /repo checkout -- .'),
            caught_by=[] if caught == 'none' else caught.split(','))
json.dump(meta, open(os.path.join(dst, 'meta.json'), 'w'), indent=1)
print('stored', dst)
