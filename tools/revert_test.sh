#!/bin/sh
# usage: tools/revert_test.sh <fix-commit> <property>...   — undo one fix: commit in the working tree of /repo,
# run the named checks (they must report a violation), restore the tree.
c=$1; shift
trap 'git -C /repo checkout -- .' EXIT INT TERM
git -C /repo show "$c" | git -C /repo apply -R || exit 2
for p in "$@"; do
  out=$(/verif/check "$p" 2>&1); rc=$?
  echo "== revert $(git -C /repo log --format=%s -1 $c | cut -c1-70) | $p exit=$rc"
  echo "$out" | grep -A1 "^VIOLATION" | cut -c1-260 | head -6
done
git -C /repo checkout -- .
