#!/bin/bash
# tools/seed_sweep.sh : every stored seed is applied to /repo in turn and the quick check of its property is run; expects exit 1 each time.
# /repo must be clean; it is restored after every seed (and on exit).
cd /verif
trap 'git -C /repo checkout -- . 2>/dev/null' EXIT
if [ -n "$(git -C /repo status --short)" ]; then echo "/repo is not clean"; exit 2; fi
out=${1:-/tmp/seed_sweep.log}; : > $out
for d in /verif/seeded/*/; do
  if [ -n "$SEED_FILTER" ] && ! [[ "$(basename $d)" =~ $SEED_FILTER ]]; then continue; fi
  name=$(basename $d); prop=${name%%-*}
  if ! git -C /repo apply --check $d/patch.diff 2>/dev/null; then
    if git -C /repo apply --3way $d/patch.diff >/dev/null 2>&1 && [ -z "$(git -C /repo diff --name-only --diff-filter=U)" ]; then :; else
      git -C /repo checkout -- . ; git -C /repo reset -q --hard HEAD; echo "$name does-not-apply" | tee -a $out; continue; fi
  else git -C /repo apply $d/patch.diff; fi
  timeout 900 ./check $prop >/tmp/sweep.$name 2>&1; rc=$?
  git -C /repo reset -q --hard HEAD; git -C /repo checkout -- .
  echo "$name check=$prop exit=$rc $(grep -c '^VIOLATION' /tmp/sweep.$name) violations" | tee -a $out
done
