#!/bin/sh
# usage: tools/seed_eval.sh <dir with patch.diff + demo.py> <name> <property>...
# confirms the seeded change (suite passes, demo fails with / passes without), runs the named checks against it, restores /repo.
src=$1; name=$2; shift 2
trap 'git -C /repo checkout -- . 2>/dev/null' EXIT INT TERM
git -C /repo diff --quiet || { echo "/repo is not clean"; exit 2; }
echo "## demo on unmodified /repo"; /venv/bin/python "$src/demo.py" /repo > /tmp/seed_demo0.out 2>&1; d0=$?; echo "exit $d0"
git -C /repo apply "$src/patch.diff" || { echo "patch does not apply"; exit 2; }
echo "## suite with the change"; (cd /repo && /venv/bin/python -m pytest -q -p no:cacheprovider --timeout=900 --continue-on-collection-errors 2>&1 | tail -1)
echo "## demo with the change"; /venv/bin/python "$src/demo.py" /repo > /tmp/seed_demo1.out 2>&1; d1=$?; echo "exit $d1"; tail -3 /tmp/seed_demo1.out | cut -c1-200
for p in "$@"; do
  out=$(/verif/check "$p" 2>&1); rc=$?
  echo "## check $p exit=$rc"
  echo "$out" | grep -A1 "^VIOLATION" | cut -c1-300 | head -6
done
git -C /repo checkout -- .
