import PymapModel.Wire
/-!
# A strict, independent recogniser for what an IMAP server may write (RFC 3501 §9 `response`,
structural level), and the shape of everything pymap writes

`wf` is a one-pass lexer with a bracket stack.  It accepts a byte string iff it is a sequence of
complete lines `… CRLF` in which: every parenthesis / square bracket is balanced *within the line*;
every quoted string is closed on its line, contains no CR, LF or NUL, and uses `\` only before `"` or
`\`; every literal `{n}CRLF` (or `~{n}CRLF`) is followed by exactly `n` bytes; outside quoted strings
and literal payloads only printable ASCII and SP occur; no line is empty.
-/
namespace Pymap.Grammar
open Pymap.Wire

def isDigit (b : Nat) : Bool := 48 ≤ b && b ≤ 57
def lp : Nat := 40
def rp : Nat := 41
def lb : Nat := 91
def rb : Nat := 93
def lc : Nat := 123     -- '{'
def rc : Nat := 125     -- '}'

/-- plain bytes: printable ASCII that is not one of `( ) [ ] { "` (a backslash is plain outside quoted strings: `\\Seen`) -/
def plain (b : Nat) : Bool :=
  33 ≤ b && b ≤ 126 && b != lp && b != rp && b != lb && b != rb && b != lc && b != dq

/-- read a decimal number, return it with the rest -/
def readNum : Nat → List Nat → Nat × List Nat
  | acc, b :: r => if isDigit b then readNum (acc * 10 + (b - 48)) r else (acc, b :: r)
  | acc, [] => (acc, [])

/-- inside a quoted string (after the opening quote): return the rest after the closing quote -/
def skipQuoted : List Nat → Option (List Nat)
  | [] => none
  | b :: r =>
    if b = dq then some r
    else if b = 13 ∨ b = 10 ∨ b = 0 then none
    else if b = bs then
      match r with
      | c :: r' => if c = bs ∨ c = dq then skipQuoted r' else none
      | [] => none
    else skipQuoted r

def firstIsDigit (r : List Nat) : Bool := match r with | d :: _ => isDigit d | [] => false

/-- the recogniser; `stack`: open brackets (innermost first); `tok`: the previous byte ended a token
(so a single SP or the line end may follow; no leading, doubled or trailing spaces, no empty line) -/
def scan : Nat → List Nat → Bool → List Nat → Bool
  | _, stack, tok, [] => stack.isEmpty && !tok                 -- input ends exactly at a line end
  | 0, _, _, _ :: _ => false
  | fuel + 1, stack, tok, b :: r =>
    if b = 13 then
      if r.head? = some 10 then stack.isEmpty && tok && scan fuel [] false r.tail else false
    else if b = 32 then tok && scan fuel stack false r
    else if b = lp ∨ b = lb then scan fuel (b :: stack) false r       -- `(` may be followed by `)` or a token, not by SP
    else if b = rp then stack.head? = some lp && scan fuel stack.tail true r
    else if b = rb then (if stack.head? = some lb then scan fuel stack.tail true r else scan fuel stack true r)   -- a `]` that closes nothing is an ordinary character (tags and astrings may contain it)
    else if b = dq then (match skipQuoted r with | some r' => scan fuel stack true r' | none => false)
    else if b = lc then
      let p := readNum 0 r
      if p.2.take 3 = [rc, 13, 10] then
        firstIsDigit r && p.1 ≤ (p.2.drop 3).length && scan fuel stack true ((p.2.drop 3).drop p.1)
      else false
    else if b = 126 then (if r.head? = some lc then scan fuel stack false r else scan fuel stack true r)   -- '~' introduces a literal8, otherwise it is an ordinary atom character
    else plain b && scan fuel stack true r

def wf (bytes : List Nat) : Bool := scan (bytes.length + 1) [] false bytes

/-- the shape of what pymap writes -/
inductive Item
  | atom (s : List Nat)                 -- a run of plain bytes (tags, keywords, numbers, flags, response text words)
  | str (binary : Bool) (v : List Nat)  -- whatever `String.build` / `LiteralString` makes of a value
  | group (square : Bool) (xs : List Item)

mutual
def serItem : Item → List Nat
  | .atom s => s
  | .str binary v => buildString binary v
  | .group sq xs => (if sq then lb else lp) :: (serItems xs ++ [if sq then rb else rp])
/-- items of a group or of a line; a single SP between neighbours, except that an atom may be glued to a
following square group (`BODY[…]`, `BODY[…]<0>` is atom+group+atom) — modelled by the empty atom trick:
callers put no separator item, so we simply emit SP between all items -/
def serItems : List Item → List Nat
  | [] => []
  | [x] => serItem x
  | x :: y :: r => serItem x ++ 32 :: serItems (y :: r)
end

def serLine (xs : List Item) : List Nat := serItems xs ++ [13, 10]

end Pymap.Grammar
