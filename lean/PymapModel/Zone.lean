/-!
# Model of the zone of an IMAP date-time (`pymap/parsing/specials/datetime_.py`, repaired D84)

`DateTime.__bytes__` writes the UTC offset of a value as a sign and four digits, hours and minutes of the *absolute* offset;
`DateTime.parse` accepts exactly a sign and four digits (the shape is checked before `strptime`), minutes below 60 and an
offset of less than a day (`datetime.timezone` refuses more).  Offsets are whole minutes here: one that has seconds is written
as the same instant in UTC.
-/
namespace Pymap.Zone

def d2 (n : Nat) : List Nat := [48 + n / 10, 48 + n % 10]

/-- `'%s%02d%02d' % ('-' if offset < 0 else '+', minutes // 60, minutes % 60)` with `minutes = abs(offset)` -/
def fmt (z : Int) : List Nat :=
  (if z < 0 then 45 else 43) :: (d2 (z.natAbs / 60) ++ d2 (z.natAbs % 60))

def isDig (b : Nat) : Bool := 48 ≤ b && b ≤ 57

/-- `[+-]\d{4}` then `%z`: minutes 00-59, less than a day in all -/
def parse : List Nat → Option Int
  | [s, a, b, c, d] =>
    if (s = 43 || s = 45) && isDig a && isDig b && isDig c && isDig d then
      let hh := (a - 48) * 10 + (b - 48)
      let mm := (c - 48) * 10 + (d - 48)
      if mm < 60 && hh * 60 + mm < 1440 then
        some (if s = 45 then -((hh * 60 + mm : Nat) : Int) else ((hh * 60 + mm : Nat) : Int))
      else none
    else none
  | _ => none

end Pymap.Zone
