/-!
# Model of `_AsyncioReadWriteLock` (pymap/concurrent.py) on top of a model of `asyncio.Lock`

`asyncio.Lock` (CPython 3.12, trusted): `acquire` takes the fast path iff the lock is free and every
queued waiter's future is cancelled; otherwise it queues a future and parks.  `release` unlocks and
gives the *first* waiter its result if that future is still pending.  A parked waiter that is
cancelled removes itself when it next runs and, if the lock is free, wakes the first waiter.

The read-write lock is the **repaired** one (defect D25):

    async def read_lock(self):
        async with self._read_lock:                 # R
            if self._counter == 0:
                await self._write_lock.acquire()    # W, while holding R
            self._counter += 1
        try: yield
        finally:
            self._counter -= 1
            if self._counter == 0: self._write_lock.release()
-/
namespace Pymap.RWLock

inductive WSt | pending | woken | cancelled | wokenCancelled
deriving Repr, DecidableEq

structure ALock where
  locked  : Bool
  waiters : List (Nat × WSt)
deriving Repr, DecidableEq

def ALock.free : ALock := ⟨false, []⟩

def ALock.canFast (l : ALock) : Bool := !l.locked && l.waiters.all (fun w => w.2 == .cancelled)

/-- `_wake_up_first` -/
def ALock.wakeFirst (l : ALock) : ALock :=
  match l.waiters with
  | (t, .pending) :: r => { l with waiters := (t, .woken) :: r }
  | _ => l

def ALock.release (l : ALock) : ALock := ALock.wakeFirst { l with locked := false }
def ALock.enqueue (l : ALock) (t : Nat) : ALock := { l with waiters := l.waiters ++ [(t, .pending)] }
def ALock.isWoken (l : ALock) (t : Nat) : Bool := l.waiters.any (fun w => w.1 == t && w.2 == .woken)
/-- the woken waiter runs: removes its future and takes the lock -/
def ALock.take (l : ALock) (t : Nat) : ALock := { locked := true, waiters := l.waiters.filter (fun w => w.1 != t) }
/-- `fut.cancel()` on a pending future cancels it; on a future that already has its result it only marks the task -/
def WSt.cancel : WSt → WSt
  | .pending => .cancelled
  | .woken => .wokenCancelled
  | x => x
def cancelW (t : Nat) (w : Nat × WSt) : Nat × WSt := if w.1 == t then (w.1, w.2.cancel) else w
def ALock.markCancel (l : ALock) (t : Nat) : ALock := { l with waiters := l.waiters.map (cancelW t) }
/-- the cancelled waiter runs: removes its future; if the lock is free, wakes the first waiter -/
def ALock.unwind (l : ALock) (t : Nat) : ALock :=
  let l' : ALock := { l with waiters := l.waiters.filter (fun w => w.1 != t) }
  if l'.locked then l' else l'.wakeFirst

inductive PC
  | idle | rWaitR | rWaitW | rIn | wWaitW | wIn
  | cR | cRW | cW           -- cancelled while parked on R / on W holding R / on W; not yet run again
  | dead
deriving Repr, DecidableEq

structure Task where
  pc   : PC
  prog : List Bool          -- remaining sections: `true` = read, `false` = write
deriving Repr, DecidableEq

structure St where
  r       : ALock
  w       : ALock
  counter : Nat
  tasks   : List Task
deriving Repr, DecidableEq

def St.init (progs : List (List Bool)) : St := ⟨.free, .free, 0, progs.map (fun p => ⟨.idle, p⟩)⟩

inductive Label | run (i : Nat) | cancel (i : Nat)
deriving Repr, DecidableEq

def setPc (s : St) (i : Nat) (t : Task) : St := { s with tasks := s.tasks.set i t }

/-- after `R` has been obtained: the body of `async with self._read_lock` -/
def afterR (s : St) (i : Nat) (t : Task) : St :=
  if s.counter = 0 then
    if s.w.canFast then
      setPc { s with w := { s.w with locked := true }, counter := 1, r := s.r.release } i { t with pc := .rIn }
    else setPc { s with w := s.w.enqueue i } i { t with pc := .rWaitW }
  else setPc { s with counter := s.counter + 1, r := s.r.release } i { t with pc := .rIn }

def exitRead (s : St) : St :=
  let c := s.counter - 1
  { s with counter := c, w := if c = 0 then s.w.release else s.w }

def step (s : St) : Label → Option St
  | .run i =>
    match s.tasks[i]? with
    | none => none
    | some t =>
      match t.pc with
      | .idle =>
        match t.prog with
        | [] => none
        | true :: _ =>
          if s.r.canFast then some (afterR { s with r := { s.r with locked := true } } i t)
          else some (setPc { s with r := s.r.enqueue i } i { t with pc := .rWaitR })
        | false :: _ =>
          if s.w.canFast then some (setPc { s with w := { s.w with locked := true } } i { t with pc := .wIn })
          else some (setPc { s with w := s.w.enqueue i } i { t with pc := .wWaitW })
      | .rWaitR => if s.r.isWoken i then some (afterR { s with r := s.r.take i } i t) else none
      | .rWaitW =>
        if s.w.isWoken i then
          some (setPc { s with w := s.w.take i, counter := s.counter + 1, r := s.r.release } i { t with pc := .rIn })
        else none
      | .rIn => some (setPc (exitRead s) i { pc := .idle, prog := t.prog.tail })
      | .wWaitW => if s.w.isWoken i then some (setPc { s with w := s.w.take i } i { t with pc := .wIn }) else none
      | .wIn => some (setPc { s with w := s.w.release } i { pc := .idle, prog := t.prog.tail })
      | .cR => some (setPc { s with r := s.r.unwind i } i { t with pc := .dead })
      | .cRW => some (setPc { s with w := s.w.unwind i, r := s.r.release } i { t with pc := .dead })
      | .cW => some (setPc { s with w := s.w.unwind i } i { t with pc := .dead })
      | .dead => none
  | .cancel i =>
    match s.tasks[i]? with
    | none => none
    | some t =>
      match t.pc with
      | .rWaitR => some (setPc { s with r := s.r.markCancel i } i { t with pc := .cR })
      | .rWaitW => some (setPc { s with w := s.w.markCancel i } i { t with pc := .cRW })
      | .wWaitW => some (setPc { s with w := s.w.markCancel i } i { t with pc := .cW })
      | .rIn => some (setPc (exitRead s) i { t with pc := .dead })      -- cancelled at the yield inside the section
      | .wIn => some (setPc { s with w := s.w.release } i { t with pc := .dead })
      | _ => none

def run (s : St) : List Label → Option St
  | [] => some s
  | l :: ls => (step s l).bind (fun s' => run s' ls)

end Pymap.RWLock
