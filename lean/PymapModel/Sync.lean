/-!
# Model of `pymap/selected.py` — `SynchronizedMessages`, `_Frozen`, `SelectedMailbox.fork/_compare`

Import-free, executable.  UIDs, sequence numbers are `Nat` (no `abbrev`: `omega` does not unfold it).
Python sets are duplicate-free lists; `_seqs_cache` is an association list, newest binding first.
-/
namespace Pymap.Sync

/-- `bisect_right(sorted, u)` then `list.insert` -/
def insertSorted (u : Nat) : List Nat → List Nat
  | [] => [u]
  | v :: vs => if u < v then u :: v :: vs else v :: insertSorted u vs

def bisectRight (u : Nat) : List Nat → Nat
  | [] => 0
  | v :: vs => if u < v then 0 else bisectRight u vs + 1

def lookup {β : Type} (k : Nat) : List (Nat × β) → Option β
  | [] => none
  | (k', v) :: r => if k = k' then some v else lookup k r

/-- a cached message as far as `selected.py` looks at it: uid and permanent flags (the `flags_key`) -/
structure CMsg where
  uid   : Nat
  flags : List Nat
deriving Repr, DecidableEq, BEq

structure View where
  uids    : List Nat                 -- `_uids`
  sorted  : List Nat                 -- `_sorted`
  seqs    : List (Nat × Nat)         -- `_seqs_cache`
  fkeys   : List (Nat × List Nat)    -- `_flags_key_map` (newest binding first); `_flags_key_set` is its image
  pending : List Nat                 -- `_pending_remove`
deriving Repr

def View.empty : View := ⟨[], [], [], [], []⟩

/-- `for seq, uid in enumerate(islice(sorted, lowest, len), lowest + 1): cache[uid] = seq` -/
def renumberFrom (seqs : List (Nat × Nat)) (sorted : List Nat) (lowest : Nat) : List (Nat × Nat) :=
  ((sorted.drop lowest).zipIdx (lowest+1)).foldl (fun acc (x : Nat × Nat) => (x.1, x.2) :: acc) seqs

/-- the `for msg in messages` loop of `_update`, threading `lowest_idx` -/
def updateLoop (v : View) (lowest : Option Nat) : List CMsg → View × Option Nat
  | [] => (v, lowest)
  | m :: ms =>
    let v1 : View := { v with fkeys := (m.uid, m.flags) :: v.fkeys }
    if m.uid ∈ v.uids then updateLoop v1 lowest ms
    else
      let idx := bisectRight m.uid v.sorted
      let lowest' := match lowest with | none => some idx | some l => some (min l idx)
      updateLoop { v1 with uids := m.uid :: v.uids, sorted := insertSorted m.uid v.sorted } lowest' ms

/-- `SynchronizedMessages._update` -/
def update (v : View) (msgs : List CMsg) : View :=
  match updateLoop v none msgs with
  | (v', none) => v'
  | (v', some l) => { v' with seqs := renumberFrom v'.seqs v'.sorted l }

def sortAsc (l : List Nat) : List Nat := l.foldr insertSorted []

/-- `SynchronizedMessages._remove(uids, pending)` -/
def remove (v : View) (exp : List Nat) (pendingMode : Bool) : View :=
  if pendingMode then { v with pending := exp ++ v.pending }
  else
    let gone := exp ++ v.pending
    let uids' := v.uids.filter (fun u => !(gone.contains u))
    if uids'.length = v.uids.length then { v with pending := [] }
    else
      let s := sortAsc uids'
      { uids := uids', sorted := s, seqs := (s.zipIdx 1).reverse,
        fkeys := v.fkeys.filter (fun p => uids'.contains p.1), pending := [] }

/-- `SelectedMailbox.add_updates` (message part) -/
def addUpdates (v : View) (msgs : List CMsg) (exp : List Nat) (hide : Bool) : View :=
  remove (update v msgs) exp hide

/-- `SelectedMailbox.set_messages` -/
def setMessages (v : View) (msgs : List CMsg) (hide : Bool) : View :=
  let keep := msgs.map (·.uid)
  addUpdates v msgs (v.uids.filter (fun u => !(keep.contains u))) hide

/-- flags currently recorded for `u` -/
def View.flagsOf (v : View) (u : Nat) : Option (List Nat) := lookup u v.fkeys

/-- `get_uids`/`get_all` for a flattened set of sequence numbers resp. UIDs -/
def getBySeq (v : View) (seqs : List Nat) : List (Nat × Nat) :=
  (v.sorted.zipIdx 1).filterMap (fun (u, s) => if seqs.contains s then some (s, u) else none)
def getByUid (v : View) (uids : List Nat) : List (Nat × Nat) :=
  (v.sorted.zipIdx 1).filterMap (fun (u, s) => if uids.contains u && v.uids.contains u then some (s, u) else none)

/-- `_Frozen` -/
structure Frozen where
  uids   : List Nat
  seqs   : List (Nat × Nat)
  fkeys  : List (Nat × List Nat)     -- one binding per uid in `uids`
  recent : List Nat
deriving Repr

def freeze (v : View) (recentUids : List Nat) : Frozen :=
  { uids := v.uids, seqs := v.seqs,
    fkeys := v.uids.filterMap (fun u => (v.flagsOf u).map (fun f => (u, f))),
    recent := recentUids.filter (fun u => v.uids.contains u) }

inductive Untagged
  | expunge (seq : Nat)
  | exists_ (n : Nat)
  | recent (n : Nat)
  | fetch (seq : Nat) (uid : Nat) (flags : List Nat) (isRecent : Bool) (withUid : Bool)
  | bye
deriving Repr, DecidableEq

def sortDesc (l : List Nat) : List Nat := (sortAsc l).reverse

/-- `for uid in sorted(expunged_uids, reverse=True): yield ExpungeResponse(before.seqs_cache[uid])` -/
def cmpExpunge (bUids : List Nat) (bSeqs : List (Nat × Nat)) (aUids : List Nat) (hide : Bool) : List Untagged :=
  let expunged := bUids.filter (fun u => !(aUids.contains u))
  if !hide && !expunged.isEmpty then
    (sortDesc expunged).map (fun u => .expunge ((lookup u bSeqs).getD 0)) else []

/-- `if new_uids: yield ExistsResponse(len(after.uids))` -/
def cmpExists (bUids aUids : List Nat) : List Untagged :=
  if !(aUids.filter (fun u => !(bUids.contains u))).isEmpty then [.exists_ aUids.length] else []

def cmpRecent (before after : Frozen) : List Untagged :=
  if after.recent.length != before.recent.length then [.recent after.recent.length] else []

def cmpFetch (before after : Frozen) (silenced : List (Nat × List Nat)) (withUid : Bool) : List Untagged :=
  let newRecent := after.recent.filter (fun u => !(before.recent.contains u))
  let newFlags := (after.fkeys.filter (fun p => !(before.fkeys.contains p) && !(silenced.contains p))).map (·.1)
  let fetchUids := (sortAsc (newRecent ++ newFlags)).eraseDups
  fetchUids.map (fun u =>
      .fetch ((lookup u after.seqs).getD 0) u ((lookup u after.fkeys).getD []) (after.recent.contains u) withUid)

/-- `SelectedMailbox._compare` (session flags other than `\Recent` are always empty, see DESIGN App. A) -/
def compare (before after : Frozen) (hide : Bool) (silenced : List (Nat × List Nat))
    (withUid : Bool) (deleted : Bool) : List Untagged :=
  if deleted then [.bye] else
  cmpExpunge before.uids before.seqs after.uids hide ++ (cmpExists before.uids after.uids
    ++ (cmpRecent before after ++ cmpFetch before after silenced withUid))

/-- the ghost client: what a client that applies untagged responses in order holds -/
def clientApply (srvSorted : List Nat) (c : List Nat) : Untagged → Option (List Nat)
  | .expunge n => if 1 ≤ n ∧ n ≤ c.length then some (c.eraseIdx (n-1)) else none
  | .exists_ n => if c.length ≤ n then some (c ++ (srvSorted.drop c.length).take (n - c.length)) else none
  | _ => some c

def clientRun (srvSorted : List Nat) (c : List Nat) : List Untagged → Option (List Nat)
  | [] => some c
  | r :: rs => match clientApply srvSorted c r with
    | none => none
    | some c' => clientRun srvSorted c' rs

end Pymap.Sync
