/-!
# Model of the ManageSieve dispatch (`pymap/sieve/manage/__init__.py: run`), `FilterState`
(`state.py`) and the dict backend's `FilterSet` (`backend/dict/filter.py`)

Names and script bytes are lists of naturals.  A Python `dict` is an insertion-ordered
association list: assignment to an existing key keeps its position, `del`+insert moves to the end.
-/
namespace Pymap.Sieve

abbrev Name := List Nat
abbrev Script := List Nat

def dget (k : Name) : List (Name × Script) → Option Script
  | [] => none
  | (k', v) :: r => if k = k' then some v else dget k r

/-- `d[k] = v` -/
def dput (k : Name) (v : Script) : List (Name × Script) → List (Name × Script)
  | [] => [(k, v)]
  | (k', v') :: r => if k = k' then (k, v) :: r else (k', v') :: dput k v r

/-- `del d[k]` -/
def ddel (k : Name) : List (Name × Script) → List (Name × Script)
  | [] => []
  | (k', v') :: r => if k = k' then r else (k', v') :: ddel k r

structure FilterSet where
  filters : List (Name × Script)
  active  : Option Name
deriving Repr, DecidableEq

def FilterSet.empty : FilterSet := ⟨[], none⟩

inductive Cmd
  | noop | capability | logout | starttls
  | authenticate (user : Nat) (ok : Bool)        -- outcome of the SASL exchange + login is an oracle
  | unauthenticate
  | havespace (n : Name) (size : Nat)
  | putscript (n : Name) (s : Script)
  | listscripts
  | setactive (n : Option Name)
  | getscript (n : Name)
  | deletescript (n : Name)
  | renamescript (o n : Name)
  | checkscript (s : Script) (compiles : Bool)   -- the sieve compiler is an oracle
deriving Repr

inductive Resp
  | ok | no (code : String) | bye | caps
  | script (s : Script)
  | list (names : List (Name × Bool))            -- name, is-active
deriving Repr, DecidableEq

structure Conn where
  user  : Option Nat                             -- `_state is None` iff `none`
  tls   : Bool                                   -- STARTTLS still on offer
  maxLen : Nat
deriving Repr

abbrev Store := List (Nat × FilterSet)            -- `Config.set_cache`, per user

def sget (u : Nat) : Store → FilterSet
  | [] => FilterSet.empty
  | (u', f) :: r => if u = u' then f else sget u r
def sput (u : Nat) (f : FilterSet) : Store → Store
  | [] => [(u, f)]
  | (u', f') :: r => if u = u' then (u, f) :: r else (u', f') :: sput u f r

/-- `FilterState.run` for an authenticated connection -/
def runState (maxLen : Nat) (fs : FilterSet) : Cmd → FilterSet × Resp
  | .havespace _ size => (fs, if size ≤ maxLen then .ok else .no "QUOTA/MAXSIZE")
  | .putscript n s =>
    if s.length ≤ maxLen then ({ fs with filters := dput n s fs.filters }, .ok) else (fs, .no "QUOTA/MAXSIZE")
  | .listscripts => (fs, .list (fs.filters.map (fun p => (p.1, fs.active = some p.1))))
  | .setactive none => ({ fs with active := none }, .ok)
  | .setactive (some n) =>
    if (dget n fs.filters).isSome then ({ fs with active := some n }, .ok) else (fs, .no "NONEXISTENT")
  | .getscript n => match dget n fs.filters with
    | some s => (fs, .script s)
    | none => (fs, .no "NONEXISTENT")
  | .deletescript n =>
    if (dget n fs.filters).isNone then (fs, .no "NONEXISTENT")
    else if fs.active = some n then (fs, .no "ACTIVE")
    else ({ fs with filters := ddel n fs.filters }, .ok)
  | .renamescript o n =>
    match dget o fs.filters with
    | none => (fs, .no "NONEXISTENT")
    | some s =>
      if (dget n fs.filters).isSome then (fs, if n = o then .no "NONEXISTENT" else .no "ALREADYEXISTS")
      else ({ filters := ddel o (dput n s fs.filters), active := if fs.active = some o then some n else fs.active }, .ok)
  | .checkscript _ c => (fs, if c then .ok else .no "")
  | _ => (fs, .no "Bad command.")

/-- `ManageSieveConnection.run` dispatch for one parsed command -/
def step (c : Conn) (st : Store) : Cmd → Conn × Store × Resp
  | .noop => (c, st, .ok)
  | .logout => (c, st, .bye)
  | .capability => (c, st, .caps)
  | cmd =>
    match c.user with
    | none =>
      match cmd with
      | .authenticate u true => ({ c with user := some u }, st, .ok)
      | .authenticate _ false => (c, st, .no "auth")
      | .starttls => if c.tls then ({ c with tls := false }, st, .caps) else (c, st, .no "Bad command.")
      | _ => (c, st, .no "Bad command.")
    | some u =>
      match cmd with
      | .unauthenticate => ({ c with user := none }, st, .ok)
      | _ =>
        let r := runState c.maxLen (sget u st) cmd
        (c, sput u r.1 st, r.2)

end Pymap.Sieve
