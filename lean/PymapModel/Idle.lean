/-!
# Model of the IDLE wake-up protocol
(`IMAPConnection.handle_updates`, dict `MailboxData.update_selected(wait_on=…)`, `_AsyncioEvent`)

`_AsyncioEvent.set()` fires the listeners registered *at that moment*; `or_event` registers a new,
unfired listener.  `repaired = true` models the repaired `update_selected` (defect D23): after
arming, it waits only if nothing is pending; `repaired = false` is the code as found.
-/
namespace Pymap.Idle

inductive PC | arm | wait | consume | write | exit
deriving Repr, DecidableEq

structure St where
  highest  : Nat            -- `_mod_sequences.highest` of the mailbox
  consumed : Nat            -- the idler's `mod_sequence`
  written  : Nat            -- ghost: position up to which notifications have been written to the client
  pc       : PC
  fired    : Option Bool    -- the current `either_event`: `none` = none armed, `some b` = armed, fired?
  done     : Bool           -- the `done` event (client sent DONE)
deriving Repr, DecidableEq

def St.init : St := ⟨0, 0, 0, .arm, none, false⟩

inductive Label | change | clientDone | idler
deriving Repr, DecidableEq

def fire (f : Option Bool) : Option Bool := f.map (fun _ => true)

/-- one step of the idling connection's own task; `none` = parked -/
def idlerStep (repaired : Bool) (s : St) : Option St :=
  match s.pc with
  | .arm =>
    if s.done then some { s with pc := .exit }
    else if repaired && s.consumed < s.highest then some { s with pc := .consume, fired := none }
    else some { s with pc := .wait, fired := some false }
  | .wait => if s.fired = some true then some { s with pc := .consume, fired := none } else none
  | .consume => some { s with consumed := s.highest, pc := .write }
  | .write => some { s with written := s.consumed, pc := .arm }
  | .exit => none

def step (repaired : Bool) (s : St) : Label → Option St
  | .change => some { s with highest := s.highest + 1, fired := fire s.fired }
  | .clientDone => some { s with done := true, fired := fire s.fired }
  | .idler => idlerStep repaired s

def run (repaired : Bool) (s : St) : List Label → Option St
  | [] => some s
  | l :: ls => (step repaired s l).bind (fun s' => run repaired s' ls)

/-- run only the idler's own steps, at most `n` of them, stopping when it parks -/
def drain (repaired : Bool) : Nat → St → St
  | 0, s => s
  | n+1, s => match idlerStep repaired s with
    | none => s
    | some s' => drain repaired n s'

end Pymap.Idle
