import PymapModel.Framing
/-!
# Model of `AString.parse` (pymap/parsing/specials/astring.py) and of the `String.parse` it falls back to
(pymap/parsing/primitives.py): one string argument, spelled as an atom, a quoted string or a `{n+}` literal.

Repaired behaviour: D78 — the length limit (`String._MAX_LEN`, or the APPEND limit) applies to the value however it is spelled.
The synchronising literal `{n}` is not parsed here: the parser asks the connection for a continuation and is run again on the
same bytes with the data in place (`Framing` is the model of how the connection finds the end of the command).
-/
namespace Pymap.AStr
open Pymap.Grammar Pymap.Wire Pymap.Framing

/-- `AString._pattern`: `[\x21\x23\x24\x26\x27\x2B-\x5B\x5D\x5E-\x7A\x7C\x7E]` -/
def isAtomChar (b : Nat) : Bool :=
  b = 0x21 || b = 0x23 || b = 0x24 || b = 0x26 || b = 0x27 || (0x2B ≤ b && b ≤ 0x5B) || b = 0x5D ||
  (0x5E ≤ b && b ≤ 0x7A) || b = 0x7C || b = 0x7E

/-- the longest prefix of atom characters and what follows -/
def spanAtom : List Nat → List Nat × List Nat
  | [] => ([], [])
  | b :: r => if isAtomChar b then (b :: (spanAtom r).1, (spanAtom r).2) else ([], b :: r)

/-- after `{digits+}`: CRLF or a bare LF (`\r?\n`) -/
def eol : List Nat → Option (List Nat)
  | 13 :: 10 :: r => some r
  | 10 :: r => some r
  | _ => none

/-- `LiteralString.parse` for the non-synchronising form, data inline -/
def parseLiteral (maxLen : Nat) (buf : List Nat) : Option (List Nat × List Nat) :=
  let b := skipSpaces buf
  let b := match b with
    | 126 :: r => r
    | _ => b
  match b with
  | 123 :: r =>
    let sp := spanDigits r
    if sp.1.isEmpty then none else
    match sp.2 with
    | 43 :: 125 :: r2 =>
      match eol r2 with
      | some r3 =>
        let n := (readNum 0 sp.1).1
        if n > maxLen then none
        else if r3.length < n then none
        else some (r3.take n, r3.drop n)
      | none => none
    | _ => none
  | _ => none

/-- `QuotedString.parse` with the limit -/
def parseQuotedLim (maxLen : Nat) (buf : List Nat) : Option (List Nat × List Nat) :=
  match parseQuoted buf with
  | some (v, rest) => if v.length > maxLen then none else some (v, rest)
  | none => none

/-- `String.parse`: quoted, else literal -/
def parseString (maxLen : Nat) (buf : List Nat) : Option (List Nat × List Nat) :=
  match parseQuotedLim maxLen buf with
  | some x => some x
  | none => parseLiteral maxLen buf

/-- `AString.parse` -/
def parse (maxLen : Nat) (buf : List Nat) : Option (List Nat × List Nat) :=
  let b := skipSpaces buf
  let sp := spanAtom b
  if !sp.1.isEmpty then (if sp.1.length > maxLen then none else some (sp.1, sp.2))
  else parseString maxLen buf

/-- the three spellings of a value -/
def asAtom (v : List Nat) : List Nat := v
def asQuoted (v : List Nat) : List Nat := serQuoted v
def asLiteral (v : List Nat) : List Nat := [123] ++ digits v.length ++ [43, 125, 13, 10] ++ v

end Pymap.AStr
