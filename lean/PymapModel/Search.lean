import PymapModel.Seq
/-!
# Model of `pymap/search.py`: `SearchCriteria.of`, the criteria classes, `SearchCriteriaSet`
with its sequence-set pre-filter, and `BaseSession.search_mailbox`

String-matching keys (FROM, SUBJECT, HEADER, BODY, TEXT, …) delegate to `re`/`email`; they are an
oracle `Msg.oracle : Nat → Bool` indexed by an opaque key id.
-/
namespace Pymap.Search
open Pymap.Seq

structure Msg where
  seq    : Nat
  uid    : Nat
  flags  : List Nat             -- permanent ∪ session flags as the session sees them
  idate  : Int                  -- internal date (day number)
  sdate  : Option Int           -- Date: header (day number), if parseable
  size   : Nat
  oracle : Nat → Bool           -- answers of the string-matching keys

inductive Key
  | all
  | seqset (uid : Bool) (s : List Elem)
  | keyset (ks : List Key)
  | or (a b : Key)
  | not (k : Key)
  | flag (f : Nat) (expected : Bool)
  | new_ (recentF seenF : Nat)
  | idate (op : Nat) (d : Int)              -- 0: BEFORE, 1: ON, 2: SINCE
  | sdate (op : Nat) (d : Int)              -- SENTBEFORE / SENTON / SENTSINCE
  | size (larger : Bool) (n : Nat)
  | text (id : Nat)

def cmpDate (op : Nat) (m d : Int) : Bool :=
  match op with
  | 0 => m < d
  | 1 => m == d
  | _ => m ≥ d

mutual
/-- `crit.matches(msg_seq, msg, loaded_msg)` -/
def crit (maxSeq maxUid : Nat) : Key → Msg → Bool
  | .all, _ => true
  | .seqset uid s, m => if uid then (flatten maxUid s).contains m.uid else (flatten maxSeq s).contains m.seq
  | .keyset ks, m => critAll maxSeq maxUid ks m
  | .or a b, m => crit maxSeq maxUid a m || crit maxSeq maxUid b m
  | .not k, m => !(crit maxSeq maxUid k m)
  | .flag f e, m => (m.flags.contains f) == e
  | .new_ r s, m => m.flags.contains r && !(m.flags.contains s)
  | .idate op d, m => cmpDate op m.idate d
  | .sdate op d, m => match m.sdate with | none => false | some x => cmpDate op x d
  | .size larger n, m => if larger then m.size > n else m.size < n
  | .text id, m => m.oracle id
/-- `SearchCriteriaSet.matches`: all of them -/
def critAll (maxSeq maxUid : Nat) : List Key → Msg → Bool
  | [], _ => true
  | k :: ks, m => crit maxSeq maxUid k m && critAll maxSeq maxUid ks m
end

/-- `SearchCriteriaSet.sequence_set`: the first top-level (non-inverted) sequence-set criterion -/
def topSeqSet : List Key → Option (Bool × List Elem)
  | [] => none
  | .seqset uid s :: _ => some (uid, s)
  | _ :: ks => topSeqSet ks

/-- `search_mailbox`: scan `mbx.find(search.sequence_set, selected)`, keep what `search.matches` -/
def search (view : List Msg) (maxSeq maxUid : Nat) (ks : List Key) : List Msg :=
  let cand := match topSeqSet ks with
    | none => view
    | some (uid, s) => view.filter (fun m => if uid then (flatten maxUid s).contains m.uid
                                             else (flatten maxSeq s).contains m.seq)
  cand.filter (critAll maxSeq maxUid ks)

end Pymap.Search
