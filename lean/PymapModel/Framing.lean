import PymapModel.Grammar
import PymapModel.Wire
/-!
# Model of `IMAPConnection.readline` (pymap/imap/__init__.py, repaired D68): where a command ends

A command is read line by line; a line that ends in `{n+}` (LITERAL+) announces `n` bytes that belong to the command, after
which the line continues.  Only the text of the line just read can announce a literal — never the bytes of a literal.
-/
namespace Pymap.Framing
open Pymap.Grammar Pymap.Wire

/-- `StreamReader.readline`: up to and including the first LF (or everything, at EOF) -/
def readLine : List Nat → List Nat × List Nat
  | [] => ([], [])
  | b :: r => if b = 10 then ([10], r) else ((b :: (readLine r).1), (readLine r).2)

/-- leading digits of a list and what follows -/
def spanDigits : List Nat → List Nat × List Nat
  | [] => ([], [])
  | b :: r => if isDigit b then (b :: (spanDigits r).1, (spanDigits r).2) else ([], b :: r)

/-- `_literal_plus = re.compile(br'{(\d+)\+}\r?\n$')` on one line: worked out from the end of the line -/
def litLen (line : List Nat) : Option Nat :=
  let afterEol : Option (List Nat) := match line.reverse with
    | 10 :: 13 :: t => some t
    | 10 :: t => some t
    | _ => none
  match afterEol with
  | some (125 :: 43 :: t) =>
    let sp := spanDigits t
    if sp.1.isEmpty then none else
    match sp.2 with
    | 123 :: _ => some (readNum 0 sp.1.reverse).1
    | _ => none
  | _ => none

/-- the loop of `readline`; `none`: the stream ended inside the command -/
def readCmd : Nat → List Nat → Option (List Nat × List Nat)
  | 0, _ => none
  | fuel + 1, s =>
    let l := readLine s
    if l.1.getLast? != some 10 then none
    else match litLen l.1 with
      | none => some (l.1, l.2)
      | some n =>
        if l.2.length < n then none
        else match readCmd fuel (l.2.drop n) with
          | some (c, r) => some (l.1 ++ l.2.take n ++ c, r)
          | none => none

/-- what a client sends: `text {n+} CRLF literal` any number of times, then the last piece of text and CRLF -/
structure Seg where
  text : List Nat
  lit  : List Nat
deriving Repr

def marker (n : Nat) : List Nat := [123] ++ digits n ++ [43, 125, 13, 10]

def wire : List Seg → List Nat → List Nat
  | [], final => final ++ [13, 10]
  | s :: ss, final => s.text ++ marker s.lit.length ++ s.lit ++ wire ss final

end Pymap.Framing
