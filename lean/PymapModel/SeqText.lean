import PymapModel.Seq
import PymapModel.Grammar
import PymapModel.Wire
/-!
# Model of `SequenceSet.parse` / `SequenceSet.__bytes__` (pymap/parsing/specials/sequenceset.py): the text of a sequence set

`_num_pattern = [1-9]\d*`; `*` is the maximum; `a:b` a range; elements are joined with commas.  The loop of `parse` is the code's:
it stops at the first byte after an element that is not a comma, and — as found — also takes a comma that ends the buffer.
-/
namespace Pymap.SeqText
open Pymap.Seq Pymap.Grammar Pymap.Wire

def serIdx : Idx → List Nat
  | .star => [42]
  | .num n => digits n

def serElem : Elem → List Nat
  | .one i => serIdx i
  | .range l r => serIdx l ++ 58 :: serIdx r

def ser : List Elem → List Nat
  | [] => []
  | [e] => serElem e
  | e :: e2 :: es => serElem e ++ 44 :: ser (e2 :: es)

def parseIdx : List Nat → Option (Idx × List Nat)
  | [] => none
  | b :: r =>
    if b = 42 then some (.star, r)
    else if 49 ≤ b ∧ b ≤ 57 then some (.num (readNum 0 (b :: r)).1, (readNum 0 (b :: r)).2)
    else none

/-- `_parse_part` -/
def parsePart (buf : List Nat) : Option (Elem × List Nat) :=
  match parseIdx buf with
  | none => none
  | some (i1, r) =>
    match r with
    | 58 :: r2 =>
      match parseIdx r2 with
      | some (i2, r3) => some (.range i1 i2, r3)
      | none => none
    | _ => some (.one i1, r)

/-- the `while buf:` loop -/
def parseLoop : Nat → List Nat → Option (List Elem × List Nat)
  | 0, _ => none
  | f + 1, buf =>
    if buf = [] then some ([], [])
    else match parsePart buf with
      | none => none
      | some (e, r) =>
        if r = [] then some ([e], [])
        else if r.head? = some 44 then (parseLoop f r.tail).map (fun p => (e :: p.1, p.2))
        else some ([e], r)

/-- `SequenceSet.parse` after the optional leading spaces: at least one element -/
def parse (buf : List Nat) : Option (List Elem × List Nat) :=
  match parseLoop (buf.length + 1) (skipSpaces buf) with
  | some ([], _) => none
  | x => x

end Pymap.SeqText
