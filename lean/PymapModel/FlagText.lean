/-!
# Model of `Flag._capitalize` (pymap/parsing/specials/flag.py): the value a flag is known by

A flag that starts with a backslash is a system flag and is case-insensitive: it is known by `\` + the rest with its first letter in
upper and all others in lower case (`bytes.capitalize`, ASCII only).  A keyword is known by its bytes as they are.  Equality and the
hash of a `Flag` are those of this value.
-/
namespace Pymap.FlagText

def up (b : Nat) : Nat := if 97 ≤ b ∧ b ≤ 122 then b - 32 else b
def low (b : Nat) : Nat := if 65 ≤ b ∧ b ≤ 90 then b + 32 else b

/-- `bytes.capitalize` -/
def capitalize : List Nat → List Nat
  | [] => []
  | b :: r => up b :: r.map low

def norm : List Nat → List Nat
  | 92 :: r => 92 :: capitalize r
  | l => l

end Pymap.FlagText
