/-!
# Model of `_ModSequenceMapping` (pymap/backend/dict/mailbox.py)

The three dicts are association lists; their iteration order is never observed by the code
(only `_mod_seqs_order` is iterated), so `aset` puts the new binding in front.
-/
namespace Pymap.ModSeq

def alookup {β : Type} (k : Nat) : List (Nat × β) → Option β
  | [] => none
  | (k', v) :: r => if k = k' then some v else alookup k r

def adel {β : Type} (k : Nat) (l : List (Nat × β)) : List (Nat × β) := l.filter (fun p => p.1 != k)

def aset {β : Type} (k : Nat) (v : β) (l : List (Nat × β)) : List (Nat × β) := (k, v) :: adel k l

inductive Kind | upd | exp
deriving DecidableEq, Repr

structure Log where
  highest  : Nat
  last     : List (Nat × Nat)            -- `_uids`    : uid ↦ mod_seq
  updates  : List (Nat × List Nat)       -- `_updates` : mod_seq ↦ uid set
  expunges : List (Nat × List Nat)       -- `_expunges`
  order    : List Nat                    -- `_mod_seqs_order`
deriving Repr

def Log.empty : Log := ⟨0, [], [], [], []⟩

/-- `_remove_prev(uid, prev_mod_seq, data)`; returns the new `data` and `_mod_seqs_order` -/
def removePrev (uid prev : Nat) (data : List (Nat × List Nat)) (order : List Nat) :
    List (Nat × List Nat) × List Nat :=
  match alookup prev data with
  | none => (data, order)
  | some s =>
    let s' := s.filter (fun x => x != uid)
    if s'.isEmpty then (adel prev data, order.erase prev) else (aset prev s' data, order)

/-- body of `for uid in uids:` in `_set` -/
def setOne (m : Nat) (l : Log) (uid : Nat) : Log :=
  match alookup uid l.last with
  | none => { l with last := aset uid m l.last }
  | some prev =>
    let r1 := removePrev uid prev l.updates l.order
    let r2 := removePrev uid prev l.expunges r1.2
    { l with last := aset uid m l.last, updates := r1.1, expunges := r2.1, order := r2.2 }

/-- `_set(uids, data)` with `data` selected by `k` -/
def set (l : Log) (uids : List Nat) (k : Kind) : Log :=
  let m := l.highest + 1
  let l1 : Log := match k with
    | .upd => { l with highest := m, order := l.order ++ [m], updates := aset m uids l.updates }
    | .exp => { l with highest := m, order := l.order ++ [m], expunges := aset m uids l.expunges }
  uids.foldl (setOne m) l1

def Log.update (l : Log) (uids : List Nat) : Log := set l uids .upd
def Log.expunge (l : Log) (uids : List Nat) : Log := set l uids .exp

/-- `find_updated(mod_seq)`: `bisect_left` on the sorted order list, then union of the buckets -/
def findUpdated (l : Log) (p : Nat) : List Nat × List Nat :=
  let newer := l.order.dropWhile (fun m => m < p)
  (newer.flatMap (fun m => (alookup m l.updates).getD []),
   newer.flatMap (fun m => (alookup m l.expunges).getD []))

end Pymap.ModSeq
