import PymapModel.Mailbox
/-!
# N sessions on one dict mailbox — the transition system behind C01/C02 (DESIGN App. A)

Every `Op` is one atomic piece (DESIGN §3.3).  Who performs a mutation is irrelevant to the
store, so `append`/`store` carry no session index.  `sync i` is "last `update_selected` + `fork`
+ the client applying the untagged responses".
-/
namespace Pymap.System
open Pymap.Sync Pymap.Mailbox

structure Sess where
  view    : View
  p       : Nat                  -- `SelectedMailbox.mod_sequence`
  recent  : List Nat             -- `SessionFlags._recent`
  seen    : Nat                  -- ghost: `max_uid` of the store at the last sync
  client  : Option (List Nat)    -- ghost: the client's message list; `none` = an illegal response was sent
deriving Repr

structure Sys where
  box  : MBox
  sess : List Sess
deriving Repr

def Sys.init : Sys := ⟨MBox.new, []⟩

inductive Op
  | select
  | append (flags : List Nat) (recent : Bool) (cid date : Nat)
  | store (u : Nat) (fs : List Nat) (mode : Nat)      -- 0 replace, 1 add, 2 delete
  | expunge (i : Nat) (sel : List Nat)                -- session i expunges the uids of its view that are in `sel`
  | sync (i : Nat) (hide : Bool) (withUid : Bool)
deriving Repr

def flagOp (mode : Nat) (operand : List Nat) (cur : List Nat) : List Nat :=
  match mode with
  | 0 => operand
  | 1 => cur ++ operand.filter (fun f => !(cur.contains f))
  | _ => cur.filter (fun f => !(operand.contains f))

def modifyNth {α : Type} (f : α → α) : Nat → List α → List α
  | _, [] => []
  | 0, a :: as => f a :: as
  | n+1, a :: as => a :: modifyNth f n as

/-- session `i` finishes a command: sync, fork, client applies the assembled untagged list -/
def syncSess (b : MBox) (hide withUid : Bool) (s : Sess) : Sess :=
  let r := updateSelected b s.view (some s.p) hide
  let out := compare (freeze s.view s.recent) (freeze r.1 s.recent) hide [] withUid false
  { s with view := r.1, p := r.2, seen := b.maxUid,
           client := s.client.bind (fun c => clientRun r.1.sorted c out) }

def step (s : Sys) : Op → Sys
  | .select =>
    let r := updateSelected s.box View.empty none false
    { s with sess := s.sess ++ [⟨r.1, r.2, [], s.box.maxUid, some r.1.sorted⟩] }
  | .append flags recent cid date => { s with box := (push s.box flags recent cid date).1 }
  | .store u fs mode => { s with box := updateFlags s.box u (flagOp mode fs) }
  | .expunge i sel =>
    match s.sess[i]? with
    | none => s
    | some x => { s with box := delete s.box (x.view.uids.filter (fun u => sel.contains u)) }
  | .sync i hide wu => { s with sess := modifyNth (syncSess s.box hide wu) i s.sess }

def run (s : Sys) (ops : List Op) : Sys := ops.foldl step s

end Pymap.System
