/-!
# Model of MOVE and multi-APPEND under cancellation (dict backend, `BaseSession.move_messages`,
`MailboxData.move`, `append_messages`)

A message is its content id.  A transition boundary is placed at every lock entry (DESIGN §3.3), and a
`cancel` may hit the task at any boundary.  `repaired = true`: `move` adds to the destination first and
removes from the source afterwards (defect D20); `false`: the code as found (remove, then add).
-/
namespace Pymap.Faults

inductive PC
  | start                 -- before the source lock
  | holding (c : Nat)     -- as found: popped from the source, not yet in the destination
  | copied (c : Nat)      -- repaired: already in the destination, not yet removed from the source
  | done | cancelled
deriving Repr, DecidableEq

structure St where
  src : List Nat
  dst : List Nat
  pc  : PC
deriving Repr, DecidableEq

inductive Label | step | cancel | otherExpunge (c : Nat) | otherAppend (c : Nat) | otherCopyDst (c : Nat)
deriving Repr, DecidableEq

/-- one MOVE of message `c` -/
def step (repaired : Bool) (c : Nat) (s : St) : Label → Option St
  | .step =>
    match s.pc with
    | .start =>
      if s.src.contains c then
        if repaired then some { s with dst := s.dst ++ [c], pc := .copied c }     -- read under the source lock, add under the destination lock
        else some { s with src := s.src.filter (· != c), pc := .holding c }       -- `_messages.pop(uid)`
      else some { s with pc := .done }
    | .holding c' => some { s with dst := s.dst ++ [c'], pc := .done }
    | .copied c' => some { s with src := s.src.filter (· != c'), pc := .done }
    | _ => none
  | .cancel =>
    match s.pc with
    | .done | .cancelled => none
    | _ => some { s with pc := .cancelled }
  | .otherExpunge x => some { s with src := s.src.filter (· != x) }
  | .otherAppend x => some { s with src := s.src ++ [x] }
  | .otherCopyDst x => some { s with dst := s.dst ++ [x] }       -- another session copies a message (possibly the very one) into the destination

def run (repaired : Bool) (c : Nat) (s : St) : List Label → Option St
  | [] => some s
  | l :: ls => (step repaired c s l).bind (fun s' => run repaired c s' ls)

/-- multi-APPEND: one transition per message, cancellable in between -/
structure ASt where
  box  : List Nat
  todo : List Nat
  live : Bool
deriving Repr, DecidableEq

def astep (s : ASt) : Label → Option ASt
  | .step => if s.live then match s.todo with
      | [] => none
      | m :: r => some { s with box := s.box ++ [m], todo := r }
    else none
  | .cancel => if s.live ∧ s.todo ≠ [] then some { s with live := false } else none
  | _ => some s

def arun (s : ASt) : List Label → Option ASt
  | [] => some s
  | l :: ls => (astep s l).bind (fun s' => arun s' ls)

end Pymap.Faults
