/-!
# Model of the line index and raw slicing in `pymap/mime/__init__.py`, `pymap/mime/_util.py`

Bytes are `Nat` (< 256 is never needed by the slicing logic).  A line is `(start, end, next)`.
`getRaw` is the **repaired** `get_raw` (defect D1): an empty group of lines contributes nothing.
-/
namespace Pymap.Mime

abbrev Line := Nat × Nat × Nat

/-- `MessageContent._find_lines`: scan for LF, the line's `end` excludes a directly preceding CR
that belongs to the same line. `pos` = index of the next byte, `start` = start of the current line,
`cr` = the previous byte of this line was CR. -/
def findLinesAux : (pos start : Nat) → (cr : Bool) → List Nat → List Line
  | pos, start, _, [] => [(start, pos, pos)]
  | pos, start, cr, b :: bs =>
    if b = 10 then (start, (if cr then pos - 1 else pos), pos + 1) :: findLinesAux (pos + 1) (pos + 1) false bs
    else findLinesAux (pos + 1) start (b = 13) bs

def findLines (data : List Nat) : List Line := findLinesAux 0 0 false data

def isWs (b : Nat) : Bool := b = 32 || b = 9 || b = 10 || b = 13 || b = 11 || b = 12

/-- a line is blank when all bytes in `[start, end)` are whitespace -/
def blank (data : List Nat) (l : Line) : Bool := ((data.drop l.1).take (l.2.1 - l.1)).all isWs

/-- `MessageContent._split_lines`: header = lines up to and including the first blank one -/
def splitLines (data : List Nat) : List Line → List Line × List Line
  | [] => ([], [])
  | l :: ls =>
    if blank data l then ([l], ls)
    else
      let r := splitLines data ls
      match r.1 with
      | [] => ([], l :: ls)          -- no blank line at all: everything is body
      | _  => (l :: r.1, r.2)

def slice (data : List Nat) (s e : Nat) : List Nat := (data.drop s).take (e - s)

/-- repaired `get_raw(view, *groups)`: from the first line's start to the last line's `next` -/
def getRaw (data : List Nat) (groups : List (List Line)) : List Nat :=
  match groups.flatten with
  | [] => []
  | l :: ls => slice data l.1 ((l :: ls).getLast (by simp)).2.2

structure Parsed where
  raw    : List Nat
  header : List Nat
  body   : List Nat
  nlines : Nat

def parse (data : List Nat) : Parsed :=
  let ls := findLines data
  let hb := splitLines data ls
  { raw := getRaw data [hb.1, hb.2], header := getRaw data [hb.1], body := getRaw data [hb.2],
    nlines := hb.1.length + hb.2.length - 1 }

/-- `DynamicLoadedFetchValue._get_partial` -/
def getPartial (full : List Nat) (start : Nat) (len : Option Nat) : List Nat :=
  match len with
  | none => full.drop start
  | some n => (full.drop start).take n

end Pymap.Mime
