/-!
# Model of `FileLock.write_lock` (pymap/concurrent.py): a lock file created with `open(path, 'x')`

`tryLock i` is `_try_lock` (`O_EXCL` creation: succeeds iff the file is absent), `unlock i` is the `finally:
self._unlock()` that every exit of the critical section runs (normal exit, exception, cancellation), `expire` is
`_check_lock` deleting a lock file older than `expiration` — enabled only while nobody holds the lock, which is the
documented assumption "no holder outlives `expiration`".
-/
namespace Pymap.FileLock

structure St where
  file    : Bool          -- the lock file exists
  holders : List Nat      -- tasks inside the write section
deriving Repr, DecidableEq

def St.init : St := ⟨false, []⟩

inductive Label | tryLock (i : Nat) | unlock (i : Nat) | expire | stale
deriving Repr, DecidableEq

def step (s : St) : Label → Option St
  | .tryLock i => if s.file then none else some ⟨true, i :: s.holders⟩
  | .unlock i => if s.holders.contains i then some ⟨false, s.holders.erase i⟩ else none
  | .expire => if s.holders.isEmpty then some { s with file := false } else none
  | .stale => if s.holders.isEmpty then some { s with file := true } else none     -- a crashed process left its file behind

def run (s : St) : List Label → Option St
  | [] => some s
  | l :: ls => (step s l).bind (fun s' => run s' ls)

end Pymap.FileLock
