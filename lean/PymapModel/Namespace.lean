/-!
# Model of `pymap/listtree.py` (entries, wildcard matching — with the repaired pattern, D16) and of the
dict backend's `MailboxSet` namespace operations with the INBOX guards of `ConnectionState`
-/
namespace Pymap.Namespace

abbrev Name := List Nat
def delim : Nat := 47
def star : Nat := 42
def pct : Nat := 37
def inbox : Name := [73, 78, 66, 79, 88]

def upper (c : Nat) : Nat := if 97 ≤ c ∧ c ≤ 122 then c - 32 else c

/-- LIST wildcard matching: `*` any string, `%` any string without the delimiter; `ci` = ignore ASCII case -/
def wild (ci : Bool) : List Nat → List Nat → Bool
  | [], [] => true
  | [], _ :: _ => false
  | p :: ps, [] => (p = star || p = pct) && wild ci ps []
  | p :: ps, c :: cs =>
    if p = star then wild ci ps (c :: cs) || wild ci (p :: ps) cs
    else if p = pct then wild ci ps (c :: cs) || (c != delim && wild ci (p :: ps) cs)
    else (if ci then upper p == upper c else p == c) && wild ci ps cs
termination_by p n => p.length + n.length

/-! ### the matcher as `ListTree._matches` runs it (after the repair of the backtracking regular expression)

One pass over the name, carrying the set of pattern positions that can have been reached; a position is represented by the
pattern suffix that starts there. -/

def isWild (p : Nat) : Bool := p = star || p = pct

/-- `closure` of one position: a wildcard may match nothing, so the position after it is reached as well -/
def closure1 : List Nat → List (List Nat)
  | [] => [[]]
  | p :: ps => (p :: ps) :: (if isWild p then closure1 ps else [])

def closure (S : List (List Nat)) : List (List Nat) := (S.flatMap closure1).eraseDups

/-- where one position goes on reading `c` -/
def stepPos (ci : Bool) (c : Nat) : List Nat → List (List Nat)
  | [] => []
  | p :: ps =>
    if p = star then [p :: ps]
    else if p = pct then (if c != delim then [p :: ps] else [])
    else if (if ci then upper p == upper c else p == c) then [ps] else []

def wildDP (ci : Bool) (pat name : List Nat) : Bool :=
  (name.foldl (fun S c => closure (S.flatMap (stepPos ci c))) (closure [pat])).contains []

/-- all non-empty proper and improper prefixes of `n` that end at a delimiter or at the end -/
def prefixes (n : Name) : List Name :=
  (List.range (n.length + 1)).filterMap (fun i =>
    if i = n.length then some n
    else if n.getD i 0 = delim then some (n.take i) else none)

structure Entry where
  name        : Name
  exists_     : Bool
  hasChildren : Bool
deriving Repr, DecidableEq

/-- `ListTree.update(*names).list()` as a set of entries -/
def entries (names : List Name) : List Entry :=
  let nodes := (names.flatMap prefixes).eraseDups
  nodes.map (fun n => ⟨n, names.contains n,
    nodes.any (fun m => m.length > n.length && m.take (n.length + 1) == n ++ [delim])⟩)

/-- `ListTree.list_matching(ref_name, filter_)` -/
def listMatching (names : List Name) (ref pat : Name) : List Entry :=
  (entries names).filter (fun e =>
    if e.name = inbox then wild true (ref ++ pat) inbox else wild false (ref ++ pat) e.name)

/-- the dict `MailboxSet`: INBOX object id, other mailboxes (name ↦ object id), subscriptions, id supply -/
structure NS where
  inboxId : Nat
  boxes   : List (Name × Nat)
  subs    : List Name
  fresh   : Nat
deriving Repr, DecidableEq

def NS.names (s : NS) : List Name := inbox :: s.boxes.map (·.1)
def NS.has (s : NS) (n : Name) : Bool := s.boxes.any (fun b => b.1 == n)
def NS.node (s : NS) (n : Name) : Bool := (s.names.flatMap prefixes).contains n

inductive R | ok | no
deriving Repr, DecidableEq

def normName (n : Name) : Name := if n.map upper = inbox then inbox else n     -- `Mailbox.__init__`

def create (s : NS) (n0 : Name) : NS × R :=
  let n := normName n0
  if n = inbox then (s, .no) else if s.has n then (s, .no)
  else ({ s with boxes := s.boxes ++ [(n, s.fresh)], fresh := s.fresh + 1 }, .ok)

def delete (s : NS) (n0 : Name) : NS × R :=
  let n := normName n0
  if n = inbox then (s, .no) else if !s.has n then (s, .no)
  else ({ s with boxes := s.boxes.filter (fun b => b.1 != n) }, .ok)

def isUnder (from_ n : Name) : Bool := n == from_ || (n.take (from_.length + 1) == from_ ++ [delim])

/-- `rename_mailbox` (via `ListTree.get_renames`) -/
def rename (s : NS) (f0 t0 : Name) : NS × R :=
  let f := normName f0; let t := normName t0
  if t = inbox then (s, .no)
  else if !s.node f then (s, .no)
  else if s.node t then (s, .no)
  else
    let moved := s.boxes.filter (fun b => isUnder f b.1)
    let kept := s.boxes.filter (fun b => !isUnder f b.1)
    let renamed := moved.map (fun b => (t ++ b.1.drop f.length, b.2))
    if f = inbox then
      -- RFC 3501 §6.3.5: inferior names of INBOX are unaffected by a rename of INBOX (repaired D44)
      ({ s with boxes := s.boxes ++ [(t, s.inboxId)], inboxId := s.fresh, fresh := s.fresh + 1 }, .ok)
    else ({ s with boxes := kept ++ renamed }, .ok)

end Pymap.Namespace
