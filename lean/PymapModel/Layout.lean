/-!
# Model of `pymap/backend/maildir/layout.py`: how a mailbox name becomes a filesystem path

A path is a list of components; a component / name part is a list of code points.
`norm` is the lexical resolution the kernel performs (no symlinks): `""` and `.` vanish, `..` pops.
`validParts` is the **repaired** check in `_BaseLayout._split` (defect D15).
-/
namespace Pymap.Layout

abbrev Comp := List Nat
def dot : Nat := 46
def slash : Nat := 47

/-- `name.split(delimiter)` with delimiter `/` -/
def splitOn (d : Nat) : List Nat → List Comp
  | [] => [[]]
  | c :: r =>
    if c = d then [] :: splitOn d r
    else match splitOn d r with
      | [] => [[c]]
      | p :: ps => (c :: p) :: ps

/-- repaired `_split`: every part non-empty, not `.`/`..`, free of NUL and of the OS separator -/
def validPart (p : Comp) : Bool := !p.isEmpty && p != [dot] && p != [dot, dot] && !(p.contains 0) && !(p.contains slash)
def validParts (ps : List Comp) : Bool := !ps.isEmpty && ps.all validPart

/-- `DefaultLayout._split` additionally refuses a dot inside a part (it would be read back as a level of its own) -/
def validPartsDefault (ps : List Comp) : Bool := validParts ps && ps.all (fun p => !(p.contains dot))

/-- `'.'.join(parts)` -/
def joinDot : List Comp → Comp
  | [] => []
  | [p] => p
  | p :: ps => p ++ dot :: joinDot ps

/-- `DefaultLayout._get_path`: `base / ('.' + '.'.join(parts))` -/
def defaultPath (base : List Comp) (parts : List Comp) : List Comp :=
  if parts.isEmpty then base else base ++ [dot :: joinDot parts]

/-- `FilesystemLayout._get_path`: `os.path.join(base, *parts)` -/
def fsPath (base : List Comp) (parts : List Comp) : List Comp := base ++ parts

/-- lexical resolution; `none` = climbs above the root -/
def normAux : List Comp → List Comp → Option (List Comp)
  | stack, [] => some stack.reverse
  | stack, c :: r =>
    if c = [] ∨ c = [dot] then normAux stack r
    else if c = [dot, dot] then match stack with
      | [] => none
      | _ :: st => normAux st r
    else normAux (c :: stack) r
def norm (p : List Comp) : Option (List Comp) := normAux [] p

/-- a component that resolution leaves alone -/
def plain (c : Comp) : Bool := c != [] && c != [dot] && c != [dot, dot]

end Pymap.Layout
