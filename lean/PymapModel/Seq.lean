/-!
# Model of `pymap/parsing/specials/sequenceset.py` (value level: `flatten`, `build`)
-/
namespace Pymap.Seq

/-- `_SeqIdx`: a number or `*` -/
inductive Idx | num (n : Nat) | star
deriving Repr, DecidableEq

/-- `_SeqElem` -/
inductive Elem | one (i : Idx) | range (l r : Idx)
deriving Repr, DecidableEq

def Idx.val (mx : Nat) : Idx → Nat
  | .num n => n
  | .star => mx

/-- `range(a, b+1)` as a list -/
def rangeIncl (a b : Nat) : List Nat := (List.range (b + 1 - a)).map (· + a)

/-- `SequenceSet._get_range(elem, max_value)` -/
def getRange (mx : Nat) : Elem → List Nat
  | .one (.num n) => if n ≤ mx then [n] else []
  | .one .star => [mx]
  | .range l r =>
    let a := l.val mx; let b := r.val mx
    let low := min a b
    if low ≤ mx then rangeIncl low (min (max a b) mx) else []

/-- `flatten(max_value)` as a duplicate-free membership test is what callers use; we keep the list -/
def flatten (mx : Nat) (s : List Elem) : List Nat := s.flatMap (getRange mx)

end Pymap.Seq
