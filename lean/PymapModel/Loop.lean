/-!
# Model of the outcome handling of one iteration of `IMAPConnection._run_state`
(pymap/imap/__init__.py), with the repairs of D10 (BYE is attached *before* the response is written)
and D11 (a failure while writing is handled like any other failure)
-/
namespace Pymap.Loop

/-- how the processing of one command line can end -/
inductive Outcome
  | resp (bad : Bool) (terminal : Bool)     -- a `CommandResponse`; `terminal`: it carries an untagged BYE (LOGOUT, mailbox deleted)
  | responseError (terminal : Bool)         -- a `ResponseError` (NO, or `CloseConnection`)
  | authError                               -- `pysasl` `AuthenticationError` → tagged BAD
  | timeout                                 -- → tagged NO [TIMEOUT]
  | cancelled | connLost                    -- `CancelledError` / `ConnectionError` / `EOFError`
  | other                                   -- anything else
  | writeFails                              -- the response could not be serialised (lazy FETCH values)
deriving Repr, DecidableEq

/-- what goes on the wire for it -/
inductive Wire
  | tagged                 -- a tagged OK/NO/BAD completion
  | bye                    -- untagged BYE (any code except SERVERBUG)
  | byeServerBug
deriving Repr, DecidableEq

structure St where
  bad : Nat
deriving Repr, DecidableEq

def badLimit : Nat := 5

/-- (what is written, in order) × (the loop continues) × new state -/
def handle (s : St) : Outcome → List Wire × Bool × St
  | .resp bad terminal =>
    if bad then
      if s.bad + 1 ≥ badLimit then ([.bye, .tagged], false, ⟨s.bad + 1⟩)      -- too many errors: BYE, then the BAD, then close
      else (if terminal then [.bye, .tagged] else [.tagged], !terminal, ⟨s.bad + 1⟩)
    else (if terminal then [.bye, .tagged] else [.tagged], !terminal, ⟨0⟩)
  | .responseError terminal => (if terminal then [.bye, .tagged] else [.tagged], !terminal, s)
  | .authError => ([.tagged], true, s)
  | .timeout => ([.tagged], true, s)
  | .cancelled => ([.bye], false, s)                -- `send_error_disconnect`: BYE [UNAVAILABLE]
  | .connLost => ([.bye], false, s)
  | .other => ([.byeServerBug], false, s)
  | .writeFails => ([.byeServerBug], false, s)

end Pymap.Loop
