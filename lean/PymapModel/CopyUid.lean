/-!
# Model of the COPYUID announcement (pymap/backend/session.py copy_messages / move_messages, pymap/parsing/response/code.py CopyUid)

The messages are copied one after the other in the order `get_uids` hands them out; the destination numbers each copy with its next UID.
`CopyUid.__init__` then sorts the source UIDs and the destination UIDs *independently* (`SequenceSet.build`) and writes the two sets; a client
pairs them by position (RFC 4315).
-/
namespace Pymap.CopyUid

/-- the copies, in the order they are made: `(source uid, destination uid)` -/
def copyAll : List Nat → Nat → List (Nat × Nat)
  | [], _ => []
  | u :: us, next => (u, next) :: copyAll us (next + 1)

def insertNat (a : Nat) : List Nat → List Nat
  | [] => [a]
  | b :: l => if a ≤ b then a :: b :: l else b :: insertNat a l

/-- `SequenceSet.build` writes the numbers in ascending order -/
def sortNat : List Nat → List Nat
  | [] => []
  | a :: l => insertNat a (sortNat l)

/-- what the client reads off `[COPYUID v <sources> <destinations>]` -/
def announce (pairs : List (Nat × Nat)) : List (Nat × Nat) :=
  (sortNat (pairs.map Prod.fst)).zip (sortNat (pairs.map Prod.snd))

end Pymap.CopyUid
