/-!
# Model of the primitive wire syntax (`pymap/parsing/primitives.py`): quoted strings, literals,
`String.build`.  Bytes are `Nat`.  `parse*` return the value and the unconsumed rest.
Repaired behaviour: D13 (`String.build` never quotes CR), D24 (`QuotedString.parse` raw bytes).
-/
namespace Pymap.Wire

def dq : Nat := 34      -- '"'
def bs : Nat := 92      -- '\\'

/-- `QuotedString.__bytes__`: backslash before `"` and `\` -/
def escape : List Nat → List Nat
  | [] => []
  | b :: r => if b = dq ∨ b = bs then bs :: b :: escape r else b :: escape r

def serQuoted (v : List Nat) : List Nat := dq :: (escape v ++ [dq])

/-- the scanning loop of `QuotedString.parse` after the opening quote (`_quoted_pattern.finditer`) -/
def scanQuoted (acc : List Nat) : List Nat → Option (List Nat × List Nat)
  | [] => none
  | b :: r =>
    if b = dq then some (acc.reverse, r)
    else if b = 13 ∨ b = 10 then none
    else if b = bs then
      match r with
      | c :: r' => if c = bs ∨ c = dq then scanQuoted (c :: acc) r' else none
      | [] => none
    else scanQuoted (b :: acc) r

def skipSpaces : List Nat → List Nat
  | 32 :: r => skipSpaces r
  | l => l

/-- `QuotedString.parse` -/
def parseQuoted (buf : List Nat) : Option (List Nat × List Nat) :=
  match skipSpaces buf with
  | b :: r => if b = dq then scanQuoted [] r else none
  | [] => none

/-- decimal digits of `n`, most significant first (`b'%d' % n`) -/
def digits (n : Nat) : List Nat := if h : n < 10 then [48 + n] else digits (n / 10) ++ [48 + n % 10]
termination_by n
decreasing_by omega

/-- `LiteralString.write`: `{n}CRLF` then the payload (`~` prefix for binary) -/
def serLiteral (binary : Bool) (v : List Nat) : List Nat :=
  (if binary then [126] else []) ++ [123] ++ digits v.length ++ [125, 13, 10] ++ v

/-- `String.build` (bytes case, repaired): quoted if short and free of CR, LF, NUL; literal otherwise -/
def buildString (binary : Bool) (v : List Nat) : List Nat :=
  if v.isEmpty then serQuoted []
  else if !binary && v.length < 64 && !(v.contains 10) && !(v.contains 0) && !(v.contains 13) then serQuoted v
  else serLiteral binary v

end Pymap.Wire
