/-!
# Model of `IdleCommand.parse_done` (pymap/parsing/command/select.py): the line that ends IDLE

`_pattern = ^(.*?)\r?\n`: the line up to its first LF, without one CR in front of that LF; the command ends with OK iff that, in
upper case, is `DONE`.  A buffer without LF does not match at all (`none`; the connection reads whole lines).
-/
namespace Pymap.Done

def upperB (b : Nat) : Nat := if 97 ≤ b ∧ b ≤ 122 then b - 32 else b

def done : List Nat := [68, 79, 78, 69]

def splitLF : List Nat → Option (List Nat × List Nat)
  | [] => none
  | b :: r => if b = 10 then some ([], r) else (splitLF r).map (fun p => (b :: p.1, p.2))

def stripCR (g : List Nat) : List Nat := if g.getLast? = some 13 then g.dropLast else g

def parseDone (l : List Nat) : Option (Bool × List Nat) :=
  (splitLF l).map (fun p => (decide ((stripCR p.1).map upperB = done), p.2))

end Pymap.Done
