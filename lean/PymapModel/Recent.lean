/-!
# Model of the `\Recent` bookkeeping
(`BaseSession.select_mailbox/_pick_selected/append_messages`, dict `claim_recent`, `SessionFlags._recent`,
`SelectedSet.any_selected`)

One mailbox.  `SelectedSet` is the set of sessions that currently have it selected (idealised GC,
DESIGN §3.5); `any_selected`'s arbitrary choice among the read-write ones is an oracle argument.
Repaired behaviour: D18 (`_pick_selected` skips a read-only own selection) and D26 (`\Recent` in an
APPEND flag list is not stored).
-/
namespace Pymap.Recent

structure Sel where
  ro     : Bool
  recent : List Nat
deriving Repr, DecidableEq

structure St where
  next  : Nat                       -- next uid
  bits  : List (Nat × Bool)         -- stored messages: uid, stored `recent` bit
  sess  : List (Option Sel)         -- per session: its selection of this mailbox, if any
  given : List (Nat × Nat)          -- ghost: (uid, session) — every time a session was given `\Recent` for a uid
deriving Repr, DecidableEq

def St.init (n : Nat) : St := ⟨1, [], List.replicate n none, []⟩

inductive Op
  | select (i : Nat) (ro : Bool)
  | close (i : Nat)
  | append (by_ : Nat) (pick : Nat)      -- `pick`: the session `any_selected` would return, if it is eligible
  | expunge (u : Nat)
deriving Repr

def rwLive (s : St) (j : Nat) : Bool := match s.sess[j]? with | some (some x) => !x.ro | _ => false

/-- `_pick_selected` (repaired) + `any_selected` -/
def pickDest (s : St) (by_ pick : Nat) : Option Nat :=
  if rwLive s by_ then some by_
  else if rwLive s pick then some pick
  else (List.range s.sess.length).find? (rwLive s)      -- `any_selected` returns *some* read-write selection if one exists

def addRecent (u : Nat) : Option Sel → Option Sel
  | some x => some { x with recent := u :: x.recent }
  | none => none

def step (s : St) : Op → St
  | .select i ro =>
    if i < s.sess.length then
      if ro then { s with sess := s.sess.set i (some ⟨true, []⟩) }
      else
        let claimed := (s.bits.filter (·.2)).map (·.1)
        { s with bits := s.bits.map (fun b => (b.1, false)),
                 sess := s.sess.set i (some ⟨false, claimed⟩),
                 given := claimed.map (fun u => (u, i)) ++ s.given }
    else s
  | .close i => { s with sess := s.sess.set i none }
  | .append by_ pick =>
    let u := s.next
    match pickDest s by_ pick with
    | some j => { s with next := u + 1, bits := s.bits ++ [(u, false)],
                         sess := s.sess.set j (addRecent u (s.sess[j]?.join)), given := (u, j) :: s.given }
    | none => { s with next := u + 1, bits := s.bits ++ [(u, true)] }
  | .expunge u => { s with bits := s.bits.filter (fun b => b.1 != u) }

def run (s : St) (ops : List Op) : St := ops.foldl step s

end Pymap.Recent
