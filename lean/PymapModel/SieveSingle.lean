import PymapModel.Sieve
/-!
# Model of `SingleFilterSet` (pymap/filter.py, repaired D79) under `FilterState.run`: the maildir backend's one-script store

One slot, permanently named `active` (the bytes of `b'active'`); a script is active by being stored.  Names other than the
permanent one are refused (`NotImplementedError` → NO "Action not supported."), `SETACTIVE ""` and RENAMESCRIPT likewise.
The departure from the name-to-bytes map of C19 that remains — the one script is ACTIVE without SETACTIVE and can be deleted
while marked ACTIVE — is the recorded finding D80 and is *stated* below (`single_delete_active_as_found`), not hidden.
-/
namespace Pymap.SieveSingle
open Pymap.Sieve

def permanent : Name := [97, 99, 116, 105, 118, 101]      -- b'active'

abbrev Slot := Option Script

/-- `FilterState.run` over a `SingleFilterSet` -/
def runState (maxLen : Nat) (slot : Slot) : Cmd → Slot × Resp
  | .havespace _ size => (slot, if size ≤ maxLen then .ok else .no "QUOTA/MAXSIZE")
  | .putscript n s =>
    if s.length ≤ maxLen then (if n = permanent then (some s, .ok) else (slot, .no "")) else (slot, .no "QUOTA/MAXSIZE")
  | .listscripts => (slot, .list (match slot with | some _ => [(permanent, true)] | none => []))
  | .setactive none => (slot, .no "")
  | .setactive (some n) => if n = permanent ∧ slot.isSome then (slot, .ok) else (slot, .no "NONEXISTENT")
  | .getscript n => if n = permanent then (match slot with | some s => (slot, .script s) | none => (slot, .no "NONEXISTENT"))
                    else (slot, .no "NONEXISTENT")
  | .deletescript n => if n = permanent ∧ slot.isSome then (none, .ok) else (slot, .no "NONEXISTENT")
  | .renamescript _ _ => (slot, .no "")
  | .checkscript _ compiles => (slot, if compiles then .ok else .no "")
  | _ => (slot, .no "Bad command.")

/-- the store as a map from names to bytes: at most the permanent name -/
def view (slot : Slot) : List (Name × Script) := match slot with | some s => [(permanent, s)] | none => []

def isOk : Resp → Bool
  | .ok => true
  | .script _ => true
  | .list _ => true
  | _ => false

end Pymap.SieveSingle
