import PymapModel.Mailbox
import PymapModel.Seq
/-!
# Model of the message commands of `BaseSession` (pymap/backend/session.py) for one session:
`update_flags`, `expunge_mailbox`, `append_messages` — targets are resolved through the session's
*view* (`SynchronizedMessages.get_all/get_uids`), mutations go through the `MailboxData` primitives.
-/
namespace Pymap.Session
open Pymap.Sync Pymap.Mailbox Pymap.Seq

def deletedF : Nat := 3

/-- `FlagOp.apply` on duplicate-free flag lists -/
def applyOp (mode : Nat) (operand cur : List Nat) : List Nat :=
  match mode with
  | 0 => operand
  | 1 => cur ++ operand.filter (fun f => !(cur.contains f))
  | _ => cur.filter (fun f => !(operand.contains f))

/-- `selected.messages.get_all(sequence_set)`: (seq, uid) pairs, resolved in the view -/
def targets (v : View) (byUid : Bool) (set : List Elem) : List (Nat × Nat) :=
  if byUid then getByUid v (flatten (v.sorted.getLastD 0) set)
  else getBySeq v (flatten v.uids.length set)

/-- `update_flags`: `permanent_flags & flag_set`, then `mbx.update` per addressed message -/
def storeCmd (b : MBox) (v : View) (byUid : Bool) (set : List Elem) (mode : Nat) (fs permitted : List Nat) : MBox :=
  ((targets v byUid set).map (·.2)).foldl
    (fun b u => updateFlags b u (applyOp mode (fs.filter (fun f => permitted.contains f)))) b

/-- `expunge_mailbox(selected, uid_set)`: `find_deleted` over the view, then `mbx.delete` -/
def expungeCmd (b : MBox) (v : View) (uidSet : Option (List Elem)) : MBox :=
  let cand := (targets v true (uidSet.getD [.range (.num 1) .star])).map (·.2)
  delete b (cand.filter (fun u => match b.find u with
    | some m => m.flags.contains deletedF
    | none => false))

/-- `append_messages` with one message -/
def appendCmd (b : MBox) (flags : List Nat) (recent : Bool) (cid date : Nat) : MBox := (push b flags recent cid date).1

end Pymap.Session

namespace Pymap.Session
open Pymap.Sync Pymap.Mailbox Pymap.Seq

def seenF : Nat := 0

/-- the message commands a selected session can issue, with their arguments -/
inductive MCmd
  | fetch (byUid : Bool) (set : List Elem) (setsSeen : Bool)      -- `setsSeen`: some attribute has `set_seen` (BODY[…], RFC822, BINARY[…])
  | search
  | store (byUid : Bool) (set : List Elem) (mode : Nat) (fs : List Nat)
  | expunge (uidSet : Option (List Elem))
  | close
  | noop | check

inductive Tagged | ok | no
deriving Repr, DecidableEq

/-- one message command of a session whose selection is read-only iff `ro`
(`do_fetch` computes `set_seen` only when not read-only; `update_flags`/`expunge_mailbox` raise
`MailboxReadOnly`; repaired `do_close` does not expunge a read-only selection, D8) -/
def exec (b : MBox) (v : View) (ro : Bool) (permitted : List Nat) : MCmd → MBox × Tagged
  | .fetch byUid set setsSeen =>
    if setsSeen && !ro then (storeCmd b v byUid set 1 [seenF] permitted, .ok) else (b, .ok)
  | .search => (b, .ok)
  | .store byUid set mode fs => if ro then (b, .no) else (storeCmd b v byUid set mode fs permitted, .ok)
  | .expunge us => if ro then (b, .no) else (expungeCmd b v us, .ok)
  | .close => if ro then (b, .ok) else (expungeCmd b v none, .ok)
  | .noop => (b, .ok)
  | .check => (b, .ok)

end Pymap.Session

namespace Pymap.Session
open Pymap.Sync Pymap.Mailbox Pymap.Seq

/-- the messages a COPY/MOVE addresses, in view order, as far as they still exist (`mbx.copy` returns `None` otherwise) -/
def sourceMsgs (src : MBox) (v : View) (byUid : Bool) (set : List Elem) : List Msg :=
  ((targets v byUid set).map (·.2)).filterMap src.find

/-- destination half of COPY/MOVE: one `push` per message, in order; returns the new mailbox and the assigned uids -/
def copyInto (dst : MBox) (recent : Bool) : List Msg → MBox × List Nat
  | [] => (dst, [])
  | m :: ms =>
    let r := push dst m.flags recent m.cid m.date
    let rest := copyInto r.1 recent ms
    (rest.1, r.2 :: rest.2)

/-- `copy_messages` into another mailbox -/
def copyCmd (src dst : MBox) (v : View) (byUid : Bool) (set : List Elem) (recent : Bool) : MBox × List Nat :=
  copyInto dst recent (sourceMsgs src v byUid set)

/-- source half of MOVE: the moved messages are popped one by one -/
def moveSrc (src : MBox) (us : List Nat) : MBox := us.foldl (fun b u => (pop b u).1) src

end Pymap.Session
