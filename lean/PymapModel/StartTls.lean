import PymapModel.Conn
/-!
# Model of the stream across STARTTLS (`IMAPConnection.start_tls`, `ManageSieveConnection._do_starttls`, repaired D82)

The commands of a connection arrive as bytes; what has arrived is in the reader's buffer whether or not the server has got round to
it.  `segment` is what the client wrote in clear text *behind* a STARTTLS command, before the handshake; `after` is what it sends inside
TLS.  Repaired: when STARTTLS is answered OK the buffer is discarded before the handshake, so the segment is never read.  As found,
the segment stayed in the buffer and was read as the first commands of the protected session.
-/
namespace Pymap.Conn

/-- the server reads STARTTLS, then (as found) the clear-text segment, then what arrives inside TLS -/
def runAcross (repaired : Bool) (s : St) (segment after : List Cmd) : St :=
  let r := step s .starttls
  match r.2 with
  | .ok => run r.1 ((if repaired then [] else segment) ++ after)
  | _ => run r.1 (segment ++ after)          -- no handshake follows: the segment is ordinary input

end Pymap.Conn
