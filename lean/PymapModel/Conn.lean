/-!
# Model of `ConnectionState.do_command` (pymap/imap/state.py) and the dispatch in
`IMAPConnection._run_state` (pymap/imap/__init__.py)

What the backend answers is not decided here: every command carries its backend outcome as an
oracle field, and the theorems quantify over all of them.  Repaired behaviour is modelled for
D7 (AUTHENTICATE goes through the state gate) and D8 (CLOSE of a read-only selection).
-/
namespace Pymap.Conn

inductive Cls | any | nonauth | auth | select
deriving Repr, DecidableEq

inductive Cmd
  -- CommandAny
  | capability | noop | logout | id
  -- CommandNonAuth; `who` is the identity the backend would grant (`none` = credentials rejected)
  | starttls
  | login (who : Option Nat)
  | authenticate (mechOffered : Bool) (exchangeOk : Bool) (who : Option Nat)
  -- CommandAuth; `ok` = the backend did not raise a `ResponseError`
  | selectCmd (name : Nat) (examine : Bool) (backend : Option Bool)   -- `none` missing, `some ro` backend read-only flag
  | mailboxCmd (ok : Bool)               -- CREATE DELETE RENAME STATUS SUBSCRIBE UNSUBSCRIBE LIST LSUB APPEND
  | inboxGuard                           -- CREATE/DELETE INBOX, RENAME … INBOX: answered NO by the state machine itself
  -- CommandSelect
  | check | close
  | msgCmd (writes : Bool) (ok : Bool)   -- FETCH SEARCH (writes=false) / STORE EXPUNGE COPY MOVE (writes=true)
  | idle (doneOk : Bool)
  -- unparseable line
  | invalid
deriving Repr, DecidableEq

def Cmd.cls : Cmd → Cls
  | .capability | .noop | .logout | .id | .invalid => .any
  | .starttls | .login _ | .authenticate _ _ _ => .nonauth
  | .selectCmd _ _ _ | .mailboxCmd _ | .inboxGuard => .auth
  | .check | .close | .msgCmd _ _ | .idle _ => .select

structure St where
  user      : Option Nat                 -- `_session`
  selected  : Option (Nat × Bool)        -- `_selected`: mailbox, read-only
  loginOff  : Bool                       -- LOGINDISABLED advertised (no PLAIN mechanism on offer)
  tlsAvail  : Bool                       -- STARTTLS still in the capability list
  bad       : Nat                        -- consecutive BAD responses
  closed    : Bool
deriving Repr, DecidableEq

inductive Resp | ok | no | bad | byeOk        -- `byeOk` = untagged BYE followed by tagged OK (LOGOUT)
  | badBye                                    -- BAD then BYE (too many errors)
deriving Repr, DecidableEq

def badLimit : Nat := 5

/-- the state gate at the top of `do_command` -/
def gate (s : St) (c : Cmd) : Bool :=
  match c with
  | .invalid => false
  | _ => match c.cls with
    | .any => true
    | .nonauth => s.user.isNone
    | .auth => s.user.isSome
    | .select => s.user.isSome && s.selected.isSome

/-- the `do_*` handlers, only reached when the gate is open -/
def handle (s : St) : Cmd → St × Resp
  | .capability | .noop | .id => (s, .ok)
  | .logout => ({ s with closed := true }, .byeOk)
  | .starttls => if s.tlsAvail then ({ s with tlsAvail := false, loginOff := false }, .ok) else (s, .no)
  | .login who =>
    if s.loginOff then (s, .no) else
    match who with
    | some u => ({ s with user := some u }, .ok)
    | none => (s, .no)
  | .authenticate offered exch who =>
    if !offered then (s, .no) else if !exch then (s, .bad) else
    match who with
    | some u => ({ s with user := some u }, .ok)
    | none => (s, .no)
  | .selectCmd name examine backend =>
    match backend with
    | none => ({ s with selected := none }, .no)          -- `_selected = None` first, then MailboxNotFound
    | some ro => ({ s with selected := some (name, examine || ro) }, .ok)
  | .mailboxCmd ok => (s, if ok then .ok else .no)
  | .inboxGuard => (s, .no)
  | .check => (s, .ok)
  | .close => ({ s with selected := none }, .ok)
  | .msgCmd writes ok =>
    match s.selected with
    | some (_, true) => (s, if writes then .no else (if ok then .ok else .no))
    | _ => (s, if ok then .ok else .no)
  | .idle doneOk => (s, if doneOk then .ok else .bad)
  | .invalid => (s, .bad)

/-- gate + handler: the tagged result before the bad-command bookkeeping -/
def core (s : St) (c : Cmd) : St × Resp := if gate s c then handle s c else (s, .bad)

/-- the response comes from one of the exception handlers of `_run_state` (`ResponseError`: backend refusals,
LOGOUT's `CloseConnection`; `AuthenticationError`: a broken SASL exchange) rather than from the handler's return
value: such responses neither count as a bad command nor reset the counter -/
def viaException (s : St) (c : Cmd) : Bool :=
  gate s c && match c with
  | .logout => true
  | .starttls => !s.tlsAvail
  | .login who => s.loginOff || who.isNone
  | .authenticate offered exch who => offered && (!exch || who.isNone)
  | .selectCmd _ _ be => be.isNone
  | .mailboxCmd ok => !ok
  | .msgCmd writes ok => (match s.selected with | some (_, true) => writes || !ok | _ => !ok)
  | _ => false

/-- the consecutive-BAD counter of `_run_state` (limit reached: BYE and close) -/
def count (raised : Bool) (r : St × Resp) : St × Resp :=
  if raised then r else
  match r.2 with
  | .bad =>
    if r.1.bad + 1 ≥ badLimit then ({ r.1 with bad := r.1.bad + 1, closed := true }, .badBye)
    else ({ r.1 with bad := r.1.bad + 1 }, .bad)
  | x => ({ r.1 with bad := 0 }, x)

/-- one iteration of the `_run_state` loop -/
def step (s : St) (c : Cmd) : St × Resp :=
  if s.closed then (s, .bad) else count (viaException s c) (core s c)

def St.init (loginOff tlsAvail : Bool) : St := ⟨none, none, loginOff, tlsAvail, 0, false⟩

def run (s : St) (cs : List Cmd) : St := cs.foldl (fun s c => (step s c).1) s

/-! ### what the client has been told

The capability list reaches the client in the greeting, in every CAPABILITY answer and in the `[CAPABILITY …]` code of a
successful LOGIN / AUTHENTICATE; after a successful STARTTLS the client has to forget it (RFC 3501 6.2.1).  `adv` is the
LOGINDISABLED bit of the list the client holds (`none`: it holds none). -/

structure Wire where
  st  : St
  adv : Option Bool
deriving Repr, DecidableEq

def Wire.init (loginOff tlsAvail : Bool) : Wire := ⟨St.init loginOff tlsAvail, some loginOff⟩

def wstep (w : Wire) (c : Cmd) : Wire × Resp :=
  let r := step w.st c
  let adv := match c, r.2 with
    | .capability, .ok => some r.1.loginOff
    | .login _, .ok => some r.1.loginOff
    | .authenticate _ _ _, .ok => some r.1.loginOff
    | .starttls, .ok => none
    | _, _ => w.adv
  (⟨r.1, adv⟩, r.2)

def wrun (w : Wire) (cs : List Cmd) : Wire := cs.foldl (fun w c => (wstep w c).1) w

end Pymap.Conn
