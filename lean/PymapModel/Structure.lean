/-!
# Shape of ENVELOPE and BODYSTRUCTURE values (pymap/parsing/response/fetch.py, pymap/message.py `_get_body_structure`)

`T` is a parenthesised IMAP value as a client's tokenizer sees it (string contents do not matter for the shape, except for the
media type, which decides what follows).  `isEnvelope` / `isBody` are the grammar of RFC 3501 section 9 (`envelope`, `body`);
`renderEnv` / `render` are what the (repaired: D46, D66, D67) server writes for a message structure.
-/
namespace Pymap.Structure

/-- kind of a string token: 0 anything, 1 "TEXT", 2 "MESSAGE", 3 "RFC822" -/
inductive T
  | nil
  | str (kind : Nat)
  | num
  | atom                      -- a bare atom that is neither NIL nor a number
  | list (l : List T)
deriving Repr

def isNString : T → Bool | .nil => true | .str _ => true | _ => false
def isString : T → Bool | .str _ => true | _ => false
def isNum : T → Bool | .num => true | _ => false

/-- body-fld-param = "(" string SP string *(SP string SP string) ")" / nil -/
def isParams : T → Bool
  | .nil => true
  | .list l => !l.isEmpty && l.length % 2 == 0 && l.all isString
  | _ => false

/-- body-fld-dsp = "(" string SP body-fld-param ")" / nil -/
def isDsp : T → Bool
  | .nil => true
  | .list [d, p] => isString d && isParams p
  | _ => false

/-- body-fld-lang = nstring / "(" string *(SP string) ")" -/
def isLang : T → Bool
  | .nil => true
  | .str _ => true
  | .list l => !l.isEmpty && l.all isString
  | _ => false

/-- the optional tail `[dsp [lang [loc *extension]]]` -/
def extOk : List T → Bool
  | [] => true
  | [d] => isDsp d
  | [d, l] => isDsp d && isLang l
  | d :: l :: loc :: _ => isDsp d && isLang l && isNString loc

def isAddr : T → Bool
  | .list [a, b, c, d] => isNString a && isNString b && isNString c && isNString d
  | _ => false

/-- env-from etc. = "(" 1*address ")" / nil -/
def isAddrList : T → Bool
  | .nil => true
  | .list l => !l.isEmpty && l.all isAddr
  | _ => false

def isEnvelope : T → Bool
  | .list [d, s, f, se, r, t, c, b, i, m] =>
    isNString d && isNString s && isAddrList f && isAddrList se && isAddrList r && isAddrList t && isAddrList c && isAddrList b &&
    isNString i && isNString m
  | _ => false

mutual
/-- `body` -/
def isBody : T → Bool
  | .list (.list p :: r) => isBody (.list p) && multiTail r                       -- body-type-mpart
  | .list (.str k1 :: .str k2 :: pa :: id :: de :: en :: oc :: r) =>               -- body-type-1part
    isParams pa && isNString id && isNString de && isString en && isNum oc &&
    (if k1 = 2 ∧ k2 = 3 then
      match r with
      | .list e :: .list b :: ln :: r' =>                                           -- body-type-msg
        isEnvelope (.list e) && isBody (.list b) && isNum ln && (match r' with | [] => true | md5 :: x => isNString md5 && extOk x)
      | _ => false
    else if k1 = 1 then
      match r with
      | ln :: r' => isNum ln && (match r' with | [] => true | md5 :: x => isNString md5 && extOk x)   -- body-type-text
      | [] => false
    else (match r with | [] => true | md5 :: x => isNString md5 && extOk x))      -- body-type-basic
  | _ => false
/-- after at least one part of a multipart: more parts, then the subtype and the extension data -/
def multiTail : List T → Bool
  | .list p :: r => isBody (.list p) && multiTail r
  | .str _ :: r => (match r with | [] => true | pa :: x => isParams pa && extOk x)
  | _ => false
end

/-! ### what the server writes -/

structure Env where
  from_ : Nat      -- number of addresses in From (Sender and Reply-To fall back to it)
  sender : Nat
  replyTo : Nat
  to : Nat
  cc : Nat
  bcc : Nat
deriving Repr

def addr : T := .list [.str 0, .nil, .str 0, .str 0]
def addrList (n : Nat) : T := if n = 0 then .nil else .list (List.replicate n addr)

def renderEnv (e : Env) : T :=
  .list [.nil, .str 0, addrList e.from_, addrList (if e.sender = 0 then e.from_ else e.sender),
         addrList (if e.replyTo = 0 then e.from_ else e.replyTo), addrList e.to, addrList e.cc, addrList e.bcc, .str 0, .nil]

/-- header facts of one part: number of Content-Type parameters, Content-Disposition (its number of parameters), language, location -/
structure Hdr where
  params : Nat
  dsp    : Option Nat
  lang   : Bool
  loc    : Bool
deriving Repr

def paramsT (n : Nat) : T := if n = 0 then .nil else .list (List.replicate (2 * n) (.str 0))
def dspT : Option Nat → T | none => .nil | some n => .list [.str 0, paramsT n]
def extT (h : Hdr) : List T := [dspT h.dsp, if h.lang then .str 0 else .nil, if h.loc then .str 0 else .nil]

inductive Part
  | basic (h : Hdr)                               -- anything that is neither text, nor message/rfc822 with a parsed message, nor a non-empty multipart
  | text (h : Hdr)
  | msg (h : Hdr) (e : Env) (inner : Part)
  | multi (h : Hdr) (first : Part) (rest : List Part)
deriving Repr

mutual
def render : Part → T
  | .basic h => .list ([.str 0, .str 0, paramsT h.params, .nil, .nil, .str 0, .num, .nil] ++ extT h)
  | .text h => .list ([.str 1, .str 0, paramsT h.params, .nil, .nil, .str 0, .num, .num, .nil] ++ extT h)
  | .msg h e inner => .list ([.str 2, .str 3, paramsT h.params, .nil, .nil, .str 0, .num, renderEnv e, render inner, .num, .nil] ++ extT h)
  | .multi h first rest => .list (render first :: (renderAll rest ++ (.str 0 :: paramsT h.params :: extT h)))
def renderAll : List Part → List T
  | [] => []
  | p :: r => render p :: renderAll r
end

/-- reading the token stream the harness sends: `N` NIL, `S<k>` string, `D` number, `A` other atom, `(` `)` -/
def parseToks (toks : List String) : Option T :=
  let step := fun (st : Option (List (List T))) (t : String) =>
    match st with
    | none => none
    | some stack =>
      let push := fun (x : T) => match stack with
        | top :: rest => some ((x :: top) :: rest)
        | [] => none
      if t == "(" then some ([] :: stack)
      else if t == ")" then
        match stack with
        | top :: next :: rest => some ((T.list top.reverse :: next) :: rest)
        | _ => none
      else if t == "N" then push .nil
      else if t == "D" then push .num
      else if t == "A" then push .atom
      else if t.startsWith "S" then push (.str ((t.drop 1).toString.toNat?.getD 0))
      else none
  match toks.foldl step (some [[]]) with
  | some [[x]] => some x
  | _ => none

end Pymap.Structure
