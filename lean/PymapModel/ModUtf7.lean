/-!
# Model of modified UTF-7 (`pymap/parsing/modutf7.py`), **repaired** (defects D9, D14):
shifted runs are encoded as UTF-16BE + modified base64 directly (no detour through Python's `utf-7`
codec, which leaves TAB/CR/LF unencoded), and the decoder's scan for the closing `-` terminates.

A name is a list of code points; bytes are naturals.
-/
namespace Pymap.ModUtf7

def amp : Nat := 38
def dash : Nat := 45

def printable (c : Nat) : Bool := 32 ≤ c && c ≤ 126

/-- scalar value: a code point that is not a surrogate -/
def scalar (c : Nat) : Bool := c < 0xD800 || (0xDFFF < c && c ≤ 0x10FFFF)

/-- UTF-16BE -/
def utf16 : List Nat → List Nat
  | [] => []
  | c :: r =>
    if c < 0x10000 then (c / 256) :: (c % 256) :: utf16 r
    else
      let hi := 0xD800 + (c - 0x10000) / 1024
      let lo := 0xDC00 + (c - 0x10000) % 1024
      (hi / 256) :: (hi % 256) :: (lo / 256) :: (lo % 256) :: utf16 r

def unutf16 : List Nat → Option (List Nat)
  | [] => some []
  | [_] => none
  | a :: b :: r =>
    let u := a * 256 + b
    if 0xD800 ≤ u ∧ u < 0xDC00 then
      match r with
      | c :: d :: r' =>
        let l := c * 256 + d
        if 0xDC00 ≤ l ∧ l < 0xE000 then
          (unutf16 r').map (fun t => (0x10000 + (u - 0xD800) * 1024 + (l - 0xDC00)) :: t)
        else none
      | _ => none
    else if 0xDC00 ≤ u ∧ u < 0xE000 then none
    else (unutf16 r).map (fun t => u :: t)

/-- base64 sextets of a byte list, without padding -/
def b64enc : List Nat → List Nat
  | [] => []
  | [a] => [a / 4, (a % 4) * 16]
  | [a, b] => [a / 4, (a % 4) * 16 + b / 16, (b % 16) * 4]
  | a :: b :: c :: r => (a / 4) :: ((a % 4) * 16 + b / 16) :: ((b % 16) * 4 + c / 64) :: (c % 64) :: b64enc r

def b64dec : List Nat → Option (List Nat)
  | [] => some []
  | [_] => none
  | [w, x] => if x % 16 = 0 then some [w * 4 + x / 16] else none
  | [w, x, y] => if y % 4 = 0 then some [w * 4 + x / 16, (x % 16) * 16 + y / 4] else none
  | w :: x :: y :: z :: r =>
    match b64dec r with
    | none => none
    | some bs => some ((w * 4 + x / 16) :: ((x % 16) * 16 + y / 4) :: ((y % 4) * 64 + z) :: bs)

/-- the modified alphabet `A–Z a–z 0–9 + ,` -/
def toChar (s : Nat) : Nat :=
  if s < 26 then 65 + s else if s < 52 then 97 + (s - 26) else if s < 62 then 48 + (s - 52) else if s = 62 then 43 else 44

def ofChar (c : Nat) : Option Nat :=
  if 65 ≤ c ∧ c ≤ 90 then some (c - 65) else if 97 ≤ c ∧ c ≤ 122 then some (c - 97 + 26)
  else if 48 ≤ c ∧ c ≤ 57 then some (c - 48 + 52) else if c = 43 then some 62 else if c = 44 then some 63 else none

def allSome : List (Option Nat) → Option (List Nat)
  | [] => some []
  | none :: _ => none
  | some x :: r => (allSome r).map (fun t => x :: t)

def encodeRun (run : List Nat) : List Nat := (b64enc (utf16 run)).map toChar
def decodeRun (enc : List Nat) : Option (List Nat) :=
  (allSome (enc.map ofChar)).bind (fun sx => (b64dec sx).bind unutf16)

/-- longest prefix of non-printable code points -/
def spanRun : List Nat → List Nat × List Nat
  | [] => ([], [])
  | c :: r => if printable c then ([], c :: r) else let p := spanRun r; (c :: p.1, p.2)

/-- `modutf7_encode` -/
def encode (fuel : Nat) : List Nat → List Nat
  | [] => []
  | c :: r =>
    match fuel with
    | 0 => []
    | fuel + 1 =>
      if c = amp then amp :: dash :: encode fuel r
      else if printable c then c :: encode fuel r
      else
        let p := spanRun (c :: r)
        amp :: (encodeRun p.1 ++ dash :: encode fuel p.2)

def encodeName (n : List Nat) : List Nat := encode (n.length + 1) n

/-- bytes up to (not including) the first `-` -/
def spanDash : List Nat → List Nat × List Nat
  | [] => ([], [])
  | b :: r => if b = dash then ([], b :: r) else let p := spanDash r; (b :: p.1, p.2)

/-- `modutf7_decode`; `none` = not canonical modified UTF-7: the code either rejects it (`ValueError` →
`NotParseable` after the repair of D12) or decodes it leniently through Python's utf-7 codec; the
correspondence is one-sided there (the code must terminate with a string or a `ValueError`) -/
def decode (fuel : Nat) : List Nat → Option (List Nat)
  | [] => some []
  | b :: r =>
    match fuel with
    | 0 => none                      -- unreachable: see `C06_modutf7_total`
    | fuel + 1 =>
      if b = amp then
        match r with
        | d :: r' =>
          if d = dash then (decode fuel r').map (fun t => amp :: t)
          else
            let p := spanDash (d :: r')
            match p.2 with
            | _ :: rest => (decodeRun p.1).bind (fun run => (decode fuel rest).map (fun t => run ++ t))
            | [] => decodeRun p.1         -- unterminated shift: decode what is there (the old code spun forever here)
        | [] => none                      -- a lone trailing `&`: outside the specified domain (the code yields `+`, a quirk of Python's utf-7 codec)
      else (decode fuel r).map (fun t => b :: t)

def decodeName (b : List Nat) : Option (List Nat) := decode (b.length + 1) b

end Pymap.ModUtf7
