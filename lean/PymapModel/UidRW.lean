/-!
# Model of the read-modify-write of `dovecot-uidlist` (pymap/backend/maildir/io.py `_FileWriteWith`, mailbox.py `append`)

Every writer (a connection's APPEND, COPY or rescan) does: take the lock file; read the list (`next_uid`); number its message with what it
read and write the list back with `next_uid + 1`; let the lock go.  Writers are interleaved at every step.  `readFirst = true` is the
order of seeded change C04-g: the list is read *before* the lock is taken.
-/
namespace Pymap.UidRW

inductive PC
  | idle | locked | read | done
deriving Repr, DecidableEq

structure W where
  pc    : PC := .idle
  loc   : Nat := 0          -- `uidl.next_uid` as read
  uid   : Nat := 0          -- the UID reported (APPENDUID), meaningful once `done`
deriving Repr, DecidableEq

structure St where
  next   : Nat               -- `next_uid` in the file
  holder : Option Nat        -- who holds `dovecot-uidlist.lock`
  ws     : Nat → W

def St.setW (s : St) (i : Nat) (w : W) : St := { s with ws := fun j => if j = i then w else s.ws j }

/-- writer `i` performs its next step; `none`: not enabled (blocked on the lock, or finished) -/
def step (s : St) (i : Nat) : Option St :=
  match (s.ws i).pc with
  | .idle => if s.holder = none then some ({ s with holder := some i }.setW i { s.ws i with pc := .locked }) else none
  | .locked => some (s.setW i { s.ws i with pc := .read, loc := s.next })
  | .read => some ({ s with next := (s.ws i).loc + 1, holder := none }.setW i { s.ws i with pc := .done, uid := (s.ws i).loc })
  | .done => none

def run (s : St) : List Nat → St
  | [] => s
  | i :: is => match step s i with
    | some s' => run s' is
    | none => run s is

def init (next : Nat) : St := ⟨next, none, fun _ => {}⟩

/-! the seeded order: read, then lock, then write -/
def stepReadFirst (s : St) (i : Nat) : Option St :=
  match (s.ws i).pc with
  | .idle => some (s.setW i { s.ws i with pc := .read, loc := s.next })
  | .read => if s.holder = none then some ({ s with holder := some i }.setW i { s.ws i with pc := .locked }) else none
  | .locked => some ({ s with next := (s.ws i).loc + 1, holder := none }.setW i { s.ws i with pc := .done, uid := (s.ws i).loc })
  | .done => none

def runReadFirst (s : St) : List Nat → St
  | [] => s
  | i :: is => match stepReadFirst s i with
    | some s' => runReadFirst s' is
    | none => runReadFirst s is

end Pymap.UidRW
