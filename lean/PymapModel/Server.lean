import PymapModel.Session
/-!
# Command-level model of the dict backend behind the IMAP message commands

N sessions, M mailboxes.  One function per command of `ConnectionState` (`do_select`, `do_append`,
`do_store`, `do_fetch`, `do_search`, `do_expunge`, `do_copy`, `do_move`, `do_close`, `do_noop`/`do_check`),
each composed of the primitives of `Mailbox`, `Sync` and `Session` (about which the theorems of C01, C02,
C04, C10, C12, C17 speak), followed by the common tail of `do_command`: last `update_selected`, `fork`,
and the assembly of the untagged stream by `CommandResponse.add_untagged` (repaired merge, D29).

Whole commands are atomic here (the dict backend under asyncio never suspends inside one unless a lock is
contended); the finer interleavings are the business of `System`/`Faults`/`Idle`.

Flags: 0 `\Seen`, 1 `\Flagged`, 2 `\Answered`, 3 `\Deleted`, 4 `\Draft`, ≥ 5 keywords.  `\Recent` is never a
stored flag: it is the stored `recent` bit until claimed, then a member of the session's `recent` set.
-/
namespace Pymap.Server
open Pymap.Sync Pymap.Mailbox Pymap.Seq Pymap.Session

def permitted : List Nat := [0, 1, 2, 3, 4]

/-- what goes on the wire, as far as the properties look at it -/
inductive Item
  | expunge (n : Nat)
  | exists_ (n : Nat)
  | recent (n : Nat)
  | fetch (seq : Nat) (flags : Option (List Nat)) (isRecent : Bool) (uid : Option Nat)
  | search (ids : List Nat)
  | bye
deriving Repr, DecidableEq

def ofUntagged : Untagged → Item
  | .expunge n => .expunge n
  | .exists_ n => .exists_ n
  | .recent n => .recent n
  | .fetch s u f r w => .fetch s (some f) r (if w then some u else none)
  | .bye => .bye

/-- `FetchResponse.merge`: `self.data | other.data` -/
def mergeFetch (a b : Item) : Item :=
  match a, b with
  | .fetch s f r u, .fetch _ f' r' u' =>
    .fetch s (match f' with | some x => some x | none => f) (match f' with | some _ => r' | none => r)
      (match u' with | some x => some x | none => u)
  | x, _ => x

def findFetch (s : Nat) : Nat → List Item → Option Nat
  | _, [] => none
  | i, .fetch s' _ _ _ :: r => if s' = s then some i else findFetch s (i + 1) r
  | i, _ :: r => findFetch s (i + 1) r

/-- repaired `CommandResponse.add_untagged`: a FETCH merges into the first FETCH with the same sequence
number that was added after the last EXPUNGE; `start` = index from which merging is allowed -/
def addUntagged : List Item × Nat → Item → List Item × Nat
  | (acc, start), .fetch s f r u =>
    match findFetch s start (acc.drop start) with
    | some j => (acc.set j (mergeFetch (acc.getD j .bye) (.fetch s f r u)), start)
    | none => (acc ++ [.fetch s f r u], start)
  | (acc, _), .expunge n => (acc ++ [.expunge n], acc.length + 1)
  | (acc, start), x => (acc ++ [x], start)

def assemble (items : List Item) : List Item := (items.foldl addUntagged ([], 0)).1

structure Sel where
  box    : Nat                  -- index of the selected mailbox
  ro     : Bool
  view   : View
  p      : Option Nat           -- `mod_sequence`
  recent : List Nat             -- `SessionFlags._recent`
  prev   : Frozen               -- `_prev`
deriving Repr

structure Srv where
  boxes : List MBox
  sess  : List (Option Sel)
  grave : List (Nat × Nat × List Nat)     -- (box, uid, flags at deletion): the dict backend's cached object is the live message
deriving Repr

def Srv.init (nboxes nsess : Nat) : Srv := ⟨List.replicate nboxes MBox.new, List.replicate nsess none, []⟩

inductive Status | ok | no | bad
deriving Repr, DecidableEq

structure Resp where
  status : Status
  code   : String := ""
  items  : List Item := []
deriving Repr

/-- flag sets are Python `frozenset`s; the list representation is kept sorted so that equal sets are equal lists -/
def normBox (m : MBox) : MBox := { m with msgs := m.msgs.map (fun x => { x with flags := sortAsc x.flags }) }

def Srv.box (s : Srv) (b : Nat) : MBox := s.boxes.getD b MBox.new
def Srv.setBox (s : Srv) (b : Nat) (m : MBox) : Srv := { s with boxes := s.boxes.set b (normBox m) }
def Srv.sel (s : Srv) (i : Nat) : Option Sel := (s.sess[i]?).join
def Srv.setSel (s : Srv) (i : Nat) (x : Option Sel) : Srv := { s with sess := s.sess.set i x }

def showNats (l : List Nat) : String := ",".intercalate (l.map toString)

/-- the tail of `do_command`: last `update_selected`, `fork`, assembly -/
def finish (s : Srv) (i : Nat) (x : Sel) (hide withUid : Bool) (silenced : List (Nat × List Nat))
    (status : Status) (code : String) (ownF : List Nat → List Item) : Srv × Resp :=
  let b := s.box x.box
  let r := updateSelected b x.view x.p hide
  -- `add_updates`: `if not hide: session_flags.remove(expunged)` — only the uids reported by this `find_updated`
  let exp := match x.p with | some p => (ModSeq.findUpdated b.log p).2 | none => []
  let recent' := if hide then x.recent else x.recent.filter (fun u => !(exp.contains u))
  let after := freeze r.1 recent'
  let out := compare x.prev after hide silenced withUid false
  let x' : Sel := { x with view := r.1, p := some r.2, recent := recent', prev := after }
  -- the command's own FETCH lines read the session flags *after* the last `update_selected` (they are built after it returns)
  (s.setSel i (some x'), { status := status, code := code, items := assemble (ownF recent' ++ out.map ofUntagged) })

/-- `_pick_selected` (repaired, D18) with the `any_selected` choice as an oracle: `pick` is honoured if that
session has `dest` selected read-write, otherwise the first such session is taken -/
def rwOn (s : Srv) (dest j : Nat) : Bool := match s.sel j with | some x => x.box = dest && !x.ro | none => false
def pickDest (s : Srv) (i dest pick : Nat) : Option Nat :=
  if rwOn s dest i then some i
  else if rwOn s dest pick then some pick
  else (List.range s.sess.length).find? (rwOn s dest)

def addRecentTo (s : Srv) (j : Option Nat) (u : Nat) : Srv :=
  match j with
  | none => s
  | some j => match s.sel j with
    | some x => s.setSel j (some { x with recent := u :: x.recent })
    | none => s

def firstUnseen (b : MBox) : Nat :=
  match (b.msgs.zipIdx 1).find? (fun p => !(p.1.flags.contains seenF)) with
  | some p => p.2
  | none => 0

/-- SELECT / EXAMINE -/
def select (s : Srv) (i box : Nat) (examine : Bool) : Srv × Resp :=
  let s := s.setSel i none
  if box ≥ s.boxes.length then (s, { status := .no })
  else
    let b := s.box box
    let (b1, claimed) := if examine then (b, []) else claimRecent b
    let storedRecent := (b1.msgs.filter (·.recent)).length
    let r := updateSelected b1 View.empty none false
    let x : Sel := { box := box, ro := examine, view := r.1, p := some r.2, recent := claimed, prev := freeze r.1 claimed }
    let s1 := (s.setBox box b1).setSel i (some x)
    (s1, { status := .ok, code := (if examine then "READ-ONLY" else "READ-WRITE") ++
             s!" uidnext={b1.maxUid + 1} unseen={firstUnseen b1}",
           items := [.exists_ r.1.uids.length, .recent (if examine then storedRecent else claimed.length)] })

/-- tail for commands that may run without a selection -/
def finishOpt (s : Srv) (i : Nat) (status : Status) (code : String) : Srv × Resp :=
  match s.sel i with
  | some x => finish s i x false false [] status code (fun _ => [])
  | none => (s, { status := status, code := code })

/-- APPEND of one message (repaired D26: `\Recent` in the flag list is dropped by the harness before it gets here) -/
def append (s : Srv) (i dest : Nat) (flags : List Nat) (pick : Nat) (cid date : Nat) : Srv × Resp :=
  if dest ≥ s.boxes.length then (s, { status := .no, code := "TRYCREATE" })
  else
    let j := pickDest s i dest pick
    let (b', u) := push (s.box dest) flags j.isNone cid date
    let s1 := addRecentTo (s.setBox dest b') j u
    finishOpt s1 i .ok s!"APPENDUID {u}"

/-- `SelectedMailbox.silence` (repaired D3: prediction from the session's own flag map) -/
def silence (x : Sel) (tg : List (Nat × Nat)) (mode : Nat) (fs : List Nat) : List (Nat × List Nat) :=
  tg.filterMap (fun p =>
    let cur := (x.view.flagsOf p.2).getD []
    let upd := applyOp mode (fs.filter (fun f => permitted.contains f)) cur
    if sortAsc cur != sortAsc upd then some (p.2, sortAsc upd) else none)

def graveFlags (s : Srv) (box u : Nat) (x : Sel) : List Nat :=
  match s.grave.find? (fun g => g.1 = box && g.2.1 = u) with
  | some g => g.2.2
  | none => (x.view.flagsOf u).getD []

/-- STORE -/
def store (s : Srv) (i : Nat) (byUid : Bool) (set : List Elem) (mode : Nat) (fs : List Nat) (silent : Bool) : Srv × Resp :=
  match s.sel i with
  | none => (s, { status := .bad })
  | some x =>
    if x.ro then (s, { status := .no, code := "READ-ONLY" })       -- `abandon()` leaves nothing armed (repaired D4)
    else
      let tg := targets x.view byUid set
      let sil := if silent then silence x tg mode fs else []
      let b := s.box x.box
      let b' := storeCmd b x.view byUid set mode fs permitted
      let operand := fs.filter (fun f => permitted.contains f)
      let gone := tg.filter (fun p => (b.find p.2).isNone)
      let own := fun (rc : List Nat) => tg.filterMap (fun p => match b'.find p.2 with
        | some m => if silent then none
                    else some (Item.fetch p.1 (some m.flags) (rc.contains p.2) (if byUid then some p.2 else none))
        | none => some (Item.fetch p.1 (some (applyOp mode operand (graveFlags s x.box p.2 x))) (rc.contains p.2)
                    (if byUid then some p.2 else none)))
      -- the reply for an expunged message is computed on a *copy* of the cached object (`Message.copy(cached, expunged=True)`)
      finish (s.setBox x.box b') i x (!byUid) byUid sil .ok (if gone.isEmpty then "" else "EXPUNGEISSUED") own

/-- FETCH; `wantFlags`: FLAGS among the attributes; `setsSeen`: a body attribute without `.PEEK` -/
def fetch (s : Srv) (i : Nat) (byUid : Bool) (set : List Elem) (wantFlags wantUid setsSeen : Bool) : Srv × Resp :=
  match s.sel i with
  | none => (s, { status := .bad })
  | some x =>
    let tg := targets x.view byUid set
    let b := s.box x.box
    let doSeen := setsSeen && !x.ro
    let b' := if doSeen then storeCmd b x.view byUid set 1 [seenF] permitted else b
    let gone := tg.filter (fun p => (b.find p.2).isNone)
    let flagsOf (u : Nat) : List Nat := match b'.find u with
      | some m => m.flags
      | none => if doSeen then applyOp 1 [seenF] (graveFlags s x.box u x) else graveFlags s x.box u x
    let own := fun (rc : List Nat) => tg.map (fun p => Item.fetch p.1 (if wantFlags then some (flagsOf p.2) else none)
      (wantFlags && rc.contains p.2) (if byUid || wantUid then some p.2 else none))
    finish (s.setBox x.box b') i x (!byUid) byUid [] .ok (if gone.isEmpty then "" else "EXPUNGEISSUED") own

/-- the uids `find_deleted` hands to `mbx.delete`: `MailboxData.get` never answers "gone" — for a message another session
has already expunged it returns a copy of the cached object, so a stale view re-expunges it (the mailbox content is not
affected, but the expunge is logged again under a new mod-sequence) -/
def expungeUids (s : Srv) (x : Sel) (uidSet : Option (List Elem)) : List Nat :=
  let b := s.box x.box
  let cand := (targets x.view true (uidSet.getD [.range (.num 1) .star])).map (·.2)
  cand.filter (fun u => match b.find u with
    | some m => m.flags.contains deletedF
    | none => (graveFlags s x.box u x).contains deletedF)

/-- EXPUNGE / UID EXPUNGE -/
def expunge (s : Srv) (i : Nat) (uidSet : Option (List Elem)) : Srv × Resp :=
  match s.sel i with
  | none => (s, { status := .bad })
  | some x =>
    if x.ro then (s, { status := .no, code := "READ-ONLY" })
    else
      let b := s.box x.box
      let b' := delete b (expungeUids s x uidSet)
      let goneMsgs := b.msgs.filter (fun m => (b'.find m.uid).isNone)
      let s1 := { (s.setBox x.box b') with grave := goneMsgs.map (fun m => (x.box, m.uid, m.flags)) ++ s.grave }
      finish s1 i x false (uidSet.isSome) [] .ok "" (fun _ => [])

/-- COPY / MOVE (repaired MOVE, D20: add to the destination first, then remove from the source) -/
def copyMove (s : Srv) (i : Nat) (move byUid : Bool) (set : List Elem) (dest pick : Nat) : Srv × Resp :=
  match s.sel i with
  | none => (s, { status := .bad })
  | some x =>
    if move && x.ro then (s, { status := .no, code := "READ-ONLY" })        -- repaired D39
    else if dest ≥ s.boxes.length then (s, { status := .no, code := "TRYCREATE" })
    else
      let tg := (targets x.view byUid set).map (·.2)
      let j := pickDest s i dest pick
      let step := fun (acc : Srv × List (Nat × Nat)) (u : Nat) =>
        let s := acc.1
        match (s.box x.box).find u with
        | none => acc
        | some m =>
          let (d', du) := push (s.box dest) m.flags j.isNone m.cid m.date
          let s1 := addRecentTo (s.setBox dest d') j du
          let s2 := if move then
              { (s1.setBox x.box (Mailbox.pop (s1.box x.box) u).1) with grave := (x.box, u, m.flags) :: s1.grave }
            else s1
          (s2, acc.2 ++ [(u, du)])
      let r :=
        if dest ≠ x.box then
          -- distinct mailboxes: exactly `Session.copyCmd` on the destination and `Session.moveSrc` on the source (the
          -- refinement theorems C10_copy_refines / C10_move_refines speak about these two)
          let src := s.box x.box
          let ms := sourceMsgs src x.view byUid set
          let c := copyCmd src (s.box dest) x.view byUid set j.isNone
          let s1 := c.2.foldl (fun acc du => addRecentTo acc j du) (s.setBox dest c.1)
          let s2 := if move then
              { (s1.setBox x.box (moveSrc src (ms.map (·.uid)))) with
                  grave := (ms.map (fun m => (x.box, m.uid, m.flags))).reverse ++ s1.grave }
            else s1
          (s2, (ms.map (·.uid)).zip c.2)
        else tg.foldl step (s, [])
      let code := if r.2.isEmpty then "" else s!"COPYUID {showNats (r.2.map (·.1))} {showNats (r.2.map (·.2))}"
      -- own selection may have been given `\Recent` for the copies (dest = own mailbox): re-read it
      match r.1.sel i with
      | some x' => finish r.1 i x' false byUid [] .ok code (fun _ => [])
      | none => (r.1, { status := .ok, code := code })

/-- NOOP / CHECK -/
def noop (s : Srv) (i : Nat) : Srv × Resp := finishOpt s i .ok ""

/-- STATUS box (MESSAGES UIDNEXT UNSEEN) -/
def status (s : Srv) (i box : Nat) : Srv × Resp :=
  if box ≥ s.boxes.length then (s, { status := .no })
  else
    let b := s.box box
    let unseen := (b.msgs.filter (fun m => !(m.flags.contains seenF))).length
    finishOpt s i .ok s!"STATUS messages={b.msgs.length} uidnext={b.maxUid + 1} unseen={unseen}"

/-- CHECK is a selected-state command -/
def check (s : Srv) (i : Nat) : Srv × Resp :=
  match s.sel i with
  | none => (s, { status := .bad })
  | some _ => noop s i

/-- CLOSE (repaired D8) -/
def close (s : Srv) (i : Nat) : Srv × Resp :=
  match s.sel i with
  | none => (s, { status := .bad })
  | some x =>
    if x.ro then (s.setSel i none, { status := .ok })
    else
      let b := s.box x.box
      let b' := delete b (expungeUids s x none)
      let goneMsgs := b.msgs.filter (fun m => (b'.find m.uid).isNone)
      ({ ((s.setBox x.box b').setSel i none) with grave := goneMsgs.map (fun m => (x.box, m.uid, m.flags)) ++ s.grave },
       { status := .ok })

/-- SEARCH by flag / sequence set / uid set only (the full key language is `Search`): a conjunction of
`(flag, expected)` tests and optional sets; used for the hide-expunged behaviour of C01 -/
def search (s : Srv) (i : Nat) (byUid : Bool) (seqs uids : Option (List Elem)) (tests : List (Nat × Bool)) : Srv × Resp :=
  match s.sel i with
  | none => (s, { status := .bad })
  | some x =>
    let b := s.box x.box
    let maxSeq := x.view.uids.length
    let maxUid := x.view.sorted.getLastD 0
    let cand := (x.view.sorted.zipIdx 1).filter (fun p =>
      (match seqs with | some e => (flatten maxSeq e).contains p.2 | none => true) &&
      (match uids with | some e => (flatten maxUid e).contains p.1 | none => true))
    let hit := cand.filter (fun p =>
      let fl := match b.find p.1 with | some m => m.flags | none => graveFlags s x.box p.1 x
      tests.all (fun t => fl.contains t.1 == t.2))
    let gone := hit.filter (fun p => (b.find p.1).isNone)
    finish s i x (!byUid) byUid [] .ok (if gone.isEmpty then "" else "EXPUNGEISSUED")
      (fun _ => [.search (hit.map (fun p => if byUid then p.1 else p.2))])

end Pymap.Server
