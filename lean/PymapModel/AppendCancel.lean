/-!
# Model of a multi-message APPEND as the client sends it (`AppendCommand.parse`, `ConnectionState.do_append`)

The command carries one literal per message; a literal of length 0 where a message would start is the client calling the whole
command off (RFC 3502).  `parseMsgs` is the parser's loop: the messages in front of the first empty literal, and whether one was met.
`doAppend` is the handler: a cancelled command is answered NO and stores nothing — however many messages had been sent already.
-/
namespace Pymap.AppendCancel

inductive Lit | msg (data : List Nat) | empty
deriving Repr, DecidableEq

inductive Resp | ok | no | bad
deriving Repr, DecidableEq

def parseMsgs : List Lit → List (List Nat) × Bool
  | [] => ([], false)
  | .empty :: _ => ([], true)
  | .msg d :: r => ((d :: (parseMsgs r).1), (parseMsgs r).2)

/-- `repaired = false`: the guard as the seeded change C14-e has it — "no messages" instead of "cancelled" -/
def doAppend (repaired : Bool) (box : List (List Nat)) (lits : List Lit) : List (List Nat) × Resp :=
  let p := parseMsgs lits
  if lits = [] then (box, .bad)
  else if (if repaired then p.2 else p.1.isEmpty) then (box, .no)
  else (box ++ p.1, .ok)

end Pymap.AppendCancel
