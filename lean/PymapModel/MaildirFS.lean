/-!
# Model of one maildir folder on disk and the operations `pymap/backend/maildir` performs on it

The filesystem is abstract: message files (key, info, in `new`/`cur`), the `dovecot-uidlist` control
file (absent, or validity / next uid / records), files in `tmp/`, the lock file.  Every `FsOp` is one
system call and is atomic; a crash (process kill) can fall between any two of them.  A command is the
list of `FsOp`s it issues; `recover` is what a fresh server computes on `get_mailbox` (`reset`).
-/
namespace Pymap.MaildirFS

structure UL where
  validity : Nat
  next     : Nat
  recs     : List (Nat × Nat)         -- (uid, key)
deriving Repr, DecidableEq

structure Disk where
  files : List (Nat × Nat)            -- (key, info): message files in new/ or cur/
  tmp   : List Nat
  ul    : UL
  lock  : Bool
deriving Repr, DecidableEq

inductive FsOp
  | createTmp (k : Nat)
  | link (k info : Nat)               -- `os.link(tmp/k, cur/k:info)`: the message becomes visible
  | removeTmp (k : Nat)
  | lockCreate | lockRemove
  | renameUL (ul : UL)                -- temp file already written; `os.rename` over `dovecot-uidlist`
  | renameInfo (k info : Nat)         -- flag change
  | removeFile (k : Nat)
deriving Repr, DecidableEq

def apply (d : Disk) : FsOp → Disk
  | .createTmp k => { d with tmp := k :: d.tmp }
  | .link k info => { d with files := d.files ++ [(k, info)] }
  | .removeTmp k => { d with tmp := d.tmp.filter (· != k) }
  | .lockCreate => { d with lock := true }
  | .lockRemove => { d with lock := false }
  | .renameUL ul => { d with ul := ul }
  | .renameInfo k info => { d with files := d.files.map (fun f => if f.1 = k then (k, info) else f) }
  | .removeFile k => { d with files := d.files.filter (fun f => f.1 != k) }

inductive Cmd
  | append (k info : Nat)             -- `k` fresh (maildir keys are unique by construction)
  | expunge (k : Nat)
  | setFlags (k info : Nat)
  | cleanup                           -- CHECK: drop records of missing files
deriving Repr, DecidableEq

/-- the system calls a command issues, given the disk it starts on -/
def ops (d : Disk) : Cmd → List FsOp
  | .append k info =>
    [.createTmp k, .link k info, .removeTmp k, .lockCreate,
     .renameUL { d.ul with next := d.ul.next + 1, recs := d.ul.recs ++ [(d.ul.next, k)] }, .lockRemove]
  | .expunge k => [.removeFile k]
  | .setFlags k info => [.renameInfo k info]
  | .cleanup =>
    [.lockCreate, .renameUL { d.ul with recs := d.ul.recs.filter (fun r => d.files.any (fun f => f.1 == r.2)) },
     .lockRemove]

/-- `MailboxData.reset`: adopt files that have no record, with fresh uids -/
def adopt (ul : UL) : List Nat → UL
  | [] => ul
  | k :: ks => adopt { ul with next := ul.next + 1, recs := ul.recs ++ [(ul.next, k)] } ks

def recover (d : Disk) : Disk :=
  let orphans := (d.files.map (·.1)).filter (fun k => !(d.ul.recs.any (fun r => r.2 == k)))
  { d with ul := adopt d.ul orphans, lock := false }

/-- what a session sees after `get_mailbox`: (uid, key, info) of records whose file exists -/
def listing (d : Disk) : List (Nat × Nat × Nat) :=
  d.ul.recs.filterMap (fun r => (d.files.find? (fun f => f.1 == r.2)).map (fun f => (r.1, r.2, f.2)))

/-- the running system: disk, the command in progress (remaining calls), acknowledged appends -/
structure St where
  disk  : Disk
  cur   : Option (Cmd × List FsOp)
  acked : List (Nat × Nat × Nat)      -- ghost: (uid, key, info) of every acknowledged, not expunged message
deriving Repr, DecidableEq

inductive Label | begin (c : Cmd) | sys
deriving Repr, DecidableEq

def ack (d : Disk) (acked : List (Nat × Nat × Nat)) : Cmd → List (Nat × Nat × Nat)
  | .append k info => match d.ul.recs.find? (fun r => r.2 == k) with
    | some r => acked ++ [(r.1, k, info)]
    | none => acked
  | .expunge k => acked.filter (fun a => a.2.1 != k)
  | .setFlags k info => acked.map (fun a => if a.2.1 = k then (a.1, k, info) else a)
  | .cleanup => acked

def step (s : St) : Label → Option St
  | .begin c => match s.cur with
    | none =>
      -- maildir keys are unique by construction (time, counter, pid, host): an APPEND never reuses one
      let fresh := match c with
        | .append k _ => !(s.disk.files.any (fun f => f.1 == k)) && !(s.disk.ul.recs.any (fun r => r.2 == k))
        | _ => true
      if fresh then some { s with cur := some (c, ops s.disk c) } else none
    | some _ => none
  | .sys => match s.cur with
    | some (c, o :: rest) =>
      let d := apply s.disk o
      if rest.isEmpty then some { disk := d, cur := none, acked := ack d s.acked c }
      else some { s with disk := d, cur := some (c, rest) }
    | _ => none

def run (s : St) : List Label → Option St
  | [] => some s
  | l :: ls => (step s l).bind (fun s' => run s' ls)

end Pymap.MaildirFS
