/-!
# Model of `_ThreadingReadWriteLock` (pymap/concurrent.py), the lock the maildir backend runs under a thread pool

Threads are pre-empted between any two primitive operations; `threading.Lock.acquire` blocks (the step is not enabled) while the
mutex is held, and a `threading.Lock` may be released by a thread other than the one that acquired it — the first reader in takes
`W`, the last reader out gives it back.  This is the **repaired** lock (defect D76): the first reader waits for the writer *while it
holds* `R`, so no later reader can see a counter that has been bumped before `W` was obtained.

    def _acquire_read(self):                      def _release_read(self):
        with self._read_lock:          # R            with self._read_lock:        # R
            if self._counter == 0:                        self._counter -= 1
                self._write_lock.acquire()   # W          if self._counter == 0:
            self._counter += 1                                self._write_lock.release()
-/
namespace Pymap.TRW

inductive PC
  | idle
  | rWantR      -- `_acquire_read`: about to take `R`
  | rHoldR      -- holds `R`, about to test the counter
  | rWantW      -- holds `R`, counter was 0: about to take `W`
  | rInc        -- holds `R` (the reader side holds `W`): about to bump the counter and give `R` back
  | rIn         -- inside the read section
  | xWantR      -- `_release_read`: about to take `R`
  | xDec        -- holds `R`: decrement, give `W` back if last, give `R` back
  | wWantW      -- writer about to take `W`
  | wIn         -- inside the write section
deriving Repr, DecidableEq

structure Task where
  pc   : PC
  prog : List Bool          -- remaining sections: `true` = read, `false` = write
deriving Repr, DecidableEq

structure St where
  r       : Bool            -- `_read_lock` is held
  w       : Bool            -- `_write_lock` is held
  counter : Nat
  tasks   : List Task
deriving Repr, DecidableEq

def St.init (progs : List (List Bool)) : St := ⟨false, false, 0, progs.map (fun p => ⟨.idle, p⟩)⟩

def setPc (s : St) (i : Nat) (t : Task) : St := { s with tasks := s.tasks.set i t }

/-- thread `i` performs its next primitive operation; `none`: it is blocked (or has nothing to do) -/
def step (s : St) (i : Nat) : Option St :=
  match s.tasks[i]? with
  | none => none
  | some t =>
    match t.pc with
    | .idle =>
      match t.prog with
      | [] => none
      | true :: _ => some (setPc s i { t with pc := .rWantR })
      | false :: _ => some (setPc s i { t with pc := .wWantW })
    | .rWantR => if s.r then none else some (setPc { s with r := true } i { t with pc := .rHoldR })
    | .rHoldR => some (setPc s i { t with pc := if s.counter = 0 then .rWantW else .rInc })
    | .rWantW => if s.w then none else some (setPc { s with w := true } i { t with pc := .rInc })
    | .rInc => some (setPc { s with counter := s.counter + 1, r := false } i { t with pc := .rIn })
    | .rIn => some (setPc s i { t with pc := .xWantR })
    | .xWantR => if s.r then none else some (setPc { s with r := true } i { t with pc := .xDec })
    | .xDec =>
      some (setPc { s with counter := s.counter - 1, w := if s.counter - 1 = 0 then false else s.w, r := false } i
        { pc := .idle, prog := t.prog.tail })
    | .wWantW => if s.w then none else some (setPc { s with w := true } i { t with pc := .wIn })
    | .wIn => some (setPc { s with w := false } i { pc := .idle, prog := t.prog.tail })

def run (s : St) : List Nat → Option St
  | [] => some s
  | i :: is => (step s i).bind (fun s' => run s' is)

end Pymap.TRW
