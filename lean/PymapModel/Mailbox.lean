import PymapModel.Sync
import PymapModel.ModSeq
/-!
# Model of the dict backend's `MailboxData` (pymap/backend/dict/mailbox.py)

One definition per backend primitive *piece* that runs without a possible suspension
(DESIGN §3.3): `move` is `pop` then `push`, `copy` is `find` then `push`.
Flags are natural numbers; `\Recent` is never among them (it lives in `Msg.recent`
until claimed, then in the session).
-/
namespace Pymap.Mailbox
open Pymap.ModSeq Pymap.Sync

structure Msg where
  uid    : Nat
  flags  : List Nat
  recent : Bool
  cid    : Nat          -- content identity (shared by copies)
  date   : Nat
deriving Repr, DecidableEq

structure MBox where
  maxUid : Nat
  msgs   : List Msg     -- `_messages`, insertion order = uid order
  log    : Log
deriving Repr

def MBox.new : MBox := ⟨100, [], Log.empty⟩

def MBox.uids (b : MBox) : List Nat := b.msgs.map (·.uid)

def MBox.find (b : MBox) (u : Nat) : Option Msg := b.msgs.find? (fun m => m.uid == u)

def toC (m : Msg) : CMsg := ⟨m.uid, m.flags⟩

/-- `append` / destination half of `copy` and `move` -/
def push (b : MBox) (flags : List Nat) (recent : Bool) (cid date : Nat) : MBox × Nat :=
  let u := b.maxUid + 1
  ({ maxUid := u, msgs := b.msgs ++ [⟨u, flags, recent, cid, date⟩], log := b.log.update [u] }, u)

/-- `update(uid, cached, flag_set, mode)` with the flag operation as a function.
Repaired behaviour (D2): the change log is touched only if the message still exists. -/
def updateFlags (b : MBox) (u : Nat) (f : List Nat → List Nat) : MBox :=
  if u ∈ b.uids then
    { b with msgs := b.msgs.map (fun m => if m.uid = u then { m with flags := f m.flags } else m),
             log := b.log.update [u] }
  else b

/-- `delete(uids)` -/
def delete (b : MBox) (us : List Nat) : MBox :=
  { b with msgs := b.msgs.filter (fun m => !(us.contains m.uid)), log := b.log.expunge us }

/-- source half of `move` -/
def pop (b : MBox) (u : Nat) : MBox × Option Msg :=
  match b.find u with
  | none => (b, none)
  | some m => ({ b with msgs := b.msgs.filter (fun m => m.uid != u), log := b.log.expunge [u] }, some m)

/-- `claim_recent`: returns the uids whose stored recent bit was set -/
def claimRecent (b : MBox) : MBox × List Nat :=
  let us := (b.msgs.filter (·.recent)).map (·.uid)
  ({ b with msgs := b.msgs.map (fun m => { m with recent := false }), log := b.log.update us }, us)

/-- `update_selected(selected)` (without `wait_on`): returns the new view and the new `mod_sequence` -/
def updateSelected (b : MBox) (v : View) (p : Option Nat) (hide : Bool) : View × Nat :=
  match p with
  | none => (addUpdates v (b.msgs.map toC) [] hide, b.log.highest)
  | some p =>
    let r := findUpdated b.log p
    (addUpdates v ((r.1.filterMap b.find).map toC) r.2 hide, b.log.highest)

end Pymap.Mailbox
