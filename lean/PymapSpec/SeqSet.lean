import PymapModel.Seq
/-! RFC 3501 §9 meaning of a sequence set, written directly from the text:
`*` is the largest number in use; `a:b` is the same as `b:a`; a number is addressed only if it
does not exceed the largest number in use (except that `n:*` always reaches the last message). -/
namespace Pymap.Spec
open Pymap.Seq

def elemHas (mx : Nat) (n : Nat) : Elem → Prop
  | .one i => n = i.val mx ∧ n ≤ mx
  | .range l r => min (l.val mx) (r.val mx) ≤ n ∧ n ≤ max (l.val mx) (r.val mx) ∧ n ≤ mx

def seqSet (mx : Nat) (s : List Elem) (n : Nat) : Prop := ∃ e ∈ s, elemHas mx n e

end Pymap.Spec
