import PymapModel.Seq
/-!
# The plain IMAP reference model for message commands (RFC 3501 §6.4, RFC 4315, RFC 6851)

A mailbox is the list of its messages in UID order; a message's sequence number is its position.
Short enough to read in a minute; nothing here knows about views, change logs or sessions.
-/
namespace Pymap.Spec
open Pymap.Seq

structure SMsg where
  uid   : Nat
  flags : List Nat
  cid   : Nat
  date  : Nat
deriving Repr, DecidableEq

abbrev SBox := List SMsg

def deletedF : Nat := 3          -- `\Deleted`
def seenF : Nat := 0             -- `\Seen`

/-- flag operations on duplicate-free flag lists -/
def applyOp (mode : Nat) (operand cur : List Nat) : List Nat :=
  match mode with
  | 0 => operand
  | 1 => cur ++ operand.filter (fun f => !(cur.contains f))
  | _ => cur.filter (fun f => !(operand.contains f))

/-- is the message at position `i` (0-based) addressed by the set (sequence numbers or UIDs)? -/
def addressed (b : SBox) (byUid : Bool) (set : List Elem) (i : Nat) (m : SMsg) : Bool :=
  if byUid then (flatten ((b.map (·.uid)).getLastD 0) set).contains m.uid
  else (flatten b.length set).contains (i + 1)

def mapIdx (f : Nat → SMsg → SMsg) : Nat → SBox → SBox
  | _, [] => []
  | i, m :: r => f i m :: mapIdx f (i + 1) r

def filterIdx (p : Nat → SMsg → Bool) : Nat → SBox → SBox
  | _, [] => []
  | i, m :: r => if p i m then m :: filterIdx p (i + 1) r else filterIdx p (i + 1) r

/-- STORE / UID STORE with `permitted` the mailbox's permanent flags -/
def store (b : SBox) (byUid : Bool) (set : List Elem) (mode : Nat) (fs permitted : List Nat) : SBox :=
  mapIdx (fun i m => if addressed b byUid set i m
    then { m with flags := applyOp mode (fs.filter (fun f => permitted.contains f)) m.flags } else m) 0 b

/-- EXPUNGE -/
def expunge (b : SBox) : SBox := b.filter (fun m => !(m.flags.contains deletedF))

/-- UID EXPUNGE set -/
def uidExpunge (b : SBox) (set : List Elem) : SBox :=
  filterIdx (fun i m => !(m.flags.contains deletedF && addressed b true set i m)) 0 b

/-- APPEND: one new message with the next UID -/
def append (b : SBox) (nextUid : Nat) (flags : List Nat) (cid date : Nat) : SBox := b ++ [⟨nextUid, flags, cid, date⟩]

end Pymap.Spec

namespace Pymap.Spec
open Pymap.Seq

/-- the messages a set addresses, in mailbox order -/
def addressedMsgs (b : SBox) (byUid : Bool) (set : List Elem) : SBox := filterIdx (addressed b byUid set) 0 b

/-- re-number a list of copies with consecutive UIDs from `next` -/
def renumber : Nat → SBox → SBox
  | _, [] => []
  | n, m :: r => { m with uid := n } :: renumber (n + 1) r

/-- COPY: the destination gains a copy of every addressed message — same flags, date and content — under the next UIDs, in order -/
def copy (src dst : SBox) (nextUid : Nat) (byUid : Bool) (set : List Elem) : SBox :=
  dst ++ renumber nextUid (addressedMsgs src byUid set)

/-- the source after MOVE: the addressed messages are gone -/
def moveSrc (src : SBox) (byUid : Bool) (set : List Elem) : SBox :=
  filterIdx (fun i m => !(addressed src byUid set i m)) 0 src

end Pymap.Spec
