import PymapModel
/-!
Line-protocol driver over the executable models (Mathlib-free, compiled as `lean_exe driver`).
One request per line, one reply per line.  Bytes and uid lists are space-separated decimals; `-` = empty.
-/
open Pymap

def parseNats (s : String) : List Nat :=
  if s == "-" then [] else (s.splitOn ",").filterMap String.toNat?

def showNats (l : List Nat) : String := if l.isEmpty then "-" else ",".intercalate (l.map toString)

def showUntagged : Sync.Untagged → String
  | .expunge n => s!"EXPUNGE:{n}"
  | .exists_ n => s!"EXISTS:{n}"
  | .recent n => s!"RECENT:{n}"
  | .fetch s u f r w => s!"FETCH:{s}:{u}:{showNats f}:{r}:{w}"
  | .bye => "BYE"

structure DState where
  view   : Sync.View := Sync.View.empty
  prev   : Option Sync.Frozen := none
  recent : List Nat := []
  sys    : System.Sys := System.Sys.init
  grave  : List (Nat × List Nat) := []   -- dict backend: flags a message had when it was deleted (the aliased cached object)

def parseSet (elems : String) : List Seq.Elem :=
  let idx (t : String) : Seq.Idx := if t == "*" then .star else .num t.toNat!
  (elems.splitOn ";").map (fun e => match e.splitOn ":" with
    | [a] => Seq.Elem.one (idx a)
    | [a, b] => Seq.Elem.range (idx a) (idx b)
    | _ => Seq.Elem.one .star)

/-- repaired `CommandResponse.add_untagged`: the fork's FETCH merges into an earlier FETCH with the same
sequence number only if no EXPUNGE lies between them -/
def assemble (own : List Sync.Untagged) (fork : List Sync.Untagged) : List Sync.Untagged :=
  let hasExp := fork.any (fun r => match r with | .expunge _ => true | _ => false)
  if hasExp then own ++ fork else
  fork.foldl (fun acc r => match r with
    | .fetch s u f rc w =>
      if acc.any (fun a => match a with | .fetch s' _ _ _ _ => s' == s | _ => false) then
        acc.map (fun a => match a with
          | .fetch s' u' _ rc' w' => if s' == s then .fetch s' u' f (rc || rc') (w || w') else a
          | x => x)
      else acc ++ [r]
    | x => acc ++ [x]) own

/-- finish a command of session `i`: sync, fork, assemble with the command's own FETCH lines -/
def finish (sys : System.Sys) (i : Nat) (hide wu : Bool) (own : List Sync.Untagged) : System.Sys × String :=
  match sys.sess[i]? with
  | none => (sys, "no-session")
  | some x =>
    let r := Mailbox.updateSelected sys.box x.view (some x.p) hide
    let out := Sync.compare (Sync.freeze x.view []) (Sync.freeze r.1 []) hide [] wu false
    let sys' := System.step sys (.sync i hide wu)
    let all := assemble own out
    (sys', if all.isEmpty then "-" else " ".intercalate (all.map showUntagged))

/-- `sync add <uid>:<flags>;... | <expunged> | <hide>`  then  `sync fork <hide> <withUid>` -/
def handle (st : DState) (line : String) : DState × String :=
  match line.trimAscii.toString.splitOn " " with
  | ["mime", hex] =>
    let p := Mime.parse (parseNats hex)
    (st, s!"{showNats p.raw} {showNats p.header} {showNats p.body}")
  | ["partial", hex, o, n] =>
    (st, showNats (Mime.getPartial (parseNats hex) o.toNat! (if n == "-" then none else some n.toNat!)))
  | ["seqflat", mx, elems] =>
    -- elems: n | * | a:b, separated by ';'
    let idx (t : String) : Seq.Idx := if t == "*" then .star else .num t.toNat!
    let es := (elems.splitOn ";").map (fun e => match e.splitOn ":" with
      | [a] => Seq.Elem.one (idx a)
      | [a, b] => Seq.Elem.range (idx a) (idx b)
      | _ => Seq.Elem.one .star)
    (st, showNats ((Seq.flatten mx.toNat! es).eraseDups))
  | ["sync", "reset"] => ({}, "ok")
  | ["sync", "add", msgs, exp, hide] =>
    let ms := if msgs == "-" then [] else (msgs.splitOn ";").map (fun m => match m.splitOn ":" with
      | [u, f] => (⟨u.toNat!, parseNats f⟩ : Sync.CMsg)
      | _ => ⟨0, []⟩)
    let v := Sync.addUpdates st.view ms (parseNats exp) (hide == "1")
    ({ st with view := v }, s!"{showNats v.sorted}")
  | ["sync", "fork", hide, wu] =>
    let fr := Sync.freeze st.view st.recent
    let out := match st.prev with
      | none => []
      | some p => Sync.compare p fr (hide == "1") [] (wu == "1") false
    ({ st with prev := some fr }, if out.isEmpty then "-" else " ".intercalate (out.map showUntagged))
  | ["sys", "reset"] => ({ st with sys := System.Sys.init, grave := [] }, "ok")
  | ["sys", "select"] =>
    let sys' := System.step st.sys .select
    let n := match sys'.sess.getLast? with | some x => x.view.uids.length | none => 0
    ({ st with sys := sys' }, s!"EXISTS:{n}")
  | ["sys", "append", i, flags] =>
    let sys1 := System.step st.sys (.append (parseNats flags) false 0 0)
    let (sys2, out) := finish sys1 i.toNat! false false []
    ({ st with sys := sys2 }, out)
  | ["sys", "noop", i] =>
    let (sys2, out) := finish st.sys i.toNat! false false []
    ({ st with sys := sys2 }, out)
  | ["sys", "store", i, byUid, set, mode, flags] =>
    match st.sys.sess[i.toNat!]? with
    | none => (st, "no-session")
    | some x =>
      let bu := byUid == "1"
      let tg := Session.targets x.view bu (parseSet set)
      let box' := Session.storeCmd st.sys.box x.view bu (parseSet set) mode.toNat! (parseNats flags) [0, 1, 2, 3, 4]
      let own := tg.map (fun (p : Nat × Nat) => match box'.find p.2 with
        | some m => Sync.Untagged.fetch p.1 p.2 m.flags false bu
        | none =>   -- expunged meanwhile: the reply is computed from the cached copy (`get(uid, cached_msg)`)
          let cached := (Sync.lookup p.2 st.grave).getD ((Sync.lookup p.2 x.view.fkeys).getD [])
          Sync.Untagged.fetch p.1 p.2 (Session.applyOp mode.toNat! (parseNats flags) cached) false bu)
      let (sys2, out) := finish { st.sys with box := box' } i.toNat! (!bu) bu own
      ({ st with sys := sys2 }, out)
  | ["sys", "expunge", i] =>
    match st.sys.sess[i.toNat!]? with
    | none => (st, "no-session")
    | some x =>
      let box' := Session.expungeCmd st.sys.box x.view none
      let gone := st.sys.box.msgs.filter (fun m => (box'.find m.uid).isNone)
      let (sys2, out) := finish { st.sys with box := box' } i.toNat! false false []
      ({ st with sys := sys2, grave := gone.map (fun m => (m.uid, m.flags)) ++ st.grave }, out)
  | ["modutf7enc", cps] => (st, showNats (ModUtf7.encodeName (parseNats cps)))
  | ["modutf7dec", bs] => (st, match ModUtf7.decodeName (parseNats bs) with | some l => showNats l | none => "ERR")
  | _ => (st, "bad-op")

partial def loop (h : IO.FS.Stream) (st : DState) : IO Unit := do
  let line ← h.getLine
  if line.isEmpty then return ()
  let (st', out) := handle st line
  IO.println out
  (← IO.getStdout).flush
  loop h st'

def main : IO Unit := do loop (← IO.getStdin) {}
