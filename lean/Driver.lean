import PymapModel
/-!
Line-protocol driver over the executable models (Mathlib-free, compiled as `lean_exe driver`).
One request per line, one reply per line.  Bytes and uid lists are space-separated decimals; `-` = empty.
-/
open Pymap

def parseNats (s : String) : List Nat :=
  if s == "-" then [] else (s.splitOn ",").filterMap String.toNat?

def showNats (l : List Nat) : String := if l.isEmpty then "-" else ",".intercalate (l.map toString)

def showUntagged : Sync.Untagged → String
  | .expunge n => s!"EXPUNGE:{n}"
  | .exists_ n => s!"EXISTS:{n}"
  | .recent n => s!"RECENT:{n}"
  | .fetch s u f r w => s!"FETCH:{s}:{u}:{showNats f}:{r}:{w}"
  | .bye => "BYE"

structure DState where
  view   : Sync.View := Sync.View.empty
  prev   : Option Sync.Frozen := none
  recent : List Nat := []
  srv    : Server.Srv := Server.Srv.init 0 0
  conn   : Conn.St := Conn.St.init false false
  connAdv : Option Bool := some false
  sconn  : Sieve.Conn := ⟨none, false, 0⟩
  ns     : Namespace.NS := ⟨0, [], [], 1⟩
  rw     : RWLock.St := RWLock.St.init []
  idle   : Idle.St := Idle.St.init
  faults : Faults.St := ⟨[], [], .start⟩
  sstore : Sieve.Store := []
  lbox   : Mailbox.MBox := Mailbox.MBox.new
  lobs   : List (Sync.View × Option Nat) := []

def showItem : Server.Item → String
  | .expunge n => s!"EXPUNGE:{n}"
  | .exists_ n => s!"EXISTS:{n}"
  | .recent n => s!"RECENT:{n}"
  | .fetch s f r u => s!"FETCH:{s}:" ++ (match f with | some f => showNats f ++ (if r then "+R" else "") | none => "none") ++ ":" ++
      (match u with | some u => toString u | none => "-")
  | .search ids => s!"SEARCH:{showNats ids}"
  | .bye => "BYE"

def showResp (r : Server.Resp) : String :=
  (match r.status with | .ok => "OK" | .no => "NO" | .bad => "BAD") ++ "|" ++ r.code ++ "|" ++
    " ".intercalate (r.items.map showItem)

def parseSet (elems : String) : List Seq.Elem :=
  let idx (t : String) : Seq.Idx := if t == "*" then .star else .num t.toNat!
  (elems.splitOn ";").map (fun e => match e.splitOn ":" with
    | [a] => Seq.Elem.one (idx a)
    | [a, b] => Seq.Elem.range (idx a) (idx b)
    | _ => Seq.Elem.one .star)

def optNat (s : String) : Option Nat := if s == "-" then none else s.toNat?

def parseConnCmd (t : String) : Conn.Cmd :=
  match t.splitOn ":" with
  | ["cap"] => .capability
  | ["noop"] => .noop
  | ["logout"] => .logout
  | ["id"] => .id
  | ["starttls"] => .starttls
  | ["login", who] => .login (optNat who)
  | ["auth", off, ex, who] => .authenticate (off == "1") (ex == "1") (optNat who)
  | ["select", name, ex, be] => .selectCmd name.toNat! (ex == "1") (if be == "-" then none else some (be == "1"))
  | ["mbox", ok] => .mailboxCmd (ok == "1")
  | ["inboxguard"] => .inboxGuard
  | ["check"] => .check
  | ["close"] => .close
  | ["msg", w, ok] => .msgCmd (w == "1") (ok == "1")
  | ["idle", ok] => .idle (ok == "1")
  | _ => .invalid

def showConnResp : Conn.Resp → String
  | .ok => "OK" | .no => "NO" | .bad => "BAD" | .byeOk => "BYE+OK" | .badBye => "BYE+BAD"

def showConnSt (s : Conn.St) : String :=
  (match s.user with | some u => toString u | none => "-") ++ " " ++
  (match s.selected with | some (n, ro) => s!"{n}:{if ro then 1 else 0}" | none => "-") ++ " " ++
  (if s.closed then "closed" else "open") ++ " " ++ (if s.loginOff then "nomech" else "mech")

def parseSieveCmd (t : String) : Sieve.Cmd :=
  match t.splitOn ":" with
  | ["noop"] => .noop
  | ["cap"] => .capability
  | ["logout"] => .logout
  | ["starttls"] => .starttls
  | ["auth", u, ok] => .authenticate u.toNat! (ok == "1")
  | ["unauth"] => .unauthenticate
  | ["havespace", n, sz] => .havespace (parseNats n) sz.toNat!
  | ["put", n, sc] => .putscript (parseNats n) (parseNats sc)
  | ["list"] => .listscripts
  | ["setactive", n] => .setactive (if n == "none" then none else some (parseNats n))
  | ["get", n] => .getscript (parseNats n)
  | ["delete", n] => .deletescript (parseNats n)
  | ["rename", o, n] => .renamescript (parseNats o) (parseNats n)
  | ["check", sc, c] => .checkscript (parseNats sc) (c == "1")
  | _ => .noop

def showSieveResp : Sieve.Resp → String
  | .ok => "OK"
  | .no code => "NO:" ++ code
  | .bye => "BYE"
  | .caps => "CAPS"
  | .script sc => "SCRIPT:" ++ showNats sc
  | .list names => "LIST:" ++ ";".intercalate (names.map (fun p => showNats p.1 ++ "=" ++ (if p.2 then "1" else "0")))

def dotNats (s : String) : List Nat := if s == "-" then [] else (s.splitOn ".").filterMap String.toNat?

/-- prefix-notation search key: returns the key and the remaining tokens -/
def parseKey : Nat → List String → Option (Search.Key × List String)
  | 0, _ => none
  | _ + 1, [] => none
  | fuel + 1, tok :: rest =>
    match tok with
    | "all" => some (.all, rest)
    | "seq" => match rest with | s :: r => some (.seqset false (parseSet s), r) | _ => none
    | "uid" => match rest with | s :: r => some (.seqset true (parseSet s), r) | _ => none
    | "flag" => match rest with | f :: e :: r => some (.flag f.toNat! (e == "1"), r) | _ => none
    | "new" => some (.new_ 9 0, rest)
    | "idate" => match rest with | o :: d :: r => some (.idate o.toNat! (Int.ofNat d.toNat!), r) | _ => none
    | "sdate" => match rest with | o :: d :: r => some (.sdate o.toNat! (Int.ofNat d.toNat!), r) | _ => none
    | "size" => match rest with | l :: n :: r => some (.size (l == "1") n.toNat!, r) | _ => none
    | "text" => match rest with | i :: r => some (.text i.toNat!, r) | _ => none
    | "not" => match parseKey fuel rest with | some (k, r) => some (.not k, r) | none => none
    | "or" => match parseKey fuel rest with
      | some (a, r) => match parseKey fuel r with | some (b, r') => some (.or a b, r') | none => none
      | none => none
    | "and" => match rest with
      | n :: r =>
        let rec go (fuel : Nat) (k : Nat) (acc : List Search.Key) (r : List String) : Option (List Search.Key × List String) :=
          match fuel, k with
          | _, 0 => some (acc.reverse, r)
          | 0, _ => none
          | f + 1, k + 1 => match parseKey f r with | some (x, r') => go f k (x :: acc) r' | none => none
        match go fuel n.toNat! [] r with | some (ks, r') => some (.keyset ks, r') | none => none
      | _ => none
    | _ => none

def parseKeys (fuel : Nat) (toks : List String) : List Search.Key :=
  match fuel with
  | 0 => []
  | f + 1 => match toks with
    | [] => []
    | _ => match parseKey 64 toks with
      | some (k, r) => k :: parseKeys f r
      | none => []

def parseSMsg (t : String) : Option Search.Msg :=
  match t.splitOn "," with
  | [sq, u, fl, idt, sd, sz, orc] =>
    let ids := dotNats orc
    some { seq := sq.toNat!, uid := u.toNat!, flags := dotNats fl, idate := Int.ofNat idt.toNat!,
           sdate := if sd == "-" then none else some (Int.ofNat sd.toNat!), size := sz.toNat!, oracle := fun i => ids.contains i }
  | _ => none

def showPC : RWLock.PC → String
  | .idle => "idle" | .rWaitR => "rWaitR" | .rWaitW => "rWaitW" | .rIn => "rIn" | .wWaitW => "wWaitW" | .wIn => "wIn"
  | .cR => "cR" | .cRW => "cRW" | .cW => "cW" | .dead => "dead"

def showRW (s : RWLock.St) : String :=
  s!"{s.counter} " ++ " ".intercalate (s.tasks.map (fun t => showPC t.pc ++ ":" ++ toString t.prog.length))

def showIdle (s : Idle.St) : String :=
  s!"{s.highest} {s.consumed} {s.written} " ++ (match s.pc with | .arm => "arm" | .wait => "wait" | .consume => "consume" | .write => "write" | .exit => "exit") ++
  " " ++ (match s.fired with | none => "none" | some b => toString b) ++ " " ++ toString s.done

def showFaults (s : Faults.St) : String :=
  showNats s.src ++ " " ++ showNats s.dst ++ " " ++ (match s.pc with
    | .start => "start" | .holding _ => "holding" | .copied _ => "copied" | .done => "done" | .cancelled => "cancelled")

def parseMCmd (t : String) : Option MaildirFS.Cmd :=
  match t.splitOn ":" with
  | ["a", k, i] => some (.append k.toNat! i.toNat!)
  | ["e", k] => some (.expunge k.toNat!)
  | ["f", k, i] => some (.setFlags k.toNat! i.toNat!)
  | ["c"] => some .cleanup
  | _ => none

def opKind : MaildirFS.FsOp → String
  | .createTmp _ => "createTmp" | .link _ _ => "link" | .removeTmp _ => "removeTmp" | .lockCreate => "lockCreate" | .lockRemove => "lockRemove"
  | .renameUL _ => "renameUL" | .renameInfo _ _ => "renameInfo" | .removeFile _ => "removeFile"

/-- run the complete commands, then the first `n` system calls of the last one, then `recover` -/
def mfsRun (cmds : List MaildirFS.Cmd) (n : Nat) : String :=
  let d0 : MaildirFS.Disk := ⟨[], [], ⟨7, 1, []⟩, false⟩
  match cmds.reverse with
  | [] => "-"
  | last :: revInit =>
    let d := revInit.reverse.foldl (fun d c => (MaildirFS.ops d c).foldl MaildirFS.apply d) d0
    let os := MaildirFS.ops d last
    let crashed := (os.take n).foldl MaildirFS.apply d
    let r := MaildirFS.recover crashed
    s!"{os.length} {r.ul.next} " ++ ",".intercalate (os.map opKind) ++ " " ++
      (let l := MaildirFS.listing r; if l.isEmpty then "-" else ";".intercalate (l.map (fun x => s!"{x.1}:{x.2.1}:{x.2.2}")))

def srvOut (st : DState) (r : Server.Srv × Server.Resp) : DState × String := ({ st with srv := r.1 }, showResp r.2)

/-- `sync add <uid>:<flags>;... | <expunged> | <hide>`  then  `sync fork <hide> <withUid>` -/
def handle (st : DState) (line : String) : DState × String :=
  match line.trimAscii.toString.splitOn " " with
  | ["mime", hex] =>
    let p := Mime.parse (parseNats hex)
    (st, s!"{showNats p.raw} {showNats p.header} {showNats p.body}")
  | ["partial", hex, o, n] =>
    (st, showNats (Mime.getPartial (parseNats hex) o.toNat! (if n == "-" then none else some n.toNat!)))
  | ["seqflat", mx, elems] =>
    -- elems: n | * | a:b, separated by ';'
    let idx (t : String) : Seq.Idx := if t == "*" then .star else .num t.toNat!
    let es := (elems.splitOn ";").map (fun e => match e.splitOn ":" with
      | [a] => Seq.Elem.one (idx a)
      | [a, b] => Seq.Elem.range (idx a) (idx b)
      | _ => Seq.Elem.one .star)
    (st, showNats ((Seq.flatten mx.toNat! es).eraseDups))
  | ["sync", "reset"] => ({}, "ok")
  | ["sync", "add", msgs, exp, hide] =>
    let ms := if msgs == "-" then [] else (msgs.splitOn ";").map (fun m => match m.splitOn ":" with
      | [u, f] => (⟨u.toNat!, parseNats f⟩ : Sync.CMsg)
      | _ => ⟨0, []⟩)
    let v := Sync.addUpdates st.view ms (parseNats exp) (hide == "1")
    ({ st with view := v }, s!"{showNats v.sorted}")
  | ["sync", "fork", hide, wu] =>
    let fr := Sync.freeze st.view st.recent
    let out := match st.prev with
      | none => []
      | some p => Sync.compare p fr (hide == "1") [] (wu == "1") false
    ({ st with prev := some fr }, if out.isEmpty then "-" else " ".intercalate (out.map showUntagged))
  | "search" :: mxs :: mxu :: msgs :: keys =>
    let view := if msgs == "-" then [] else (msgs.splitOn ";").filterMap parseSMsg
    let ks := parseKeys 64 keys
    (st, showNats ((Search.search view mxs.toNat! mxu.toNat! ks).map (·.uid)))
  | ["num", "ser", n] => (st, showNats (Wire.digits n.toNat!))
  | ["num", "parse", bs] => let r := Grammar.readNum 0 (parseNats bs); (st, s!"{r.1} {showNats r.2}")
  | ["quoted", "parse", bs] =>
    (st, match Wire.parseQuoted (parseNats bs) with
      | some (v, rest) => s!"{showNats v} {showNats rest}"
      | none => "ERR")
  | ["quoted", "ser", bs] => (st, showNats (Wire.serQuoted (parseNats bs)))
  | ["build", bin, bs] => (st, showNats (Wire.buildString (bin == "1") (parseNats bs)))
  | ["literal", bin, bs] => (st, showNats (Wire.serLiteral (bin == "1") (parseNats bs)))
  | ["wf", bs] => (st, if Grammar.wf (parseNats bs) then "1" else "0")
  | ["loop", bad, o] =>
    let oc : Option Loop.Outcome := match o.splitOn ":" with
      | ["resp", b, t] => some (.resp (b == "1") (t == "1"))
      | ["rerr", t] => some (.responseError (t == "1"))
      | ["autherr"] => some .authError
      | ["timeout"] => some .timeout
      | ["cancelled"] => some .cancelled
      | ["connlost"] => some .connLost
      | ["other"] => some .other
      | ["writefails"] => some .writeFails
      | _ => none
    match oc with
    | none => (st, "bad-op")
    | some oc =>
      let r := Loop.handle ⟨bad.toNat!⟩ oc
      (st, ",".intercalate (r.1.map (fun w => match w with | .tagged => "tagged" | .bye => "bye" | .byeServerBug => "serverbug")) ++
        " " ++ (if r.2.1 then "continue" else "close") ++ " " ++ toString r.2.2.bad)
  | ["layout", kind, name] =>
    -- name: code points; delimiter '/'; prints REJECT or the lexically resolved path below the user directory
    let parts := Layout.splitOn Layout.slash (parseNats name)
    if (parseNats name) == [73, 78, 66, 79, 88] then (st, "INBOX")
    else if !(if kind == "default" then Layout.validPartsDefault parts else Layout.validParts parts) then (st, "REJECT")
    else
      let p := if kind == "default" then Layout.defaultPath [] parts else Layout.fsPath [] parts
      match Layout.norm p with
      | none => (st, "ESCAPE")
      | some q => (st, if q.isEmpty then "SELF" else "/".intercalate (q.map showNats))
  | ["faults", "reset", src, dst] => let s0 : Faults.St := ⟨parseNats src, parseNats dst, .start⟩; ({ st with faults := s0 }, showFaults s0)
  | ["faults", "step", rep, c, l, x] =>
    let lab : Faults.Label := if l == "step" then .step else if l == "cancel" then .cancel
      else if l == "oexp" then .otherExpunge x.toNat! else if l == "ocopy" then .otherCopyDst x.toNat! else .otherAppend x.toNat!
    match Faults.step (rep == "1") c.toNat! st.faults lab with
    | some s' => ({ st with faults := s' }, showFaults s')
    | none => (st, "DISABLED")
  | ["mfs", cmds, n] => (st, mfsRun ((cmds.splitOn ";").filterMap parseMCmd) n.toNat!)
  | ["idle", "reset"] => ({ st with idle := Idle.St.init }, showIdle Idle.St.init)
  | ["idle", "step", rep, l] =>
    let lab : Idle.Label := if l == "change" then .change else if l == "done" then .clientDone else .idler
    match Idle.step (rep == "1") st.idle lab with
    | some s' => ({ st with idle := s' }, showIdle s')
    | none => (st, "PARKED")
  | ["idle", "drain", rep, n] =>
    let s' := Idle.drain (rep == "1") n.toNat! st.idle
    ({ st with idle := s' }, showIdle s')
  | ["rw", "reset", progs] =>
    let ps := (progs.splitOn ";").map (fun p => if p == "-" then [] else (p.splitOn ",").map (· == "1"))
    let s0 := RWLock.St.init ps
    ({ st with rw := s0 }, showRW s0)
  | ["rw", "run", i] =>
    match RWLock.step st.rw (.run i.toNat!) with
    | some s' => ({ st with rw := s' }, showRW s')
    | none => (st, "DISABLED")
  | ["rw", "cancel", i] =>
    match RWLock.step st.rw (.cancel i.toNat!) with
    | some s' => ({ st with rw := s' }, showRW s')
    | none => (st, "DISABLED")
  | ["rw", "state"] => (st, showRW st.rw)
  | ["frame", bytes] =>
    let s := parseNats bytes
    match Framing.readCmd (s.length + 2) s with
    | some (c, _) => (st, toString c.length)
    | none => (st, "none")
  | ["seqtext", bytes] =>
    -- `SequenceSet.parse` on raw bytes: elements as n | * | a:b separated by spaces, then | and the rest
    let showIdx (i : Seq.Idx) : String := match i with | .star => "*" | .num n => toString n
    let showElem (e : Seq.Elem) : String := match e with | .one i => showIdx i | .range l r => showIdx l ++ ":" ++ showIdx r
    match SeqText.parse (parseNats bytes) with
    | some (es, rest) => (st, " ".intercalate (es.map showElem) ++ "|" ++ showNats rest)
    | none => (st, "none")
  | ["copyuid", srcs, dsts] =>
    -- the pairs a client reads off COPYUID when the copies (src_i, dst_i) were made: both sides sorted independently
    let a := CopyUid.announce ((parseNats srcs).zip (parseNats dsts))
    (st, showNats (a.map Prod.fst) ++ "|" ++ showNats (a.map Prod.snd))
  | ["appendcancel", before, lits] =>
    -- lits: m<k> a message of k bytes, e the empty literal; before: number of messages in the mailbox
    let ls : List AppendCancel.Lit := if lits == "-" then [] else (lits.splitOn ",").map (fun t => if t == "e" then .empty else .msg (List.replicate ((t.drop 1).toString.toNat?.getD 0) 0))
    let r := AppendCancel.doAppend true (List.replicate before.toNat! []) ls
    (st, (match r.2 with | .ok => "OK" | .no => "NO" | .bad => "BAD") ++ " " ++ toString r.1.length)
  | ["flagnorm", bytes] => (st, showNats (FlagText.norm (parseNats bytes)))
  | ["done", bytes] =>
    match Done.parseDone (parseNats bytes) with
    | some (d, rest) => (st, (if d then "1" else "0") ++ "|" ++ showNats rest)
    | none => (st, "none")
  | ["zone", "fmt", z] => (st, match z.toInt? with | some v => showNats (Zone.fmt v) | none => "bad-int")
  | ["zone", "parse", bytes] => (st, match Zone.parse (parseNats bytes) with | some v => toString v | none => "none")
  | ["astring", maxLen, bytes] =>
    match AStr.parse maxLen.toNat! (parseNats bytes) with
    | some (v, rest) => (st, s!"{showNats v}|{showNats rest}")
    | none => (st, "none")
  | ["struct", what, toks] =>
    -- the shape recognisers of `Structure` on a token stream (the harness sends what the real server wrote)
    match Structure.parseToks (toks.splitOn ",") with
    | none => (st, "unreadable")
    | some t => (st, if (if what == "env" then Structure.isEnvelope t else Structure.isBody t) then "1" else "0")
  | ["flock", labels] =>
    -- replay a recorded trace of `_try_lock` successes (t<i>), `_unlock` calls (u<i>), expirations (x) and stale files (s)
    let ls := if labels == "-" then [] else labels.splitOn ","
    let parse (t : String) : Option FileLock.Label :=
      if t == "x" then some .expire else if t == "s" then some .stale
      else if t.startsWith "t" then (t.drop 1).toString.toNat?.map .tryLock
      else if t.startsWith "u" then (t.drop 1).toString.toNat?.map .unlock else none
    let rec go (s : FileLock.St) (k : Nat) : List String → String
      | [] => s!"ok file={if s.file then 1 else 0} holders={showNats s.holders}"
      | t :: r => match parse t with
        | none => s!"bad-label {t}"
        | some l => match FileLock.step s l with
          | some s' => go s' (k + 1) r
          | none => s!"stuck {k} {t} file={if s.file then 1 else 0} holders={showNats s.holders}"
    (st, go FileLock.St.init 0 ls)
  | ["trw", progs, events] =>
    -- replay the primitive mutex operations recorded on the real threading lock (i:aR i:aW i:rR i:rW) through `TRW.step`
    let ps := (progs.splitOn ";").map (fun p => if p == "-" then [] else (p.splitOn ",").map (· == "1"))
    let evs := if events == "-" then [] else events.splitOn ","
    let pcOf (s : TRW.St) (i : Nat) : Option TRW.PC := (s.tasks[i]?).map (·.pc)
    let show_ (s : TRW.St) : String := s!"r={if s.r then 1 else 0} w={if s.w then 1 else 0} c={s.counter}"
    -- the steps of thread `i` that end with the recorded operation
    let advance (s : TRW.St) (i : Nat) (op : String) : Option TRW.St :=
      let st1 (s : TRW.St) := TRW.step s i
      match op, pcOf s i with
      | "aR", some .idle => (st1 s).bind st1
      | "aR", some .rIn => (st1 s).bind st1
      | "aW", some .idle => (st1 s).bind st1
      | "aW", some .rHoldR => if s.counter = 0 then (st1 s).bind st1 else none
      | "rR", some .rHoldR => if s.counter = 0 then none else (st1 s).bind st1
      | "rR", some .rInc => st1 s
      | "rR", some .xDec => st1 s
      | "rW", some .xDec => if s.counter - 1 = 0 then some s else none
      | "rW", some .wIn => st1 s
      | _, _ => none
    let rec goT (s : TRW.St) (k : Nat) : List String → String
      | [] => s!"ok {show_ s}"
      | e :: r => match e.splitOn ":" with
        | [i, op] => match advance s i.toNat! op with
          | some s' => goT s' (k + 1) r
          | none => s!"stuck {k} {e} {show_ s}"
        | _ => s!"bad-event {e}"
    (st, goT (TRW.St.init ps) 0 evs)
  | ["ns", "reset"] => ({ st with ns := ⟨0, [], [], 1⟩ }, "ok")
  | ["ns", "create", n] => let r := Namespace.create st.ns (parseNats n); ({ st with ns := r.1 }, if r.2 == .ok then "OK" else "NO")
  | ["ns", "delete", n] => let r := Namespace.delete st.ns (parseNats n); ({ st with ns := r.1 }, if r.2 == .ok then "OK" else "NO")
  | ["ns", "rename", f, t] => let r := Namespace.rename st.ns (parseNats f) (parseNats t); ({ st with ns := r.1 }, if r.2 == .ok then "OK" else "NO")
  | ["ns", "list", ref, pat] =>
    let es := Namespace.listMatching st.ns.names (parseNats ref) (parseNats pat)
    (st, if es.isEmpty then "-" else " ".intercalate (es.map (fun e => s!"{showNats e.name}|{if e.exists_ then 1 else 0}|{if e.hasChildren then 1 else 0}")))
  | ["ns", "ids"] => (st, s!"{st.ns.inboxId} " ++ " ".intercalate (st.ns.boxes.map (fun b => s!"{showNats b.1}={b.2}")))
  | ["wild", ci, pat, name] => (st, if Namespace.wildDP (ci == "1") (parseNats pat) (parseNats name) then "1" else "0")
  | ["sieve", "reset", maxLen, tls] => ({ st with sconn := ⟨none, tls == "1", maxLen.toNat!⟩, sstore := [] }, "ok")
  | ["sieve", "newconn", maxLen, tls] => ({ st with sconn := ⟨none, tls == "1", maxLen.toNat!⟩ }, "ok")
  | ["sieve", "step", c] =>
    let r := Sieve.step st.sconn st.sstore (parseSieveCmd c)
    ({ st with sconn := r.1, sstore := r.2.1 }, showSieveResp r.2.2 ++ " " ++ (match r.1.user with | some u => toString u | none => "-"))
  | ["sieve1", maxLen, slot, c] =>
    -- the one-script store of the maildir backend (stateless: the harness carries each user's slot)
    let sl : SieveSingle.Slot := if slot == "none" then none else some (parseNats slot)
    let r := SieveSingle.runState maxLen.toNat! sl (parseSieveCmd c)
    (st, showSieveResp r.2 ++ "|" ++ (match r.1 with | some v => showNats v | none => "none"))
  | ["conn", "reset", lo, tls] =>
    let w := Conn.Wire.init (lo == "1") (tls == "1")
    ({ st with conn := w.st, connAdv := w.adv }, "ok")
  | ["conn", "step", c] =>
    let r := Conn.wstep ⟨st.conn, st.connAdv⟩ (parseConnCmd c)
    ({ st with conn := r.1.st, connAdv := r.1.adv },
     showConnResp r.2 ++ " " ++ showConnSt r.1.st ++ " adv=" ++ (match r.1.adv with | some true => "1" | some false => "0" | none => "-"))
  | ["log", "reset"] => ({ st with lbox := Mailbox.MBox.new, lobs := [] }, "ok")
  | ["log", "observer", _] => ({ st with lobs := st.lobs ++ [(Sync.View.empty, none)] }, "ok")
  | ["log", "update", us] =>
    let b := (parseNats us).foldl (fun b u =>
      if u ∈ b.uids then Mailbox.updateFlags b u id
      else { b with maxUid := u, msgs := b.msgs ++ [⟨u, [], false, 0, 0⟩], log := b.log.update [u] }) st.lbox
    ({ st with lbox := b }, "ok")
  | ["log", "expunge", us] => ({ st with lbox := Mailbox.delete st.lbox (parseNats us) }, "ok")
  | ["log", "sync", k] =>
    match st.lobs[k.toNat!]? with
    | none => (st, "no-observer")
    | some (v, p) =>
      let r := Mailbox.updateSelected st.lbox v p false
      ({ st with lobs := st.lobs.set k.toNat! (r.1, some r.2) }, showNats r.1.sorted)
  | ["srv", "reset", nb, ns] => ({ st with srv := Server.Srv.init nb.toNat! ns.toNat! }, "ok")
  | ["srv", "select", i, box, ex] => srvOut st (Server.select st.srv i.toNat! box.toNat! (ex == "1"))
  | ["srv", "append", i, dest, flags, pick, cid, date] =>
    srvOut st (Server.append st.srv i.toNat! dest.toNat! (parseNats flags) pick.toNat! cid.toNat! date.toNat!)
  | ["srv", "store", i, byUid, set, mode, flags, silent] =>
    srvOut st (Server.store st.srv i.toNat! (byUid == "1") (parseSet set) mode.toNat! (parseNats flags) (silent == "1"))
  | ["srv", "fetch", i, byUid, set, wantFlags, wantUid, setsSeen] =>
    srvOut st (Server.fetch st.srv i.toNat! (byUid == "1") (parseSet set) (wantFlags == "1") (wantUid == "1") (setsSeen == "1"))
  | ["srv", "expunge", i, set] =>
    srvOut st (Server.expunge st.srv i.toNat! (if set == "-" then none else some (parseSet set)))
  | ["srv", "copy", i, mv, byUid, set, dest, pick] =>
    srvOut st (Server.copyMove st.srv i.toNat! (mv == "1") (byUid == "1") (parseSet set) dest.toNat! pick.toNat!)
  | ["srv", "noop", i] => srvOut st (Server.noop st.srv i.toNat!)
  | ["srv", "status", i, box] => srvOut st (Server.status st.srv i.toNat! box.toNat!)
  | ["srv", "check", i] => srvOut st (Server.check st.srv i.toNat!)
  | ["srv", "close", i] => srvOut st (Server.close st.srv i.toNat!)
  | ["srv", "search", i, byUid, seqs, uids, tests] =>
    let ts := if tests == "-" then [] else (tests.splitOn ";").map (fun t => match t.splitOn ":" with
      | [f, e] => (f.toNat!, e == "1")
      | _ => (0, true))
    srvOut st (Server.search st.srv i.toNat! (byUid == "1") (if seqs == "-" then none else some (parseSet seqs))
      (if uids == "-" then none else some (parseSet uids)) ts)
  | ["srv", "dump", box] =>
    let b := st.srv.box box.toNat!
    (st, s!"{b.maxUid} " ++ (if b.msgs.isEmpty then "-" else " ".intercalate (b.msgs.map (fun m =>
      s!"{m.uid}:{showNats m.flags}:{if m.recent then 1 else 0}:{m.cid}"))))
  | ["modutf7enc", cps] => (st, showNats (ModUtf7.encodeName (parseNats cps)))
  | ["modutf7dec", bs] => (st, match ModUtf7.decodeName (parseNats bs) with | some l => showNats l | none => "ERR")
  | _ => (st, "bad-op")

partial def loop (h : IO.FS.Stream) (st : DState) : IO Unit := do
  let line ← h.getLine
  if line.isEmpty then return ()
  let (st', out) := handle st line
  IO.println out
  (← IO.getStdout).flush
  loop h st'

def main : IO Unit := do loop (← IO.getStdin) {}
