import PymapSpec.SeqSet
import PymapSpec.Imap
