import PymapProofs.Lemmas.Mailbox
import PymapProofs.Lemmas.Client
/-!
# C04 — UIDs are strictly increasing, never reused, and truthfully reported (dict backend part)
-/
namespace Pymap.C04
open Pymap.Mailbox Pymap.ModSeq

/-- every mutation of one mailbox object, in the order the store sees them (any sessions, any schedule) -/
inductive MOp
  | push (flags : List Nat) (recent : Bool) (cid date : Nat)     -- APPEND / COPY / MOVE destination / delivery
  | store (u : Nat) (f : List Nat)
  | delete (us : List Nat)                                        -- EXPUNGE / MOVE source
deriving Repr

/-- run the operations, collecting the UIDs handed out, in order -/
def runM : MBox → List MOp → MBox × List Nat
  | b, [] => (b, [])
  | b, .push fl r c d :: ops =>
    let p := push b fl r c d
    let rest := runM p.1 ops
    (rest.1, p.2 :: rest.2)
  | b, .store u f :: ops => runM (updateFlags b u (fun _ => f)) ops
  | b, .delete us :: ops => runM (delete b us) ops

/-- `MailboxSnapshot.next_uid` as computed by `snapshot()` -/
def uidNext (b : MBox) : Nat := b.maxUid + 1

theorem push_fst_maxUid (b : MBox) (fl : List Nat) (r : Bool) (c d : Nat) :
    (push b fl r c d).1.maxUid = b.maxUid + 1 ∧ (push b fl r c d).2 = b.maxUid + 1 := ⟨rfl, rfl⟩

theorem updateFlags_maxUid (b : MBox) (u : Nat) (f : List Nat → List Nat) : (updateFlags b u f).maxUid = b.maxUid := by
  unfold updateFlags; split <;> rfl

/-- **monotone, never reused**: whatever happens to the mailbox — including expunging the highest
message and appending again — every UID handed out exceeds every UID handed out before it and every
UID that existed before, and the counter only grows -/
theorem C04_uid_monotone : ∀ (ops : List MOp) (b : MBox),
    let r := runM b ops
    r.2.Pairwise (· < ·) ∧ (∀ a ∈ r.2, b.maxUid < a ∧ a ≤ r.1.maxUid) ∧ b.maxUid ≤ r.1.maxUid
  | [], b => by simp [runM]
  | .push fl rc c d :: ops, b => by
    have ih := C04_uid_monotone ops (push b fl rc c d).1
    obtain ⟨i1, i2, i3⟩ := ih
    simp only [runM]
    have hm := (push_fst_maxUid b fl rc c d)
    refine ⟨?_, ?_, ?_⟩
    · rw [List.pairwise_cons]; refine ⟨?_, i1⟩
      intro a ha; have := (i2 a ha).1; rw [hm.1] at this; rw [hm.2]; exact this
    · intro a ha; simp at ha; rcases ha with rfl | ha
      · rw [hm.2]; rw [hm.1] at i3; omega
      · have := i2 a ha; rw [hm.1] at this; omega
    · rw [hm.1] at i3; omega
  | .store u f :: ops, b => by
    have ih := C04_uid_monotone ops (updateFlags b u (fun _ => f))
    simp only [runM]; rw [updateFlags_maxUid] at ih; exact ih
  | .delete us :: ops, b => by
    have ih := C04_uid_monotone ops (delete b us)
    simp only [runM]; exact ih

/-- **UIDNEXT is truthful**: greater than every existing UID, and exactly the next UID assigned -/
theorem C04_uidnext (b : MBox) (h : MBoxInv b) (fl : List Nat) (r : Bool) (c d : Nat) :
    (∀ u ∈ b.uids, u < uidNext b) ∧ (push b fl r c d).2 = uidNext b :=
  ⟨fun u hu => by have := h.le u hu; unfold uidNext; omega, rfl⟩

/-- the UID reported by APPENDUID / as COPYUID destination is the one the message is stored under -/
theorem C04_appenduid (b : MBox) (fl : List Nat) (r : Bool) (c d : Nat) :
    ∃ m ∈ (push b fl r c d).1.msgs, m.uid = (push b fl r c d).2 ∧ m.cid = c ∧ m.flags = fl := by
  exact ⟨⟨b.maxUid + 1, fl, r, c, d⟩, by simp [push], rfl, rfl, rfl⟩

theorem sortAsc_of_sorted {l : List Nat} (h : l.Pairwise (· < ·)) : Sync.sortAsc l = l :=
  Sync.sorted_unique (Sync.sortAsc_pairwise (Sync.pairwise_lt_nodup h)) h (fun _ => Sync.mem_sortAsc)

/-- COPYUID pairing: the response code sorts (and range-compresses) the source UIDs and the
destination UIDs *separately*; because sources are visited in ascending order and destinations are
handed out in ascending order, the i-th of one still belongs to the i-th of the other -/
theorem C04_copyuid_pairing (pairs : List (Nat × Nat))
    (hs : (pairs.map (·.1)).Pairwise (· < ·)) (hd : (pairs.map (·.2)).Pairwise (· < ·)) :
    (Sync.sortAsc (pairs.map (·.1))).zip (Sync.sortAsc (pairs.map (·.2))) = pairs := by
  rw [sortAsc_of_sorted hs, sortAsc_of_sorted hd]
  induction pairs with
  | nil => rfl
  | cons p ps ih =>
    simp only [List.map_cons, List.pairwise_cons] at hs hd
    simp [ih hs.2 hd.2]

example : (runM MBox.new [.push [] false 1 0, .push [] false 2 0, .delete [102], .push [] false 3 0]).2 = [101, 102, 103] := by
  decide

end Pymap.C04
