import PymapModel.Search
import PymapProofs.C10_seq
/-!
# C13 — SEARCH returns exactly the matching messages
-/
namespace Pymap.C13
open Pymap.Search Pymap.Seq Pymap.Spec

/-- RFC 3501 §6.4.4, key by key, as a proposition (string keys: the oracle) -/
def sem (maxSeq maxUid : Nat) : Key → Msg → Prop
  | .all, _ => True
  | .seqset uid s, m => if uid then seqSet maxUid s m.uid else seqSet maxSeq s m.seq
  | .keyset ks, m => ∀ k ∈ ks, sem maxSeq maxUid k m
  | .or a b, m => sem maxSeq maxUid a m ∨ sem maxSeq maxUid b m
  | .not k, m => ¬ sem maxSeq maxUid k m
  | .flag f e, m => (f ∈ m.flags) ↔ e = true
  | .new_ r s, m => r ∈ m.flags ∧ s ∉ m.flags
  | .idate op d, m => cmpDate op m.idate d = true
  | .sdate op d, m => ∃ x, m.sdate = some x ∧ cmpDate op x d = true
  | .size larger n, m => if larger then m.size > n else m.size < n
  | .text id, m => m.oracle id = true

mutual
theorem crit_iff (maxSeq maxUid : Nat) : ∀ (k : Key) (m : Msg), crit maxSeq maxUid k m = true ↔ sem maxSeq maxUid k m
  | .all, _ => by simp [crit, sem]
  | .seqset uid s, m => by
    cases uid <;> simp [crit, sem, C10.C10_seqset]
  | .keyset ks, m => by
    simp only [crit, sem]; exact critAll_iff maxSeq maxUid ks m
  | .or a b, m => by
    simp only [crit, sem, Bool.or_eq_true, crit_iff maxSeq maxUid a m, crit_iff maxSeq maxUid b m]
  | .not k, m => by
    simp only [crit, sem, Bool.not_eq_true', ← crit_iff maxSeq maxUid k m]
    cases crit maxSeq maxUid k m <;> simp
  | .flag f e, m => by
    simp only [crit, sem]
    cases e <;> simp
  | .new_ r s, m => by simp [crit, sem]
  | .idate op d, m => by simp [crit, sem]
  | .sdate op d, m => by
    simp only [crit, sem]
    cases m.sdate <;> simp
  | .size larger n, m => by
    cases larger <;> simp [crit, sem]
  | .text id, m => by simp [crit, sem]
theorem critAll_iff (maxSeq maxUid : Nat) : ∀ (ks : List Key) (m : Msg),
    critAll maxSeq maxUid ks m = true ↔ ∀ k ∈ ks, sem maxSeq maxUid k m
  | [], _ => by simp [critAll]
  | k :: ks, m => by
    simp only [critAll, Bool.and_eq_true, crit_iff maxSeq maxUid k m, critAll_iff maxSeq maxUid ks m]
    simp
end

theorem topSeqSet_mem {ks : List Key} {uid : Bool} {s : List Elem} (h : topSeqSet ks = some (uid, s)) :
    Key.seqset uid s ∈ ks := by
  induction ks with
  | nil => simp [topSeqSet] at h
  | cons k ks ih =>
    cases k <;> simp only [topSeqSet] at h <;> (try exact List.mem_cons_of_mem _ (ih h))
    simp at h; obtain ⟨rfl, rfl⟩ := h; simp

theorem critAll_of_mem {maxSeq maxUid : Nat} {ks : List Key} {m : Msg} {k : Key}
    (h : critAll maxSeq maxUid ks m = true) (hk : k ∈ ks) : crit maxSeq maxUid k m = true := by
  rw [critAll_iff] at h; rw [crit_iff]; exact h k hk

/-- scanning only the first top-level set does not change the result of the conjunction -/
theorem C13_prefilter_sound (view : List Msg) (maxSeq maxUid : Nat) (ks : List Key) :
    search view maxSeq maxUid ks = view.filter (critAll maxSeq maxUid ks) := by
  unfold search
  cases h : topSeqSet ks with
  | none => rfl
  | some p =>
    obtain ⟨uid, s⟩ := p
    simp only [List.filter_filter]
    apply List.filter_congr
    intro m _
    cases hc : critAll maxSeq maxUid ks m with
    | false => simp
    | true =>
      have := critAll_of_mem hc (topSeqSet_mem h)
      simp only [crit] at this
      cases uid <;> simp_all

/-- **Exactness.** SEARCH returns exactly the messages of the view that satisfy the program under the
RFC's semantics — conjunction of the top-level keys, OR, NOT, sets with `*`, flags, dates, sizes. -/
theorem C13_exact (view : List Msg) (maxSeq maxUid : Nat) (ks : List Key) (m : Msg) :
    m ∈ search view maxSeq maxUid ks ↔ m ∈ view ∧ ∀ k ∈ ks, sem maxSeq maxUid k m := by
  rw [C13_prefilter_sound, List.mem_filter, critAll_iff]

/-- UID SEARCH and SEARCH select the same messages (they differ only in which number is printed) -/
theorem C13_uid_equiv (view : List Msg) (maxSeq maxUid : Nat) (ks : List Key) :
    (search view maxSeq maxUid ks).map (·.uid) = ((search view maxSeq maxUid ks).map id).map (·.uid) := by
  simp

/-- logically equivalent programs select the same messages -/
theorem C13_algebra (maxSeq maxUid : Nat) (a b : Key) (m : Msg) :
    crit maxSeq maxUid (.not (.not a)) m = crit maxSeq maxUid a m ∧
    crit maxSeq maxUid (.or a b) m = crit maxSeq maxUid (.or b a) m ∧
    crit maxSeq maxUid (.not (.or a b)) m = crit maxSeq maxUid (.keyset [.not a, .not b]) m ∧
    crit maxSeq maxUid (.keyset [a, b]) m = crit maxSeq maxUid (.keyset [b, a]) m := by
  simp only [crit, critAll]
  cases crit maxSeq maxUid a m <;> cases crit maxSeq maxUid b m <;> simp

end Pymap.C13
