import PymapModel.Zone
/-!
# C18 — the zone of a date-time survives being written and read again
-/
namespace Pymap.C18
open Pymap.Zone

/-- **round trip of zones**: every offset of less than a day, in whole minutes, east or west, is written as a zone that is read
back as the same offset (the floor-division spelling of the seeded change C18-e fails this for `-0330`). -/
theorem C18_zone_roundtrip (z : Int) (h : z.natAbs < 1440) : parse (fmt z) = some z := by
  unfold fmt d2
  simp only [List.cons_append, List.nil_append, parse]
  by_cases hz : z < 0
  · simp only [hz, if_true]
    have e1 : isDig (48 + z.natAbs / 60 / 10) = true := by simp [isDig]; omega
    have e2 : isDig (48 + z.natAbs / 60 % 10) = true := by simp [isDig]; omega
    have e3 : isDig (48 + z.natAbs % 60 / 10) = true := by simp [isDig]; omega
    have e4 : isDig (48 + z.natAbs % 60 % 10) = true := by simp [isDig]; omega
    simp only [e1, e2, e3, e4]
    have hm : (48 + z.natAbs % 60 / 10 - 48) * 10 + (48 + z.natAbs % 60 % 10 - 48) = z.natAbs % 60 := by omega
    have hh : (48 + z.natAbs / 60 / 10 - 48) * 10 + (48 + z.natAbs / 60 % 10 - 48) = z.natAbs / 60 := by omega
    rw [hm, hh]
    have c1 : z.natAbs % 60 < 60 := by omega
    have c2 : z.natAbs / 60 * 60 + z.natAbs % 60 < 1440 := by omega
    have c3 : z.natAbs / 60 * 60 + z.natAbs % 60 = z.natAbs := by omega
    simp [c1, c2, c3]
    omega
  · simp only [hz, if_false]
    have e1 : isDig (48 + z.natAbs / 60 / 10) = true := by simp [isDig]; omega
    have e2 : isDig (48 + z.natAbs / 60 % 10) = true := by simp [isDig]; omega
    have e3 : isDig (48 + z.natAbs % 60 / 10) = true := by simp [isDig]; omega
    have e4 : isDig (48 + z.natAbs % 60 % 10) = true := by simp [isDig]; omega
    simp only [e1, e2, e3, e4]
    have hm : (48 + z.natAbs % 60 / 10 - 48) * 10 + (48 + z.natAbs % 60 % 10 - 48) = z.natAbs % 60 := by omega
    have hh : (48 + z.natAbs / 60 / 10 - 48) * 10 + (48 + z.natAbs / 60 % 10 - 48) = z.natAbs / 60 := by omega
    rw [hm, hh]
    have c1 : z.natAbs % 60 < 60 := by omega
    have c2 : z.natAbs / 60 * 60 + z.natAbs % 60 < 1440 := by omega
    have c3 : z.natAbs / 60 * 60 + z.natAbs % 60 = z.natAbs := by omega
    simp [c1, c2, c3]
    omega

/-- the other direction: a zone that is accepted is, except for `-0000`, exactly how its offset is written -/
theorem C18_zone_canonical (t : List Nat) (z : Int) (h : parse t = some z) (hneg0 : t ≠ [45, 48, 48, 48, 48]) : fmt z = t := by
  match t, h with
  | [s, a, b, c, d], h =>
    simp only [parse] at h
    split at h
    · rename_i hc
      simp only [Bool.and_eq_true, Bool.or_eq_true, decide_eq_true_eq, isDig] at hc
      split at h
      · rename_i hr
        simp only [Bool.and_eq_true, decide_eq_true_eq] at hr
        obtain ⟨⟨⟨⟨hs, ha⟩, hb⟩, hc'⟩, hd⟩ := hc
        injection h with h
        unfold fmt d2
        by_cases hs45 : s = 45
        · subst hs45
          simp only [if_true] at h
          have hzabs : z.natAbs = ((a - 48) * 10 + (b - 48)) * 60 + ((c - 48) * 10 + (d - 48)) := by omega
          have hzneg : z < 0 := by
            rcases Nat.eq_zero_or_pos (((a - 48) * 10 + (b - 48)) * 60 + ((c - 48) * 10 + (d - 48))) with h0 | hp
            · exfalso; apply hneg0
              have : a = 48 ∧ b = 48 ∧ c = 48 ∧ d = 48 := by omega
              obtain ⟨rfl, rfl, rfl, rfl⟩ := this; rfl
            · omega
          simp only [hzneg, if_true, List.cons_append, List.nil_append, hzabs]
          congr 1
          congr 1
          · omega
          · congr 1
            · omega
            · congr 1
              · omega
              · congr 1; omega
        · have hs43 : s = 43 := by rcases hs with h1 | h1 <;> first | exact h1 | exact absurd h1 hs45
          subst hs43
          simp only [show ¬ ((43 : Nat) = 45) by decide, if_false] at h
          have hzabs : z.natAbs = ((a - 48) * 10 + (b - 48)) * 60 + ((c - 48) * 10 + (d - 48)) := by omega
          have hzneg : ¬ z < 0 := by omega
          simp only [hzneg, if_false, List.cons_append, List.nil_append, hzabs]
          congr 1
          congr 1
          · omega
          · congr 1
            · omega
            · congr 1
              · omega
              · congr 1; omega
      · cases h
    · cases h

/-- non-vacuity and the seeded counter-example: −3:30 is `-0330`, not `-0430` -/
example : fmt (-210) = [45, 48, 51, 51, 48] ∧ parse [45, 48, 51, 51, 48] = some (-210) ∧ parse [45, 48, 52, 51, 48] = some (-270) := by decide

end Pymap.C18
