import PymapProofs.Lemmas.System
/-!
# C01 — sequence numbers: the client view never diverges from the server

Property theorems only.  Model: `PymapModel/Sync.lean`, `PymapModel/System.lean`.
-/
namespace Pymap.C01
open Pymap.Sync Pymap.System Pymap.Mailbox

/-- The server-side cache arithmetic is right for every delivery pattern. -/
theorem C01_coherent (v : View) (msgs : List CMsg) (exp : List Nat) (hide : Bool)
    (h : Coherent v) : Coherent (addUpdates v msgs exp hide) :=
  addUpdates_coherent v msgs exp hide h

/-- One fork: the untagged responses, applied in order by the client, are all legal
(EXPUNGE within range, EXISTS never shrinking) and leave the client holding exactly the server's list. -/
theorem C01_fork_sync (b a : View) (rb ra : List Nat) (hide : Bool) (sil : List (Nat × List Nat)) (wu : Bool)
    (hb : Coherent b) (ha : Coherent a)
    (hnew : ∀ u ∈ a.uids, u ∉ b.uids → ∀ w ∈ a.uids, w ∈ b.uids → w < u)
    (hhide : hide = true → ∀ u ∈ b.uids, u ∈ a.uids) :
    clientRun a.sorted b.sorted (Sync.compare (freeze b rb) (freeze a ra) hide sil wu false) = some a.sorted :=
  fork_sync b a rb ra hide sil wu hb ha hnew hhide

/-- No EXPUNGE is ever sent while answering a non-UID FETCH/STORE/SEARCH. -/
theorem C01_hide_no_expunge (before after : Frozen) (sil : List (Nat × List Nat)) (wu del : Bool) :
    ∀ n, Untagged.expunge n ∉ Sync.compare before after true sil wu del := by
  intro n hn
  unfold Sync.compare at hn
  split at hn
  · simp at hn
  · simp only [List.mem_append] at hn
    rcases hn with hn | hn | hn | hn
    · simp [cmpExpunge] at hn
    · unfold cmpExists at hn; split at hn <;> simp at hn
    · unfold cmpRecent at hn; split at hn <;> simp at hn
    · unfold cmpFetch at hn; simp at hn

/-- Every FETCH produced by a fork carries the sequence number of its message in the current numbering. -/
theorem C01_fetch_labels (b a : View) (rb ra : List Nat) (sil : List (Nat × List Nat)) (wu : Bool)
    (ha : Coherent a) :
    ∀ r ∈ cmpFetch (freeze b rb) (freeze a ra) sil wu,
      ∃ s u f rc w, r = Untagged.fetch s u f rc w ∧ ∃ (_ : s - 1 < a.sorted.length), 1 ≤ s ∧ a.sorted[s-1] = u :=
  fetch_labels b a rb ra sil wu ha

/-- **Closed system.** Whatever any number of sessions do in whatever order, no session's client is
ever sent an illegal response, and after every command it holds exactly the server's sequence-number
to UID mapping. -/
theorem C01_system (ops : List Op) (i : Nat) (x : Sess)
    (hx : (run Sys.init ops).sess[i]? = some x) :
    x.client = some x.view.sorted ∧ Coherent x.view :=
  let h := (reachable_inv ops).sess x (List.mem_of_getElem? hx)
  ⟨h.client, h.coh⟩

/-- non-vacuity: a concrete interleaving with an expunge by another session, a hidden fetch and a late NOOP -/
example :
    let s := run Sys.init [.append [] false 1 0, .append [] false 2 0, .append [] false 3 0, .select, .select,
      .expunge 1 [102], .append [] false 4 0, .sync 0 true false, .sync 0 false false]
    (s.sess[0]?.map (·.client)) = some (some [101, 103, 104]) := by decide

end Pymap.C01
