import PymapModel.Conn
import PymapProofs.C05
/-!
# C09 — what is advertised is what is enforced

The LOGINDISABLED bit of the capability list the client holds is, at every moment, the bit the state machine acts on; together
with `C09_logindisabled`: a plain-text LOGIN is never accepted while the client has been told LOGINDISABLED.
-/
namespace Pymap.C05
open Pymap.Conn

theorem count_loginOff (x : Bool) (r : St × Resp) : (count x r).1.loginOff = r.1.loginOff := by
  unfold count; split <;> (try split) <;> (try split) <;> rfl

theorem handle_loginOff (s : St) (c : Cmd) :
    (handle s c).1.loginOff = s.loginOff ∨ (c = .starttls ∧ (handle s c).2 = .ok) := by
  cases c with
  | starttls => simp only [handle]; by_cases h : s.tlsAvail = true <;> simp [h]
  | login who =>
    simp only [handle]
    by_cases h : s.loginOff = true
    · simp [h]
    · cases who <;> simp [h]
  | authenticate o e who =>
    simp only [handle]
    cases o <;> cases e <;> cases who <;> simp
  | selectCmd n ex be => simp only [handle]; cases be <;> simp
  | msgCmd w ok => simp only [handle]; split <;> simp
  | _ => simp [handle]

theorem core_loginOff (s : St) (c : Cmd) :
    (core s c).1.loginOff = s.loginOff ∨ (c = .starttls ∧ (core s c).2 = .ok) := by
  unfold core
  split
  · exact handle_loginOff s c
  · exact Or.inl rfl

/-- only a successful STARTTLS changes the bit -/
theorem step_loginOff (s : St) (c : Cmd) :
    (step s c).1.loginOff = s.loginOff ∨ (c = .starttls ∧ (step s c).2 = .ok) := by
  unfold step
  split
  · exact Or.inl rfl
  · rw [count_loginOff]
    rcases core_loginOff s c with h | ⟨hc, hok⟩
    · exact Or.inl h
    · exact Or.inr ⟨hc, by rw [count_resp _ _ (by rw [hok]; decide)]; exact hok⟩

def WInv (w : Wire) : Prop := ∀ b, w.adv = some b → b = w.st.loginOff

theorem WInv.init (lo tls : Bool) : WInv (Wire.init lo tls) := by
  intro b h; simp [Wire.init, St.init] at h ⊢; exact h.symm

theorem WInv.step (w : Wire) (c : Cmd) (h : WInv w) : WInv (wstep w c).1 := by
  intro b hb
  have hl := step_loginOff w.st c
  unfold wstep at hb ⊢
  simp only [] at hb ⊢
  split at hb
  · exact (Option.some.inj hb).symm
  · exact (Option.some.inj hb).symm
  · exact (Option.some.inj hb).symm
  · simp at hb
  · rename_i hc1 hc2 hc3 hc4
    rcases hl with hl | ⟨rfl, hok⟩
    · rw [hl]; exact h b hb
    · exact absurd hok (hc4 rfl)

/-- **what is advertised is what is enforced**, after every command sequence -/
theorem C09_advertised_enforced (lo tls : Bool) (cs : List Cmd) : WInv (wrun (Wire.init lo tls) cs) := by
  have key : ∀ (cs : List Cmd) (w : Wire), WInv w → WInv (wrun w cs) := by
    intro cs
    induction cs with
    | nil => intro w h; exact h
    | cons c cs ih => intro w h; exact ih _ (WInv.step w c h)
  exact key cs _ (WInv.init lo tls)

/-- a LOGIN that is accepted was not sent against an advertised LOGINDISABLED -/
theorem C09_login_accepted_was_offered (lo tls : Bool) (cs : List Cmd) (who : Option Nat)
    (hok : (wstep (wrun (Wire.init lo tls) cs) (.login who)).2 = .ok) :
    (wrun (Wire.init lo tls) cs).adv ≠ some true := by
  intro hadv
  have hinv := C09_advertised_enforced lo tls cs true hadv
  have := (C09_logindisabled (wrun (Wire.init lo tls) cs).st who hinv.symm).2
  exact this hok

example : (wrun (Wire.init true true) [.starttls, .capability]).adv = some false := by decide

end Pymap.C05
