import PymapModel.Recent
/-!
# C17 — `\Recent` is announced to exactly one session and never stored twice
-/
namespace Pymap.C17
open Pymap.Recent

structure Inv (s : St) : Prop where
  nodupG : (s.given.map (·.1)).Nodup
  nodupB : (s.bits.map (·.1)).Nodup
  bitNew : ∀ b ∈ s.bits, b.2 = true → b.1 ∉ s.given.map (·.1)
  ltG    : ∀ u ∈ s.given.map (·.1), u < s.next
  ltB    : ∀ b ∈ s.bits, b.1 < s.next

theorem Inv.init (n : Nat) : Inv (St.init n) := by constructor <;> simp [St.init]

theorem map_fst_map_false (bits : List (Nat × Bool)) :
    (bits.map (fun b => (b.1, false))).map (·.1) = bits.map (·.1) := by
  induction bits with
  | nil => rfl
  | cons b bs ih => simp [ih]

theorem Inv.step {s : St} (h : Inv s) (op : Op) : Inv (step s op) := by
  obtain ⟨g, b, bn, lg, lb⟩ := h
  cases op with
  | select i ro =>
    simp only [Recent.step]
    split
    · split
      · exact ⟨g, b, bn, lg, lb⟩
      · -- read-write select: claim every stored bit
        have hcl : ∀ u, u ∈ (s.bits.filter (·.2)).map (·.1) → u ∉ s.given.map (·.1) := by
          intro u hu; simp only [List.mem_map, List.mem_filter] at hu
          obtain ⟨x, ⟨hx, hx2⟩, rfl⟩ := hu
          exact bn x hx hx2
        have hnd : ((s.bits.filter (·.2)).map (·.1)).Nodup := b.sublist (List.Sublist.map _ List.filter_sublist)
        constructor
        · show ((((s.bits.filter (·.2)).map (·.1)).map (fun u => (u, i)) ++ s.given).map (·.1)).Nodup
          have hmm : (((s.bits.filter (·.2)).map (·.1)).map (fun u => (u, i))).map (·.1)
              = (s.bits.filter (·.2)).map (·.1) := by
            rw [List.map_map]; simp [Function.comp_def]
          rw [List.map_append, hmm, List.nodup_append]
          refine ⟨hnd, g, ?_⟩
          intro a ha c hc hac
          subst hac
          exact hcl a ha hc
        · show ((s.bits.map (fun b => (b.1, false))).map (·.1)).Nodup
          rw [map_fst_map_false]; exact b
        · intro x hx hx2
          simp only [List.mem_map] at hx
          obtain ⟨y, _, rfl⟩ := hx
          simp at hx2
        · intro u hu
          have hu : u ∈ (((s.bits.filter (·.2)).map (·.1)).map (fun u => (u, i)) ++ s.given).map (·.1) := hu
          rw [List.map_append, List.mem_append] at hu
          rcases hu with hu | hu
          · simp only [List.mem_map, List.mem_filter] at hu
            obtain ⟨p, ⟨u', ⟨x, ⟨hx, _⟩, rfl⟩, rfl⟩, rfl⟩ := hu
            exact lb x hx
          · exact lg u hu
        · intro x hx
          simp only [List.mem_map] at hx
          obtain ⟨y, hy, rfl⟩ := hx
          exact lb y hy
    · exact ⟨g, b, bn, lg, lb⟩
  | close i => exact ⟨g, b, bn, lg, lb⟩
  | append by_ pick =>
    simp only [Recent.step]
    have hfreshG : s.next ∉ s.given.map (·.1) := fun hc => by have := lg _ hc; omega
    have hfreshB : s.next ∉ s.bits.map (·.1) := by
      intro hc; simp only [List.mem_map] at hc
      obtain ⟨x, hx, hx1⟩ := hc
      have := lb x hx; omega
    have hndB : ∀ v : Bool, ((s.bits ++ [(s.next, v)]).map (fun b : Nat × Bool => b.1)).Nodup := by
      intro v; rw [List.map_append, List.nodup_append]
      refine ⟨b, by simp, ?_⟩
      intro a ha c hc; simp at hc; subst hc
      exact fun e => hfreshB (e ▸ ha)
    split
    · rename_i j _
      constructor
      · show (((s.next, j) :: s.given).map (·.1)).Nodup
        simp only [List.map_cons, List.nodup_cons]; exact ⟨hfreshG, g⟩
      · exact hndB false
      · intro x hx hx2
        simp only [List.mem_append, List.mem_singleton] at hx
        rcases hx with hx | rfl
        · show x.1 ∉ ((s.next, j) :: s.given).map (·.1)
          simp only [List.map_cons, List.mem_cons, not_or]
          exact ⟨fun e => by have := lb x hx; omega, bn x hx hx2⟩
        · simp at hx2
      · intro u hu
        have hu : u ∈ ((s.next, j) :: s.given).map (·.1) := hu
        simp only [List.map_cons, List.mem_cons] at hu
        rcases hu with rfl | hu
        · show s.next < s.next + 1; omega
        · have := lg u hu; show u < s.next + 1; omega
      · intro x hx
        simp only [List.mem_append, List.mem_singleton] at hx
        rcases hx with hx | rfl
        · have := lb x hx; show x.1 < s.next + 1; omega
        · show s.next < s.next + 1; omega
    · constructor
      · exact g
      · exact hndB true
      · intro x hx hx2
        simp only [List.mem_append, List.mem_singleton] at hx
        rcases hx with hx | rfl
        · exact bn x hx hx2
        · exact hfreshG
      · intro u hu; have := lg u hu; show u < s.next + 1; omega
      · intro x hx
        simp only [List.mem_append, List.mem_singleton] at hx
        rcases hx with hx | rfl
        · have := lb x hx; show x.1 < s.next + 1; omega
        · show s.next < s.next + 1; omega
  | expunge u =>
    refine ⟨g, b.sublist (List.Sublist.map _ List.filter_sublist), ?_, lg, ?_⟩
    · intro x hx hx2; exact bn x (List.mem_filter.1 hx).1 hx2
    · intro x hx; exact lb x (List.mem_filter.1 hx).1

theorem Inv.run {s : St} (h : Inv s) (ops : List Op) : Inv (run s ops) := by
  induction ops generalizing s with
  | nil => exact h
  | cons op ops ih => exact ih (h.step op)

/-- **At most one.** Over the whole life of a message — any order of selects, examines, closes,
reselects, appends and expunges by any number of sessions — `\Recent` is handed out for it at most once. -/
theorem C17_at_most_one (n : Nat) (ops : List Op) (u i j : Nat)
    (hi : (u, i) ∈ (run (St.init n) ops).given) (hj : (u, j) ∈ (run (St.init n) ops).given) : i = j := by
  have h := ((Inv.init n).run ops).nodupG
  generalize (run (St.init n) ops).given = gv at *
  induction gv with
  | nil => simp at hi
  | cons x xs ih =>
    simp only [List.map_cons, List.nodup_cons] at h
    simp only [List.mem_cons] at hi hj
    rcases hi with rfl | hi <;> rcases hj with hj | hj
    · exact (Prod.mk.inj hj).2.symm ▸ rfl
    · exact absurd (List.mem_map.2 ⟨(u, j), hj, rfl⟩) h.1
    · subst hj; exact absurd (List.mem_map.2 ⟨(u, i), hi, rfl⟩) h.1
    · exact ih hi hj h.2

/-- a message that arrived while nobody had the mailbox selected read-write is announced to the first
read-write session that selects it; a read-only selection consumes nothing -/
theorem C17_first_rw_gets_it (s : St) (i u : Nat) (hi : i < s.sess.length) (hu : (u, true) ∈ s.bits) :
    (∃ x, (step s (.select i false)).sess[i]? = some (some x) ∧ u ∈ x.recent) ∧
    (step s (.select i true)).bits = s.bits := by
  constructor
  · refine ⟨⟨false, (s.bits.filter (·.2)).map (·.1)⟩, ?_, ?_⟩
    · simp [Recent.step, hi]
    · simp only [List.mem_map, List.mem_filter]; exact ⟨(u, true), ⟨hu, rfl⟩, rfl⟩
  · simp [Recent.step, hi]

/-- a stored bit is never set for a message that was announced to somebody -/
theorem C17_not_stored_after (n : Nat) (ops : List Op) (u j : Nat)
    (hj : (u, j) ∈ (run (St.init n) ops).given) : (u, true) ∉ (run (St.init n) ops).bits := by
  intro hc
  exact ((Inv.init n).run ops).bitNew (u, true) hc rfl (List.mem_map.2 ⟨(u, j), hj, rfl⟩)

/-- non-vacuity: an EXAMINE session appends to its own mailbox; the next read-write SELECT gets the flag -/
example : (run (St.init 2) [.select 0 true, .append 0 0, .select 1 false]).given = [(1, 1)] := by decide

end Pymap.C17
