import PymapProofs.C15
/-!
# C15 / C04 on maildir — the next-UID counter of a folder never goes back

Every UID a folder hands out is its counter at that moment (`ops`, `adopt`), every UID on record is below the counter (`ULInv.lt`),
and the counter never decreases — not in the middle of any command (any prefix of its system calls, i.e. any crash point) and not
when a restarted server adopts the files it finds.  So a UID that has once named a message is never given to another one, whether or
not the first is still there.  (The seeded changes C04-e / C15-e recompute the counter as "highest record + 1" when the list is read,
which lowers it as soon as the newest message has left: `ops` does not, and the trace tie shows the code does what `ops` says.)
-/
namespace Pymap.C15
open Pymap.MaildirFS

theorem apply_next_ge (base : Nat) (d : Disk) (o : FsOp) (hd : base ≤ d.ul.next)
    (ho : ∀ u, o = .renameUL u → base ≤ u.next) : base ≤ (apply d o).ul.next := by
  cases o <;> simp only [apply] <;> first | exact hd | exact ho _ rfl

theorem applyAll_take_next_ge (base : Nat) : ∀ (os : List FsOp) (d : Disk) (n : Nat), base ≤ d.ul.next →
    (∀ o ∈ os, ∀ u, o = .renameUL u → base ≤ u.next) → base ≤ (applyAll d (os.take n)).ul.next
  | [], d, n, hd, _ => by simp [applyAll]; exact hd
  | o :: os, d, 0, hd, _ => by simp [applyAll]; exact hd
  | o :: os, d, n + 1, hd, ho => by
    simp only [List.take_succ_cons, applyAll, List.foldl_cons]
    exact applyAll_take_next_ge base os (apply d o) n (apply_next_ge base d o hd (ho o (by simp)))
      (fun o' ho' => ho o' (by simp [ho']))

/-- **at every crash point of every command the counter is at least what it was before the command** -/
theorem C15_next_monotone (d : Disk) (c : Cmd) (n : Nat) : d.ul.next ≤ (applyAll d ((ops d c).take n)).ul.next := by
  apply applyAll_take_next_ge d.ul.next (ops d c) d n (Nat.le_refl _)
  intro o ho u hu
  subst hu
  cases c <;> simp [ops] at ho
  · subst ho; simp
  · subst ho; simp

theorem adopt_next_ge : ∀ (ks : List Nat) (u : UL), u.next ≤ (adopt u ks).next
  | [], u => Nat.le_refl _
  | k :: ks, u => by
    simp only [adopt]
    have := adopt_next_ge ks { u with next := u.next + 1, recs := u.recs ++ [(u.next, k)] }
    simp at this; omega

/-- **a restarted server never lowers the counter** -/
theorem C15_next_monotone_recover (d : Disk) : d.ul.next ≤ (recover d).ul.next := by
  simp only [recover]; exact adopt_next_ge _ _

/-- the UID an APPEND puts on record is the counter, hence above every UID on record (and, by monotonicity, above every UID
that was ever on record) -/
theorem C15_append_uid_fresh (d : Disk) (k info : Nat) (h : ULInv d.ul) :
    (applyAll d (ops d (.append k info))).ul.recs = d.ul.recs ++ [(d.ul.next, k)] ∧ ∀ x ∈ ruids d.ul, x < d.ul.next := by
  refine ⟨by simp [ops, applyAll, apply], h.lt⟩

end Pymap.C15
