import PymapModel.FlagText
/-!
# C18 / C17 — a system flag means the same in any letter case, and its value is stable
-/
namespace Pymap.C18
open Pymap.FlagText

theorem low_up (b : Nat) : low (up b) = low b := by unfold low up; split <;> split <;> (try split) <;> omega
theorem up_low (b : Nat) : up (low b) = up b := by unfold low up; split <;> split <;> (try split) <;> omega
theorem low_low (b : Nat) : low (low b) = low b := by unfold low; split <;> (try split) <;> omega
theorem up_up (b : Nat) : up (up b) = up b := by unfold up; split <;> (try split) <;> omega

theorem capitalize_idem (l : List Nat) : capitalize (capitalize l) = capitalize l := by
  cases l with
  | nil => rfl
  | cons b r => simp [capitalize, up_up, List.map_map, Function.comp_def, low_low]

/-- the value is stable: writing a flag and reading it again gives the same flag -/
theorem C18_flag_norm_idem (l : List Nat) : norm (norm l) = norm l := by
  cases l with
  | nil => rfl
  | cons b r =>
    by_cases hb : b = 92
    · subst hb
      show norm (92 :: capitalize r) = 92 :: capitalize r
      show 92 :: capitalize (capitalize r) = 92 :: capitalize r
      rw [capitalize_idem]
    · have h1 : norm (b :: r) = b :: r := by
        unfold norm
        split
        · rename_i r' heq; injection heq with e _; exact absurd e hb
        · rfl
      rw [h1, h1]

/-- **case-insensitive**: two spellings of a system flag that differ in letter case only are the same flag — same value, hence
equal and with the same hash (the seeded change C17-f hashed the spelling as typed) -/
theorem C18_flag_case_insensitive (a b : List Nat) (h : a.map low = b.map low) : norm (92 :: a) = norm (92 :: b) := by
  simp only [norm]
  cases a with
  | nil => cases b with
    | nil => rfl
    | cons y s => simp at h
  | cons x r => cases b with
    | nil => simp at h
    | cons y s =>
      simp only [List.map_cons, List.cons.injEq] at h
      obtain ⟨h1, h2⟩ := h
      simp only [capitalize, List.cons.injEq]
      have hu : up x = up y := by
        have : up (low x) = up (low y) := by rw [h1]
        rwa [up_low, up_low] at this
      exact ⟨trivial, hu, h2⟩

/-- a keyword is known by exactly its bytes -/
theorem C18_flag_keyword (l : List Nat) (h : ∀ r, l ≠ 92 :: r) : norm l = l := by
  unfold norm
  split
  · rename_i r; exact absurd rfl (h r)
  · rfl

/-- non-vacuity: `\RECENT`, `\recent` and `\Recent` are one flag; `recent` is a keyword -/
example : norm [92, 82, 69, 67, 69, 78, 84] = [92, 82, 101, 99, 101, 110, 116] ∧ norm [92, 114, 101, 99, 101, 110, 116] = [92, 82, 101, 99, 101, 110, 116] ∧
    norm [114, 101, 99] = [114, 101, 99] := by decide

end Pymap.C18
