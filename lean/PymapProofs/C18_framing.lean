import PymapModel.Framing
import PymapProofs.C18_number
/-!
# C18 / C06 — the bytes of a literal never take part in the framing of a command

Whatever the literals contain — including bytes that look like the announcement of another literal — the reader takes exactly
the bytes of the command the client sent and leaves exactly what follows it.
-/
namespace Pymap.C18
open Pymap.Grammar Pymap.Wire Pymap.Framing

theorem readLine_split : ∀ (t r : List Nat), 10 ∉ t → readLine (t ++ 10 :: r) = (t ++ [10], r)
  | [], r, _ => by simp [readLine]
  | b :: t, r, h => by
    have hb : b ≠ 10 := fun e => h (by simp [e])
    have ht : 10 ∉ t := fun e => h (by simp [e])
    have ih := readLine_split t r ht
    simp [readLine, hb, ih]

theorem spanDigits_append : ∀ (ds rest : List Nat), (∀ b ∈ ds, isDigit b = true) → firstIsDigit rest = false →
    spanDigits (ds ++ rest) = (ds, rest)
  | [], rest, _, h => by
    cases rest with
    | nil => simp [spanDigits]
    | cons b r =>
      have hb : isDigit b = false := by simpa [firstIsDigit] using h
      simp [spanDigits, hb]
  | d :: ds, rest, hd, h => by
    have h1 : isDigit d = true := hd d (by simp)
    have ih := spanDigits_append ds rest (fun b hb => hd b (by simp [hb])) h
    simp [spanDigits, h1, ih]

theorem digits_ne_nil (n : Nat) : digits n ≠ [] := by
  rw [digits]; split <;> simp

theorem digits_no_lf (n : Nat) : 10 ∉ digits n := by
  intro h
  have := digits_all_digit n 10 h
  simp [isDigit] at this

/-- a line that ends in the announcement of `n` bytes is recognised as such, whatever precedes the announcement -/
theorem litLen_marker (text : List Nat) (n : Nat) : litLen (text ++ marker n) = some n := by
  unfold litLen marker
  have hrev : (text ++ ([123] ++ digits n ++ [43, 125, 13, 10])).reverse
      = 10 :: 13 :: 125 :: 43 :: ((digits n).reverse ++ 123 :: text.reverse) := by
    simp [List.reverse_append]
  rw [hrev]
  simp only []
  have hall : ∀ b ∈ (digits n).reverse, isDigit b = true := fun b hb => digits_all_digit n b (List.mem_reverse.1 hb)
  have hsp := spanDigits_append (digits n).reverse (123 :: text.reverse) hall (by simp [firstIsDigit, isDigit])
  rw [hsp]
  have hne : (digits n).reverse.isEmpty = false := by
    have := digits_ne_nil n
    cases hd : digits n with
    | nil => exact absurd hd this
    | cons a l => simp
  simp only [hne, Bool.false_eq_true, if_false, List.reverse_reverse]
  have := C18_roundtrip_number n [] (by simp [firstIsDigit])
  simp only [List.append_nil] at this
  rw [this]

theorem getLast_lf (t : List Nat) : (t ++ [10]).getLast? = some 10 := by simp

/-- **framing**: for every sequence of text pieces and literals — the literals arbitrary — the reader takes exactly the command -/
theorem C18_framing : ∀ (ss : List Seg) (final rest : List Nat) (fuel : Nat),
    (∀ s ∈ ss, 10 ∉ s.text) → 10 ∉ final → litLen (final ++ [13, 10]) = none → ss.length < fuel →
    readCmd fuel (wire ss final ++ rest) = some (wire ss final, rest)
  | [], final, rest, fuel, _, hf, hl, hfuel => by
    cases fuel with
    | zero => simp at hfuel
    | succ f =>
      have hline : readLine (wire [] final ++ rest) = (final ++ [13, 10], rest) := by
        have h13 : 10 ∉ final ++ [13] := by simp [hf]
        have := readLine_split (final ++ [13]) rest h13
        simpa [wire, List.append_assoc] using this
      unfold readCmd
      simp only [hline]
      have hlast : (final ++ [13, 10]).getLast? = some 10 := by
        have := getLast_lf (final ++ [13]); simpa [List.append_assoc] using this
      simp [hlast, hl, wire]
  | s :: ss, final, rest, fuel, ht, hf, hl, hfuel => by
    cases fuel with
    | zero => simp at hfuel
    | succ f =>
      have hts : 10 ∉ s.text := ht s (by simp)
      -- the first line: the text and the announcement
      have hpre : 10 ∉ s.text ++ ([123] ++ digits s.lit.length ++ [43, 125, 13]) := by
        simp [hts, digits_no_lf]
      have hline : readLine (wire (s :: ss) final ++ rest)
          = (s.text ++ marker s.lit.length, s.lit ++ (wire ss final ++ rest)) := by
        have := readLine_split (s.text ++ ([123] ++ digits s.lit.length ++ [43, 125, 13])) (s.lit ++ (wire ss final ++ rest)) hpre
        simpa [wire, marker, List.append_assoc] using this
      have ih := C18_framing ss final rest f (fun x hx => ht x (by simp [hx])) hf hl (by simp at hfuel; omega)
      unfold readCmd
      simp only [hline]
      have hlast : (s.text ++ marker s.lit.length).getLast? = some 10 := by
        have := getLast_lf (s.text ++ ([123] ++ digits s.lit.length ++ [43, 125, 13]))
        simpa [marker, List.append_assoc] using this
      have hlen : ¬ (s.lit ++ (wire ss final ++ rest)).length < s.lit.length := by simp
      have hdrop : (s.lit ++ (wire ss final ++ rest)).drop s.lit.length = wire ss final ++ rest := by simp
      have htake : (s.lit ++ (wire ss final ++ rest)).take s.lit.length = s.lit := by simp
      simp only [hlast, bne_self_eq_false, Bool.false_eq_true, if_false, litLen_marker, hlen, hdrop, htake, ih]
      simp [wire, List.append_assoc]

-- a literal whose bytes end like an announcement ("{5+}"), followed by the end of the command: read as one command
example : readCmd 5 (wire [⟨[65, 32], [123, 53, 43, 125]⟩] [] ++ [66, 13, 10]) = some (wire [⟨[65, 32], [123, 53, 43, 125]⟩] [], [66, 13, 10]) :=
  C18_framing [⟨[65, 32], [123, 53, 43, 125]⟩] [] [66, 13, 10] 5 (by simp) (by simp) (by decide) (by simp)

end Pymap.C18
