import PymapModel.SeqText
import PymapProofs.C18_number
import PymapProofs.C18_framing
/-!
# C18 — a sequence set survives being written and read again, and the reader takes exactly its bytes
-/
namespace Pymap.C18
open Pymap.Seq Pymap.Grammar Pymap.Wire Pymap.SeqText

/-- the decimal spelling of a positive number starts with a digit other than 0 -/
theorem digits_head_pos : ∀ (n : Nat), 1 ≤ n → ∃ b r, digits n = b :: r ∧ 49 ≤ b ∧ b ≤ 57 := by
  intro n
  induction n using Nat.strongRecOn with
  | _ n ih =>
    intro hn
    rw [digits]
    split
    · rename_i hlt
      exact ⟨48 + n, [], rfl, by omega, by omega⟩
    · rename_i hge
      have hq : 1 ≤ n / 10 := by omega
      obtain ⟨b, r, hd, h1, h2⟩ := ih (n / 10) (by omega) hq
      exact ⟨b, r ++ [48 + n % 10], by rw [hd]; rfl, h1, h2⟩

def idxOk : Idx → Bool
  | .star => true
  | .num n => decide (1 ≤ n)

def elemOk : Elem → Bool
  | .one i => idxOk i
  | .range l r => idxOk l && idxOk r

theorem parseIdx_ser (i : Idx) (t : List Nat) (hi : idxOk i = true) (ht : firstIsDigit t = false) :
    parseIdx (serIdx i ++ t) = some (i, t) := by
  cases i with
  | star => simp [serIdx, parseIdx]
  | num n =>
    have hn : 1 ≤ n := by simpa [idxOk] using hi
    obtain ⟨b, r, hd, h1, h2⟩ := digits_head_pos n hn
    have hrt := C18_roundtrip_number n t ht
    simp only [serIdx]
    have hshape : digits n ++ t = b :: (r ++ t) := by rw [hd]; rfl
    rw [hshape] at hrt ⊢
    have hb : ¬ b = 42 := by omega
    simp only [parseIdx, hb, if_false, h1, h2, and_self, if_true, hrt]

/-- what may follow an element: not a digit and not a colon -/
def afterElem (t : List Nat) : Bool := !firstIsDigit t && (match t with | 58 :: _ => false | _ => true)

theorem afterElem_digit {t : List Nat} (h : afterElem t = true) : firstIsDigit t = false := by
  simp [afterElem] at h; exact h.1

theorem parsePart_ser (e : Elem) (t : List Nat) (he : elemOk e = true) (ht : afterElem t = true) :
    parsePart (serElem e ++ t) = some (e, t) := by
  cases e with
  | one i =>
    have := parseIdx_ser i t (by simpa [elemOk] using he) (afterElem_digit ht)
    simp only [serElem, parsePart, this]
    cases t with
    | nil => rfl
    | cons b r =>
      by_cases hb : b = 58
      · subst hb; simp [afterElem] at ht
      · split
        · rename_i heq; injection heq with e1 _; exact absurd e1 hb
        · rfl
  | range l r =>
    simp only [elemOk, Bool.and_eq_true] at he
    have h1 := parseIdx_ser l (58 :: (serIdx r ++ t)) he.1 (by simp [firstIsDigit, isDigit])
    have h2 := parseIdx_ser r t he.2 (afterElem_digit ht)
    have hshape : serElem (.range l r) ++ t = serIdx l ++ 58 :: (serIdx r ++ t) := by simp [serElem]
    rw [hshape]
    simp only [parsePart, h1, h2]

/-- what may follow the whole set: nothing, or a byte that is not a digit, a colon or a comma -/
def afterSet (t : List Nat) : Bool := afterElem t && (match t with | 44 :: _ => false | _ => true)

theorem serElem_cons (e : Elem) (he : elemOk e = true) : ∃ b r, serElem e = b :: r ∧ b ≠ 32 := by
  cases e with
  | one i =>
    cases i with
    | star => exact ⟨42, [], rfl, by decide⟩
    | num n =>
      obtain ⟨b, r, hd, h1, _⟩ := digits_head_pos n (by simpa [elemOk, idxOk] using he)
      exact ⟨b, r, by simp [serElem, serIdx, hd], by omega⟩
  | range l r =>
    cases l with
    | star => exact ⟨42, 58 :: serIdx r, rfl, by decide⟩
    | num n =>
      simp only [elemOk, Bool.and_eq_true] at he
      obtain ⟨b, r', hd, h1, _⟩ := digits_head_pos n (by simpa [idxOk] using he.1)
      exact ⟨b, r' ++ 58 :: serIdx r, by simp [serElem, serIdx, hd], by omega⟩

theorem parseLoop_ser : ∀ (es : List Elem) (t : List Nat) (f : Nat), es ≠ [] → (∀ e ∈ es, elemOk e = true) →
    afterSet t = true → es.length ≤ f → parseLoop f (ser es ++ t) = some (es, t)
  | [], _, _, h, _, _, _ => absurd rfl h
  | [e], t, f, _, hok, ht, hf => by
    cases f with
    | zero => simp at hf
    | succ f =>
      have hae : afterElem t = true := by simp [afterSet] at ht; exact ht.1
      have hp := parsePart_ser e t (hok e (by simp)) hae
      obtain ⟨b, r, hs, _⟩ := serElem_cons e (hok e (by simp))
      have hne : ser [e] ++ t ≠ [] := by simp [ser, hs]
      have hshape : ser [e] ++ t = serElem e ++ t := by simp [ser]
      simp only [parseLoop, if_neg hne]
      rw [hshape, hp]
      simp only []
      cases t with
      | nil => simp
      | cons c r' =>
        have hc : c ≠ 44 := by intro e1; subst e1; simp [afterSet] at ht
        simp [hc]
  | e :: e2 :: es, t, f, _, hok, ht, hf => by
    cases f with
    | zero => simp at hf
    | succ f =>
      have ih := parseLoop_ser (e2 :: es) t f (by simp) (fun x hx => hok x (by simp [hx])) ht (by simp at hf ⊢; omega)
      have hp := parsePart_ser e (44 :: (ser (e2 :: es) ++ t)) (hok e (by simp)) (by simp [afterElem, firstIsDigit, isDigit])
      obtain ⟨b, r, hs, _⟩ := serElem_cons e (hok e (by simp))
      have hshape : ser (e :: e2 :: es) ++ t = serElem e ++ 44 :: (ser (e2 :: es) ++ t) := by simp [ser]
      have hne : ser (e :: e2 :: es) ++ t ≠ [] := by rw [hshape, hs]; simp
      simp only [parseLoop, if_neg hne]
      rw [hshape, hp]
      simp [ih]

/-- **Round trip of sequence sets.** Any non-empty list of elements over positive numbers and `*`, written as `SequenceSet.__bytes__`
writes it and followed by anything that cannot continue a sequence set, is read back as the same list, and exactly what followed is left. -/
theorem C18_seqset_roundtrip (es : List Elem) (t : List Nat) (hne : es ≠ []) (hok : ∀ e ∈ es, elemOk e = true)
    (ht : afterSet t = true) : SeqText.parse (ser es ++ t) = some (es, t) := by
  have hfirst : skipSpaces (ser es ++ t) = ser es ++ t := by
    cases es with
    | nil => exact absurd rfl hne
    | cons e rest =>
      have hhead : ∃ b r, ser (e :: rest) ++ t = b :: r ∧ b ≠ 32 := by
        obtain ⟨b, r, hs, hb⟩ := serElem_cons e (hok e (by simp))
        cases rest with
        | nil => exact ⟨b, r ++ t, by simp [ser, hs], hb⟩
        | cons e2 es => exact ⟨b, r ++ 44 :: (ser (e2 :: es) ++ t), by simp [ser, hs], hb⟩
      obtain ⟨b, r, hs, hb⟩ := hhead
      rw [hs]
      unfold skipSpaces
      split
      · rename_i heq; injection heq with e1 _; exact absurd e1 hb
      · rfl
  have hlen : es.length ≤ (ser es ++ t).length := by
    have : ∀ (l : List Elem), l.length ≤ (ser l).length := by
      intro l
      induction l with
      | nil => simp [ser]
      | cons e rest ih =>
        have hpos : 1 ≤ (serElem e).length := by
          cases e with
          | one i => cases i <;> simp [serElem, serIdx]; exact Nat.pos_of_ne_zero (fun h0 => C18.digits_ne_nil _ (List.length_eq_zero_iff.1 h0))
          | range l r => simp [serElem]; omega
        cases rest with
        | nil => simpa [ser] using hpos
        | cons e2 es => simp [ser] at ih ⊢; omega
    have := this es
    simp; omega
  have hl := parseLoop_ser es t ((ser es ++ t).length + 1) hne hok ht (by omega)
  unfold SeqText.parse
  rw [hfirst, hl]
  cases es with
  | nil => exact absurd rfl hne
  | cons e rest => rfl

/-- non-vacuity: `1:*,5,*:3` followed by a space -/
example : SeqText.parse (ser [.range (.num 1) .star, .one (.num 5), .range .star (.num 3)] ++ [32, 120]) =
    some ([.range (.num 1) .star, .one (.num 5), .range .star (.num 3)], [32, 120]) :=
  C18_seqset_roundtrip _ _ (by simp) (by decide) (by decide)

end Pymap.C18
