import PymapModel.Done
/-!
# C16 — `DONE`, in any case and with CRLF or LF, ends IDLE; nothing else does
-/
namespace Pymap.C16
open Pymap.Done

theorem splitLF_append : ∀ (g rest : List Nat), 10 ∉ g → splitLF (g ++ 10 :: rest) = some (g, rest)
  | [], rest, _ => by simp [splitLF]
  | b :: g, rest, h => by
    have hb : b ≠ 10 := fun e => h (by simp [e])
    have ih := splitLF_append g rest (fun e => h (by simp [e]))
    simp [splitLF, hb, ih]

theorem splitLF_spec : ∀ (l g rest : List Nat), splitLF l = some (g, rest) → l = g ++ 10 :: rest ∧ 10 ∉ g
  | [], g, rest, h => by simp [splitLF] at h
  | b :: r, g, rest, h => by
    simp only [splitLF] at h
    by_cases hb : b = 10
    · simp [hb] at h
      obtain ⟨rfl, rfl⟩ := h
      simp [hb]
    · simp only [hb, if_false] at h
      cases hs : splitLF r with
      | none => rw [hs] at h; simp at h
      | some p =>
        rw [hs] at h
        simp at h
        obtain ⟨rfl, rfl⟩ := h
        obtain ⟨h1, h2⟩ := splitLF_spec r p.1 p.2 (by rw [hs])
        refine ⟨by rw [h1]; simp, ?_⟩
        intro hm
        simp at hm
        rcases hm with e | e
        · exact hb e.symm
        · exact h2 e

theorem upper_done_no_lf {w : List Nat} (h : w.map upperB = done) : 10 ∉ w ∧ 13 ∉ w := by
  rcases w with _ | ⟨a, _ | ⟨b, _ | ⟨c, _ | ⟨d, _ | ⟨e, t⟩⟩⟩⟩⟩ <;> simp [done] at h
  obtain ⟨h1, h2, h3, h4⟩ := h
  unfold upperB at h1 h2 h3 h4
  constructor <;> (intro hm; simp at hm; rcases hm with e | e | e | e <;> (subst e; simp at h1 h2 h3 h4))

theorem stripCR_append_cr (w : List Nat) : stripCR (w ++ [13]) = w := by
  simp [stripCR]

theorem stripCR_of_no_cr {w : List Nat} (h : 13 ∉ w) : stripCR w = w := by
  unfold stripCR
  split
  · rename_i hl
    exact absurd (List.mem_of_getLast? hl) h
  · rfl

/-- **DONE ends IDLE.** Any spelling of `DONE` by letter case, followed by CRLF or by a bare LF, is recognised, and exactly what
follows the line is left in the buffer. -/
theorem C16_done (w rest : List Nat) (hw : w.map upperB = done) :
    parseDone (w ++ [13, 10] ++ rest) = some (true, rest) ∧ parseDone (w ++ [10] ++ rest) = some (true, rest) := by
  obtain ⟨hlf, hcr⟩ := upper_done_no_lf hw
  constructor
  · have hs : splitLF (w ++ [13, 10] ++ rest) = some (w ++ [13], rest) := by
      have : w ++ [13, 10] ++ rest = (w ++ [13]) ++ 10 :: rest := by simp
      rw [this]
      exact splitLF_append _ _ (by simp [hlf])
    unfold parseDone; rw [hs]; simp [stripCR_append_cr, hw]
  · have hs : splitLF (w ++ [10] ++ rest) = some (w, rest) := by
      have : w ++ [10] ++ rest = w ++ 10 :: rest := by simp
      rw [this]
      exact splitLF_append _ _ hlf
    unfold parseDone; rw [hs]; simp [stripCR_of_no_cr hcr, hw]

/-- **Nothing else does.** A line that is accepted as the end of IDLE is a case variant of `DONE` directly followed by CRLF or LF —
no padding, no second CR, nothing in front (the seeded changes C16-e and C06-f both touch this recogniser). -/
theorem C16_only_done (l rest : List Nat) (h : parseDone l = some (true, rest)) :
    ∃ w, w.map upperB = done ∧ (l = w ++ [13, 10] ++ rest ∨ l = w ++ [10] ++ rest) := by
  unfold parseDone at h
  cases hs : splitLF l with
  | none => rw [hs] at h; simp at h
  | some p =>
    rw [hs] at h
    simp at h
    obtain ⟨hd, hr⟩ := h
    obtain ⟨hl, _⟩ := splitLF_spec l p.1 p.2 (by rw [hs])
    subst hr
    unfold stripCR at hd
    split at hd
    · rename_i hlast
      refine ⟨p.1.dropLast, hd, Or.inl ?_⟩
      have : p.1 = p.1.dropLast ++ [13] := by
        have hne : p.1 ≠ [] := by intro e; rw [e] at hlast; simp at hlast
        have := List.dropLast_concat_getLast hne
        have hg : p.1.getLast hne = 13 := by
          have := List.getLast?_eq_getLast hne
          rw [this] at hlast; injection hlast
        rw [hg] at this; exact this.symm
      rw [hl]
      conv => lhs; rw [this]
      simp
    · exact ⟨p.1, hd, Or.inr (by rw [hl]; simp)⟩

/-- non-vacuity: `dOnE` CRLF is the end, `DONE ` CRLF and `DONE` CR CRLF are not -/
example : parseDone [100, 79, 110, 69, 13, 10, 65] = some (true, [65]) ∧ parseDone [68, 79, 78, 69, 32, 13, 10] = some (false, []) ∧
    parseDone [68, 79, 78, 69, 13, 13, 10] = some (false, []) ∧ parseDone [68, 79, 78, 69] = none := by decide

end Pymap.C16
