import PymapProofs.Lemmas.RWInv
/-! Progress invariant of the read-write lock model: who is queued where, who holds `R`, and the first waiter
of a free mutex is never still pending -/
namespace Pymap.RWLock

def WSt.live : WSt → Bool
  | .pending | .woken => true
  | _ => false

/-- the queue of a mutex, forgetting whether a waiter has been woken: (task, still waiting / cancelled) -/
def keys (l : ALock) : List (Nat × Bool) := l.waiters.map (fun w => (w.1, w.2.live))

theorem keys_wakeFirst (l : ALock) : keys l.wakeFirst = keys l := by
  unfold ALock.wakeFirst keys
  split
  · rename_i t r h; simp [h, WSt.live]
  · rfl

theorem keys_release (l : ALock) : keys l.release = keys l := by
  unfold ALock.release; rw [keys_wakeFirst]; rfl

theorem release_locked (l : ALock) : l.release.locked = false := by
  simp [ALock.release, wakeFirst_locked]

theorem keys_enqueue (l : ALock) (i : Nat) : keys (l.enqueue i) = keys l ++ [(i, true)] := by
  simp [keys, ALock.enqueue, WSt.live]

theorem mem_keys_take (l : ALock) (i j : Nat) (b : Bool) : (j, b) ∈ keys (l.take i) ↔ (j, b) ∈ keys l ∧ j ≠ i := by
  simp only [keys, ALock.take, List.mem_map, List.mem_filter]
  constructor
  · rintro ⟨w, ⟨hm, hne⟩, he⟩
    simp at he
    refine ⟨⟨w, hm, by simp [he]⟩, ?_⟩
    rw [← he.1]; simpa using hne
  · rintro ⟨⟨w, hm, he⟩, hne⟩
    simp at he
    refine ⟨w, ⟨hm, ?_⟩, by simp [he]⟩
    rw [he.1]; simpa using hne

theorem cancelW_key (i : Nat) (w : Nat × WSt) :
    ((cancelW i w).1, (cancelW i w).2.live) = if w.1 = i then (w.1, false) else (w.1, w.2.live) := by
  unfold cancelW
  by_cases h : w.1 = i
  · obtain ⟨a, b⟩ := w
    simp at h; subst h
    cases b <;> simp [WSt.cancel, WSt.live]
  · have : (w.1 == i) = false := by simpa using h
    simp [this, h]

theorem mem_keys_markCancel (l : ALock) (i j : Nat) (b : Bool) :
    (j, b) ∈ keys (l.markCancel i) ↔ (j ≠ i ∧ (j, b) ∈ keys l) ∨ (j = i ∧ b = false ∧ ∃ b0, (i, b0) ∈ keys l) := by
  simp only [keys, ALock.markCancel, List.map_map, List.mem_map, Function.comp]
  constructor
  · rintro ⟨w, hm, he⟩
    rw [cancelW_key] at he
    by_cases h : w.1 = i
    · rw [if_pos h] at he
      simp at he
      exact Or.inr ⟨by rw [← he.1, h], he.2, w.2.live, w, hm, by simp [h]⟩
    · rw [if_neg h] at he
      simp at he
      exact Or.inl ⟨by rw [← he.1]; exact h, w, hm, by simp [he]⟩
  · rintro (⟨hne, w, hm, he⟩ | ⟨rfl, rfl, b0, w, hm, he⟩)
    · simp at he
      refine ⟨w, hm, ?_⟩
      rw [cancelW_key, if_neg (by rw [he.1]; exact hne)]; simp [he]
    · simp at he
      refine ⟨w, hm, ?_⟩
      rw [cancelW_key, if_pos he.1]; simp [he.1]

theorem mem_keys_filter (l : ALock) (i j : Nat) (b : Bool) :
    (j, b) ∈ keys ({ l with waiters := l.waiters.filter (fun w => w.1 != i) } : ALock) ↔ (j, b) ∈ keys l ∧ j ≠ i :=
  mem_keys_take l i j b

theorem mem_keys_unwind (l : ALock) (i j : Nat) (b : Bool) : (j, b) ∈ keys (l.unwind i) ↔ (j, b) ∈ keys l ∧ j ≠ i := by
  unfold ALock.unwind
  simp only []
  split
  · exact mem_keys_filter l i j b
  · rw [keys_wakeFirst]; exact mem_keys_filter l i j b

theorem unwind_locked (l : ALock) (i : Nat) : (l.unwind i).locked = l.locked := by
  unfold ALock.unwind
  simp only []
  split
  · rfl
  · rw [wakeFirst_locked]

/-- the first waiter of a free mutex is not an unwoken, uncancelled one -/
def headOk (l : ALock) : Prop := l.locked = false → ∀ w r, l.waiters = w :: r → w.2 ≠ .pending

theorem headOk_locked {l : ALock} (h : l.locked = true) : headOk l := by
  intro h'; rw [h] at h'; cases h'

theorem headOk_wakeFirst (l : ALock) : headOk l.wakeFirst := by
  intro _ w r hw
  unfold ALock.wakeFirst at hw
  split at hw
  · simp at hw; rw [← hw.1]; simp
  · rename_i hne
    intro hp
    obtain ⟨a, b⟩ := w
    simp at hp; subst hp
    exact hne a r hw

theorem headOk_release (l : ALock) : headOk l.release := headOk_wakeFirst _

theorem headOk_enqueue {l : ALock} (h : headOk l) (i : Nat) (hf : l.canFast = false) : headOk (l.enqueue i) := by
  intro hl w r hw
  have hl' : l.locked = false := hl
  cases hq : l.waiters with
  | nil => simp [ALock.canFast, hl', hq] at hf
  | cons a as =>
    simp only [ALock.enqueue, hq, List.cons_append, List.cons.injEq] at hw
    rw [← hw.1]; exact h hl' a as hq

theorem headOk_markCancel {l : ALock} (h : headOk l) (i : Nat) : headOk (l.markCancel i) := by
  intro hl w r hw
  have hl' : l.locked = false := hl
  cases hq : l.waiters with
  | nil => simp [ALock.markCancel, hq] at hw
  | cons a as =>
    simp only [ALock.markCancel, hq, List.map_cons, List.cons.injEq] at hw
    have ha := h hl' a as hq
    rw [← hw.1]
    unfold cancelW
    split
    · obtain ⟨x, y⟩ := a
      cases y <;> simp [WSt.cancel] at ha ⊢
    · exact ha

theorem headOk_unwind (l : ALock) (i : Nat) : headOk (l.unwind i) := by
  unfold ALock.unwind
  simp only []
  split
  · rename_i h; exact headOk_locked h
  · exact headOk_wakeFirst _

abbrev okR (p : PC) (b : Bool) : Prop := (b = true → p = .rWaitR) ∧ (b = false → p = .cR)
abbrev okW (p : PC) (b : Bool) : Prop := (b = true → p = .rWaitW ∨ p = .wWaitW) ∧ (b = false → p = .cRW ∨ p = .cW)

structure PInv (s : St) : Prop where
  hr : headOk s.r
  hw : headOk s.w
  lr : ∀ j b, (j, b) ∈ keys s.r → ∃ t, s.tasks[j]? = some t ∧ okR t.pc b
  lw : ∀ j b, (j, b) ∈ keys s.w → ∃ t, s.tasks[j]? = some t ∧ okW t.pc b
  qr : ∀ j t, s.tasks[j]? = some t → t.pc = .rWaitR → (j, true) ∈ keys s.r
  qw : ∀ j t, s.tasks[j]? = some t → (t.pc = .rWaitW ∨ t.pc = .wWaitW) → (j, true) ∈ keys s.w
  rl : s.r.locked = true → ∃ (j : Nat) (t : Task), s.tasks[j]? = some t ∧ (t.pc = .rWaitW ∨ t.pc = .cRW)

theorem getElem?_map_idle (progs : List (List Bool)) (j : Nat) (t : Task)
    (h : (progs.map (fun p => (⟨.idle, p⟩ : Task)))[j]? = some t) : t.pc = .idle := by
  rw [List.getElem?_map] at h
  cases hp : progs[j]? with
  | none => rw [hp] at h; simp at h
  | some p => rw [hp] at h; simp at h; rw [← h]

theorem PInv.init (progs : List (List Bool)) : PInv (St.init progs) := by
  constructor
  · intro _ w r h; simp [St.init, ALock.free] at h
  · intro _ w r h; simp [St.init, ALock.free] at h
  · intro j b h; simp [St.init, ALock.free, keys] at h
  · intro j b h; simp [St.init, ALock.free, keys] at h
  · intro j t h hp; have := getElem?_map_idle progs j t h; rw [this] at hp; cases hp
  · intro j t h hp; have := getElem?_map_idle progs j t h; rw [this] at hp; rcases hp with hp | hp <;> cases hp
  · intro h; simp [St.init, ALock.free] at h

/-- generic update: task `i` moves from `t` to `t'`, the two mutexes become `r'` and `w'` -/
theorem PInv.upd {s : St} (h : PInv s) (i : Nat) (t t' : Task) (ht : s.tasks[i]? = some t) (r' w' : ALock) (c' : Nat)
    (hr : headOk r') (hw : headOk w')
    (lr : ∀ j b, (j, b) ∈ keys r' → (j ≠ i ∧ (j, b) ∈ keys s.r) ∨ (j = i ∧ okR t'.pc b))
    (lw : ∀ j b, (j, b) ∈ keys w' → (j ≠ i ∧ (j, b) ∈ keys s.w) ∨ (j = i ∧ okW t'.pc b))
    (qr : ∀ j, j ≠ i → (j, true) ∈ keys s.r → (j, true) ∈ keys r')
    (qri : t'.pc = .rWaitR → (i, true) ∈ keys r')
    (qw : ∀ j, j ≠ i → (j, true) ∈ keys s.w → (j, true) ∈ keys w')
    (qwi : (t'.pc = .rWaitW ∨ t'.pc = .wWaitW) → (i, true) ∈ keys w')
    (rl : r'.locked = true → (t'.pc = .rWaitW ∨ t'.pc = .cRW) ∨ (s.r.locked = true ∧ ¬ (t.pc = .rWaitW ∨ t.pc = .cRW))) :
    PInv (setPc { s with r := r', w := w', counter := c' } i t') := by
  have hi : i < s.tasks.length := by
    rcases Nat.lt_or_ge i s.tasks.length with h1 | h1
    · exact h1
    · rw [List.getElem?_eq_none h1] at ht; cases ht
  have hset_i : (s.tasks.set i t')[i]? = some t' := by rw [List.getElem?_set]; simp [hi]
  have hset_ne : ∀ j, j ≠ i → (s.tasks.set i t')[j]? = s.tasks[j]? := by
    intro j hj; rw [List.getElem?_set]; rw [if_neg (fun e => hj e.symm)]
  constructor
  · exact hr
  · exact hw
  · intro j b hm
    rcases lr j b hm with ⟨hne, hm'⟩ | ⟨rfl, hok⟩
    · obtain ⟨tj, htj, hok⟩ := h.lr j b hm'
      exact ⟨tj, by show (s.tasks.set i t')[j]? = some tj; rw [hset_ne j hne]; exact htj, hok⟩
    · exact ⟨t', hset_i, hok⟩
  · intro j b hm
    rcases lw j b hm with ⟨hne, hm'⟩ | ⟨rfl, hok⟩
    · obtain ⟨tj, htj, hok⟩ := h.lw j b hm'
      exact ⟨tj, by show (s.tasks.set i t')[j]? = some tj; rw [hset_ne j hne]; exact htj, hok⟩
    · exact ⟨t', hset_i, hok⟩
  · intro j tj htj hp
    have htj' : (s.tasks.set i t')[j]? = some tj := htj
    by_cases hj : j = i
    · subst hj; rw [hset_i] at htj'; injection htj' with e; subst e; exact qri hp
    · rw [hset_ne j hj] at htj'; exact qr j hj (h.qr j tj htj' hp)
  · intro j tj htj hp
    have htj' : (s.tasks.set i t')[j]? = some tj := htj
    by_cases hj : j = i
    · subst hj; rw [hset_i] at htj'; injection htj' with e; subst e; exact qwi hp
    · rw [hset_ne j hj] at htj'; exact qw j hj (h.qw j tj htj' hp)
  · intro hl
    rcases rl hl with hp | ⟨hl0, hnp⟩
    · exact ⟨i, t', hset_i, hp⟩
    · obtain ⟨j, tj, htj, hp⟩ := h.rl hl0
      have hj : j ≠ i := by
        intro e; subst e; rw [ht] at htj; injection htj with e; subst e; exact hnp hp
      exact ⟨j, tj, by show (s.tasks.set i t')[j]? = some tj; rw [hset_ne j hj]; exact htj, hp⟩

/-- task `i` is not queued on `R` unless its pc says so -/
theorem PInv.keepR {s : St} (h : PInv s) {i : Nat} {t : Task} (ht : s.tasks[i]? = some t)
    (h1 : t.pc ≠ .rWaitR) (h2 : t.pc ≠ .cR) (p : PC) :
    ∀ j b, (j, b) ∈ keys s.r → (j ≠ i ∧ (j, b) ∈ keys s.r) ∨ (j = i ∧ okR p b) := by
  intro j b hm
  refine Or.inl ⟨?_, hm⟩
  intro e; subst e
  obtain ⟨tj, htj, hok⟩ := h.lr j b hm
  rw [ht] at htj; injection htj with e; subst e
  cases b
  · exact h2 (hok.2 rfl)
  · exact h1 (hok.1 rfl)

theorem PInv.keepW {s : St} (h : PInv s) {i : Nat} {t : Task} (ht : s.tasks[i]? = some t)
    (h1 : t.pc ≠ .rWaitW) (h2 : t.pc ≠ .wWaitW) (h3 : t.pc ≠ .cRW) (h4 : t.pc ≠ .cW) (p : PC) :
    ∀ j b, (j, b) ∈ keys s.w → (j ≠ i ∧ (j, b) ∈ keys s.w) ∨ (j = i ∧ okW p b) := by
  intro j b hm
  refine Or.inl ⟨?_, hm⟩
  intro e; subst e
  obtain ⟨tj, htj, hok⟩ := h.lw j b hm
  rw [ht] at htj; injection htj with e; subst e
  cases b
  · rcases hok.2 rfl with e | e
    · exact h3 e
    · exact h4 e
  · rcases hok.1 rfl with e | e
    · exact h1 e
    · exact h2 e

end Pymap.RWLock
