import PymapProofs.Lemmas.Sync
/-! Ghost-client lemmas for C01 -/
namespace Pymap.Sync

/-- 1-based positions (offset `i`) of the elements of a list that fail `keep`, ascending -/
def dropSeqsFrom (keep : Nat → Bool) : Nat → List Nat → List Nat
  | _, [] => []
  | i, u :: us => if keep u then dropSeqsFrom keep (i+1) us else i :: dropSeqsFrom keep (i+1) us

theorem clientRun_append (srv c : List Nat) (a b : List Untagged) :
    clientRun srv c (a ++ b) = (clientRun srv c a).bind (fun c' => clientRun srv c' b) := by
  induction a generalizing c with
  | nil => simp [clientRun]
  | cons r rs ih =>
    simp only [List.cons_append, clientRun]
    cases clientApply srv c r with
    | none => simp
    | some c' => simp [ih]

/-- EXPUNGEs in descending order of the previous numbering: every number is in range when applied
and the result is the filter -/
theorem clientRun_expunges (srv : List Nat) (keep : Nat → Bool) (pre us : List Nat) :
    clientRun srv (pre ++ us) (((dropSeqsFrom keep (pre.length+1) us).reverse).map Untagged.expunge)
      = some (pre ++ us.filter keep) := by
  induction us generalizing pre with
  | nil => simp [dropSeqsFrom, clientRun]
  | cons u us ih =>
    simp only [dropSeqsFrom]
    split
    · rename_i h
      have := ih (pre ++ [u])
      simp only [List.length_append, List.length_singleton, List.append_assoc, List.singleton_append] at this
      rw [this]; simp [List.filter, h]
    · rename_i h
      have := ih (pre ++ [u])
      simp only [List.length_append, List.length_singleton, List.append_assoc, List.singleton_append] at this
      simp only [List.reverse_cons, List.map_append, List.map_cons, List.map_nil, clientRun_append]
      rw [this]
      simp only [Option.bind_some, clientRun, clientApply]
      have hlen : 1 ≤ pre.length + 1 ∧ pre.length + 1 ≤ (pre ++ u :: List.filter keep us).length := by
        simp
      simp only [hlen, and_self, if_true]
      simp [List.filter, h, List.eraseIdx_append_of_length_le]

/-- two strictly increasing lists with the same members are equal -/
theorem sorted_unique : ∀ {l1 l2 : List Nat}, l1.Pairwise (· < ·) → l2.Pairwise (· < ·) →
    (∀ x, x ∈ l1 ↔ x ∈ l2) → l1 = l2
  | [], [], _, _, _ => rfl
  | [], b :: _, _, _, h => by have := (h b).2 (by simp); simp at this
  | a :: _, [], _, _, h => by have := (h a).1 (by simp); simp at this
  | a :: as, b :: bs, h1, h2, h => by
    simp only [List.pairwise_cons] at h1 h2
    have hab : a = b := by
      have ha := (h a).1 (by simp); have hb := (h b).2 (by simp)
      simp at ha hb
      rcases ha with ha | ha
      · exact ha
      · rcases hb with hb | hb
        · exact hb.symm
        · have h3 : b < a := h2.1 a ha
          have h4 : a < b := h1.1 b hb
          omega
    subst hab
    congr 1
    apply sorted_unique h1.2 h2.2
    intro x
    constructor
    · intro hx
      have := (h x).1 (by simp [hx]); simp at this
      rcases this with rfl | h5
      · have : x < x := h1.1 x hx; omega
      · exact h5
    · intro hx
      have := (h x).2 (by simp [hx]); simp at this
      rcases this with rfl | h5
      · have : x < x := h2.1 x hx; omega
      · exact h5

/-- a strictly increasing list splits as (members satisfying p) ++ (others) when every p-member is below every other -/
theorem sorted_split (p : Nat → Bool) : ∀ {l : List Nat}, l.Pairwise (· < ·) →
    (∀ x ∈ l, ∀ y ∈ l, p x = true → p y = false → x < y) →
    l = l.filter p ++ l.filter (fun x => !p x)
  | [], _, _ => rfl
  | a :: as, h, hsep => by
    simp only [List.pairwise_cons] at h
    have ih := sorted_split p h.2 (fun x hx y hy => hsep x (by simp [hx]) y (by simp [hy]))
    by_cases hpa : p a = true
    · simp only [List.filter, hpa, Bool.not_true]
      simp only [List.cons_append]; congr 1
    · have hpa' : p a = false := by simpa using hpa
      -- then nothing after `a` satisfies p
      have hnone : as.filter p = [] := by
        rw [List.filter_eq_nil_iff]
        intro x hx hpx
        have h1 : x < a := hsep x (by simp [hx]) a (by simp) hpx hpa'
        have h2 : a < x := h.1 x hx
        omega
      have hall : as.filter (fun x => !p x) = as := by
        rw [List.filter_eq_self]
        intro x hx
        have : x ∉ as.filter p := by rw [hnone]; simp
        simp [List.mem_filter, hx] at this
        simp [this]
      simp [List.filter, hpa', hnone, hall]

end Pymap.Sync
