import PymapProofs.Lemmas.Stable
/-! `update_selected` while EXPUNGE is hidden, and the very first one after SELECT -/
namespace Pymap.Mailbox
open Pymap.ModSeq Pymap.Sync

theorem remove_pending_mode (v : View) (exp : List Nat) :
    remove v exp true = { v with pending := exp ++ v.pending } := by simp [remove]

/-- hidden mode: nothing leaves the view; everything in the mailbox is in the view; what is in the
view but no longer in the mailbox is remembered in `pending` -/
theorem sync_hide {b : MBox} {v : View} {p : Nat} (hb : MBoxInv b) (hc : Consistent b v p) :
    let r := updateSelected b v (some p) true
    (∀ u, u ∈ v.uids → u ∈ r.1.uids) ∧
    (∀ u, u ∈ r.1.uids ↔ u ∈ v.uids ∨ u ∈ b.uids) ∧
    Consistent b r.1 r.2 := by
  intro r
  let upd := (findUpdated b.log p).1
  let exp := (findUpdated b.log p).2
  let del := (upd.filterMap b.find).map toC
  have hr : r.1 = { update v del with pending := exp ++ (update v del).pending } := by
    show remove (update v del) exp true = _
    exact remove_pending_mode _ _
  have hU := findUpdated_updates hb.log p
  have hE := findUpdated_expunges hb.log p
  have hdel : ∀ u, u ∈ del.map (·.uid) ↔ u ∈ upd ∧ u ∈ b.uids := by
    intro u
    simp only [del, List.map_map, List.mem_map, List.mem_filterMap, Function.comp]
    constructor
    · rintro ⟨m, ⟨x, hx, hf⟩, rfl⟩
      obtain ⟨hm, hmu⟩ := find_some hf
      simp only [toC]
      exact ⟨hmu ▸ hx, by simp [MBox.uids]; exact ⟨m, hm, rfl⟩⟩
    · rintro ⟨hu1, hu2⟩
      obtain ⟨m, hm⟩ := find_isSome hu2
      exact ⟨m, ⟨u, hu1, hm⟩, by simp [toC, (find_some hm).2]⟩
  have hclass : ∀ u, u ∈ upd ∨ u ∈ exp ∨ (∀ m, alookup u b.log.last = some m → m < p) := by
    intro u
    cases hl : alookup u b.log.last with
    | none => right; right; intro m hm; simp at hm
    | some m =>
      by_cases hpm : p ≤ m
      · rcases hb.log.lastMem u m hl with hs | hs
        · left; exact (hU u).2 ⟨m, hl, hpm, hs⟩
        · right; left; exact (hE u).2 ⟨m, hl, hpm, hs⟩
      · right; right; intro m' hm'; simp at hm'; omega
  have hupd_in : ∀ u, u ∈ upd → u ∈ b.uids := by
    intro u hu
    obtain ⟨m, hl, _, hs⟩ := (hU u).1 hu
    exact (hb.kind u m hl).1 hs
  have hexp_out : ∀ u, u ∈ exp → u ∉ b.uids := by
    intro u hu
    obtain ⟨m, hl, _, hs⟩ := (hE u).1 hu
    exact fun hc' => not_inU_of_inE hb.log hs ((hb.kind u m hl).2 hc')
  have huids : ∀ u, u ∈ r.1.uids ↔ u ∈ v.uids ∨ (u ∈ upd ∧ u ∈ b.uids) := by
    intro u; rw [hr]; show u ∈ (update v del).uids ↔ _; rw [update_uids, hdel]
  have hin : ∀ u, u ∈ b.uids → u ∈ r.1.uids := by
    intro u hu
    rw [huids]
    rcases hclass u with h4 | h4 | h4
    · exact Or.inr ⟨h4, hu⟩
    · exact absurd hu (hexp_out u h4)
    · exact Or.inl (hc.inView u hu h4).1
  refine ⟨fun u hu => (huids u).2 (Or.inl hu), ?_, ?_⟩
  · intro u; rw [huids]
    constructor
    · rintro (h | h); exact Or.inl h; exact Or.inr h.2
    · rintro (h | h); exact Or.inl h; exact (huids u).1 (hin u h)
  · constructor
    · intro u hu _
      refine ⟨hin u hu, ?_⟩
      rw [hr]; show Sync.lookup u (update v del).fkeys = _
      rw [update_fkeys]
      obtain ⟨m, hm⟩ := find_isSome hu
      rw [hm]; simp only [Option.map_some]
      by_cases hdu : u ∈ upd
      · apply lookup_append_front
        · intro q hq hqu
          simp only [List.mem_reverse, List.mem_map, del, List.mem_filterMap] at hq
          obtain ⟨c, ⟨m', ⟨x, _, hf⟩, rfl⟩, rfl⟩ := hq
          simp only [toC] at hqu ⊢
          obtain ⟨_, hm'u⟩ := find_some hf
          have : b.find u = some m' := by rw [← hm'u, hqu] at hf; exact hf
          rw [hm] at this; simp at this; rw [this]
        · refine ⟨(u, m.flags), ?_, rfl⟩
          simp only [List.mem_reverse, List.mem_map, del, List.mem_filterMap]
          exact ⟨toC m, ⟨m, ⟨u, hdu, hm⟩, rfl⟩, by simp [toC, (find_some hm).2]⟩
      · rw [lookup_append_back]
        · rcases hclass u with h4 | h4 | h4
          · exact absurd h4 hdu
          · exact absurd hu (hexp_out u h4)
          · have := (hc.inView u hu h4).2
            simpa [View.flagsOf, hm] using this
        · intro q hq hqu
          simp only [List.mem_reverse, List.mem_map] at hq
          obtain ⟨c, hc', rfl⟩ := hq
          have : u ∈ del.map (·.uid) := by simp only [List.mem_map]; exact ⟨c, hc', hqu⟩
          exact hdu ((hdel u).1 this).1
    · intro u hu _
      by_cases huv : u ∈ r.1.uids
      · right
        rw [hr]; show u ∈ exp ++ (update v del).pending
        rw [update_pending, List.mem_append]
        rcases (huids u).1 huv with h | h
        · rcases hclass u with h4 | h4 | h4
          · exact absurd (hupd_in u h4) hu
          · exact Or.inl h4
          · rcases hc.gone u hu h4 with h5 | h5
            · exact absurd h h5
            · exact Or.inr h5
        · exact absurd h.2 hu
      · exact Or.inl huv
    · intro u hu
      rw [hr] at hu
      have hu : u ∈ exp ++ (update v del).pending := hu
      rw [update_pending, List.mem_append] at hu
      rcases hu with h | h
      · exact hexp_out u h
      · exact hc.pend u h
    · intro u hu
      rcases hu with hu | hu
      · rcases (huids u).1 hu with h | h
        · exact hc.bound u (Or.inl h)
        · exact hb.le u h.2
      · rw [hr] at hu
        have hu : u ∈ exp ++ (update v del).pending := hu
        rw [update_pending, List.mem_append] at hu
        rcases hu with h | h
        · obtain ⟨m, hl, _, _⟩ := (hE u).1 h
          exact hb.lastLe u m hl
        · exact hc.bound u (Or.inr h)

end Pymap.Mailbox

namespace Pymap.Mailbox
open Pymap.ModSeq Pymap.Sync

/-- the first `update_selected` after SELECT (`mod_sequence is None`): the whole mailbox is loaded -/
theorem first_sync {b : MBox} (hb : MBoxInv b) (hide : Bool) :
    let r := updateSelected b View.empty none hide
    (∀ u, u ∈ r.1.uids ↔ u ∈ b.uids) ∧ Consistent b r.1 r.2 := by
  intro r
  have hr : r.1 = remove (update View.empty (b.msgs.map toC)) [] hide := rfl
  have hpend : (update View.empty (b.msgs.map toC)).pending = [] := by rw [update_pending]; rfl
  have hmap : (b.msgs.map toC).map (·.uid) = b.uids := by simp [MBox.uids, toC, Function.comp_def]
  have huids : ∀ u, u ∈ r.1.uids ↔ u ∈ b.uids := by
    intro u
    rw [hr]
    cases hide with
    | true => rw [remove_uids_pending, update_uids, hmap]; simp [View.empty]
    | false => rw [remove_uids_nonpending, update_uids, hmap, hpend]; simp [View.empty]
  have hpend' : r.1.pending = [] := by
    rw [hr]
    cases hide with
    | true => rw [remove_pending_mode]; show [] ++ (update View.empty (b.msgs.map toC)).pending = []; rw [hpend]; rfl
    | false => exact remove_pending_nonpending _ _
  refine ⟨huids, ?_⟩
  constructor
  · intro u hu _
    refine ⟨(huids u).2 hu, ?_⟩
    have hu' : u ∈ (remove (update View.empty (b.msgs.map toC)) [] hide).uids := by
      rw [← hr]; exact (huids u).2 hu
    rw [hr, remove_flagsOf _ _ _ _ hu']
    simp only [View.flagsOf, update_fkeys]
    obtain ⟨m, hm⟩ := find_isSome hu
    rw [hm]; simp only [Option.map_some]
    apply lookup_append_front
    · intro q hq hqu
      simp only [List.mem_reverse, List.mem_map] at hq
      obtain ⟨c, ⟨m', hm', rfl⟩, rfl⟩ := hq
      simp only [toC] at hqu ⊢
      -- uids are unique in the store, so m' = m
      obtain ⟨hmm, hmu⟩ := find_some hm
      have hnd : (b.msgs.map (·.uid)).Nodup := Sync.pairwise_lt_nodup hb.sorted
      obtain ⟨i, hi, rfl⟩ := List.mem_iff_getElem.1 hm'
      obtain ⟨j, hj, rfl⟩ := List.mem_iff_getElem.1 hmm
      have : (b.msgs.map (·.uid))[i]'(by simpa using hi) = (b.msgs.map (·.uid))[j]'(by simpa using hj) := by
        simp [hqu, hmu]
      have := (List.getElem_inj hnd).1 this
      subst this; rfl
    · obtain ⟨hmm, hmu⟩ := find_some hm
      exact ⟨(u, m.flags), by simp only [List.mem_reverse, List.mem_map]; exact ⟨toC m, ⟨m, hmm, rfl⟩, by simp [toC, hmu]⟩, rfl⟩
  · intro u hu _; exact Or.inl (fun hc => hu ((huids u).1 hc))
  · intro u hu; rw [hpend'] at hu; simp at hu
  · intro u hu
    rcases hu with hu | hu
    · exact hb.le u ((huids u).1 hu)
    · rw [hpend'] at hu; simp at hu

end Pymap.Mailbox
