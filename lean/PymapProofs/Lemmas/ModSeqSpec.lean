import PymapProofs.Lemmas.ModSeq
/-! Relational specification of `_set`: what it does to each uid's (last, kind) -/
namespace Pymap.ModSeq

def inU (l : Log) (q u : Nat) : Prop := ∃ s, alookup q l.updates = some s ∧ u ∈ s
def inE (l : Log) (q u : Nat) : Prop := ∃ s, alookup q l.expunges = some s ∧ u ∈ s

theorem mem_clean_iff {u u' : Nat} (hne : u' ≠ u) (o : Option (List Nat)) :
    (∃ s, clean u o = some s ∧ u' ∈ s) ↔ (∃ s, o = some s ∧ u' ∈ s) := by
  constructor
  · rintro ⟨s, hs, hu⟩
    obtain ⟨s0, hs0, hs1, _⟩ := clean_some hs
    subst hs1; simp [List.mem_filter] at hu
    exact ⟨s0, hs0, hu.1⟩
  · rintro ⟨s, rfl, hu⟩
    exact mem_clean hu hne

theorem removePrev_in_other (u p q u' : Nat) (hne : u' ≠ u) (data : List (Nat × List Nat)) (order : List Nat) :
    (∃ s, alookup q (removePrev u p data order).1 = some s ∧ u' ∈ s) ↔ (∃ s, alookup q data = some s ∧ u' ∈ s) := by
  rw [removePrev_lookup']
  by_cases e : q = p
  · subst e; simp only [if_true]; exact mem_clean_iff hne _
  · simp only [e, if_false]

theorem removePrev_in_ne (u p q u' : Nat) (hq : q ≠ p) (data : List (Nat × List Nat)) (order : List Nat) :
    (∃ s, alookup q (removePrev u p data order).1 = some s ∧ u' ∈ s) ↔ (∃ s, alookup q data = some s ∧ u' ∈ s) := by
  rw [removePrev_lookup']; simp only [hq, if_false]

theorem setOne_last (m : Nat) (l : Log) (u u' : Nat) :
    alookup u' (setOne m l u).last = if u' = u then some m else alookup u' l.last := by
  unfold setOne
  cases alookup u l.last <;> simp only [alookup_aset]

theorem setOne_inU_other (m : Nat) (l : Log) (u u' q : Nat) (hne : u' ≠ u) :
    inU (setOne m l u) q u' ↔ inU l q u' := by
  unfold setOne inU
  cases alookup u l.last with
  | none => rfl
  | some p => exact removePrev_in_other u p q u' hne _ _

theorem setOne_inE_other (m : Nat) (l : Log) (u u' q : Nat) (hne : u' ≠ u) :
    inE (setOne m l u) q u' ↔ inE l q u' := by
  unfold setOne inE
  cases alookup u l.last with
  | none => rfl
  | some p => exact removePrev_in_other u p q u' hne _ _

theorem setOne_inU_self (m : Nat) (l : Log) (u q : Nat) (hq : ∀ p, alookup u l.last = some p → q ≠ p) :
    inU (setOne m l u) q u ↔ inU l q u := by
  unfold setOne inU
  cases hp : alookup u l.last with
  | none => rfl
  | some p => exact removePrev_in_ne u p q u (hq p hp) _ _

theorem setOne_inE_self (m : Nat) (l : Log) (u q : Nat) (hq : ∀ p, alookup u l.last = some p → q ≠ p) :
    inE (setOne m l u) q u ↔ inE l q u := by
  unfold setOne inE
  cases hp : alookup u l.last with
  | none => rfl
  | some p => exact removePrev_in_ne u p q u (hq p hp) _ _

theorem setOne_highest (m : Nat) (l : Log) (u : Nat) : (setOne m l u).highest = l.highest := by
  unfold setOne; cases alookup u l.last <;> rfl

/-- effect of the whole `for uid in uids` loop -/
theorem foldl_setOne_spec {m : Nat} {k : Kind} : ∀ {rest : List Nat} {l : Log},
    MidInv m k rest l → rest.Nodup →
    let l' := rest.foldl (setOne m) l
    (∀ u, alookup u l'.last = if u ∈ rest then some m else alookup u l.last) ∧
    (∀ u q, (u ∉ rest ∨ q = m) → (inU l' q u ↔ inU l q u) ∧ (inE l' q u ↔ inE l q u)) ∧
    l'.highest = l.highest
  | [], l, _, _ => by simp
  | a :: rest, l, h, hnd => by
    simp only [List.nodup_cons] at hnd
    have ih := foldl_setOne_spec (h.step hnd.1) hnd.2
    simp only [List.foldl_cons] at ih ⊢
    obtain ⟨ih1, ih2, ih3⟩ := ih
    refine ⟨?_, ?_, ?_⟩
    · intro u
      rw [ih1, setOne_last]
      by_cases e : u = a
      · subst e; simp [hnd.1]
      · simp [e]
    · intro u q hq
      have hq' : u ∉ rest ∨ q = m := by
        rcases hq with hq | hq
        · exact Or.inl (fun hc => hq (by simp [hc]))
        · exact Or.inr hq
      obtain ⟨i1, i2⟩ := ih2 u q hq'
      rw [i1, i2]
      by_cases e : u = a
      · subst e
        have hqm : q = m := by
          rcases hq with hq | hq
          · exact absurd (by simp) hq
          · exact hq
        have hne : ∀ p, alookup u l.last = some p → q ≠ p := by
          intro p hp; have := h.restLt u (by simp) p hp; omega
        exact ⟨setOne_inU_self m l u q hne, setOne_inE_self m l u q hne⟩
      · exact ⟨setOne_inU_other m l a u q e, setOne_inE_other m l a u q e⟩
    · rw [ih3, setOne_highest]

end Pymap.ModSeq

namespace Pymap.ModSeq

theorem set1_inU_ne (l : Log) (uids : List Nat) (k : Kind) (q u : Nat) (hq : q ≠ l.highest + 1) :
    (inU (set1 l uids k) q u ↔ inU l q u) ∧ (inE (set1 l uids k) q u ↔ inE l q u) := by
  cases k <;> simp [set1, inU, inE, alookup_aset_ne hq]

theorem set1_last (l : Log) (uids : List Nat) (k : Kind) : (set1 l uids k).last = l.last := by
  cases k <;> rfl

/-- **what `_set` does**, uid by uid -/
theorem set_spec {l : Log} (h : LogInv l) (uids : List Nat) (hnd : uids.Nodup) (k : Kind) :
    let l' := set l uids k
    l'.highest = l.highest + 1 ∧
    (∀ u, alookup u l'.last = if u ∈ uids then some (l.highest + 1) else alookup u l.last) ∧
    (∀ u, u ∉ uids → ∀ q, (inU l' q u ↔ inU l q u) ∧ (inE l' q u ↔ inE l q u)) ∧
    (∀ u, u ∈ uids → (k = .upd → inU l' (l.highest + 1) u) ∧ (k = .exp → inE l' (l.highest + 1) u)) := by
  intro l'
  have hmid := midInv_init h uids k
  obtain ⟨s1, s2, s3⟩ := foldl_setOne_spec hmid hnd
  have hl' : l' = uids.foldl (setOne (l.highest + 1)) (set1 l uids k) := set_eq l uids k
  rw [← hl'] at s1 s2 s3
  refine ⟨?_, ?_, ?_, ?_⟩
  · rw [s3]; cases k <;> rfl
  · intro u; rw [s1, set1_last]
  · intro u hu q
    obtain ⟨a1, a2⟩ := s2 u q (Or.inl hu)
    rw [a1, a2]
    by_cases hq : q = l.highest + 1
    · -- bucket `highest+1` is fresh: u is not in it on either side
      subst hq
      have hnU : ¬ inU l (l.highest + 1) u := fun ⟨s, hs, _⟩ => notMem_order_succ h (h.keysU _ s hs)
      have hnE : ¬ inE l (l.highest + 1) u := fun ⟨s, hs, _⟩ => notMem_order_succ h (h.keysE _ s hs)
      constructor
      · constructor
        · rintro ⟨s, hs, hus⟩
          cases k with
          | upd => simp [set1, alookup_aset_self] at hs; subst hs; exact absurd hus hu
          | exp => exact absurd ⟨s, hs, hus⟩ hnU
        · exact fun hc => absurd hc hnU
      · constructor
        · rintro ⟨s, hs, hus⟩
          cases k with
          | upd => exact absurd ⟨s, hs, hus⟩ hnE
          | exp => simp [set1, alookup_aset_self] at hs; subst hs; exact absurd hus hu
        · exact fun hc => absurd hc hnE
    · exact set1_inU_ne l uids k q u hq
  · intro u hu
    obtain ⟨a1, a2⟩ := s2 u (l.highest + 1) (Or.inr rfl)
    constructor
    · intro hk; subst hk; rw [a1]; exact ⟨uids, by simp [set1, alookup_aset_self], hu⟩
    · intro hk; subst hk; rw [a2]; exact ⟨uids, by simp [set1, alookup_aset_self], hu⟩

end Pymap.ModSeq
