import PymapProofs.Lemmas.ALock
/-! Exclusion invariant of the repaired read-write lock -/
namespace Pymap.RWLock

def isR (t : Task) : Bool := t.pc == .rIn
def isW (t : Task) : Bool := t.pc == .wIn
def nR (s : St) : Nat := s.tasks.countP isR
def nW (s : St) : Nat := s.tasks.countP isW
def ind (b : Bool) : Nat := if b then 1 else 0

theorem countP_set {α : Type} (p : α → Bool) : ∀ (l : List α) (i : Nat) (a b : α), l[i]? = some a →
    (l.set i b).countP p + ind (p a) = l.countP p + ind (p b)
  | [], _, _, _, h => by simp at h
  | x :: xs, 0, a, b, h => by
    simp at h; subst h
    simp only [List.set, List.countP_cons, ind]
    cases p x <;> cases p b <;> simp <;> omega
  | x :: xs, i+1, a, b, h => by
    simp at h
    have ih := countP_set p xs i a b h
    simp only [List.set, List.countP_cons]
    omega

theorem nR_setPc (s : St) (i : Nat) (t t' : Task) (h : s.tasks[i]? = some t) :
    nR (setPc s i t') + ind (isR t) = nR s + ind (isR t') := countP_set isR _ _ _ _ h
theorem nW_setPc (s : St) (i : Nat) (t t' : Task) (h : s.tasks[i]? = some t) :
    nW (setPc s i t') + ind (isW t) = nW s + ind (isW t') := countP_set isW _ _ _ _ h

structure Inv (s : St) : Prop where
  cnt  : s.counter = nR s
  w1   : nW s ≤ 1
  wr   : 1 ≤ nW s → nR s = 0
  wlk  : s.w.locked = true ↔ (1 ≤ nW s ∨ 1 ≤ nR s)
  wl   : LInv s.w

theorem countP_map_idle (progs : List (List Bool)) (p : Task → Bool) (hp : ∀ pr, p ⟨.idle, pr⟩ = false) :
    (progs.map (fun pr => (⟨.idle, pr⟩ : Task))).countP p = 0 := by
  induction progs with
  | nil => rfl
  | cons a as ih => simp [List.countP_cons, hp, ih]

theorem Inv.init (progs : List (List Bool)) : Inv (St.init progs) := by
  have h1 : nR (St.init progs) = 0 := countP_map_idle progs isR (fun _ => rfl)
  have h2 : nW (St.init progs) = 0 := countP_map_idle progs isW (fun _ => rfl)
  constructor
  · rw [h1]; rfl
  · omega
  · omega
  · rw [h1, h2]; simp [St.init, ALock.free]
  · exact LInv.free_lock

theorem nR_with (s : St) (r' w' : ALock) (c' : Nat) :
    nR ({ s with r := r', w := w', counter := c' } : St) = nR s := rfl
theorem nW_with (s : St) (r' w' : ALock) (c' : Nat) :
    nW ({ s with r := r', w := w', counter := c' } : St) = nW s := rfl

/-- a task that is in neither section moves to another such state; the W lock keeps its `locked` bit -/
theorem Inv.other {s : St} (h : Inv s) (i : Nat) (t t' : Task) (ht : s.tasks[i]? = some t)
    (hr : isR t = false) (hw : isW t = false) (hr' : isR t' = false) (hw' : isW t' = false)
    (r' w' : ALock) (hl : LInv w') (hlk : w'.locked = s.w.locked) :
    Inv (setPc { s with r := r', w := w', counter := s.counter } i t') := by
  have e1 : nR (setPc { s with r := r', w := w', counter := s.counter } i t') + ind (isR t) = nR s + ind (isR t') :=
    countP_set isR s.tasks i t t' ht
  have e2 : nW (setPc { s with r := r', w := w', counter := s.counter } i t') + ind (isW t) = nW s + ind (isW t') :=
    countP_set isW s.tasks i t t' ht
  simp only [hr, hw, hr', hw', ind, Bool.false_eq_true, if_false, Nat.add_zero] at e1 e2
  obtain ⟨c, w1, wr, wlk, _⟩ := h
  exact ⟨by show s.counter = _; omega, by omega, by omega, by show w'.locked = true ↔ _; rw [hlk, wlk, e1, e2], hl⟩

/-- a task enters the read section -/
theorem Inv.enterRead {s : St} (h : Inv s) (i : Nat) (t t' : Task) (ht : s.tasks[i]? = some t)
    (hr : isR t = false) (hw : isW t = false) (hr' : isR t' = true) (hw' : isW t' = false)
    (r' w' : ALock) (hl : LInv w') (hlk : w'.locked = true) (hnw : nW s = 0) :
    Inv (setPc { s with r := r', w := w', counter := s.counter + 1 } i t') := by
  have e1 : nR (setPc { s with r := r', w := w', counter := s.counter + 1 } i t') + ind (isR t) = nR s + ind (isR t') :=
    countP_set isR s.tasks i t t' ht
  have e2 : nW (setPc { s with r := r', w := w', counter := s.counter + 1 } i t') + ind (isW t) = nW s + ind (isW t') :=
    countP_set isW s.tasks i t t' ht
  simp only [hr, hw, hr', hw', ind, Bool.false_eq_true, if_false, if_true, Nat.add_zero] at e1 e2
  obtain ⟨c, w1, wr, wlk, _⟩ := h
  exact ⟨by show s.counter + 1 = _; omega, by omega, by omega,
         by show w'.locked = true ↔ _; rw [hlk]; simp; right; omega, hl⟩

/-- a task enters the write section -/
theorem Inv.enterWrite {s : St} (h : Inv s) (i : Nat) (t t' : Task) (ht : s.tasks[i]? = some t)
    (hr : isR t = false) (hw : isW t = false) (hr' : isR t' = false) (hw' : isW t' = true)
    (r' w' : ALock) (hl : LInv w') (hlk : w'.locked = true) (hfree : s.w.locked = false) :
    Inv (setPc { s with r := r', w := w', counter := s.counter } i t') := by
  have e1 : nR (setPc { s with r := r', w := w', counter := s.counter } i t') + ind (isR t) = nR s + ind (isR t') :=
    countP_set isR s.tasks i t t' ht
  have e2 : nW (setPc { s with r := r', w := w', counter := s.counter } i t') + ind (isW t) = nW s + ind (isW t') :=
    countP_set isW s.tasks i t t' ht
  simp only [hr, hw, hr', hw', ind, Bool.false_eq_true, if_false, if_true, Nat.add_zero] at e1 e2
  obtain ⟨c, w1, wr, wlk, _⟩ := h
  have hnone : ¬ (1 ≤ nW s ∨ 1 ≤ nR s) := fun hc => by have := wlk.2 hc; rw [hfree] at this; simp at this
  have h0 : nW s = 0 ∧ nR s = 0 := by omega
  exact ⟨by show s.counter = _; omega, by omega, by omega,
         by show w'.locked = true ↔ _; rw [hlk]; simp; left; omega, hl⟩

/-- a task leaves the read section (normally or by cancellation) -/
theorem Inv.leaveRead {s : St} (h : Inv s) (i : Nat) (t t' : Task) (ht : s.tasks[i]? = some t)
    (hr : isR t = true) (hr' : isR t' = false) (hw' : isW t' = false) :
    Inv (setPc (exitRead s) i t') := by
  have hw : isW t = false := by
    unfold isR at hr; unfold isW; cases hp : t.pc <;> simp_all
  have e1 : nR (setPc (exitRead s) i t') + ind (isR t) = nR s + ind (isR t') := countP_set isR s.tasks i t t' ht
  have e2 : nW (setPc (exitRead s) i t') + ind (isW t) = nW s + ind (isW t') := countP_set isW s.tasks i t t' ht
  simp only [hr, hw, hr', hw', ind, Bool.false_eq_true, if_false, if_true, Nat.add_zero] at e1 e2
  obtain ⟨c, w1, wr, wlk, wl⟩ := h
  have hpos : 1 ≤ nR s := by omega
  have hnw : nW s = 0 := by
    cases hn : nW s with
    | zero => rfl
    | succ k => have := wr (by omega); omega
  refine ⟨by show s.counter - 1 = _; omega, by omega, by omega, ?_, ?_⟩
  · show (if s.counter - 1 = 0 then s.w.release else s.w).locked = true ↔ _
    split
    · rename_i h0
      rw [(LInv.release wl).2]; simp; omega
    · rename_i h0
      rw [wlk]; constructor
      · intro _; right; omega
      · intro _; right; omega
  · show LInv (if s.counter - 1 = 0 then s.w.release else s.w)
    split
    · exact (LInv.release wl).1
    · exact wl

/-- a task leaves the write section (normally or by cancellation) -/
theorem Inv.leaveWrite {s : St} (h : Inv s) (i : Nat) (t t' : Task) (ht : s.tasks[i]? = some t)
    (hw : isW t = true) (hr' : isR t' = false) (hw' : isW t' = false) :
    Inv (setPc { s with w := s.w.release } i t') := by
  have hr : isR t = false := by
    unfold isW at hw; unfold isR; cases hp : t.pc <;> simp_all
  have e1 : nR (setPc { s with w := s.w.release } i t') + ind (isR t) = nR s + ind (isR t') :=
    countP_set isR s.tasks i t t' ht
  have e2 : nW (setPc { s with w := s.w.release } i t') + ind (isW t) = nW s + ind (isW t') :=
    countP_set isW s.tasks i t t' ht
  simp only [hr, hw, hr', hw', ind, Bool.false_eq_true, if_false, if_true, Nat.add_zero] at e1 e2
  obtain ⟨c, w1, wr, wlk, wl⟩ := h
  have h1 : nW s = 1 := by omega
  have h0 : nR s = 0 := wr (by omega)
  refine ⟨by show s.counter = _; omega, by omega, by omega, ?_, (LInv.release wl).1⟩
  show s.w.release.locked = true ↔ _
  rw [(LInv.release wl).2]; simp; omega

end Pymap.RWLock

namespace Pymap.RWLock

theorem Inv.withR {s : St} (h : Inv s) (r' : ALock) : Inv { s with r := r' } :=
  ⟨h.cnt, h.w1, h.wr, h.wlk, h.wl⟩

theorem not_locked_none {s : St} (h : Inv s) (hf : s.w.locked = false) : nW s = 0 ∧ nR s = 0 := by
  have hnone : ¬ (1 ≤ nW s ∨ 1 ≤ nR s) := fun hc => by have := h.wlk.2 hc; rw [hf] at this; simp at this
  omega

theorem Inv.afterR {s : St} (h : Inv s) (i : Nat) (t : Task) (ht : s.tasks[i]? = some t)
    (hr : isR t = false) (hw : isW t = false) : Inv (afterR s i t) := by
  unfold Pymap.RWLock.afterR
  split
  · rename_i hc0
    split
    · rename_i hfast
      have hfree := canFast_not_locked hfast
      have h0 := not_locked_none h hfree
      have := h.enterRead i t { t with pc := .rIn } ht hr hw rfl rfl s.r.release { s.w with locked := true }
        (h.wl.fast hfast) rfl h0.1
      rw [hc0] at this; exact this
    · exact h.other i t { t with pc := .rWaitW } ht hr hw rfl rfl s.r (s.w.enqueue i) (h.wl.enqueue i) rfl
  · rename_i hc0
    have hpos : 1 ≤ nR s := by have := h.cnt; omega
    have hnw : nW s = 0 := by
      cases hn : nW s with
      | zero => rfl
      | succ k => have := h.wr (by omega); omega
    exact h.enterRead i t { t with pc := .rIn } ht hr hw rfl rfl s.r.release s.w h.wl (h.wlk.2 (Or.inr hpos)) hnw

theorem isR_of_pc {t : Task} {p : PC} (h : t.pc = p) : isR t = (p == .rIn) := by unfold isR; rw [h]
theorem isW_of_pc {t : Task} {p : PC} (h : t.pc = p) : isW t = (p == .wIn) := by unfold isW; rw [h]

/-- **the invariant is preserved by every step, including every cancellation** -/
theorem Inv.step {s s' : St} (h : Inv s) (l : Label) (hs : step s l = some s') : Inv s' := by
  cases l with
  | run i =>
    simp only [Pymap.RWLock.step] at hs
    cases ht : s.tasks[i]? with
    | none => rw [ht] at hs; simp at hs
    | some t =>
      rw [ht] at hs; simp only [] at hs
      cases hpc : t.pc <;> rw [hpc] at hs <;> simp only [] at hs
      · -- idle
        have hr : isR t = false := by rw [isR_of_pc hpc]; decide
        have hw : isW t = false := by rw [isW_of_pc hpc]; decide
        cases hprog : t.prog with
        | nil => rw [hprog] at hs; simp at hs
        | cons sec rest =>
          rw [hprog] at hs
          cases sec with
          | true =>
            simp only [] at hs
            split at hs
            · injection hs with hs; subst hs
              exact (h.withR _).afterR i t ht hr hw
            · injection hs with hs; subst hs
              exact h.other i t _ ht hr hw rfl rfl (s.r.enqueue i) s.w h.wl rfl
          | false =>
            simp only [] at hs
            split at hs
            · rename_i hfast
              injection hs with hs; subst hs
              exact h.enterWrite i t _ ht hr hw rfl rfl s.r { s.w with locked := true }
                (h.wl.fast hfast) rfl (canFast_not_locked hfast)
            · injection hs with hs; subst hs
              exact h.other i t _ ht hr hw rfl rfl s.r (s.w.enqueue i) (h.wl.enqueue i) rfl
      · -- rWaitR
        have hr : isR t = false := by rw [isR_of_pc hpc]; decide
        have hw : isW t = false := by rw [isW_of_pc hpc]; decide
        split at hs
        · injection hs with hs; subst hs
          exact (h.withR _).afterR i t ht hr hw
        · simp at hs
      · -- rWaitW
        have hr : isR t = false := by rw [isR_of_pc hpc]; decide
        have hw : isW t = false := by rw [isW_of_pc hpc]; decide
        split at hs
        · rename_i hwk
          injection hs with hs; subst hs
          obtain ⟨_, _, hfree⟩ := h.wl.woken_head hwk
          have h0 := not_locked_none h hfree
          exact h.enterRead i t { t with pc := .rIn } ht hr hw rfl rfl s.r.release (s.w.take i)
            (h.wl.take hwk).1 rfl h0.1
        · simp at hs
      · -- rIn: leave
        injection hs with hs; subst hs
        have hr : isR t = true := by rw [isR_of_pc hpc]; decide
        exact h.leaveRead i t _ ht hr rfl rfl
      · -- wWaitW
        have hr : isR t = false := by rw [isR_of_pc hpc]; decide
        have hw : isW t = false := by rw [isW_of_pc hpc]; decide
        split at hs
        · rename_i hwk
          injection hs with hs; subst hs
          obtain ⟨_, _, hfree⟩ := h.wl.woken_head hwk
          exact h.enterWrite i t { t with pc := .wIn } ht hr hw rfl rfl s.r (s.w.take i) (h.wl.take hwk).1 rfl hfree
        · simp at hs
      · -- wIn: leave
        injection hs with hs; subst hs
        have hw : isW t = true := by rw [isW_of_pc hpc]; decide
        exact h.leaveWrite i t _ ht hw rfl rfl
      · -- cR
        have hr : isR t = false := by rw [isR_of_pc hpc]; decide
        have hw : isW t = false := by rw [isW_of_pc hpc]; decide
        injection hs with hs; subst hs
        exact h.other i t { t with pc := .dead } ht hr hw rfl rfl (s.r.unwind i) s.w h.wl rfl
      · -- cRW
        have hr : isR t = false := by rw [isR_of_pc hpc]; decide
        have hw : isW t = false := by rw [isW_of_pc hpc]; decide
        injection hs with hs; subst hs
        exact h.other i t { t with pc := .dead } ht hr hw rfl rfl s.r.release (s.w.unwind i)
          (h.wl.unwind i).1 (h.wl.unwind i).2
      · -- cW
        have hr : isR t = false := by rw [isR_of_pc hpc]; decide
        have hw : isW t = false := by rw [isW_of_pc hpc]; decide
        injection hs with hs; subst hs
        exact h.other i t { t with pc := .dead } ht hr hw rfl rfl s.r (s.w.unwind i)
          (h.wl.unwind i).1 (h.wl.unwind i).2
      · simp at hs
  | cancel i =>
    simp only [Pymap.RWLock.step] at hs
    cases ht : s.tasks[i]? with
    | none => rw [ht] at hs; simp at hs
    | some t =>
      rw [ht] at hs; simp only [] at hs
      cases hpc : t.pc <;> rw [hpc] at hs <;> simp only [] at hs <;> (try (simp at hs; done))
      · have hr : isR t = false := by rw [isR_of_pc hpc]; decide
        have hw : isW t = false := by rw [isW_of_pc hpc]; decide
        injection hs with hs; subst hs
        exact h.other i t { t with pc := .cR } ht hr hw rfl rfl (s.r.markCancel i) s.w h.wl rfl
      · have hr : isR t = false := by rw [isR_of_pc hpc]; decide
        have hw : isW t = false := by rw [isW_of_pc hpc]; decide
        injection hs with hs; subst hs
        exact h.other i t { t with pc := .cRW } ht hr hw rfl rfl s.r (s.w.markCancel i)
          (h.wl.markCancel i).1 (h.wl.markCancel i).2
      · injection hs with hs; subst hs
        have hr : isR t = true := by rw [isR_of_pc hpc]; decide
        exact h.leaveRead i t _ ht hr rfl rfl
      · have hr : isR t = false := by rw [isR_of_pc hpc]; decide
        have hw : isW t = false := by rw [isW_of_pc hpc]; decide
        injection hs with hs; subst hs
        exact h.other i t { t with pc := .cW } ht hr hw rfl rfl s.r (s.w.markCancel i)
          (h.wl.markCancel i).1 (h.wl.markCancel i).2
      · injection hs with hs; subst hs
        have hw : isW t = true := by rw [isW_of_pc hpc]; decide
        exact h.leaveWrite i t _ ht hw rfl rfl

theorem Inv.run {s s' : St} (h : Inv s) (ls : List Label) (hs : Pymap.RWLock.run s ls = some s') : Inv s' := by
  induction ls generalizing s with
  | nil =>
    have hs' : some s = some s' := hs
    injection hs' with hs'; subst hs'; exact h
  | cons l ls ih =>
    have hs' : (Pymap.RWLock.step s l).bind (fun s1 => Pymap.RWLock.run s1 ls) = some s' := hs
    cases hst : Pymap.RWLock.step s l with
    | none => rw [hst] at hs'; simp at hs'
    | some s1 => rw [hst] at hs'; exact ih (h.step l hst) hs'

end Pymap.RWLock
