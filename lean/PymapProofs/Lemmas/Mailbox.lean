import PymapModel.Mailbox
import PymapProofs.Lemmas.ModSeqSpec
import PymapProofs.Lemmas.View
/-! Invariant of the dict `MailboxData` model and its preservation by every primitive -/
namespace Pymap.Mailbox
open Pymap.ModSeq Pymap.Sync

structure MBoxInv (b : MBox) : Prop where
  sorted : b.uids.Pairwise (· < ·)
  le     : ∀ u ∈ b.uids, u ≤ b.maxUid
  log    : LogInv b.log
  kind   : ∀ u m, alookup u b.log.last = some m → (inU b.log m u ↔ u ∈ b.uids)
  logged : ∀ u ∈ b.uids, ∃ m, alookup u b.log.last = some m
  lastLe : ∀ u m, alookup u b.log.last = some m → u ≤ b.maxUid

theorem MBoxInv.new : MBoxInv MBox.new where
  sorted := by simp [MBox.new, MBox.uids]
  le := by simp [MBox.new, MBox.uids]
  log := LogInv.empty
  kind := by simp [MBox.new, Log.empty, alookup]
  logged := by simp [MBox.new, MBox.uids]
  lastLe := by simp [MBox.new, Log.empty, alookup]

theorem not_inU_of_inE {l : Log} (h : LogInv l) {m u : Nat} (he : inE l m u) : ¬ inU l m u := by
  rintro ⟨s, hs, _⟩
  obtain ⟨s', hs', _⟩ := he
  rw [h.disj m s hs] at hs'; simp at hs'

/-- generic preservation: the store keeps/changes its uid set consistently with one `_set` call -/
theorem MBoxInv.of_set {b : MBox} (h : MBoxInv b) (us : List Nat) (hnd : us.Nodup) (k : Kind)
    (msgs' : List Msg) (maxUid' : Nat)
    (hmax : b.maxUid ≤ maxUid')
    (hsorted : (msgs'.map (·.uid)).Pairwise (· < ·))
    (hle : ∀ u ∈ msgs'.map (·.uid), u ≤ maxUid')
    (hus : ∀ u ∈ us, u ≤ maxUid')
    (hother : ∀ u, u ∉ us → (u ∈ msgs'.map (·.uid) ↔ u ∈ b.uids))
    (hin : ∀ u ∈ us, (u ∈ msgs'.map (·.uid) ↔ k = .upd)) :
    MBoxInv { maxUid := maxUid', msgs := msgs', log := set b.log us k } := by
  obtain ⟨s1, s2, s3, s4⟩ := set_spec h.log us hnd k
  have hlog := set_inv h.log us hnd k
  constructor
  · exact hsorted
  · exact hle
  · exact hlog
  · intro u m hm
    have hm : alookup u (set b.log us k).last = some m := hm
    show inU (set b.log us k) m u ↔ u ∈ msgs'.map (·.uid)
    rw [s2] at hm
    by_cases hu : u ∈ us
    · simp only [hu, if_true] at hm; simp at hm; subst hm
      rw [hin u hu]
      cases k with
      | upd => simp; exact (s4 u hu).1 rfl
      | exp =>
        simp
        exact not_inU_of_inE hlog ((s4 u hu).2 rfl)
    · simp only [hu, if_false] at hm
      rw [(s3 u hu m).1, hother u hu]
      exact h.kind u m hm
  · intro u hu
    have hu : u ∈ msgs'.map (·.uid) := hu
    show ∃ m, alookup u (set b.log us k).last = some m
    rw [s2]
    by_cases hus' : u ∈ us
    · simp [hus']
    · simp only [hus', if_false]; exact h.logged u ((hother u hus').1 hu)
  · intro u m hm
    have hm : alookup u (set b.log us k).last = some m := hm
    show u ≤ maxUid'
    rw [s2] at hm
    by_cases hus' : u ∈ us
    · exact hus u hus'
    · simp only [hus', if_false] at hm
      have := h.lastLe u m hm; omega

theorem push_inv {b : MBox} (h : MBoxInv b) (flags : List Nat) (recent : Bool) (cid date : Nat) :
    MBoxInv (push b flags recent cid date).1 := by
  unfold push
  have hfresh : b.maxUid + 1 ∉ b.uids := fun hc => by have := h.le _ hc; omega
  apply MBoxInv.of_set h [b.maxUid + 1] (by simp) .upd
  · omega
  · simp only [List.map_append, List.map_cons, List.map_nil]
    rw [List.pairwise_append]
    refine ⟨h.sorted, by simp, ?_⟩
    intro a ha c hc; simp at hc; subst hc
    have := h.le a ha; show a < b.maxUid + 1; omega
  · intro u hu; simp at hu; rcases hu with ⟨m, hm, rfl⟩ | rfl
    · have := h.le m.uid (by simp [MBox.uids]; exact ⟨m, hm, rfl⟩); omega
    · exact Nat.le_refl _
  · intro u hu; simp at hu; subst hu; exact Nat.le_refl _
  · intro u hu; simp at hu; simp [MBox.uids, hu]
  · intro u hu; simp at hu; subst hu; simp

theorem map_uid_update (msgs : List Msg) (u : Nat) (f : List Nat → List Nat) :
    (msgs.map (fun m => if m.uid = u then { m with flags := f m.flags } else m)).map (·.uid) = msgs.map (·.uid) := by
  induction msgs with
  | nil => rfl
  | cons m ms ih => simp only [List.map_cons, ih]; congr 1; split <;> rfl

theorem updateFlags_inv {b : MBox} (h : MBoxInv b) (u : Nat) (f : List Nat → List Nat) :
    MBoxInv (updateFlags b u f) := by
  unfold updateFlags
  split
  · rename_i hu
    apply MBoxInv.of_set h [u] (by simp) .upd
    · exact Nat.le_refl _
    · rw [map_uid_update]; exact h.sorted
    · rw [map_uid_update]; exact h.le
    · intro x hx; simp at hx; subst hx; exact h.le x hu
    · intro x _; rw [map_uid_update]; rfl
    · intro x hx; simp at hx; subst hx; rw [map_uid_update]; simp only [iff_true]; exact hu
  · exact h

theorem delete_inv {b : MBox} (h : MBoxInv b) (us : List Nat) (hnd : us.Nodup)
    (hus : ∀ u ∈ us, u ≤ b.maxUid) : MBoxInv (delete b us) := by
  unfold delete
  have hmap : (b.msgs.filter (fun m => !(us.contains m.uid))).map (·.uid)
      = b.uids.filter (fun u => !(us.contains u)) := by
    simp [MBox.uids, List.filter_map, Function.comp_def]
  apply MBoxInv.of_set h us hnd .exp
  · exact Nat.le_refl _
  · rw [hmap]; exact h.sorted.sublist List.filter_sublist
  · rw [hmap]; intro u hu; exact h.le u (List.mem_filter.1 hu).1
  · exact hus
  · intro u hu; rw [hmap]; simp [List.mem_filter, hu]
  · intro u hu; rw [hmap]; simp [List.mem_filter, hu]

end Pymap.Mailbox
