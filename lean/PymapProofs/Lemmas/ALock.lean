import PymapModel.RWLock
/-! Invariant of the `asyncio.Lock` model: only the first waiter can have been woken, and while a woken
waiter has not yet run the lock stays free -/
namespace Pymap.RWLock

def WSt.isWk : WSt → Bool
  | .woken | .wokenCancelled => true
  | _ => false

def hasWoken (l : ALock) : Prop := ∃ w ∈ l.waiters, w.2.isWk = true

structure LInv (l : ALock) : Prop where
  head : ∀ w ∈ l.waiters.tail, w.2.isWk = false
  free : hasWoken l → l.locked = false

theorem LInv.free_lock : LInv ALock.free := ⟨by simp [ALock.free], by simp [ALock.free, hasWoken]⟩

theorem canFast_not_locked {l : ALock} (h : l.canFast = true) : l.locked = false := by
  simp [ALock.canFast] at h; exact h.1

theorem canFast_no_woken {l : ALock} (h : l.canFast = true) : ¬ hasWoken l := by
  rintro ⟨w, hw, hk⟩
  simp [ALock.canFast] at h
  have := h.2 w.1 w.2 hw
  rw [this] at hk; simp [WSt.isWk] at hk

/-- fast-path acquire -/
theorem LInv.fast {l : ALock} (h : LInv l) (hf : l.canFast = true) : LInv { l with locked := true } :=
  ⟨h.head, fun ⟨w, hw, hk⟩ => absurd ⟨w, hw, hk⟩ (canFast_no_woken hf)⟩

theorem LInv.enqueue {l : ALock} (h : LInv l) (t : Nat) : LInv (l.enqueue t) := by
  constructor
  · intro w hw
    simp only [ALock.enqueue] at hw
    cases hl : l.waiters with
    | nil => rw [hl] at hw; simp at hw
    | cons a as =>
      rw [hl] at hw; simp at hw
      rcases hw with hw | rfl
      · exact h.head w (by rw [hl]; simpa using hw)
      · rfl
  · rintro ⟨w, hw, hk⟩
    simp only [ALock.enqueue, List.mem_append, List.mem_singleton] at hw
    rcases hw with hw | rfl
    · exact h.free ⟨w, hw, hk⟩
    · simp [WSt.isWk] at hk

theorem isWoken_mem {l : ALock} {t : Nat} (h : l.isWoken t = true) : (t, WSt.woken) ∈ l.waiters := by
  unfold ALock.isWoken at h
  rw [List.any_eq_true] at h
  obtain ⟨w, hm, hc⟩ := h
  obtain ⟨a, b⟩ := w
  simp at hc
  obtain ⟨ha, hb⟩ := hc
  subst ha; subst hb; exact hm

/-- a woken waiter is the head of the queue, and the lock is free -/
theorem LInv.woken_head {l : ALock} (h : LInv l) {t : Nat} (hw : l.isWoken t = true) :
    ∃ r, l.waiters = (t, .woken) :: r ∧ l.locked = false := by
  have hm := isWoken_mem hw
  refine ⟨l.waiters.tail, ?_, h.free ⟨_, hm, rfl⟩⟩
  cases hl : l.waiters with
  | nil => rw [hl] at hm; simp at hm
  | cons a as =>
    rw [hl] at hm; simp at hm
    rcases hm with rfl | hm
    · rfl
    · have := h.head (t, .woken) (by rw [hl]; simpa using hm)
      simp [WSt.isWk] at this

theorem LInv.take {l : ALock} (h : LInv l) {t : Nat} (hw : l.isWoken t = true) :
    LInv (l.take t) ∧ ¬ hasWoken (l.take t) := by
  obtain ⟨r, hr, _⟩ := h.woken_head hw
  have hall : ∀ w ∈ (l.take t).waiters, w.2.isWk = false := by
    intro w hw'
    simp only [ALock.take, hr, List.mem_filter] at hw'
    obtain ⟨hm, hne⟩ := hw'
    simp at hm
    rcases hm with rfl | hm
    · simp at hne
    · exact h.head w (by rw [hr]; simpa using hm)
  refine ⟨⟨fun w hw' => hall w (List.mem_of_mem_tail hw'), ?_⟩, ?_⟩
  · rintro ⟨w, hw', hk⟩; rw [hall w hw'] at hk; simp at hk
  · rintro ⟨w, hw', hk⟩; rw [hall w hw'] at hk; simp at hk

theorem wakeFirst_locked (l : ALock) : l.wakeFirst.locked = l.locked := by
  unfold ALock.wakeFirst; split <;> rfl

/-- waking the first waiter of a free lock in which nobody has been woken yet -/
theorem LInv.wakeFirst {l : ALock} (hall : ∀ w ∈ l.waiters.tail, w.2.isWk = false) (hf : l.locked = false) :
    LInv l.wakeFirst := by
  constructor
  · intro w hw
    unfold ALock.wakeFirst at hw
    split at hw
    · rename_i t r hl
      simp at hw; exact hall w (by rw [hl]; simpa using hw)
    · exact hall w hw
  · intro _; rw [wakeFirst_locked]; exact hf

theorem LInv.release {l : ALock} (h : LInv l) : LInv l.release ∧ l.release.locked = false := by
  refine ⟨LInv.wakeFirst h.head rfl, ?_⟩
  simp [ALock.release, wakeFirst_locked]

theorem cancelW_isWk (t : Nat) (w : Nat × WSt) : (cancelW t w).2.isWk = w.2.isWk := by
  unfold cancelW; split
  · obtain ⟨a, b⟩ := w; cases b <;> rfl
  · rfl

theorem tail_map' {α β : Type} (f : α → β) (l : List α) : (l.map f).tail = l.tail.map f := by
  cases l <;> rfl

theorem LInv.markCancel {l : ALock} (h : LInv l) (t : Nat) :
    LInv (l.markCancel t) ∧ (l.markCancel t).locked = l.locked := by
  refine ⟨⟨?_, ?_⟩, rfl⟩
  · intro w hw
    simp only [ALock.markCancel, tail_map', List.mem_map] at hw
    obtain ⟨w0, hw0, rfl⟩ := hw
    rw [cancelW_isWk]; exact h.head w0 hw0
  · rintro ⟨w, hw, hk⟩
    simp only [ALock.markCancel, List.mem_map] at hw
    obtain ⟨w0, hw0, rfl⟩ := hw
    rw [cancelW_isWk] at hk
    exact h.free ⟨w0, hw0, hk⟩

theorem tail_filter_sub {α : Type} (p : α → Bool) (l : List α) : ∀ x ∈ (l.filter p).tail, x ∈ l.tail ∨
    (∃ a r, l = a :: r ∧ p a = false ∧ x ∈ r) := by
  intro x hx
  cases l with
  | nil => simp at hx
  | cons a r =>
    simp only [List.filter] at hx
    cases hp : p a with
    | true =>
      rw [hp] at hx; simp at hx
      exact Or.inl (by simpa using hx.1)
    | false =>
      rw [hp] at hx
      exact Or.inr ⟨a, r, rfl, hp, (List.mem_filter.1 (List.mem_of_mem_tail hx)).1⟩

theorem LInv.unwind {l : ALock} (h : LInv l) (t : Nat) :
    LInv (l.unwind t) ∧ ((l.unwind t).locked = l.locked) := by
  have hsub : ∀ w ∈ (l.waiters.filter (fun w => w.1 != t)).tail, w.2.isWk = false := by
    intro w hw
    rcases tail_filter_sub _ _ w hw with h1 | ⟨a, r, hl, _, hx⟩
    · exact h.head w h1
    · exact h.head w (by rw [hl]; simpa using hx)
  unfold ALock.unwind
  simp only []
  split
  · rename_i hlk
    refine ⟨⟨hsub, ?_⟩, rfl⟩
    rintro ⟨w, hw, hk⟩
    have hlk' : l.locked = true := hlk
    have := h.free ⟨w, (List.mem_filter.1 hw).1, hk⟩
    rw [hlk'] at this; simp at this
  · rename_i hlk
    have hlk' : l.locked = false := by simpa using hlk
    refine ⟨LInv.wakeFirst hsub hlk', ?_⟩
    rw [wakeFirst_locked]

end Pymap.RWLock
