import PymapModel.System
import PymapProofs.Lemmas.SyncHide
import PymapProofs.Lemmas.Fork
/-! Global invariant of the single-mailbox system -/
namespace Pymap.System
open Pymap.Sync Pymap.Mailbox Pymap.ModSeq

structure SessInv (b : MBox) (s : Sess) : Prop where
  coh     : Coherent s.view
  cons    : Consistent b s.view s.p
  ple     : s.p ≤ b.log.highest
  seenLe  : s.seen ≤ b.maxUid
  viewLe  : ∀ w ∈ s.view.uids, w ≤ s.seen
  seenIn  : ∀ u ∈ b.uids, u ≤ s.seen → u ∈ s.view.uids
  client  : s.client = some s.view.sorted

structure Inv (s : Sys) : Prop where
  box  : MBoxInv s.box
  sess : ∀ x ∈ s.sess, SessInv s.box x

theorem forall_modifyNth {α : Type} (P : α → Prop) (f : α → α) (hf : ∀ a, P a → P (f a)) :
    ∀ (n : Nat) (l : List α), (∀ a ∈ l, P a) → ∀ a ∈ modifyNth f n l, P a
  | _, [], _ => by simp [modifyNth]
  | 0, a :: as, h => by
    intro x hx; simp [modifyNth] at hx
    rcases hx with rfl | hx
    · exact hf a (h a (by simp))
    · exact h x (by simp [hx])
  | n+1, a :: as, h => by
    intro x hx; simp [modifyNth] at hx
    rcases hx with rfl | hx
    · exact h x (by simp)
    · exact forall_modifyNth P f hf n as (fun y hy => h y (by simp [hy])) x hx

theorem Inv.init : Inv Sys.init := ⟨MBoxInv.new, by simp [Sys.init]⟩

end Pymap.System

namespace Pymap.System
open Pymap.Sync Pymap.Mailbox Pymap.ModSeq

theorem updateSelected_coherent (b : MBox) (v : View) (p : Option Nat) (hide : Bool) (h : Coherent v) :
    Coherent (updateSelected b v p hide).1 := by
  cases p <;> exact addUpdates_coherent _ _ _ _ h

theorem syncSess_inv {b : MBox} {s : Sess} (hide wu : Bool) (hb : MBoxInv b) (hs : SessInv b s) :
    SessInv b (syncSess b hide wu s) := by
  obtain ⟨coh, cons, ple, seenLe, viewLe, seenIn, hclient⟩ := hs
  -- facts about the new view, by mode
  have hfacts : Consistent b (updateSelected b s.view (some s.p) hide).1 (updateSelected b s.view (some s.p) hide).2 ∧
      (∀ u ∈ b.uids, u ∈ (updateSelected b s.view (some s.p) hide).1.uids) ∧
      (∀ u ∈ (updateSelected b s.view (some s.p) hide).1.uids, u ∈ s.view.uids ∨ u ∈ b.uids) ∧
      (hide = true → ∀ u ∈ s.view.uids, u ∈ (updateSelected b s.view (some s.p) hide).1.uids) := by
    cases hide with
    | true =>
      obtain ⟨h1, h2, h3⟩ := sync_hide hb cons
      exact ⟨h3, fun u hu => (h2 u).2 (Or.inr hu), fun u hu => (h2 u).1 hu, fun _ u hu => h1 u hu⟩
    | false =>
      obtain ⟨h1, _, _, _⟩ := sync_converges hb cons
      exact ⟨sync_consistent hb cons, fun u hu => (h1 u).2 hu, fun u hu => Or.inr ((h1 u).1 hu),
             fun h => by simp at h⟩
  obtain ⟨hcons', hin, hsrc, hhide⟩ := hfacts
  have hcoh' := updateSelected_coherent b s.view (some s.p) hide coh
  constructor
  · exact hcoh'
  · exact hcons'
  · show (updateSelected b s.view (some s.p) hide).2 ≤ b.log.highest
    exact Nat.le_refl _
  · exact Nat.le_refl _
  · intro w hw; exact hcons'.bound w (Or.inl hw)
  · intro u hu _; exact hin u hu
  · -- the client follows
    show (s.client.bind fun c => clientRun (updateSelected b s.view (some s.p) hide).1.sorted c
        (compare (freeze s.view s.recent) (freeze (updateSelected b s.view (some s.p) hide).1 s.recent) hide [] wu false))
        = some (updateSelected b s.view (some s.p) hide).1.sorted
    rw [hclient]; simp only [Option.bind_some]
    apply fork_sync _ _ _ _ _ _ _ coh hcoh'
    · intro u hu hnu w _ hw
      have hub : u ∈ b.uids := by
        rcases hsrc u hu with h | h
        · exact absurd h hnu
        · exact h
      have h1 : ¬ u ≤ s.seen := fun hle => hnu (seenIn u hub hle)
      have h2 := viewLe w hw
      omega
    · exact hhide

theorem push_highest (b : MBox) (flags : List Nat) (recent : Bool) (cid date : Nat) (hb : MBoxInv b) :
    (push b flags recent cid date).1.log.highest = b.log.highest + 1 :=
  (set_spec hb.log [b.maxUid + 1] (by simp) .upd).1

theorem SessInv.push {b : MBox} {s : Sess} (hb : MBoxInv b) (hs : SessInv b s)
    (flags : List Nat) (recent : Bool) (cid date : Nat) :
    SessInv (push b flags recent cid date).1 s := by
  obtain ⟨coh, cons, ple, seenLe, viewLe, seenIn, hclient⟩ := hs
  refine ⟨coh, push_consistent hb cons (by omega) _ _ _ _, ?_, ?_, viewLe, ?_, hclient⟩
  · rw [push_highest _ _ _ _ _ hb]; omega
  · show s.seen ≤ b.maxUid + 1; omega
  · intro u hu hle
    have hu : u ∈ (b.msgs ++ [(⟨b.maxUid + 1, flags, recent, cid, date⟩ : Msg)]).map (fun m : Msg => m.uid) := hu
    simp at hu
    rcases hu with ⟨m, hm, rfl⟩ | rfl
    · exact seenIn _ (by simp [MBox.uids]; exact ⟨m, hm, rfl⟩) hle
    · omega

theorem updateFlags_highest_le (b : MBox) (u : Nat) (f : List Nat → List Nat) (hb : MBoxInv b) :
    b.log.highest ≤ (updateFlags b u f).log.highest := by
  unfold updateFlags; split
  · have := (set_spec hb.log [u] (by simp) .upd).1
    show b.log.highest ≤ (set b.log [u] .upd).highest; omega
  · exact Nat.le_refl _

theorem updateFlags_uids (b : MBox) (u : Nat) (f : List Nat → List Nat) :
    (updateFlags b u f).uids = b.uids := by
  unfold updateFlags; split
  · exact map_uid_update _ _ _
  · rfl

theorem updateFlags_maxUid (b : MBox) (u : Nat) (f : List Nat → List Nat) :
    (updateFlags b u f).maxUid = b.maxUid := by
  unfold updateFlags; split <;> rfl

theorem SessInv.updateFlags {b : MBox} {s : Sess} (hb : MBoxInv b) (hs : SessInv b s)
    (u : Nat) (f : List Nat → List Nat) : SessInv (updateFlags b u f) s := by
  obtain ⟨coh, cons, ple, seenLe, viewLe, seenIn, hclient⟩ := hs
  refine ⟨coh, updateFlags_consistent hb cons (by omega) _ _, ?_, ?_, viewLe, ?_, hclient⟩
  · have := updateFlags_highest_le b u f hb; omega
  · rw [updateFlags_maxUid]; exact seenLe
  · intro x hx hle; rw [updateFlags_uids] at hx; exact seenIn x hx hle

theorem SessInv.delete {b : MBox} {s : Sess} (hb : MBoxInv b) (hs : SessInv b s)
    (us : List Nat) (hnd : us.Nodup) : SessInv (delete b us) s := by
  obtain ⟨coh, cons, ple, seenLe, viewLe, seenIn, hclient⟩ := hs
  refine ⟨coh, delete_consistent hb cons (by omega) us hnd, ?_, seenLe, viewLe, ?_, hclient⟩
  · have := (set_spec hb.log us hnd .exp).1
    show s.p ≤ (set b.log us .exp).highest; omega
  · intro x hx hle
    have hx : x ∈ (b.msgs.filter (fun m => !(us.contains m.uid))).map (·.uid) := hx
    simp only [List.mem_map, List.mem_filter] at hx
    obtain ⟨m, ⟨hm, _⟩, rfl⟩ := hx
    exact seenIn _ (by simp [MBox.uids]; exact ⟨m, hm, rfl⟩) hle

/-- **the invariant is preserved by every step** -/
theorem Inv.step {s : Sys} (h : Inv s) (op : Op) : Inv (step s op) := by
  obtain ⟨hb, hs⟩ := h
  cases op with
  | select =>
    refine ⟨hb, ?_⟩
    intro x hx
    simp only [System.step, List.mem_append, List.mem_singleton] at hx
    rcases hx with hx | rfl
    · exact hs x hx
    · obtain ⟨h1, h2⟩ := first_sync hb false
      refine ⟨updateSelected_coherent _ _ _ _ coherent_empty, h2, Nat.le_refl _, Nat.le_refl _, ?_, ?_, rfl⟩
      · intro w hw; exact hb.le w ((h1 w).1 hw)
      · intro u hu _; exact (h1 u).2 hu
  | append flags recent cid date =>
    exact ⟨push_inv hb _ _ _ _, fun x hx => (hs x hx).push hb _ _ _ _⟩
  | store u fs mode =>
    exact ⟨updateFlags_inv hb _ _, fun x hx => (hs x hx).updateFlags hb _ _⟩
  | expunge i sel =>
    simp only [System.step]
    cases hx : s.sess[i]? with
    | none => exact ⟨hb, hs⟩
    | some x =>
      have hxm : x ∈ s.sess := List.mem_of_getElem? hx
      have hnd : (x.view.uids.filter (fun u => sel.contains u)).Nodup :=
        (hs x hxm).coh.2.2.1.sublist List.filter_sublist
      have hle : ∀ u ∈ x.view.uids.filter (fun u => sel.contains u), u ≤ s.box.maxUid := by
        intro u hu
        exact (hs x hxm).cons.bound u (Or.inl (List.mem_filter.1 hu).1)
      exact ⟨delete_inv hb _ hnd hle, fun y hy => (hs y hy).delete hb _ hnd⟩
  | sync i hide wu =>
    refine ⟨hb, ?_⟩
    exact forall_modifyNth (SessInv s.box) _ (fun a ha => syncSess_inv hide wu hb ha) i s.sess hs

theorem Inv.run {s : Sys} (h : Inv s) (ops : List Op) : Inv (run s ops) := by
  induction ops generalizing s with
  | nil => exact h
  | cons op ops ih => exact ih (h.step op)

/-- every reachable state satisfies the invariant — any number of sessions, any schedule, any length -/
theorem reachable_inv (ops : List Op) : Inv (run Sys.init ops) := Inv.init.run ops

#print axioms reachable_inv
end Pymap.System
