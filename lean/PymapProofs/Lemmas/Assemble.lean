import PymapProofs.Lemmas.Fork
/-! Why merging the fork's FETCH responses into the command's own is safe exactly when no EXPUNGE lies
between them (defect D29 and its repair) -/
namespace Pymap.Sync

/-- if nothing left the view, every old message keeps its sequence number -/
theorem seq_stable_without_expunge (b a : View) (hb : Coherent b) (ha : Coherent a)
    (hnew : ∀ u ∈ a.uids, u ∉ b.uids → ∀ w ∈ a.uids, w ∈ b.uids → w < u)
    (hsub : ∀ u ∈ b.uids, u ∈ a.uids) :
    ∀ u ∈ b.uids, lookup u a.seqs = lookup u b.seqs := by
  obtain ⟨hpa, hma, hnda, hsa⟩ := ha
  obtain ⟨hpb, hmb, hndb, hsb⟩ := hb
  have hsplit : a.sorted = a.sorted.filter (fun u => b.uids.contains u)
      ++ a.sorted.filter (fun u => !(b.uids.contains u)) := by
    apply sorted_split (fun u => b.uids.contains u) hpa
    intro x hx y hy hpx hpy
    simp at hpx hpy
    exact hnew y ((hma y).2 hy) hpy x ((hma x).2 hx) hpx
  have hold : a.sorted.filter (fun u => b.uids.contains u) = b.sorted := by
    apply sorted_unique (pairwise_filter _ hpa) hpb
    intro x
    simp only [List.mem_filter, List.contains_iff_mem]
    constructor
    · rintro ⟨_, h2⟩; exact (hmb x).1 h2
    · intro h; exact ⟨(hma x).1 (hsub x ((hmb x).2 h)), (hmb x).2 h⟩
  intro u hu
  have hus : u ∈ b.sorted := (hmb u).1 hu
  obtain ⟨i, hi, rfl⟩ := List.mem_iff_getElem.1 hus
  rw [hsb i hi]
  have hia : i < a.sorted.length := by
    rw [hsplit, hold]; simp; omega
  have hget : a.sorted[i] = b.sorted[i] := by
    have : a.sorted[i]? = b.sorted[i]? := by
      rw [hsplit, hold, List.getElem?_append_left hi]
    simpa [List.getElem?_eq_getElem hia, List.getElem?_eq_getElem hi] using this
  rw [← hget, hsa i hia]

/-- consequently a FETCH of the fork that carries the sequence number of a FETCH the command already
produced denotes the *same message* — provided the fork removed nothing.  If it did remove something
its FETCHes are in the new numbering and must stay *behind* the EXPUNGEs (the repair: the merge table of
`CommandResponse.add_untagged` is cleared whenever an EXPUNGE is appended). -/
theorem merge_same_message (b a : View) (hb : Coherent b) (ha : Coherent a)
    (hnew : ∀ u ∈ a.uids, u ∉ b.uids → ∀ w ∈ a.uids, w ∈ b.uids → w < u)
    (hsub : ∀ u ∈ b.uids, u ∈ a.uids)
    (u u' s : Nat) (hu : u ∈ b.uids) (hu' : u' ∈ a.uids)
    (hs : lookup u b.seqs = some s) (hs' : lookup u' a.seqs = some s) : u = u' := by
  have h1 := seq_stable_without_expunge b a hb ha hnew hsub u hu
  rw [hs] at h1
  -- both u and u' sit at position s-1 of a.sorted
  obtain ⟨hpa, hma, hnda, hsa⟩ := ha
  have hua : u ∈ a.sorted := (hma u).1 (hsub u hu)
  have hua' : u' ∈ a.sorted := (hma u').1 hu'
  obtain ⟨i, hi, rfl⟩ := List.mem_iff_getElem.1 hua
  obtain ⟨j, hj, rfl⟩ := List.mem_iff_getElem.1 hua'
  rw [hsa i hi] at h1; rw [hsa j hj] at hs'
  have : i = j := by simp at h1 hs'; omega
  subst this; rfl

#print axioms merge_same_message
end Pymap.Sync
