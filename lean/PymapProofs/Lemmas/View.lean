import PymapProofs.Lemmas.Sync
/-! Membership and flag lemmas for `update` / `remove` (used by C02) -/
namespace Pymap.Sync

theorem updateLoop_uids (v : View) (lo : Option Nat) (msgs : List CMsg) (u : Nat) :
    u ∈ (updateLoop v lo msgs).1.uids ↔ u ∈ v.uids ∨ u ∈ msgs.map (·.uid) := by
  induction msgs generalizing v lo with
  | nil => simp [updateLoop]
  | cons m ms ih =>
    simp only [updateLoop]
    split
    · rename_i hm
      rw [ih]; simp only [List.map_cons, List.mem_cons]
      constructor
      · rintro (h | h); exact Or.inl h; exact Or.inr (Or.inr h)
      · rintro (h | h | h); exact Or.inl h; exact Or.inl (h ▸ hm); exact Or.inr h
    · rw [ih]; simp only [List.map_cons, List.mem_cons]
      constructor
      · rintro ((h | h) | h); exact Or.inr (Or.inl h); exact Or.inl h; exact Or.inr (Or.inr h)
      · rintro (h | h | h); exact Or.inl (Or.inr h); exact Or.inl (Or.inl h); exact Or.inr h

theorem update_uids (v : View) (msgs : List CMsg) (u : Nat) :
    u ∈ (update v msgs).uids ↔ u ∈ v.uids ∨ u ∈ msgs.map (·.uid) := by
  unfold update
  have := updateLoop_uids v none msgs u
  generalize updateLoop v none msgs = r at this
  obtain ⟨v', lo⟩ := r
  cases lo <;> exact this

theorem updateLoop_pending (v : View) (lo : Option Nat) (msgs : List CMsg) :
    (updateLoop v lo msgs).1.pending = v.pending := by
  induction msgs generalizing v lo with
  | nil => rfl
  | cons m ms ih => simp only [updateLoop]; split <;> rw [ih]

theorem update_pending (v : View) (msgs : List CMsg) : (update v msgs).pending = v.pending := by
  unfold update
  have := updateLoop_pending v none msgs
  generalize updateLoop v none msgs = r at this
  obtain ⟨v', lo⟩ := r
  cases lo <;> exact this

/-- flags recorded after `_update`: the last delivered message with that uid wins, else unchanged -/
theorem updateLoop_fkeys (v : View) (lo : Option Nat) (msgs : List CMsg) :
    (updateLoop v lo msgs).1.fkeys = (msgs.map (fun m => (m.uid, m.flags))).reverse ++ v.fkeys := by
  induction msgs generalizing v lo with
  | nil => simp [updateLoop]
  | cons m ms ih => simp only [updateLoop]; split <;> rw [ih] <;> simp

theorem update_fkeys (v : View) (msgs : List CMsg) :
    (update v msgs).fkeys = (msgs.map (fun m => (m.uid, m.flags))).reverse ++ v.fkeys := by
  unfold update
  have := updateLoop_fkeys v none msgs
  generalize updateLoop v none msgs = r at this
  obtain ⟨v', lo⟩ := r
  cases lo <;> exact this

theorem remove_uids_nonpending (v : View) (exp : List Nat) (u : Nat) :
    u ∈ (remove v exp false).uids ↔ u ∈ v.uids ∧ u ∉ exp ∧ u ∉ v.pending := by
  unfold remove
  simp only [Bool.false_eq_true, if_false]
  split
  · rename_i hlen
    have := filter_eq_self_of_length _ _ hlen
    show u ∈ v.uids ↔ _
    constructor
    · intro hu
      have : u ∈ v.uids.filter (fun u => !((exp ++ v.pending).contains u)) := by rw [this]; exact hu
      simp [List.mem_filter] at this
      exact ⟨hu, this.2.1, this.2.2⟩
    · exact fun h => h.1
  · show u ∈ v.uids.filter (fun u => !((exp ++ v.pending).contains u)) ↔ _
    simp [List.mem_filter]

theorem remove_pending_nonpending (v : View) (exp : List Nat) : (remove v exp false).pending = [] := by
  unfold remove; simp only [Bool.false_eq_true, if_false]; split <;> rfl

theorem remove_uids_pending (v : View) (exp : List Nat) : (remove v exp true).uids = v.uids := by
  simp [remove]

theorem lookup_filter_key {β : Type} (p : Nat → Bool) (k : Nat) (hk : p k = true) (l : List (Nat × β)) :
    lookup k (l.filter (fun q => p q.1)) = lookup k l := by
  induction l with
  | nil => rfl
  | cons q r ih =>
    obtain ⟨k', v⟩ := q
    simp only [List.filter]
    by_cases e : k = k'
    · subst e; simp [hk, lookup]
    · cases hp : p k' with
      | true => simp [lookup, e, ih]
      | false => simp [lookup, e, ih]

/-- flags of a message that stays in the view are untouched by `_remove` -/
theorem remove_flagsOf (v : View) (exp : List Nat) (pm : Bool) (u : Nat)
    (hu : u ∈ (remove v exp pm).uids) : (remove v exp pm).flagsOf u = v.flagsOf u := by
  unfold remove at hu ⊢
  split
  · rfl
  · simp only [] at hu ⊢
    split
    · rfl
    · simp only [View.flagsOf]
      rename_i h1 h2
      simp only [h1, h2] at hu
      exact lookup_filter_key (fun k => (v.uids.filter (fun u => !((exp ++ v.pending).contains u))).contains k) u
        (by simpa using hu) v.fkeys

end Pymap.Sync
