import PymapProofs.Lemmas.Converge
/-! A session's `Consistent` knowledge survives every mutation made by anyone (C02 stability) -/
namespace Pymap.Mailbox
open Pymap.ModSeq Pymap.Sync

/-- generic stability: a mutation that logs `us` at `highest+1` and leaves every other uid alone -/
theorem Consistent.of_set {b : MBox} {v : View} {p : Nat} (hb : MBoxInv b) (hc : Consistent b v p)
    (hp : p ≤ b.log.highest + 1)
    (us : List Nat) (hnd : us.Nodup) (k : Kind) (msgs' : List Msg) (maxUid' : Nat)
    (hother : ∀ u, u ∉ us → (u ∈ msgs'.map (·.uid) ↔ u ∈ b.uids))
    (hfind : ∀ u, u ∉ us → (MBox.find ⟨maxUid', msgs', set b.log us k⟩ u) = b.find u)
    (hpend : ∀ u ∈ v.pending, u ∉ msgs'.map (·.uid)) (hmax : b.maxUid ≤ maxUid') :
    Consistent ⟨maxUid', msgs', set b.log us k⟩ v p := by
  obtain ⟨_, s2, _, _⟩ := set_spec hb.log us hnd k
  have hlast : ∀ u, u ∉ us → alookup u (set b.log us k).last = alookup u b.log.last := by
    intro u hu; rw [s2]; simp [hu]
  have hfree : ∀ u, u ∈ us → ¬ (∀ m, alookup u (set b.log us k).last = some m → m < p) := by
    intro u hu hall
    have := hall (b.log.highest + 1) (by rw [s2]; simp [hu])
    omega
  constructor
  · intro u hu hall
    have hu : u ∈ msgs'.map (·.uid) := hu
    by_cases hus : u ∈ us
    · exact absurd hall (hfree u hus)
    · have hall' : ∀ m, alookup u b.log.last = some m → m < p := by
        intro m hm; exact hall m (by show alookup u (set b.log us k).last = some m; rw [hlast u hus]; exact hm)
      have := hc.inView u ((hother u hus).1 hu) hall'
      rw [hfind u hus]; exact this
  · intro u hu hall
    have hu : u ∉ msgs'.map (·.uid) := hu
    by_cases hus : u ∈ us
    · exact absurd hall (hfree u hus)
    · have hall' : ∀ m, alookup u b.log.last = some m → m < p := by
        intro m hm; exact hall m (by show alookup u (set b.log us k).last = some m; rw [hlast u hus]; exact hm)
      exact hc.gone u (fun h => hu ((hother u hus).2 h)) hall'
  · exact hpend
  · intro u hu; have := hc.bound u hu; show u ≤ maxUid'; omega

theorem find_append_ne (msgs : List Msg) (m : Msg) (u : Nat) (h : m.uid ≠ u) :
    (msgs ++ [m]).find? (fun x => x.uid == u) = msgs.find? (fun x => x.uid == u) := by
  rw [List.find?_append]
  cases msgs.find? (fun x => x.uid == u) with
  | some x => rfl
  | none =>
    have : (m.uid == u) = false := by simpa using h
    simp [List.find?, this]

theorem push_consistent {b : MBox} {v : View} {p : Nat} (hb : MBoxInv b) (hc : Consistent b v p)
    (hp : p ≤ b.log.highest + 1) (flags : List Nat) (recent : Bool) (cid date : Nat) :
    Consistent (push b flags recent cid date).1 v p := by
  unfold push
  apply Consistent.of_set hb hc hp [b.maxUid + 1] (by simp) .upd
  · intro u hu; simp at hu; simp [MBox.uids, hu]
  · intro u hu; simp at hu
    simp only [MBox.find]
    exact find_append_ne _ _ _ (fun e => hu e.symm)
  · intro u hu hc'
    simp at hc'
    rcases hc' with ⟨m, hm, rfl⟩ | rfl
    · exact hc.pend _ hu (by simp [MBox.uids]; exact ⟨m, hm, rfl⟩)
    · -- a pending uid is ≤ maxUid; the new uid is maxUid+1
      have := hc.bound _ (Or.inr hu); omega
  · omega

end Pymap.Mailbox

namespace Pymap.Mailbox
open Pymap.ModSeq Pymap.Sync

theorem find_map_ne (msgs : List Msg) (u0 u : Nat) (f : List Nat → List Nat) (h : u ≠ u0) :
    (msgs.map (fun m => if m.uid = u0 then { m with flags := f m.flags } else m)).find? (fun x => x.uid == u)
      = msgs.find? (fun x => x.uid == u) := by
  induction msgs with
  | nil => rfl
  | cons m ms ih =>
    simp only [List.map_cons, List.find?]
    by_cases e : m.uid = u0
    · have hne : (u0 == u) = false := by simp; exact fun e' => h e'.symm
      simp [e, hne, ih]
    · simp only [e, if_false]
      cases hmu : (m.uid == u) with
      | true => rfl
      | false => exact ih

theorem updateFlags_consistent {b : MBox} {v : View} {p : Nat} (hb : MBoxInv b) (hc : Consistent b v p)
    (hp : p ≤ b.log.highest + 1) (u0 : Nat) (f : List Nat → List Nat) :
    Consistent (updateFlags b u0 f) v p := by
  unfold updateFlags
  split
  · apply Consistent.of_set hb hc hp [u0] (by simp) .upd
    · intro u _; rw [map_uid_update]; rfl
    · intro u hu; simp at hu
      simp only [MBox.find]; exact find_map_ne _ _ _ _ hu
    · intro u hu; rw [map_uid_update]; exact hc.pend u hu
    · exact Nat.le_refl _
  · exact hc

theorem find_filter_keep (msgs : List Msg) (q : Msg → Bool) (u : Nat)
    (h : ∀ m ∈ msgs, m.uid = u → q m = true) :
    (msgs.filter q).find? (fun x => x.uid == u) = msgs.find? (fun x => x.uid == u) := by
  induction msgs with
  | nil => rfl
  | cons m ms ih =>
    have ih' := ih (fun m' hm' => h m' (by simp [hm']))
    simp only [List.filter]
    cases hq : q m with
    | true =>
      simp only [List.find?]
      cases hmu : (m.uid == u) with
      | true => rfl
      | false => exact ih'
    | false =>
      have hne : (m.uid == u) = false := by
        cases hmu : (m.uid == u) with
        | false => rfl
        | true =>
          have := h m (by simp) (by simpa using hmu)
          rw [hq] at this; simp at this
      simp only [List.find?, hne]; exact ih'

theorem delete_consistent {b : MBox} {v : View} {p : Nat} (hb : MBoxInv b) (hc : Consistent b v p)
    (hp : p ≤ b.log.highest + 1) (us : List Nat) (hnd : us.Nodup) :
    Consistent (delete b us) v p := by
  unfold delete
  have hmap : (b.msgs.filter (fun m => !(us.contains m.uid))).map (·.uid)
      = b.uids.filter (fun u => !(us.contains u)) := by
    simp [MBox.uids, List.filter_map, Function.comp_def]
  apply Consistent.of_set hb hc hp us hnd .exp
  · intro u hu; rw [hmap]; simp [List.mem_filter, hu]
  · intro u hu
    simp only [MBox.find]
    apply find_filter_keep
    intro m _ hmu; simp [hmu, hu]
  · intro u hu; rw [hmap]
    intro hc'; exact hc.pend u hu (List.mem_filter.1 hc').1
  · exact Nat.le_refl _

end Pymap.Mailbox
