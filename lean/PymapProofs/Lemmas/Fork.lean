import PymapProofs.Lemmas.Client
/-! The fork/compare theorem behind C01 -/
namespace Pymap.Sync

def Untagged.inert : Untagged → Bool
  | .expunge _ => false
  | .exists_ _ => false
  | _ => true

theorem clientRun_inert (srv c : List Nat) (rs : List Untagged) (h : ∀ r ∈ rs, r.inert = true) :
    clientRun srv c rs = some c := by
  induction rs with
  | nil => rfl
  | cons r rs ih =>
    have hr := h r (by simp)
    have : clientApply srv c r = some c := by
      cases r <;> simp [Untagged.inert] at hr <;> rfl
    simp only [clientRun, this]
    exact ih (fun r' hr' => h r' (by simp [hr']))

theorem map_seq_filter (keep : Nat → Bool) (seqs : List (Nat × Nat)) :
    ∀ (l : List Nat) (i : Nat), (∀ j (hj : j < l.length), lookup l[j] seqs = some (i + j)) →
    (l.filter (fun u => !keep u)).map (fun u => (lookup u seqs).getD 0) = dropSeqsFrom keep i l
  | [], _, _ => by simp [dropSeqsFrom]
  | u :: us, i, h => by
    have h0 := h 0 (by simp)
    have ih := map_seq_filter keep seqs us (i+1) (fun j hj => by
      have := h (j+1) (by simp; omega)
      simpa [Nat.add_assoc, Nat.add_comm 1 j] using this)
    simp only [dropSeqsFrom, List.filter]
    by_cases hk : keep u = true
    · simp [hk, ih]
    · have hk' : keep u = false := by simpa using hk
      simp at h0
      simp [hk', ih, h0]

theorem pairwise_filter {l : List Nat} (p : Nat → Bool) (h : l.Pairwise (· < ·)) :
    (l.filter p).Pairwise (· < ·) := h.sublist List.filter_sublist

theorem length_eq_of_nodup_mem {l1 l2 : List Nat} (h1 : l1.Nodup) (h2 : l2.Nodup)
    (h : ∀ x, x ∈ l1 ↔ x ∈ l2) : l1.length = l2.length :=
  ((List.perm_ext_iff_of_nodup h1 h2).2 h).length_eq

end Pymap.Sync

namespace Pymap.Sync

/-- after the EXPUNGE block the client holds the retained messages, in every case -/
theorem client_after_expunges (b a : View) (hide : Bool) (hb : Coherent b)
    (hhide : hide = true → ∀ u ∈ b.uids, u ∈ a.uids) :
    clientRun a.sorted b.sorted (cmpExpunge b.uids b.seqs a.uids hide)
      = some (b.sorted.filter (fun u => a.uids.contains u)) := by
  obtain ⟨hp, hm, hnd, hs⟩ := hb
  unfold cmpExpunge
  simp only []
  split
  · -- EXPUNGE responses are emitted
    have hsort : sortAsc (b.uids.filter (fun u => !(a.uids.contains u)))
        = b.sorted.filter (fun u => !(a.uids.contains u)) := by
      apply sorted_unique
      · exact sortAsc_pairwise (hnd.sublist List.filter_sublist)
      · exact pairwise_filter _ hp
      · intro x; simp [mem_sortAsc, List.mem_filter, hm]
    have hmap := map_seq_filter (fun u => a.uids.contains u) b.seqs b.sorted 1
      (fun j hj => by rw [hs j hj]; simp [Nat.add_comm])
    have : (sortDesc (b.uids.filter (fun u => !(a.uids.contains u)))).map
          (fun u => Untagged.expunge ((lookup u b.seqs).getD 0))
        = ((dropSeqsFrom (fun u => a.uids.contains u) 1 b.sorted).reverse).map Untagged.expunge := by
      rw [sortDesc, hsort, ← hmap]
      simp [List.map_reverse, Function.comp_def]
    rw [this]
    have := clientRun_expunges a.sorted (fun u => a.uids.contains u) [] b.sorted
    simpa using this
  · rename_i hcond
    simp only [clientRun]
    congr 1
    symm
    rw [List.filter_eq_self]
    intro u hu
    have hub : u ∈ b.uids := (hm u).2 hu
    simp only [Bool.and_eq_true, Bool.not_eq_true', not_and, Bool.not_eq_false] at hcond
    by_cases hh : hide = true
    · simpa using hhide hh u hub
    · have hh' : hide = false := by simpa using hh
      have hemp := hcond hh'
      have hnil : b.uids.filter (fun u => !(a.uids.contains u)) = [] := by
        simpa [List.isEmpty_iff] using hemp
      cases hc : a.uids.contains u with
      | true => rfl
      | false =>
        have : u ∈ b.uids.filter (fun u => !(a.uids.contains u)) := by
          simp [List.mem_filter, hub]; simpa using hc
        rw [hnil] at this; simp at this

/-- the EXISTS block brings the client to the server's new `_sorted` -/
theorem client_after_exists (b a : View) (hb : Coherent b) (ha : Coherent a)
    (hnew : ∀ u ∈ a.uids, u ∉ b.uids → ∀ w ∈ a.uids, w ∈ b.uids → w < u) :
    clientRun a.sorted (b.sorted.filter (fun u => a.uids.contains u)) (cmpExists b.uids a.uids)
      = some a.sorted := by
  obtain ⟨hpa, hma, hnda, hsa⟩ := ha
  obtain ⟨hpb, hmb, hndb, hsb⟩ := hb
  have hret : b.sorted.filter (fun u => a.uids.contains u) = a.sorted.filter (fun u => b.uids.contains u) := by
    apply sorted_unique (pairwise_filter _ hpb) (pairwise_filter _ hpa)
    intro x; simp [List.mem_filter, ← hma, ← hmb]; grind
  have hlen : a.uids.length = a.sorted.length :=
    length_eq_of_nodup_mem hnda (pairwise_lt_nodup hpa) hma
  have hsplit : a.sorted = a.sorted.filter (fun u => b.uids.contains u)
      ++ a.sorted.filter (fun u => !(b.uids.contains u)) := by
    apply sorted_split (fun u => b.uids.contains u) hpa
    intro x hx y hy hpx hpy
    simp at hpx hpy
    exact hnew y ((hma y).2 hy) hpy x ((hma x).2 hx) hpx
  unfold cmpExists
  split
  · simp only [clientRun, clientApply]
    have hle : (b.sorted.filter (fun u => a.uids.contains u)).length ≤ a.uids.length := by
      rw [hret, hlen]; exact List.length_filter_le _ _
    simp only [hle, if_true]
    congr 1
    rw [hret, hlen]
    have key : ∀ (s r nw : List Nat), s = r ++ nw →
        r ++ (s.drop r.length).take (s.length - r.length) = s := by
      intro s r nw h; subst h; simp
    exact key _ _ _ hsplit
  · rename_i hne
    simp only [clientRun]
    congr 1
    rw [hret, List.filter_eq_self]
    intro u hu
    simp only [Bool.not_eq_true, Bool.not_eq_false'] at hne
    have hnil : a.uids.filter (fun u => !(b.uids.contains u)) = [] := by
      simpa [List.isEmpty_iff] using hne
    cases hc : b.uids.contains u with
    | true => rfl
    | false =>
      have : u ∈ a.uids.filter (fun u => !(b.uids.contains u)) := by
        simp [List.mem_filter, (hma u).2 hu]; simpa using hc
      rw [hnil] at this; simp at this

@[simp] theorem freeze_uids (v : View) (r : List Nat) : (freeze v r).uids = v.uids := rfl
@[simp] theorem freeze_seqs (v : View) (r : List Nat) : (freeze v r).seqs = v.seqs := rfl

/-- C01 core: applying `compare`'s output keeps the client equal to the server's `_sorted` -/
theorem fork_sync (b a : View) (rb ra : List Nat) (hide : Bool) (sil : List (Nat × List Nat)) (wu : Bool)
    (hb : Coherent b) (ha : Coherent a)
    (hnew : ∀ u ∈ a.uids, u ∉ b.uids → ∀ w ∈ a.uids, w ∈ b.uids → w < u)
    (hhide : hide = true → ∀ u ∈ b.uids, u ∈ a.uids) :
    clientRun a.sorted b.sorted (compare (freeze b rb) (freeze a ra) hide sil wu false) = some a.sorted := by
  simp only [compare, Bool.false_eq_true, if_false, freeze_uids, freeze_seqs]
  rw [clientRun_append, client_after_expunges b a hide hb hhide]
  simp only [Option.bind_some]
  rw [clientRun_append, client_after_exists b a hb ha hnew]
  simp only [Option.bind_some]
  apply clientRun_inert
  intro r hr
  simp only [List.mem_append] at hr
  rcases hr with hr | hr
  · unfold cmpRecent at hr
    split at hr
    · simp at hr; subst hr; rfl
    · simp at hr
  · unfold cmpFetch at hr
    simp only [List.mem_map] at hr
    obtain ⟨u, _, rfl⟩ := hr
    rfl

#print axioms fork_sync
end Pymap.Sync

namespace Pymap.Sync

theorem mem_eraseDups_iff {x : Nat} {l : List Nat} : x ∈ l.eraseDups ↔ x ∈ l := by
  simp

/-- every FETCH emitted by `compare` is labelled with the sequence number the message has in the
server's (and hence, by `fork_sync`, the client's) current numbering -/
theorem fetch_labels (b a : View) (rb ra : List Nat) (sil : List (Nat × List Nat)) (wu : Bool)
    (ha : Coherent a) :
    ∀ r ∈ cmpFetch (freeze b rb) (freeze a ra) sil wu,
      ∃ s u f rc w, r = Untagged.fetch s u f rc w ∧ ∃ (h : s - 1 < a.sorted.length), 1 ≤ s ∧ a.sorted[s-1] = u := by
  intro r hr
  obtain ⟨hp, hm, hnd, hs⟩ := ha
  unfold cmpFetch at hr
  simp only [List.mem_map] at hr
  obtain ⟨u, hu, rfl⟩ := hr
  refine ⟨_, u, _, _, wu, rfl, ?_⟩
  -- u is in the view
  have huv : u ∈ a.uids := by
    rw [mem_eraseDups_iff, mem_sortAsc, List.mem_append] at hu
    rcases hu with hu | hu
    · simp only [freeze, List.mem_filter] at hu
      simpa using hu.1.2
    · simp only [freeze, List.mem_map, List.mem_filter, List.mem_filterMap] at hu
      obtain ⟨p, ⟨⟨u', hu', hp'⟩, _⟩, rfl⟩ := hu
      cases hf : a.flagsOf u' with
      | none => simp [hf] at hp'
      | some f => simp [hf] at hp'; subst hp'; exact hu'
  have hus : u ∈ a.sorted := (hm u).1 huv
  obtain ⟨i, hi, rfl⟩ := List.mem_iff_getElem.1 hus
  have := hs i hi
  simp only [freeze_seqs, this, Option.getD_some]
  exact ⟨by simpa using hi, by omega, by simp⟩

end Pymap.Sync
