import PymapModel.ModSeq
namespace Pymap.ModSeq

variable {β : Type}

theorem alookup_adel_self (k : Nat) (l : List (Nat × β)) : alookup k (adel k l) = none := by
  induction l with
  | nil => simp [adel, alookup]
  | cons p r ih =>
    obtain ⟨k', v⟩ := p
    simp only [adel, List.filter] at ih ⊢
    by_cases h : k' = k
    · simp [h]; simpa [adel] using ih
    · have : (k' != k) = true := by simpa using h
      simp only [this, alookup]
      have : k ≠ k' := fun e => h e.symm
      simp [this]; simpa [adel] using ih

theorem alookup_adel_ne {k k' : Nat} (h : k' ≠ k) (l : List (Nat × β)) :
    alookup k' (adel k l) = alookup k' l := by
  induction l with
  | nil => simp [adel, alookup]
  | cons p r ih =>
    obtain ⟨k2, v⟩ := p
    simp only [adel, List.filter] at ih ⊢
    by_cases h2 : k2 = k
    · subst h2
      have : ¬ k' = k2 := h
      simp [alookup, this]; simpa [adel] using ih
    · have : (k2 != k) = true := by simpa using h2
      simp only [this, alookup]
      split
      · rfl
      · simpa [adel] using ih

theorem alookup_aset_self (k : Nat) (v : β) (l : List (Nat × β)) : alookup k (aset k v l) = some v := by
  simp [aset, alookup]

theorem alookup_aset_ne {k k' : Nat} (h : k' ≠ k) (v : β) (l : List (Nat × β)) :
    alookup k' (aset k v l) = alookup k' l := by
  simp [aset, alookup, h, alookup_adel_ne h]

theorem alookup_aset (k k' : Nat) (v : β) (l : List (Nat × β)) :
    alookup k' (aset k v l) = if k' = k then some v else alookup k' l := by
  by_cases h : k' = k
  · subst h; simp [alookup_aset_self]
  · simp [h, alookup_aset_ne h]

theorem alookup_adel (k k' : Nat) (l : List (Nat × β)) :
    alookup k' (adel k l) = if k' = k then none else alookup k' l := by
  by_cases h : k' = k
  · subst h; simp [alookup_adel_self]
  · simp [h, alookup_adel_ne h]

/-- structural invariant of the change log -/
structure LogInv (l : Log) : Prop where
  sorted   : l.order.Pairwise (· < ·)
  le       : ∀ m ∈ l.order, m ≤ l.highest
  keysU    : ∀ m s, alookup m l.updates = some s → m ∈ l.order
  keysE    : ∀ m s, alookup m l.expunges = some s → m ∈ l.order
  disj     : ∀ m s, alookup m l.updates = some s → alookup m l.expunges = none
  memU     : ∀ m s u, alookup m l.updates = some s → u ∈ s → alookup u l.last = some m
  memE     : ∀ m s u, alookup m l.expunges = some s → u ∈ s → alookup u l.last = some m
  lastMem  : ∀ u m, alookup u l.last = some m →
      (∃ s, alookup m l.updates = some s ∧ u ∈ s) ∨ (∃ s, alookup m l.expunges = some s ∧ u ∈ s)

theorem LogInv.empty : LogInv Log.empty := by
  constructor <;> simp [Log.empty, alookup]

theorem LogInv.last_le {l : Log} (h : LogInv l) {u m : Nat} (hl : alookup u l.last = some m) :
    m ≤ l.highest := by
  rcases h.lastMem u m hl with ⟨s, hs, _⟩ | ⟨s, hs, _⟩
  · exact h.le m (h.keysU m s hs)
  · exact h.le m (h.keysE m s hs)

end Pymap.ModSeq

namespace Pymap.ModSeq

/-- what `_remove_prev` does to one bucket map, in terms of lookups -/
theorem removePrev_lookup (u p q : Nat) (data : List (Nat × List Nat)) (order : List Nat) :
    alookup q (removePrev u p data order).1 =
      if q = p then
        (match alookup p data with
         | none => none
         | some s => if (s.filter (fun x => x != u)).isEmpty then none else some (s.filter (fun x => x != u)))
      else alookup q data := by
  unfold removePrev
  cases h : alookup p data with
  | none => by_cases hq : q = p <;> simp [hq, h]
  | some s =>
    simp only []
    by_cases he : (s.filter (fun x => x != u)).isEmpty = true
    · simp only [he, if_true, alookup_adel]
    · simp only [he, Bool.false_eq_true, if_false, alookup_aset]

theorem removePrev_order (u p : Nat) (data : List (Nat × List Nat)) (order : List Nat) :
    (removePrev u p data order).2 =
      (match alookup p data with
       | none => order
       | some s => if (s.filter (fun x => x != u)).isEmpty then order.erase p else order) := by
  unfold removePrev
  cases h : alookup p data with
  | none => simp
  | some s => simp only []; split <;> simp_all

theorem mem_erase_iff_of_nodup {l : List Nat} (h : l.Nodup) {a x : Nat} :
    x ∈ l.erase a ↔ x ≠ a ∧ x ∈ l := by
  exact List.Nodup.mem_erase_iff h

theorem pairwise_lt_nodup {l : List Nat} (h : l.Pairwise (· < ·)) : l.Nodup := by
  apply List.Pairwise.imp _ h
  intro a b hab; exact Nat.ne_of_lt hab

end Pymap.ModSeq

namespace Pymap.ModSeq

/-- a bucket after one uid has been discarded from it (`none` = bucket deleted) -/
def clean (u : Nat) : Option (List Nat) → Option (List Nat)
  | none => none
  | some s => if (s.filter (fun x => x != u)).isEmpty then none else some (s.filter (fun x => x != u))

theorem clean_some {u : Nat} {o : Option (List Nat)} {s : List Nat} (h : clean u o = some s) :
    ∃ s0, o = some s0 ∧ s = s0.filter (fun x => x != u) ∧ s ≠ [] := by
  cases o with
  | none => simp [clean] at h
  | some s0 =>
    simp only [clean] at h
    split at h
    · simp at h
    · rename_i hne
      simp at h; subst h
      exact ⟨s0, rfl, rfl, by simpa [List.isEmpty_iff] using hne⟩

theorem removePrev_lookup' (u p q : Nat) (data : List (Nat × List Nat)) (order : List Nat) :
    alookup q (removePrev u p data order).1 = if q = p then clean u (alookup p data) else alookup q data := by
  rw [removePrev_lookup]; split
  · cases alookup p data <;> rfl
  · rfl

/-- mid-loop invariant of `_set`: `rest` are the uids of the new bucket `m` not yet re-pointed -/
structure MidInv (m : Nat) (k : Kind) (rest : List Nat) (l : Log) : Prop where
  hm       : l.highest = m
  sorted   : l.order.Pairwise (· < ·)
  le       : ∀ x ∈ l.order, x ≤ l.highest
  keysU    : ∀ x s, alookup x l.updates = some s → x ∈ l.order
  keysE    : ∀ x s, alookup x l.expunges = some s → x ∈ l.order
  disj     : ∀ x s, alookup x l.updates = some s → alookup x l.expunges = none
  memU     : ∀ x s u, alookup x l.updates = some s → u ∈ s →
                alookup u l.last = some x ∨ (k = .upd ∧ x = m ∧ u ∈ rest)
  memE     : ∀ x s u, alookup x l.expunges = some s → u ∈ s →
                alookup u l.last = some x ∨ (k = .exp ∧ x = m ∧ u ∈ rest)
  lastMem  : ∀ u x, alookup u l.last = some x →
      (∃ s, alookup x l.updates = some s ∧ u ∈ s) ∨ (∃ s, alookup x l.expunges = some s ∧ u ∈ s)
  restLt   : ∀ u ∈ rest, ∀ p, alookup u l.last = some p → p < m
  restIn   : ∀ u ∈ rest, (k = .upd ∧ ∃ s, alookup m l.updates = some s ∧ u ∈ s) ∨
                          (k = .exp ∧ ∃ s, alookup m l.expunges = some s ∧ u ∈ s)

theorem MidInv.toLogInv {m : Nat} {k : Kind} {l : Log} (h : MidInv m k [] l) : LogInv l where
  sorted := h.sorted
  le := h.le
  keysU := h.keysU
  keysE := h.keysE
  disj := h.disj
  memU := fun x s u hx hu => by rcases h.memU x s u hx hu with h1 | ⟨_, _, h3⟩; exact h1; simp at h3
  memE := fun x s u hx hu => by rcases h.memE x s u hx hu with h1 | ⟨_, _, h3⟩; exact h1; simp at h3
  lastMem := h.lastMem

end Pymap.ModSeq

namespace Pymap.ModSeq

theorem mem_clean {u u' : Nat} {s : List Nat} (h : u' ∈ s) (hne : u' ≠ u) :
    ∃ s', clean u (some s) = some s' ∧ u' ∈ s' := by
  have hmem : u' ∈ s.filter (fun x => x != u) := by simp [List.mem_filter, h, hne]
  have : (s.filter (fun x => x != u)).isEmpty = false := by
    cases hs : s.filter (fun x => x != u) with
    | nil => rw [hs] at hmem; simp at hmem
    | cons a as => rfl
  exact ⟨_, by simp [clean, this], hmem⟩

/-- the step of the `for uid in uids` loop, case "uid was never logged" -/
theorem MidInv.step_none {m : Nat} {k : Kind} {u : Nat} {rest : List Nat} {l : Log}
    (h : MidInv m k (u :: rest) l) (hu : u ∉ rest) (hp : alookup u l.last = none) :
    MidInv m k rest { l with last := aset u m l.last } where
  hm := h.hm
  sorted := h.sorted
  le := h.le
  keysU := h.keysU
  keysE := h.keysE
  disj := h.disj
  memU := by
    intro x s u' hx hu'
    simp only [alookup_aset]
    rcases h.memU x s u' hx hu' with h1 | ⟨h1, h2, h3⟩
    · by_cases e : u' = u
      · subst e; rw [hp] at h1; simp at h1
      · simp [e, h1]
    · by_cases e : u' = u
      · subst e; simp [h2]
      · simp [e] at h3 ⊢; exact Or.inr ⟨h1, h2, h3⟩
  memE := by
    intro x s u' hx hu'
    simp only [alookup_aset]
    rcases h.memE x s u' hx hu' with h1 | ⟨h1, h2, h3⟩
    · by_cases e : u' = u
      · subst e; rw [hp] at h1; simp at h1
      · simp [e, h1]
    · by_cases e : u' = u
      · subst e; simp [h2]
      · simp [e] at h3 ⊢; exact Or.inr ⟨h1, h2, h3⟩
  lastMem := by
    intro u' x hx
    simp only [alookup_aset] at hx
    by_cases e : u' = u
    · subst e; simp at hx; subst hx
      rcases h.restIn u' (by simp) with ⟨_, s, hs, hus⟩ | ⟨_, s, hs, hus⟩
      · exact Or.inl ⟨s, hs, hus⟩
      · exact Or.inr ⟨s, hs, hus⟩
    · simp [e] at hx; exact h.lastMem u' x hx
  restLt := by
    intro u' hu' p hp'
    have e : u' ≠ u := fun e => hu (e ▸ hu')
    simp only [alookup_aset, e, if_false] at hp'
    exact h.restLt u' (by simp [hu']) p hp'
  restIn := fun u' hu' => h.restIn u' (by simp [hu'])

end Pymap.ModSeq

namespace Pymap.ModSeq

/-- generic form of the loop step when `uid` was last logged at `p`: any new bucket maps/order that
discard `u` from bucket `p` (deleting it and its order entry when it becomes empty) keep the invariant -/
theorem MidInv.step_some_aux {m : Nat} {k : Kind} {u p : Nat} {rest : List Nat} {l : Log}
    (h : MidInv m k (u :: rest) l) (hu : u ∉ rest) (hp : alookup u l.last = some p)
    (U' E' : List (Nat × List Nat)) (order' : List Nat)
    (hU : ∀ q, alookup q U' = if q = p then clean u (alookup p l.updates) else alookup q l.updates)
    (hE : ∀ q, alookup q E' = if q = p then clean u (alookup p l.expunges) else alookup q l.expunges)
    (hsub : order'.Sublist l.order)
    (hkeep : ∀ x ∈ l.order, x ≠ p → x ∈ order')
    (hpU : ∀ s, alookup p U' = some s → p ∈ order')
    (hpE : ∀ s, alookup p E' = some s → p ∈ order') :
    MidInv m k rest { l with last := aset u m l.last, updates := U', expunges := E', order := order' } := by
  have hpm : p < m := h.restLt u (by simp) p hp
  have hpm' : p ≠ m := Nat.ne_of_lt hpm
  constructor
  · exact h.hm
  · exact h.sorted.sublist hsub
  · exact fun x hx => h.le x (hsub.subset hx)
  · -- keysU
    intro x s hx
    show x ∈ order'
    by_cases e : x = p
    · subst e; exact hpU s hx
    · rw [hU] at hx; simp only [e, if_false] at hx
      exact hkeep x (h.keysU x s hx) e
  · -- keysE
    intro x s hx
    show x ∈ order'
    by_cases e : x = p
    · subst e; exact hpE s hx
    · rw [hE] at hx; simp only [e, if_false] at hx
      exact hkeep x (h.keysE x s hx) e
  · -- disj
    intro x s hx
    show alookup x E' = none
    rw [hE]; rw [hU] at hx
    by_cases e : x = p
    · subst e; simp only [if_true] at hx ⊢
      obtain ⟨s0, hs0, _, _⟩ := clean_some hx
      rw [h.disj x s0 hs0]; rfl
    · simp only [e, if_false] at hx ⊢; exact h.disj x s hx
  · -- memU
    intro x s u' hx hu'
    show alookup u' (aset u m l.last) = some x ∨ _
    rw [hU] at hx
    simp only [alookup_aset]
    by_cases e : x = p
    · subst e; simp only [if_true] at hx
      obtain ⟨s0, hs0, hs, _⟩ := clean_some hx
      subst hs
      simp only [List.mem_filter, bne_iff_ne, ne_eq] at hu'
      rcases h.memU x s0 u' hs0 hu'.1 with h1 | ⟨_, h2, _⟩
      · simp [hu'.2, h1]
      · exact absurd h2 hpm'
    · simp only [e, if_false] at hx
      rcases h.memU x s u' hx hu' with h1 | ⟨h1, h2, h3⟩
      · by_cases e2 : u' = u
        · subst e2; rw [hp] at h1; simp at h1; exact absurd h1.symm e
        · simp [e2, h1]
      · by_cases e2 : u' = u
        · subst e2; simp [h2]
        · simp [e2] at h3 ⊢; exact Or.inr ⟨h1, h2, h3⟩
  · -- memE
    intro x s u' hx hu'
    show alookup u' (aset u m l.last) = some x ∨ _
    rw [hE] at hx
    simp only [alookup_aset]
    by_cases e : x = p
    · subst e; simp only [if_true] at hx
      obtain ⟨s0, hs0, hs, _⟩ := clean_some hx
      subst hs
      simp only [List.mem_filter, bne_iff_ne, ne_eq] at hu'
      rcases h.memE x s0 u' hs0 hu'.1 with h1 | ⟨_, h2, _⟩
      · simp [hu'.2, h1]
      · exact absurd h2 hpm'
    · simp only [e, if_false] at hx
      rcases h.memE x s u' hx hu' with h1 | ⟨h1, h2, h3⟩
      · by_cases e2 : u' = u
        · subst e2; rw [hp] at h1; simp at h1; exact absurd h1.symm e
        · simp [e2, h1]
      · by_cases e2 : u' = u
        · subst e2; simp [h2]
        · simp [e2] at h3 ⊢; exact Or.inr ⟨h1, h2, h3⟩
  · -- lastMem
    intro u' x hx
    have hx : alookup u' (aset u m l.last) = some x := hx
    show (∃ s, alookup x U' = some s ∧ u' ∈ s) ∨ (∃ s, alookup x E' = some s ∧ u' ∈ s)
    simp only [alookup_aset] at hx
    by_cases e : u' = u
    · subst e; simp at hx; subst hx
      have hmp : ¬ m = p := fun e => hpm' e.symm
      rw [hU, hE]; simp only [hmp, if_false]
      rcases h.restIn u' (by simp) with ⟨_, s, hs, hus⟩ | ⟨_, s, hs, hus⟩
      · exact Or.inl ⟨s, hs, hus⟩
      · exact Or.inr ⟨s, hs, hus⟩
    · simp only [e, if_false] at hx
      rw [hU, hE]
      by_cases e2 : x = p
      · subst e2; simp only [if_true]
        rcases h.lastMem u' x hx with ⟨s, hs, hus⟩ | ⟨s, hs, hus⟩
        · rw [hs]; exact Or.inl (mem_clean hus e)
        · rw [hs]; exact Or.inr (mem_clean hus e)
      · simp only [e2, if_false]; exact h.lastMem u' x hx
  · -- restLt
    intro u' hu' q hq
    have hq : alookup u' (aset u m l.last) = some q := hq
    have e : u' ≠ u := fun e => hu (e ▸ hu')
    simp only [alookup_aset, e, if_false] at hq
    exact h.restLt u' (by simp [hu']) q hq
  · -- restIn
    intro u' hu'
    have hmp : ¬ m = p := fun e => hpm' e.symm
    show (k = .upd ∧ ∃ s, alookup m U' = some s ∧ u' ∈ s) ∨ (k = .exp ∧ ∃ s, alookup m E' = some s ∧ u' ∈ s)
    rw [hU, hE]; simp only [hmp, if_false]
    exact h.restIn u' (by simp [hu'])

end Pymap.ModSeq

namespace Pymap.ModSeq

theorem removePrev_sublist (u p : Nat) (data : List (Nat × List Nat)) (order : List Nat) :
    (removePrev u p data order).2.Sublist order := by
  rw [removePrev_order]
  cases alookup p data with
  | none => exact List.Sublist.refl _
  | some s => simp only []; split; exact List.erase_sublist; exact List.Sublist.refl _

theorem removePrev_keep (u p : Nat) (data : List (Nat × List Nat)) (order : List Nat)
    {x : Nat} (hx : x ∈ order) (hne : x ≠ p) : x ∈ (removePrev u p data order).2 := by
  rw [removePrev_order]
  cases alookup p data with
  | none => exact hx
  | some s => simp only []; split; exact (List.mem_erase_of_ne hne).2 hx; exact hx

/-- if the bucket survives, its order entry survives -/
theorem removePrev_keep_self (u p : Nat) (data : List (Nat × List Nat)) (order : List Nat)
    (hx : p ∈ order) {s : List Nat} (hs : alookup p (removePrev u p data order).1 = some s) :
    p ∈ (removePrev u p data order).2 := by
  rw [removePrev_lookup'] at hs; simp only [if_true] at hs
  rw [removePrev_order]
  cases h : alookup p data with
  | none => exact hx
  | some s0 =>
    rw [h] at hs
    simp only [clean] at hs ⊢
    split at hs
    · simp at hs
    · rename_i hne; simp only [hne]; exact hx

theorem removePrev_none (u p : Nat) (data : List (Nat × List Nat)) (order : List Nat)
    (h : alookup p data = none) : removePrev u p data order = (data, order) := by
  unfold removePrev; rw [h]

theorem MidInv.step {m : Nat} {k : Kind} {u : Nat} {rest : List Nat} {l : Log}
    (h : MidInv m k (u :: rest) l) (hu : u ∉ rest) : MidInv m k rest (setOne m l u) := by
  unfold setOne
  cases hp : alookup u l.last with
  | none => exact h.step_none hu hp
  | some p =>
    simp only []
    apply h.step_some_aux hu hp
    · intro q; exact removePrev_lookup' u p q l.updates l.order
    · intro q; exact removePrev_lookup' u p q l.expunges _
    · exact (removePrev_sublist _ _ _ _).trans (removePrev_sublist _ _ _ _)
    · intro x hx hne
      exact removePrev_keep _ _ _ _ (removePrev_keep _ _ _ _ hx hne) hne
    · -- bucket p survives in `updates`
      intro s hs
      -- then `expunges` has no bucket p, so the second call is the identity on the order
      have hs' := hs
      rw [removePrev_lookup'] at hs'; simp only [if_true] at hs'
      obtain ⟨s0, hs0, _, _⟩ := clean_some hs'
      have hE : alookup p l.expunges = none := h.disj p s0 hs0
      rw [removePrev_none u p l.expunges _ hE]
      exact removePrev_keep_self u p l.updates l.order (h.keysU p s0 hs0) hs
    · -- bucket p survives in `expunges`
      intro s hs
      have hs' := hs
      rw [removePrev_lookup'] at hs'; simp only [if_true] at hs'
      obtain ⟨s0, hs0, _, _⟩ := clean_some hs'
      have hU : alookup p l.updates = none := by
        cases hU : alookup p l.updates with
        | none => rfl
        | some s1 => have := h.disj p s1 hU; rw [this] at hs0; simp at hs0
      have hord : (removePrev u p l.updates l.order).2 = l.order := by
        rw [removePrev_none u p l.updates _ hU]
      apply removePrev_keep_self u p l.expunges _ _ hs
      rw [hord]; exact h.keysE p s0 hs0

theorem MidInv.foldl {m : Nat} {k : Kind} : ∀ {rest : List Nat} {l : Log},
    MidInv m k rest l → rest.Nodup → MidInv m k [] (rest.foldl (setOne m) l)
  | [], _, h, _ => h
  | u :: rest, l, h, hnd => by
    simp only [List.nodup_cons] at hnd
    simp only [List.foldl_cons]
    exact MidInv.foldl (rest := rest) (l := setOne m l u) (h.step hnd.1) hnd.2

theorem notMem_order_succ {l : Log} (h : LogInv l) : l.highest + 1 ∉ l.order :=
  fun hc => by have := h.le _ hc; omega

/-- the log right after the new bucket has been created, before the per-uid loop -/
def set1 (l : Log) (uids : List Nat) : Kind → Log
  | .upd => { l with highest := l.highest + 1, order := l.order ++ [l.highest + 1],
                     updates := aset (l.highest + 1) uids l.updates }
  | .exp => { l with highest := l.highest + 1, order := l.order ++ [l.highest + 1],
                     expunges := aset (l.highest + 1) uids l.expunges }

theorem set_eq (l : Log) (uids : List Nat) (k : Kind) :
    set l uids k = uids.foldl (setOne (l.highest + 1)) (set1 l uids k) := by
  cases k <;> rfl

theorem midInv_init {l : Log} (h : LogInv l) (uids : List Nat) (k : Kind) :
    MidInv (l.highest + 1) k uids (set1 l uids k) := by
  have hfresh : ∀ s, alookup (l.highest+1) l.updates = some s → False :=
    fun s hs => notMem_order_succ h (h.keysU _ s hs)
  have hfreshE : ∀ s, alookup (l.highest+1) l.expunges = some s → False :=
    fun s hs => notMem_order_succ h (h.keysE _ s hs)
  have hsorted : (l.order ++ [l.highest + 1]).Pairwise (· < ·) := by
    rw [List.pairwise_append]
    refine ⟨h.sorted, by simp, ?_⟩
    intro a ha b hb; simp at hb; subst hb
    have := h.le a ha; show a < l.highest + 1; omega
  cases k with
  | upd =>
    constructor
    · rfl
    · exact hsorted
    · intro x hx
      have hx : x ∈ l.order ++ [l.highest + 1] := hx
      simp at hx; rcases hx with hx | hx
      · have := h.le x hx; show x ≤ l.highest + 1; omega
      · subst hx; exact Nat.le_refl _
    · intro x s hx
      have hx : alookup x (aset (l.highest+1) uids l.updates) = some s := hx
      show x ∈ l.order ++ [l.highest+1]
      rw [alookup_aset] at hx
      by_cases e : x = l.highest + 1
      · simp [e]
      · simp only [e, if_false] at hx; simp [h.keysU x s hx]
    · intro x s hx
      show x ∈ l.order ++ [l.highest+1]
      simp [h.keysE x s hx]
    · intro x s hx
      have hx : alookup x (aset (l.highest+1) uids l.updates) = some s := hx
      show alookup x l.expunges = none
      rw [alookup_aset] at hx
      by_cases e : x = l.highest + 1
      · subst e
        cases he : alookup (l.highest+1) l.expunges with
        | none => rfl
        | some s' => exact absurd he (fun he => hfreshE s' he)
      · simp only [e, if_false] at hx; exact h.disj x s hx
    · intro x s u hx hu
      have hx : alookup x (aset (l.highest+1) uids l.updates) = some s := hx
      rw [alookup_aset] at hx
      by_cases e : x = l.highest + 1
      · simp only [e, if_true] at hx; simp at hx; subst hx
        exact Or.inr ⟨rfl, e, hu⟩
      · simp only [e, if_false] at hx; exact Or.inl (h.memU x s u hx hu)
    · intro x s u hx hu; exact Or.inl (h.memE x s u hx hu)
    · intro u x hx
      rcases h.lastMem u x hx with ⟨s, hs, hus⟩ | ⟨s, hs, hus⟩
      · left
        have e : x ≠ l.highest + 1 := fun e => hfresh s (e ▸ hs)
        exact ⟨s, by show alookup x (aset (l.highest+1) uids l.updates) = some s
                     rw [alookup_aset_ne e]; exact hs, hus⟩
      · exact Or.inr ⟨s, hs, hus⟩
    · intro u _ p hp
      have := h.last_le hp; omega
    · intro u hu
      exact Or.inl ⟨rfl, uids, alookup_aset_self _ _ _, hu⟩
  | exp =>
    constructor
    · rfl
    · exact hsorted
    · intro x hx
      have hx : x ∈ l.order ++ [l.highest + 1] := hx
      simp at hx; rcases hx with hx | hx
      · have := h.le x hx; show x ≤ l.highest + 1; omega
      · subst hx; exact Nat.le_refl _
    · intro x s hx
      show x ∈ l.order ++ [l.highest+1]
      simp [h.keysU x s hx]
    · intro x s hx
      have hx : alookup x (aset (l.highest+1) uids l.expunges) = some s := hx
      show x ∈ l.order ++ [l.highest+1]
      rw [alookup_aset] at hx
      by_cases e : x = l.highest + 1
      · simp [e]
      · simp only [e, if_false] at hx; simp [h.keysE x s hx]
    · intro x s hx
      show alookup x (aset (l.highest+1) uids l.expunges) = none
      have e : x ≠ l.highest + 1 := fun e => hfresh s (e ▸ hx)
      rw [alookup_aset_ne e]; exact h.disj x s hx
    · intro x s u hx hu; exact Or.inl (h.memU x s u hx hu)
    · intro x s u hx hu
      have hx : alookup x (aset (l.highest+1) uids l.expunges) = some s := hx
      rw [alookup_aset] at hx
      by_cases e : x = l.highest + 1
      · simp only [e, if_true] at hx; simp at hx; subst hx
        exact Or.inr ⟨rfl, e, hu⟩
      · simp only [e, if_false] at hx; exact Or.inl (h.memE x s u hx hu)
    · intro u x hx
      rcases h.lastMem u x hx with ⟨s, hs, hus⟩ | ⟨s, hs, hus⟩
      · exact Or.inl ⟨s, hs, hus⟩
      · right
        have e : x ≠ l.highest + 1 := fun e => hfreshE s (e ▸ hs)
        exact ⟨s, by show alookup x (aset (l.highest+1) uids l.expunges) = some s
                     rw [alookup_aset_ne e]; exact hs, hus⟩
    · intro u _ p hp
      have := h.last_le hp; omega
    · intro u hu
      exact Or.inr ⟨rfl, uids, alookup_aset_self _ _ _, hu⟩


/-- **`_set` preserves the log invariant** (for duplicate-free `uids`, which every caller passes) -/
theorem set_inv {l : Log} (h : LogInv l) (uids : List Nat) (hnd : uids.Nodup) (k : Kind) :
    LogInv (set l uids k) := by
  rw [set_eq]
  exact (MidInv.foldl (midInv_init h uids k) hnd).toLogInv

#print axioms set_inv
end Pymap.ModSeq

namespace Pymap.ModSeq

/-- `bisect_left` on a strictly increasing list: the suffix from the first element `≥ p` -/
theorem mem_dropWhile_lt : ∀ {l : List Nat} {p x : Nat}, l.Pairwise (· < ·) →
    (x ∈ l.dropWhile (fun m => m < p) ↔ x ∈ l ∧ p ≤ x)
  | [], _, _, _ => by simp
  | a :: as, p, x, h => by
    simp only [List.pairwise_cons] at h
    simp only [List.dropWhile]
    by_cases hap : a < p
    · simp only [hap, decide_true]
      rw [mem_dropWhile_lt h.2]
      constructor
      · rintro ⟨h1, h2⟩; exact ⟨by simp [h1], h2⟩
      · rintro ⟨h1, h2⟩
        simp at h1; rcases h1 with rfl | h1
        · omega
        · exact ⟨h1, h2⟩
    · simp only [hap, decide_false]
      constructor
      · intro hx
        refine ⟨hx, ?_⟩
        simp at hx; rcases hx with rfl | hx
        · omega
        · have : a < x := h.1 x hx
          omega
      · rintro ⟨h1, _⟩; exact h1

/-- **completeness of `find_updated`**: exactly the uids whose last change is at or after `p`,
split by the kind of that last change -/
theorem findUpdated_updates {l : Log} (h : LogInv l) (p u : Nat) :
    u ∈ (findUpdated l p).1 ↔
      ∃ m, alookup u l.last = some m ∧ p ≤ m ∧ ∃ s, alookup m l.updates = some s ∧ u ∈ s := by
  simp only [findUpdated, List.mem_flatMap, mem_dropWhile_lt h.sorted]
  constructor
  · rintro ⟨m, ⟨_, hpm⟩, hu⟩
    cases hs : alookup m l.updates with
    | none => simp [hs] at hu
    | some s =>
      simp [hs] at hu
      exact ⟨m, h.memU m s u hs hu, hpm, s, hs, hu⟩
  · rintro ⟨m, _, hpm, s, hs, hu⟩
    exact ⟨m, ⟨h.keysU m s hs, hpm⟩, by simp [hs, hu]⟩

theorem findUpdated_expunges {l : Log} (h : LogInv l) (p u : Nat) :
    u ∈ (findUpdated l p).2 ↔
      ∃ m, alookup u l.last = some m ∧ p ≤ m ∧ ∃ s, alookup m l.expunges = some s ∧ u ∈ s := by
  simp only [findUpdated, List.mem_flatMap, mem_dropWhile_lt h.sorted]
  constructor
  · rintro ⟨m, ⟨_, hpm⟩, hu⟩
    cases hs : alookup m l.expunges with
    | none => simp [hs] at hu
    | some s =>
      simp [hs] at hu
      exact ⟨m, h.memE m s u hs hu, hpm, s, hs, hu⟩
  · rintro ⟨m, _, hpm, s, hs, hu⟩
    exact ⟨m, ⟨h.keysE m s hs, hpm⟩, by simp [hs, hu]⟩

end Pymap.ModSeq
