import PymapProofs.Lemmas.Mailbox
/-! C02 core: one `update_selected` (not hiding) makes the view equal to the mailbox -/
namespace Pymap.Mailbox
open Pymap.ModSeq Pymap.Sync

theorem find_some {b : MBox} {u : Nat} {m : Msg} (h : b.find u = some m) : m ∈ b.msgs ∧ m.uid = u := by
  unfold MBox.find at h
  have := List.find?_some h
  exact ⟨List.mem_of_find?_eq_some h, by simpa using this⟩

theorem find_isSome {b : MBox} {u : Nat} (h : u ∈ b.uids) : ∃ m, b.find u = some m := by
  unfold MBox.find
  simp only [MBox.uids, List.mem_map] at h
  obtain ⟨m, hm, rfl⟩ := h
  cases hf : b.msgs.find? (fun m' => m'.uid == m.uid) with
  | some m' => exact ⟨m', rfl⟩
  | none =>
    rw [List.find?_eq_none] at hf
    have := hf m hm; simp at this

theorem find_none {b : MBox} {u : Nat} (h : u ∉ b.uids) : b.find u = none := by
  cases hf : b.find u with
  | none => rfl
  | some m =>
    obtain ⟨hm, rfl⟩ := find_some hf
    exact absurd (by simp [MBox.uids]; exact ⟨m, hm, rfl⟩) h

/-- lookup hits the front list when every front binding of `k` carries `f` and one exists -/
theorem lookup_append_front {β : Type} (k : Nat) (f : β) (l1 l2 : List (Nat × β))
    (hall : ∀ p ∈ l1, p.1 = k → p.2 = f) (hex : ∃ p ∈ l1, p.1 = k) :
    Sync.lookup k (l1 ++ l2) = some f := by
  induction l1 with
  | nil => simp at hex
  | cons q r ih =>
    obtain ⟨k', v⟩ := q
    simp only [List.cons_append, Sync.lookup]
    by_cases e : k = k'
    · subst e; simp; exact hall (k, v) (by simp) rfl
    · simp only [e, if_false]
      apply ih (fun p hp => hall p (by simp [hp]))
      obtain ⟨p, hp, hpk⟩ := hex
      simp at hp; rcases hp with rfl | hp
      · exact absurd hpk.symm e
      · exact ⟨p, hp, hpk⟩

theorem lookup_append_back {β : Type} (k : Nat) (l1 l2 : List (Nat × β)) (h : ∀ p ∈ l1, p.1 ≠ k) :
    Sync.lookup k (l1 ++ l2) = Sync.lookup k l2 := by
  rw [Sync.lookup_append, Sync.lookup_none_of_not_mem k l1 h]; rfl

/-- what a session that has consumed the log up to (excluding) `p` is guaranteed to hold -/
structure Consistent (b : MBox) (v : View) (p : Nat) : Prop where
  inView : ∀ u, u ∈ b.uids → (∀ m, alookup u b.log.last = some m → m < p) →
            u ∈ v.uids ∧ v.flagsOf u = (b.find u).map (·.flags)
  gone   : ∀ u, u ∉ b.uids → (∀ m, alookup u b.log.last = some m → m < p) →
            u ∉ v.uids ∨ u ∈ v.pending
  pend   : ∀ u ∈ v.pending, u ∉ b.uids
  bound  : ∀ u, u ∈ v.uids ∨ u ∈ v.pending → u ≤ b.maxUid

/-- **C02 core.** After `update_selected` with expunges not hidden, the view *is* the mailbox. -/
theorem sync_converges {b : MBox} {v : View} {p : Nat} (hb : MBoxInv b) (hc : Consistent b v p) :
    let r := updateSelected b v (some p) false
    (∀ u, u ∈ r.1.uids ↔ u ∈ b.uids) ∧
    (∀ u ∈ b.uids, r.1.flagsOf u = (b.find u).map (·.flags)) ∧
    r.1.pending = [] ∧ r.2 = b.log.highest := by
  intro r
  -- the delivered messages
  let upd := (findUpdated b.log p).1
  let exp := (findUpdated b.log p).2
  let del := (upd.filterMap b.find).map toC
  have hr : r.1 = remove (update v del) exp false := rfl
  have hU := findUpdated_updates hb.log p
  have hE := findUpdated_expunges hb.log p
  -- uids of the delivered list
  have hdel : ∀ u, u ∈ del.map (·.uid) ↔ u ∈ upd ∧ u ∈ b.uids := by
    intro u
    simp only [del, List.map_map, List.mem_map, List.mem_filterMap, Function.comp]
    constructor
    · rintro ⟨m, ⟨x, hx, hf⟩, rfl⟩
      obtain ⟨hm, hmu⟩ := find_some hf
      simp only [toC]
      exact ⟨hmu ▸ hx, by simp [MBox.uids]; exact ⟨m, hm, rfl⟩⟩
    · rintro ⟨hu1, hu2⟩
      obtain ⟨m, hm⟩ := find_isSome hu2
      exact ⟨m, ⟨u, hu1, hm⟩, by simp [toC, (find_some hm).2]⟩
  -- classification of every uid
  have hclass : ∀ u, u ∈ upd ∨ u ∈ exp ∨ (∀ m, alookup u b.log.last = some m → m < p) := by
    intro u
    cases hl : alookup u b.log.last with
    | none => right; right; intro m hm; simp at hm
    | some m =>
      by_cases hpm : p ≤ m
      · rcases hb.log.lastMem u m hl with hs | hs
        · left; exact (hU u).2 ⟨m, hl, hpm, hs⟩
        · right; left; exact (hE u).2 ⟨m, hl, hpm, hs⟩
      · right; right; intro m' hm'; simp at hm'; omega
  have hupd_in : ∀ u, u ∈ upd → u ∈ b.uids := by
    intro u hu
    obtain ⟨m, hl, _, hs⟩ := (hU u).1 hu
    exact (hb.kind u m hl).1 hs
  have hexp_out : ∀ u, u ∈ exp → u ∉ b.uids := by
    intro u hu
    obtain ⟨m, hl, _, hs⟩ := (hE u).1 hu
    exact fun hc' => not_inU_of_inE hb.log hs ((hb.kind u m hl).2 hc')
  have hmem : ∀ u, u ∈ r.1.uids ↔ u ∈ b.uids := by
    intro u
    rw [hr, remove_uids_nonpending, update_uids, update_pending, hdel]
    constructor
    · rintro ⟨h1, h2, h3⟩
      rcases h1 with h1 | h1
      · -- was in the view already
        apply Classical.byContradiction; intro hnb
        rcases hclass u with h4 | h4 | h4
        · exact hnb (hupd_in u h4)
        · exact h2 h4
        · rcases hc.gone u hnb h4 with h5 | h5
          · exact h5 h1
          · exact h3 h5
      · exact h1.2
    · intro hu
      refine ⟨?_, fun he => hexp_out u he hu, fun hp' => hc.pend u hp' hu⟩
      rcases hclass u with h4 | h4 | h4
      · exact Or.inr ⟨h4, hu⟩
      · exact absurd hu (hexp_out u h4)
      · exact Or.inl (hc.inView u hu h4).1
  refine ⟨hmem, ?_, ?_, rfl⟩
  · intro u hu
    have hu' : u ∈ (remove (update v del) exp false).uids := by rw [← hr]; exact (hmem u).2 hu
    rw [hr, remove_flagsOf _ _ _ _ hu']
    simp only [View.flagsOf, update_fkeys]
    obtain ⟨m, hm⟩ := find_isSome hu
    rw [hm]; simp only [Option.map_some]
    by_cases hdu : u ∈ upd
    · -- freshly delivered: every delivered binding of u carries the mailbox flags
      apply lookup_append_front
      · intro q hq hqu
        simp only [List.mem_reverse, List.mem_map, del, List.mem_filterMap] at hq
        obtain ⟨c, ⟨m', ⟨x, _, hf⟩, rfl⟩, rfl⟩ := hq
        simp only [toC] at hqu ⊢
        obtain ⟨_, hm'u⟩ := find_some hf
        have : b.find u = some m' := by rw [← hqu]; rw [← hm'u] at hf; rw [hm'u] at hf ⊢; rw [hqu] at hm'u; rw [← hm'u]; exact hm'u ▸ hf
        rw [hm] at this; simp at this; rw [this]
      · refine ⟨(u, m.flags), ?_, rfl⟩
        simp only [List.mem_reverse, List.mem_map, del, List.mem_filterMap]
        exact ⟨toC m, ⟨m, ⟨u, hdu, hm⟩, rfl⟩, by simp [toC, (find_some hm).2]⟩
    · rw [lookup_append_back]
      · rcases hclass u with h4 | h4 | h4
        · exact absurd h4 hdu
        · exact absurd hu (hexp_out u h4)
        · have := (hc.inView u hu h4).2
          simpa [View.flagsOf, hm] using this
      · intro q hq hqu
        simp only [List.mem_reverse, List.mem_map] at hq
        obtain ⟨c, hc', rfl⟩ := hq
        have : u ∈ del.map (·.uid) := by simp only [List.mem_map]; exact ⟨c, hc', hqu⟩
        exact hdu ((hdel u).1 this).1
  · rw [hr]; exact remove_pending_nonpending _ _

/-- and the session's knowledge is re-established at the new position -/
theorem sync_consistent {b : MBox} {v : View} {p : Nat} (hb : MBoxInv b) (hc : Consistent b v p) :
    Consistent b (updateSelected b v (some p) false).1 (updateSelected b v (some p) false).2 := by
  obtain ⟨h1, h2, h3, _⟩ := sync_converges hb hc
  constructor
  · intro u hu _; exact ⟨(h1 u).2 hu, h2 u hu⟩
  · intro u hu _; exact Or.inl (fun hc' => hu ((h1 u).1 hc'))
  · intro u hu; rw [h3] at hu; simp at hu
  · intro u hu
    rcases hu with hu | hu
    · exact hb.le u ((h1 u).1 hu)
    · rw [h3] at hu; simp at hu

#print axioms sync_converges
end Pymap.Mailbox
