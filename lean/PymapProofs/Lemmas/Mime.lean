import PymapModel.Mime
namespace Pymap.Mime

/-- the lines tile `[s, e)`: first starts at `s`, each `next` is the following `start`, last `next` is `e` -/
def Chain : List Line → Nat → Nat → Prop
  | [], s, e => s = e
  | l :: ls, s, e => l.1 = s ∧ l.1 ≤ l.2.2 ∧ Chain ls l.2.2 e

theorem Chain.le : ∀ {ls : List Line} {s e : Nat}, Chain ls s e → s ≤ e
  | [], _, _, h => Nat.le_of_eq h
  | l :: ls, s, e, h => by
    obtain ⟨h1, h2, h3⟩ := h
    have := Chain.le h3; omega

theorem chain_append : ∀ {a b : List Line} {s e : Nat},
    Chain (a ++ b) s e ↔ ∃ m, Chain a s m ∧ Chain b m e
  | [], b, s, e => by simp [Chain]
  | l :: a, b, s, e => by
    simp only [List.cons_append, Chain]
    constructor
    · rintro ⟨h1, h2, h3⟩
      obtain ⟨m, hm1, hm2⟩ := chain_append.1 h3
      exact ⟨m, ⟨h1, h2, hm1⟩, hm2⟩
    · rintro ⟨m, ⟨h1, h2, hm1⟩, hm2⟩
      exact ⟨h1, h2, chain_append.2 ⟨m, hm1, hm2⟩⟩

theorem findLinesAux_chain : ∀ (bs : List Nat) (pos start : Nat) (cr : Bool), start ≤ pos →
    Chain (findLinesAux pos start cr bs) start (pos + bs.length)
  | [], pos, start, cr, h => by simp [findLinesAux, Chain, h]
  | b :: bs, pos, start, cr, h => by
    simp only [findLinesAux]
    split
    · refine ⟨rfl, by show start ≤ pos + 1; omega, ?_⟩
      have := findLinesAux_chain bs (pos + 1) (pos + 1) false (Nat.le_refl _)
      simpa [Nat.add_assoc, Nat.add_comm 1] using this
    · have := findLinesAux_chain bs (pos + 1) start (b = 13) (by omega)
      simpa [Nat.add_assoc, Nat.add_comm 1] using this

theorem findLines_chain (data : List Nat) : Chain (findLines data) 0 data.length := by
  have := findLinesAux_chain data 0 0 false (Nat.le_refl _)
  simpa [findLines] using this

theorem findLinesAux_ne_nil (bs : List Nat) (pos start : Nat) (cr : Bool) : findLinesAux pos start cr bs ≠ [] := by
  induction bs generalizing pos start cr with
  | nil => simp [findLinesAux]
  | cons b bs ih => simp only [findLinesAux]; split; simp; exact ih _ _ _

theorem splitLines_append (data : List Nat) : ∀ (ls : List Line),
    (splitLines data ls).1 ++ (splitLines data ls).2 = ls
  | [] => rfl
  | l :: ls => by
    simp only [splitLines]
    split
    · rfl
    · have ih := splitLines_append data ls
      cases h : (splitLines data ls).1 with
      | nil => simp
      | cons a as => simp only []; rw [h] at ih; simp [ih]

/-- on a chain the head's start and the last line's `next` are the chain's ends -/
theorem chain_ends : ∀ {ls : List Line} {s e : Nat} (hne : ls ≠ []), Chain ls s e →
    (ls.head hne).1 = s ∧ (ls.getLast hne).2.2 = e
  | [l], s, e, _, h => by
    obtain ⟨h1, _, h3⟩ := h
    simp [Chain] at h3
    exact ⟨h1, h3⟩
  | l :: l' :: ls, s, e, _, h => by
    obtain ⟨h1, _, h3⟩ := h
    have := chain_ends (ls := l' :: ls) (by simp) h3
    exact ⟨h1, by simpa using this.2⟩

theorem getRaw_chain (data : List Nat) {ls : List Line} {s e : Nat} (h : Chain ls s e) :
    getRaw data [ls] = slice data s e := by
  unfold getRaw
  simp only [List.flatten_cons, List.flatten_nil, List.append_nil]
  cases ls with
  | nil => simp [Chain] at h; subst h; simp [slice]
  | cons l ls =>
    have := chain_ends (ls := l :: ls) (by simp) h
    simp only [List.head_cons] at this
    show slice data l.1 ((l :: ls).getLast (by simp)).2.2 = slice data s e
    rw [this.1, this.2]

theorem getRaw_two (data : List Nat) (a b : List Line) : getRaw data [a, b] = getRaw data [a ++ b] := by
  simp [getRaw]

theorem slice_full (data : List Nat) : slice data 0 data.length = data := by simp [slice]

theorem slice_append (data : List Nat) {s m e : Nat} (h1 : s ≤ m) (h2 : m ≤ e) :
    slice data s m ++ slice data m e = slice data s e := by
  unfold slice
  have : data.drop m = (data.drop s).drop (m - s) := by rw [List.drop_drop]; congr 1; omega
  rw [this, ← List.take_add]
  congr 1; omega

end Pymap.Mime
