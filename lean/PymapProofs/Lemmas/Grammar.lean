import PymapModel.Grammar
namespace Pymap.Grammar
open Pymap.Wire

/-- `skipQuoted` returns a strict suffix -/
theorem skipQuoted_len : ∀ (l r : List Nat), skipQuoted l = some r → r.length < l.length
  | [], _, h => by simp [skipQuoted] at h
  | b :: t, r, h => by
    rw [skipQuoted.eq_def] at h; simp only [] at h
    split at h
    · injection h with h; subst h; simp
    · split at h
      · simp at h
      · split at h
        · cases t with
          | nil => simp at h
          | cons c t' =>
            simp only [] at h
            split at h
            · have := skipQuoted_len t' r h; simp; omega
            · simp at h
        · have := skipQuoted_len t r h; simp; omega

theorem readNum_len : ∀ (acc : Nat) (l : List Nat), (readNum acc l).2.length ≤ l.length
  | _, [] => by simp [readNum]
  | acc, b :: r => by
    simp only [readNum]; split
    · have := readNum_len (acc * 10 + (b - 48)) r; simp; omega
    · simp

/-- **fuel independence**: with enough fuel the answer does not depend on it (each call consumes input) -/
theorem scan_fuel : ∀ (f1 f2 : Nat) (st : List Nat) (tok : Bool) (l : List Nat), l.length < f1 → l.length < f2 →
    scan f1 st tok l = scan f2 st tok l
  | 0, _, _, _, _, h, _ => by omega
  | _, 0, _, _, _, _, h => by omega
  | f1+1, f2+1, st, tok, [], _, _ => by simp [scan]
  | f1+1, f2+1, st, tok, b :: r, h1, h2 => by
    have hr1 : r.length < f1 := by simp at h1; omega
    have hr2 : r.length < f2 := by simp at h2; omega
    have ih := fun st' tok' => scan_fuel f1 f2 st' tok' r hr1 hr2
    rw [scan.eq_def, scan.eq_def (f2+1)]
    simp only []
    split
    · split
      · rw [scan_fuel f1 f2 [] false r.tail (by simp; omega) (by simp; omega)]
      · rfl
    · split
      · rw [ih]
      · split
        · rw [ih]
        · split
          · rw [ih]
          · split
            · rw [ih, ih]
            · split
              · cases hq : skipQuoted r with
                | none => rfl
                | some r' =>
                  simp only []
                  have := skipQuoted_len r r' hq
                  rw [scan_fuel f1 f2 st true r' (by omega) (by omega)]
              · split
                · split
                  · have hl := readNum_len 0 r
                    have hd : (((readNum 0 r).2.drop 3).drop (readNum 0 r).1).length ≤ r.length := by
                      simp only [List.length_drop]; omega
                    rw [scan_fuel f1 f2 st true _ (by omega) (by omega)]
                  · rfl
                · split
                  · split
                    · rw [ih]
                    · rw [ih]
                  · rw [ih]

theorem scan_norm (f : Nat) (st : List Nat) (tok : Bool) (l : List Nat) (h : l.length < f) :
    scan f st tok l = scan (l.length + 1) st tok l := scan_fuel f _ st tok l h (by omega)

end Pymap.Grammar

namespace Pymap.Grammar
open Pymap.Wire

/-- a byte that can be part of an atom -/
def tokByte (b : Nat) : Bool := plain b && b != 126

theorem tokByte_facts {b : Nat} (h : tokByte b = true) :
    b ≠ 13 ∧ b ≠ 32 ∧ b ≠ lp ∧ b ≠ lb ∧ b ≠ rp ∧ b ≠ rb ∧ b ≠ dq ∧ b ≠ lc ∧ b ≠ 126 ∧ plain b = true := by
  simp only [tokByte, plain, lp, rp, lb, rb, lc, dq, Bool.and_eq_true, decide_eq_true_eq, bne_iff_ne, ne_eq] at h
  simp only [lp, rp, lb, rb, lc, dq, plain, Bool.and_eq_true, decide_eq_true_eq, bne_iff_ne, ne_eq]
  omega

theorem scan_tok (f : Nat) (st : List Nat) (tok : Bool) (b : Nat) (t : List Nat) (h : tokByte b = true) :
    scan (f+1) st tok (b :: t) = scan f st true t := by
  obtain ⟨h1, h2, h3, h4, h5, h6, h7, h8, h9, h10⟩ := tokByte_facts h
  rw [scan.eq_def]; simp only [h1, h2, h3, h4, h5, h6, h7, h8, h9, h10, if_false, false_or, Bool.true_and]

/-- an atom is skipped -/
theorem scan_atom : ∀ (s : List Nat), s ≠ [] → (∀ b ∈ s, tokByte b = true) →
    ∀ (f : Nat) (st : List Nat) (tok : Bool) (rest : List Nat), (s ++ rest).length < f →
    scan f st tok (s ++ rest) = scan (rest.length + 1) st true rest
  | [], h, _, _, _, _, _, _ => absurd rfl h
  | [b], _, hb, f, st, tok, rest, hf => by
    cases f with
    | zero => omega
    | succ f =>
      simp only [List.cons_append, List.nil_append]
      rw [scan_tok f st tok b rest (hb b (by simp))]
      exact scan_norm f st true rest (by simp at hf; omega)
  | b :: c :: s, _, hb, f, st, tok, rest, hf => by
    cases f with
    | zero => omega
    | succ f =>
      simp only [List.cons_append]
      rw [scan_tok f st tok b _ (hb b (by simp))]
      have := scan_atom (c :: s) (by simp) (fun x hx => hb x (by simp [hx])) f st true rest (by simp at hf ⊢; omega)
      simpa using this

theorem skipQuoted_escape (v rest : List Nat) (h : ∀ b ∈ v, b ≠ 13 ∧ b ≠ 10 ∧ b ≠ 0) :
    skipQuoted (escape v ++ dq :: rest) = some rest := by
  induction v with
  | nil => simp [escape]; rw [skipQuoted.eq_def]; simp
  | cons b r ih =>
    have hb := h b (by simp)
    have ih' := ih (fun x hx => h x (by simp [hx]))
    simp only [escape]
    by_cases hq : b = dq ∨ b = bs
    · simp only [hq, if_true, List.cons_append]
      rw [skipQuoted.eq_def]
      have h1 : ¬ bs = dq := by decide
      have h2 : ¬ (bs = 13 ∨ bs = 10 ∨ bs = 0) := by decide
      simp only [h1, h2, if_false, if_true]
      have h3 : b = bs ∨ b = dq := hq.symm
      simp only [h3, if_true]; exact ih'
    · simp only [hq, if_false, List.cons_append]
      rw [skipQuoted.eq_def]
      have h1 : ¬ b = dq := fun e => hq (Or.inl e)
      have h2 : ¬ b = bs := fun e => hq (Or.inr e)
      have h3 : ¬ (b = 13 ∨ b = 10 ∨ b = 0) := fun e => by
        rcases e with e | e | e; exact hb.1 e; exact hb.2.1 e; exact hb.2.2 e
      simp only [h1, h2, h3, if_false]; exact ih'

/-- a quoted string is skipped -/
theorem scan_quoted (v rest : List Nat) (h : ∀ b ∈ v, b ≠ 13 ∧ b ≠ 10 ∧ b ≠ 0)
    (f : Nat) (st : List Nat) (tok : Bool) (hf : (serQuoted v ++ rest).length < f) :
    scan f st tok (serQuoted v ++ rest) = scan (rest.length + 1) st true rest := by
  cases f with
  | zero => omega
  | succ f =>
    have e : serQuoted v ++ rest = dq :: (escape v ++ dq :: rest) := by simp [serQuoted]
    rw [e, scan.eq_def]
    have n1 : ¬ dq = 13 := by decide
    have n2 : ¬ dq = 32 := by decide
    have n3 : ¬ (dq = lp ∨ dq = lb) := by decide
    have n4 : ¬ dq = rp := by decide
    have n5 : ¬ dq = rb := by decide
    simp only [n1, n2, n3, n4, n5, if_false, if_true, skipQuoted_escape v rest h]
    apply scan_norm
    rw [e] at hf; simp at hf; omega

theorem isDigit_48 (n : Nat) (h : n < 10) : isDigit (48 + n) = true := by
  simp [isDigit]; omega

theorem readNum_digits : ∀ (n : Nat) (t : List Nat), readNum 0 (digits n ++ t) = readNum n t := by
  intro n
  induction n using Nat.strongRecOn with
  | _ n ih =>
    intro t
    rw [digits]
    split
    · rename_i hlt
      simp only [List.cons_append, List.nil_append, readNum, isDigit_48 n hlt, if_true]
      congr 1; omega
    · rename_i hge
      have := ih (n / 10) (by omega) ((48 + n % 10) :: t)
      rw [List.append_assoc]; simp only [List.cons_append, List.nil_append]
      rw [this]
      simp only [readNum, isDigit_48 (n % 10) (by omega), if_true]
      congr 1; omega

theorem digits_head (n : Nat) : firstIsDigit (digits n ++ [rc]) = true := by
  induction n using Nat.strongRecOn with
  | _ n ih =>
    rw [digits]; split
    · rename_i h; simp [firstIsDigit, isDigit_48 n h]
    · have := ih (n / 10) (by omega)
      cases hd : digits (n / 10) with
      | nil => rw [hd] at this; simp [firstIsDigit, isDigit, rc] at this
      | cons d ds => rw [hd] at this; simpa [firstIsDigit] using this

theorem firstIsDigit_append (a b c : List Nat) (h : firstIsDigit (a ++ b) = true) (ha : a ≠ []) :
    firstIsDigit (a ++ c) = true := by
  cases a with
  | nil => exact absurd rfl ha
  | cons x xs => simpa [firstIsDigit] using h

theorem digits_ne_nil (n : Nat) : digits n ≠ [] := by
  rw [digits]; split <;> simp

/-- a literal is skipped: the announced length is the payload length -/
theorem scan_literal (v rest : List Nat) (f : Nat) (st : List Nat) (tok : Bool)
    (hf : (serLiteral false v ++ rest).length < f) :
    scan f st tok (serLiteral false v ++ rest) = scan (rest.length + 1) st true rest := by
  cases f with
  | zero => omega
  | succ f =>
    have e : serLiteral false v ++ rest = lc :: (digits v.length ++ (rc :: 13 :: 10 :: (v ++ rest))) := by
      simp [serLiteral, lc, rc]
    rw [e, scan.eq_def]
    have n1 : ¬ lc = 13 := by decide
    have n2 : ¬ lc = 32 := by decide
    have n3 : ¬ (lc = lp ∨ lc = lb) := by decide
    have n4 : ¬ lc = rp := by decide
    have n5 : ¬ lc = rb := by decide
    have n6 : ¬ lc = dq := by decide
    simp only [n1, n2, n3, n4, n5, n6, if_false, if_true]
    have hrn : readNum 0 (digits v.length ++ (rc :: 13 :: 10 :: (v ++ rest))) = (v.length, rc :: 13 :: 10 :: (v ++ rest)) := by
      rw [readNum_digits]; simp [readNum, isDigit, rc]
    have hfd : firstIsDigit (digits v.length ++ (rc :: 13 :: 10 :: (v ++ rest))) = true :=
      firstIsDigit_append _ [rc] _ (digits_head v.length) (digits_ne_nil _)
    simp only [hrn, hfd, List.take, List.drop, if_true, Bool.true_and]
    have hle : v.length ≤ (v ++ rest).length := by simp
    simp only [hle, decide_true, Bool.true_and, List.drop_left]
    apply scan_norm
    rw [e] at hf; simp at hf; omega

end Pymap.Grammar
