import PymapModel.ModUtf7
set_option maxRecDepth 8000
namespace Pymap.ModUtf7

theorem scalar_iff (c : Nat) : scalar c = true ↔ (c < 0xD800 ∨ (0xDFFF < c ∧ c ≤ 0x10FFFF)) := by
  unfold scalar; simp only [Bool.or_eq_true, Bool.and_eq_true, decide_eq_true_eq]

theorem b64dec_enc : ∀ (bs : List Nat), (∀ b ∈ bs, b < 256) → b64dec (b64enc bs) = some bs
  | [], _ => by simp [b64enc, b64dec]
  | [a], h => by
    have := h a (by simp)
    simp only [b64enc, b64dec]
    have h1 : a % 4 * 16 % 16 = 0 := by omega
    simp [h1]; omega
  | [a, b], h => by
    have ha := h a (by simp); have hb := h b (by simp)
    simp only [b64enc, b64dec]
    have h1 : b % 16 * 4 % 4 = 0 := by omega
    simp [h1]; constructor <;> omega
  | a :: b :: c :: r, h => by
    have ha := h a (by simp); have hb := h b (by simp); have hc := h c (by simp)
    have ih := b64dec_enc r (fun x hx => h x (by simp [hx]))
    simp only [b64enc, b64dec, ih]
    simp; refine ⟨?_, ?_, ?_⟩ <;> omega

theorem b64enc_lt : ∀ (bs : List Nat), (∀ b ∈ bs, b < 256) → ∀ s ∈ b64enc bs, s < 64
  | [], _ => by simp [b64enc]
  | [a], h => by have := h a (by simp); simp [b64enc]; omega
  | [a, b], h => by
    have ha := h a (by simp); have hb := h b (by simp); simp [b64enc]; omega
  | a :: b :: c :: r, h => by
    have ha := h a (by simp); have hb := h b (by simp); have hc := h c (by simp)
    have ih := b64enc_lt r (fun x hx => h x (by simp [hx]))
    intro s hs; simp [b64enc] at hs
    rcases hs with rfl | rfl | rfl | rfl | hs
    · omega
    · omega
    · omega
    · omega
    · exact ih s hs

theorem b64enc_ne_nil : ∀ (bs : List Nat), bs ≠ [] → b64enc bs ≠ []
  | [], h => absurd rfl h
  | [_], _ => by simp [b64enc]
  | [_, _], _ => by simp [b64enc]
  | _ :: _ :: _ :: _, _ => by simp [b64enc]

theorem ofChar_toChar' : ∀ s, s < 64 → ofChar (toChar s) = some s := by decide
theorem ofChar_toChar (s : Nat) (h : s < 64) : ofChar (toChar s) = some s := ofChar_toChar' s h

theorem toChar_ne_dash (s : Nat) : toChar s ≠ dash := by
  unfold toChar dash
  split; omega
  split; omega
  split; omega
  split <;> omega

theorem allSome_map (l : List Nat) (h : ∀ s ∈ l, s < 64) : allSome ((l.map toChar).map ofChar) = some l := by
  induction l with
  | nil => rfl
  | cons s r ih =>
    simp only [List.map_cons, ofChar_toChar s (h s (by simp)), allSome]
    rw [ih (fun x hx => h x (by simp [hx]))]; rfl

theorem utf16_lt : ∀ (cps : List Nat), (∀ c ∈ cps, scalar c = true) → ∀ b ∈ utf16 cps, b < 256
  | [], _ => by simp [utf16]
  | c :: r, h => by
    have hc := h c (by simp)
    have ih := utf16_lt r (fun x hx => h x (by simp [hx]))
    rw [scalar_iff] at hc
    intro b hb
    simp only [utf16] at hb
    split at hb
    · simp only [List.mem_cons] at hb; rcases hb with rfl | rfl | hb
      · omega
      · omega
      · exact ih b hb
    · simp only [List.mem_cons] at hb; rcases hb with h1 | h1 | h1 | h1 | hb
      · omega
      · omega
      · omega
      · omega
      · exact ih b hb

theorem unutf16_utf16 : ∀ (cps : List Nat), (∀ c ∈ cps, scalar c = true) → unutf16 (utf16 cps) = some cps
  | [], _ => by simp [utf16, unutf16]
  | c :: r, h => by
    have hc := h c (by simp)
    have ih := unutf16_utf16 r (fun x hx => h x (by simp [hx]))
    rw [scalar_iff] at hc
    simp only [utf16]
    split
    · rename_i hlt
      rw [unutf16.eq_def]; simp only []
      have e : c / 256 * 256 + c % 256 = c := by omega
      rw [e]
      have n1 : ¬ (0xD800 ≤ c ∧ c < 0xDC00) := by omega
      have n2 : ¬ (0xDC00 ≤ c ∧ c < 0xE000) := by omega
      simp only [n1, n2, if_false, ih]; rfl
    · rename_i hge
      rw [unutf16.eq_def]; simp only []
      have hc2 : c ≤ 0x10FFFF := by omega
      have e1 : (0xD800 + (c - 0x10000) / 1024) / 256 * 256 + (0xD800 + (c - 0x10000) / 1024) % 256
          = 0xD800 + (c - 0x10000) / 1024 := by omega
      have e2 : (0xDC00 + (c - 0x10000) % 1024) / 256 * 256 + (0xDC00 + (c - 0x10000) % 1024) % 256
          = 0xDC00 + (c - 0x10000) % 1024 := by omega
      rw [e1, e2]
      have p1 : (0xD800 ≤ 0xD800 + (c - 0x10000) / 1024 ∧ 0xD800 + (c - 0x10000) / 1024 < 0xDC00) := by omega
      have p2 : (0xDC00 ≤ 0xDC00 + (c - 0x10000) % 1024 ∧ 0xDC00 + (c - 0x10000) % 1024 < 0xE000) := by omega
      have e3 : 0x10000 + (0xD800 + (c - 0x10000) / 1024 - 0xD800) * 1024
          + (0xDC00 + (c - 0x10000) % 1024 - 0xDC00) = c := by omega
      simp only [p1, p2, if_true, and_self, ih, Option.map_some, e3]

theorem utf16_ne_nil : ∀ (cps : List Nat), cps ≠ [] → utf16 cps ≠ []
  | [], h => absurd rfl h
  | c :: r, _ => by simp only [utf16]; split <;> exact List.cons_ne_nil _ _

theorem decodeRun_encodeRun (run : List Nat) (h : ∀ c ∈ run, scalar c = true) :
    decodeRun (encodeRun run) = some run := by
  unfold decodeRun encodeRun
  rw [allSome_map _ (b64enc_lt _ (utf16_lt run h))]
  simp only [Option.bind_some]
  rw [b64dec_enc _ (utf16_lt run h)]
  simp only [Option.bind_some]
  exact unutf16_utf16 run h

theorem encodeRun_no_dash (run : List Nat) : ∀ b ∈ encodeRun run, b ≠ dash := by
  intro b hb
  simp only [encodeRun, List.mem_map] at hb
  obtain ⟨s, _, rfl⟩ := hb
  exact toChar_ne_dash s

theorem encodeRun_ne_nil (run : List Nat) (h : run ≠ []) : encodeRun run ≠ [] := by
  unfold encodeRun
  intro e
  have := List.map_eq_nil_iff.1 e
  exact b64enc_ne_nil _ (utf16_ne_nil run h) this

theorem spanDash_append (enc rest : List Nat) (h : ∀ b ∈ enc, b ≠ dash) :
    spanDash (enc ++ dash :: rest) = (enc, dash :: rest) := by
  induction enc with
  | nil => simp [spanDash]
  | cons b r ih =>
    have hb := h b (by simp)
    simp only [List.cons_append, spanDash, hb, if_false]
    rw [ih (fun x hx => h x (by simp [hx]))]

theorem spanRun_spec : ∀ (l : List Nat),
    (spanRun l).1 ++ (spanRun l).2 = l ∧ (∀ c ∈ (spanRun l).1, printable c = false) ∧
    (spanRun l).2.length ≤ l.length
  | [] => by simp [spanRun]
  | c :: r => by
    obtain ⟨i1, i2, i3⟩ := spanRun_spec r
    simp only [spanRun]
    split
    · simp
    · rename_i hp
      refine ⟨by simp [i1], ?_, by simp; omega⟩
      intro x hx; simp at hx; rcases hx with rfl | hx
      · simpa using hp
      · exact i2 x hx

theorem spanRun_head (c : Nat) (r : List Nat) (h : printable c = false) :
    ∃ t, (spanRun (c :: r)).1 = c :: t ∧ (spanRun (c :: r)).2.length ≤ r.length := by
  simp only [spanRun, h, Bool.false_eq_true, if_false]
  exact ⟨_, rfl, (spanRun_spec r).2.2⟩

end Pymap.ModUtf7
