import PymapModel.Sync
/-! Helper lemmas for C01 (no property statements here). -/
namespace Pymap.Sync

theorem mem_insertSorted {u x : Nat} {l : List Nat} : x ∈ insertSorted u l ↔ x = u ∨ x ∈ l := by
  induction l with
  | nil => simp [insertSorted]
  | cons v vs ih =>
    simp only [insertSorted]; split
    · simp
    · simp [ih]; grind

theorem insertSorted_pairwise {u : Nat} {l : List Nat} (h : l.Pairwise (· < ·)) (hu : u ∉ l) :
    (insertSorted u l).Pairwise (· < ·) := by
  induction l with
  | nil => simp [insertSorted]
  | cons v vs ih =>
    simp only [insertSorted]; split
    · rename_i hlt
      simp only [List.pairwise_cons] at h ⊢
      refine ⟨?_, h⟩
      intro a ha; simp at ha; rcases ha with ha | ha
      · rw [ha]; exact hlt
      · have h1 : v < a := h.1 a ha
        exact Nat.lt_trans hlt h1
    · rename_i hnlt
      simp only [List.pairwise_cons] at h ⊢
      simp at hu
      refine ⟨?_, ih h.2 hu.2⟩
      intro a ha; rw [mem_insertSorted] at ha; rcases ha with ha | ha
      · rw [ha]; have := hu.1; show v < u; omega
      · exact h.1 a ha

theorem insertSorted_eq (u : Nat) (l : List Nat) :
    insertSorted u l = l.take (bisectRight u l) ++ u :: l.drop (bisectRight u l) := by
  induction l with
  | nil => simp [insertSorted, bisectRight]
  | cons v vs ih =>
    simp only [insertSorted, bisectRight]; split
    · simp
    · simp [ih]

theorem bisectRight_le (u : Nat) (l : List Nat) : bisectRight u l ≤ l.length := by
  induction l with
  | nil => simp [bisectRight]
  | cons v vs ih => simp only [bisectRight]; split <;> simp <;> omega

theorem pairwise_lt_nodup {l : List Nat} (h : l.Pairwise (· < ·)) : l.Nodup := by
  apply List.Pairwise.imp _ h
  intro a b hab; exact Nat.ne_of_lt hab

theorem lookup_append {β : Type} (k : Nat) (a b : List (Nat × β)) :
    lookup k (a ++ b) = (lookup k a).or (lookup k b) := by
  induction a with
  | nil => simp [lookup]
  | cons p r ih => obtain ⟨k', v⟩ := p; simp only [List.cons_append, lookup]; split <;> simp [ih]

theorem lookup_none_of_not_mem {β : Type} (k : Nat) (l : List (Nat × β)) (h : ∀ p ∈ l, p.1 ≠ k) :
    lookup k l = none := by
  induction l with
  | nil => simp [lookup]
  | cons p r ih =>
    obtain ⟨k', v⟩ := p
    simp only [lookup]
    have : k ≠ k' := by have := h (k', v) (by simp); simpa [eq_comm] using this
    simp [this]; exact ih (fun p hp => h p (by simp [hp]))

/-- lookup in a reversed enumerated duplicate-free list -/
theorem lookup_zipIdx_reverse (l : List Nat) (n : Nat) (hnd : l.Nodup) (i : Nat) (hi : i < l.length) :
    lookup l[i] (l.zipIdx n).reverse = some (n + i) := by
  induction l generalizing n i with
  | nil => simp at hi
  | cons v vs ih =>
    simp only [List.zipIdx_cons, List.reverse_cons, lookup_append]
    simp only [List.nodup_cons] at hnd
    cases i with
    | zero =>
      simp only [List.getElem_cons_zero]
      rw [lookup_none_of_not_mem]
      · simp [lookup]
      · intro p hp; simp at hp
        intro heq; apply hnd.1
        rcases List.mem_iff_getElem.1 hp with ⟨j, hj, hjp⟩
        simp at hjp
        have : vs[j]'(by simpa using hj) = v := by rw [← heq, ← hjp]
        rw [← this]; exact List.getElem_mem _
    | succ j =>
      simp only [List.getElem_cons_succ]
      rw [ih (n+1) hnd.2 j (by simpa using hi)]
      simp; omega

/-- representation invariant of `SynchronizedMessages` -/
def Coherent (v : View) : Prop :=
  v.sorted.Pairwise (· < ·) ∧ (∀ u, u ∈ v.uids ↔ u ∈ v.sorted) ∧ v.uids.Nodup ∧
  ∀ i (h : i < v.sorted.length), lookup v.sorted[i] v.seqs = some (i+1)

def LoopInv (v : View) (lowest : Option Nat) : Prop :=
  v.sorted.Pairwise (· < ·) ∧ (∀ u, u ∈ v.uids ↔ u ∈ v.sorted) ∧ v.uids.Nodup ∧
  (∀ i (h : i < v.sorted.length), i < lowest.getD v.sorted.length →
      lookup v.sorted[i] v.seqs = some (i+1)) ∧
  (∀ l, lowest = some l → l ≤ v.sorted.length)

theorem updateLoop_inv (v : View) (lowest : Option Nat) (msgs : List CMsg)
    (h : LoopInv v lowest) :
    LoopInv (updateLoop v lowest msgs).1 (updateLoop v lowest msgs).2 := by
  induction msgs generalizing v lowest with
  | nil => simpa [updateLoop] using h
  | cons m ms ih =>
    simp only [updateLoop]
    split
    · apply ih; exact h
    · rename_i hu
      apply ih
      obtain ⟨hp, hm, hnd, hs, hl⟩ := h
      have hus : m.uid ∉ v.sorted := fun hc => hu ((hm m.uid).2 hc)
      have hle := bisectRight_le m.uid v.sorted
      refine ⟨insertSorted_pairwise hp hus, ?_, ?_, ?_, ?_⟩
      · intro x; simp [mem_insertSorted, hm]
      · simp [hu, hnd]
      · intro i hi hlt
        have hidx : i < bisectRight m.uid v.sorted := by
          cases lowest <;> simp at hlt <;> omega
        have hi' : i < v.sorted.length := by omega
        have hget : (insertSorted m.uid v.sorted)[i] = v.sorted[i] := by
          simp only [insertSorted_eq]
          rw [List.getElem_append_left (by simp; omega)]
          simp
        show lookup (insertSorted m.uid v.sorted)[i] v.seqs = some (i+1)
        rw [hget]
        apply hs i hi'
        cases lowest with
        | none => simpa using hi'
        | some l => simp at hlt ⊢; omega
      · intro l hl'
        have : (insertSorted m.uid v.sorted).length = v.sorted.length + 1 := by
          simp [insertSorted_eq]; omega
        show l ≤ (insertSorted m.uid v.sorted).length
        cases lowest with
        | none => simp at hl'; omega
        | some l0 => simp at hl'; have := hl l0 rfl; omega

theorem foldl_cons_eq {α : Type} (xs acc : List α) :
    xs.foldl (fun acc x => x :: acc) acc = xs.reverse ++ acc := by
  induction xs generalizing acc with
  | nil => simp
  | cons x xs ih => simp [ih]

theorem update_coherent (v : View) (msgs : List CMsg) (h : Coherent v) : Coherent (update v msgs) := by
  have hinv : LoopInv v none := by
    obtain ⟨hp, hm, hnd, hs⟩ := h
    exact ⟨hp, hm, hnd, fun i hi _ => hs i hi, by simp⟩
  have := updateLoop_inv v none msgs hinv
  unfold update
  generalize updateLoop v none msgs = r at this
  obtain ⟨v', lo⟩ := r
  cases lo with
  | none =>
    obtain ⟨hp, hm, hnd, hs, _⟩ := this
    exact ⟨hp, hm, hnd, fun i hi => hs i hi (by simpa using hi)⟩
  | some l =>
    obtain ⟨hp, hm, hnd, hs, hl⟩ := this
    have hl := hl l rfl
    refine ⟨hp, hm, hnd, ?_⟩
    intro i hi
    have hi : i < v'.sorted.length := hi
    show lookup v'.sorted[i] (renumberFrom v'.seqs v'.sorted l) = some (i+1)
    simp only [renumberFrom]
    have hfold' : ((v'.sorted.drop l).zipIdx (l+1)).foldl
        (fun acc (x : Nat × Nat) => (x.1, x.2) :: acc) v'.seqs
        = ((v'.sorted.drop l).zipIdx (l+1)).reverse ++ v'.seqs := foldl_cons_eq _ _
    rw [hfold', lookup_append]
    by_cases hil : i < l
    · rw [lookup_none_of_not_mem]
      · simpa using hs i hi (by simpa using hil)
      · intro p hp'
        simp only [List.mem_reverse] at hp'
        rcases List.mem_iff_getElem.1 hp' with ⟨j, hj, hjp⟩
        simp at hjp hj
        intro heq
        have hnds := pairwise_lt_nodup hp
        have : v'.sorted[l + j] = v'.sorted[i] := by rw [← heq, ← hjp]
        have := (List.getElem_inj hnds).1 this
        omega
    · have hge : l ≤ i := by omega
      have hnd' : (v'.sorted.drop l).Nodup := (pairwise_lt_nodup hp).sublist (List.drop_sublist _ _)
      have hi2 : i - l < (v'.sorted.drop l).length := by simp; omega
      have hkey : v'.sorted[i] = (v'.sorted.drop l)[i - l] := by
        simp; congr 1; omega
      rw [hkey, lookup_zipIdx_reverse _ _ hnd' _ hi2]
      simp; omega

end Pymap.Sync

namespace Pymap.Sync

theorem mem_sortAsc {x : Nat} {l : List Nat} : x ∈ sortAsc l ↔ x ∈ l := by
  induction l with
  | nil => simp [sortAsc]
  | cons a as ih =>
    have : sortAsc (a :: as) = insertSorted a (sortAsc as) := rfl
    rw [this, mem_insertSorted, ih]; simp

theorem sortAsc_pairwise {l : List Nat} (h : l.Nodup) : (sortAsc l).Pairwise (· < ·) := by
  induction l with
  | nil => simp [sortAsc]
  | cons a as ih =>
    have : sortAsc (a :: as) = insertSorted a (sortAsc as) := rfl
    rw [this]
    simp only [List.nodup_cons] at h
    exact insertSorted_pairwise (ih h.2) (fun hc => h.1 (mem_sortAsc.1 hc))

theorem filter_eq_self_of_length {α : Type} (p : α → Bool) (l : List α)
    (h : (l.filter p).length = l.length) : l.filter p = l :=
  List.filter_eq_self.2 (List.length_filter_eq_length_iff.1 h)

theorem remove_coherent (v : View) (exp : List Nat) (pm : Bool) (h : Coherent v) :
    Coherent (remove v exp pm) := by
  unfold remove
  split
  · exact h
  · simp only []
    split
    · exact h
    · obtain ⟨hp, hm, hnd, hs⟩ := h
      have hnd' : (v.uids.filter (fun u => !((exp ++ v.pending).contains u))).Nodup :=
        hnd.sublist List.filter_sublist
      refine ⟨sortAsc_pairwise hnd', ?_, hnd', ?_⟩
      · intro u; exact mem_sortAsc.symm
      · intro i hi
        have := lookup_zipIdx_reverse _ 1 (pairwise_lt_nodup (sortAsc_pairwise hnd')) i hi
        simpa [Nat.add_comm] using this

theorem addUpdates_coherent (v : View) (msgs : List CMsg) (exp : List Nat) (hide : Bool)
    (h : Coherent v) : Coherent (addUpdates v msgs exp hide) :=
  remove_coherent _ _ _ (update_coherent _ _ h)

theorem coherent_empty : Coherent View.empty := by
  simp [Coherent, View.empty]

end Pymap.Sync
