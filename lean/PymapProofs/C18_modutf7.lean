import PymapProofs.Lemmas.ModUtf7
/-!
# C18 — every mailbox name is reported back as a modified-UTF-7 spelling that decodes to the same name
-/
namespace Pymap.C18
open Pymap.ModUtf7

theorem amp_printable : printable amp = true := by decide
theorem amp_ne_dash : amp ≠ dash := by decide

theorem decode_plain (m b : Nat) (r : List Nat) (h : b ≠ amp) :
    decode (m+1) (b :: r) = (decode m r).map (fun t => b :: t) := by
  rw [decode.eq_def]; simp only [h, if_false]

theorem decode_ampdash (m : Nat) (r : List Nat) :
    decode (m+1) (amp :: dash :: r) = (decode m r).map (fun t => amp :: t) := by
  rw [decode.eq_def]; simp only [if_true]

theorem decode_shift (m d : Nat) (r : List Nat) (hd : d ≠ dash) :
    decode (m+1) (amp :: d :: r) =
      (match (spanDash (d :: r)).2 with
       | _ :: rest => (decodeRun (spanDash (d :: r)).1).bind (fun run => (decode m rest).map (fun t => run ++ t))
       | [] => decodeRun (spanDash (d :: r)).1) := by
  rw [decode.eq_def]; simp only [if_true, hd, if_false]
  split
  · rename_i h; rw [h]
  · rename_i h; rw [h]

theorem roundtrip : ∀ (n : Nat) (cps : List Nat), cps.length < n → (∀ c ∈ cps, scalar c = true) →
    ∀ m, (encode n cps).length < m → decode m (encode n cps) = some cps
  | 0, cps, h, _, _, _ => by omega
  | n+1, [], _, _, m, hm => by
    cases m with
    | zero => simp [encode] at hm
    | succ m => simp [encode, decode]
  | n+1, c :: r, hlen, hs, m, hm => by
    have hr : r.length < n := by simp at hlen; omega
    have hsr : ∀ x ∈ r, scalar x = true := fun x hx => hs x (by simp [hx])
    cases m with
    | zero => omega
    | succ m =>
      simp only [encode] at hm ⊢
      by_cases hamp : c = amp
      · -- '&' is written "&-"
        simp only [hamp, if_true] at hm ⊢
        have hm' : (encode n r).length < m := by simp at hm; omega
        have ih := roundtrip n r hr hsr m hm'
        rw [decode_ampdash, ih]; rfl
      · simp only [hamp, if_false] at hm ⊢
        by_cases hp : printable c = true
        · simp only [hp, if_true] at hm ⊢
          have hm' : (encode n r).length < m := by simp at hm; omega
          have ih := roundtrip n r hr hsr m hm'
          rw [decode_plain _ _ _ hamp, ih]; rfl
        · have hp' : printable c = false := by simpa using hp
          simp only [hp', Bool.false_eq_true, if_false] at hm ⊢
          obtain ⟨t, ht, hlen2⟩ := spanRun_head c r hp'
          obtain ⟨sp1, sp2, _⟩ := spanRun_spec (c :: r)
          -- name the run and the rest
          generalize hrun : (spanRun (c :: r)).1 = run at *
          generalize hrest : (spanRun (c :: r)).2 = rest at *
          have hrun_ne : run ≠ [] := by rw [ht]; simp
          have hrun_sc : ∀ x ∈ run, scalar x = true := by
            intro x hx; apply hs; rw [← sp1]; simp [hx]
          have hrest_sc : ∀ x ∈ rest, scalar x = true := by
            intro x hx; apply hs; rw [← sp1]; simp [hx]
          have hrestlen : rest.length < n := by omega
          have henc_ne := encodeRun_ne_nil run hrun_ne
          have hnd := encodeRun_no_dash run
          have hm' : (encode n rest).length < m := by
            simp at hm; omega
          have ih := roundtrip n rest hrestlen hrest_sc m hm'
          -- the first encoded byte is not '-', so this is not "&-"
          cases henc : encodeRun run with
          | nil => exact absurd henc henc_ne
          | cons d enc' =>
            have hd : d ≠ dash := hnd d (by rw [henc]; simp)
            simp only [List.cons_append]
            rw [decode_shift _ _ _ hd]
            have hsp : spanDash (d :: (enc' ++ dash :: encode n rest)) = (d :: enc', dash :: encode n rest) := by
              have := spanDash_append (d :: enc') (encode n rest) (by rw [← henc]; exact hnd)
              simpa using this
            rw [hsp]; simp only []
            rw [← henc, decodeRun_encodeRun run hrun_sc]
            simp only [Option.bind_some, ih, Option.map_some]
            rw [sp1]

/-- **Round trip.** For every name made of Unicode scalar values (any control characters, `&`, quotes,
delimiters, non-ASCII, astral characters), the spelling reported by LIST/STATUS decodes to the name. -/
theorem C18_modutf7 (name : List Nat) (h : ∀ c ∈ name, scalar c = true) :
    decodeName (encodeName name) = some name := by
  unfold decodeName encodeName
  exact roundtrip (name.length + 1) name (by omega) h _ (by omega)

/-- the reported spelling is printable ASCII only (so it can always be sent as an atom or quoted string) -/
theorem C18_encode_ascii : ∀ (n : Nat) (cps : List Nat), ∀ b ∈ encode n cps, printable b = true
  | 0, [], _, h => by simp [encode] at h
  | 0, _ :: _, _, h => by simp [encode] at h
  | n+1, [], _, h => by simp [encode] at h
  | n+1, c :: r, b, h => by
    simp only [encode] at h
    split at h
    · simp only [List.mem_cons] at h
      rcases h with rfl | rfl | h
      · decide
      · decide
      · exact C18_encode_ascii n r b h
    · split at h
      · rename_i hp
        simp only [List.mem_cons] at h
        rcases h with rfl | h
        · exact hp
        · exact C18_encode_ascii n r b h
      · simp only [List.mem_cons, List.mem_append] at h
        rcases h with rfl | h | rfl | h
        · decide
        · simp only [encodeRun, List.mem_map] at h
          obtain ⟨s, _, rfl⟩ := h
          unfold toChar printable
          split; simp; omega
          split; simp; omega
          split; simp; omega
          split <;> simp
        · decide
        · exact C18_encode_ascii n _ b h

theorem spanDash_len : ∀ (l : List Nat), (spanDash l).2.length ≤ l.length
  | [] => by simp [spanDash]
  | b :: r => by
    simp only [spanDash]; split
    · simp
    · have := spanDash_len r; simp; omega

/-- **The decoder terminates on every byte string.** The fuel `length + 1` the model runs with is never
what decides the result: any larger fuel gives the same answer — every recursive call is on a strictly
shorter input.  (The loop of the code as found makes no progress on an unterminated `&`, defect D9.) -/
theorem C06_modutf7_total : ∀ (m1 m2 : Nat) (b : List Nat), b.length < m1 → b.length < m2 →
    decode m1 b = decode m2 b
  | 0, _, _, h, _ => by omega
  | _, 0, _, _, h => by omega
  | m1+1, m2+1, [], _, _ => by simp [decode]
  | m1+1, m2+1, b :: r, h1, h2 => by
    have hr1 : r.length < m1 := by simp at h1; omega
    have hr2 : r.length < m2 := by simp at h2; omega
    by_cases hamp : b = amp
    · subst hamp
      cases r with
      | nil => rw [decode.eq_def, decode.eq_def (m2+1)]; simp
      | cons d r' =>
        by_cases hd : d = dash
        · subst hd
          rw [decode_ampdash, decode_ampdash,
              C06_modutf7_total m1 m2 r' (by simp at hr1; omega) (by simp at hr2; omega)]
        · rw [decode_shift _ _ _ hd, decode_shift _ _ _ hd]
          have hl := spanDash_len (d :: r')
          cases hsp : (spanDash (d :: r')).2 with
          | nil => rfl
          | cons x rest =>
            simp only []
            have hrest : rest.length < (d :: r').length := by rw [hsp] at hl; simp at hl ⊢; omega
            rw [C06_modutf7_total m1 m2 rest (by simp at hr1 hrest; omega) (by simp at hr2 hrest; omega)]
    · rw [decode_plain _ _ _ hamp, decode_plain _ _ _ hamp, C06_modutf7_total m1 m2 r hr1 hr2]

example : encodeName [97, 10, 98] = [97, 38, 65, 65, 111, 45, 98] ∧
          decodeName [97, 38, 65, 65, 111, 45, 98] = some [97, 10, 98] ∧
          decodeName [38, 65, 79, 107] = some [233] := by decide

end Pymap.C18
