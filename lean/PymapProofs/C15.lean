import PymapModel.MaildirFS
/-!
# C15 — maildir state survives restart and crashes without UID damage (abstract filesystem)

Formulation: a history is a list of commands run one after the other; a crash point is "all of the
first commands, and any prefix of the system calls of the next one".  `DInv d acked` is what must hold
of the disk at every such point for the messages acknowledged so far.
-/
namespace Pymap.C15
open Pymap.MaildirFS

def fkeys (d : Disk) : List Nat := d.files.map (·.1)
def rkeys (u : UL) : List Nat := u.recs.map (·.2)
def ruids (u : UL) : List Nat := u.recs.map (·.1)

structure ULInv (u : UL) : Prop where
  lt  : ∀ x ∈ ruids u, x < u.next
  ndU : (ruids u).Nodup
  ndK : (rkeys u).Nodup

/-- `acked`: (uid, key) of every message whose APPEND was acknowledged and that was not expunged since -/
structure DInv (d : Disk) (acked : List (Nat × Nat)) : Prop where
  ul    : ULInv d.ul
  ndF   : (fkeys d).Nodup
  acked : ∀ a ∈ acked, a ∈ d.ul.recs ∧ a.2 ∈ fkeys d

def applyAll (d : Disk) (os : List FsOp) : Disk := os.foldl apply d

/-- acknowledged messages, minus the one the command in flight is expunging -/
def ackedDuring (acked : List (Nat × Nat)) : Cmd → List (Nat × Nat)
  | .expunge k => acked.filter (fun a => a.2 != k)
  | _ => acked

/-- acknowledgements after the command has completed -/
def ackedAfter (d' : Disk) (acked : List (Nat × Nat)) : Cmd → List (Nat × Nat)
  | .append k _ => match d'.ul.recs.find? (fun r => r.2 == k) with
    | some r => acked ++ [r]
    | none => acked
  | .expunge k => acked.filter (fun a => a.2 != k)
  | _ => acked

def fresh (d : Disk) : Cmd → Prop
  | .append k _ => k ∉ fkeys d ∧ k ∉ rkeys d.ul
  | _ => True

theorem DInv.sameFilesUl {d d' : Disk} {acked : List (Nat × Nat)} (h : DInv d acked)
    (hf : d'.files = d.files) (hu : d'.ul = d.ul) : DInv d' acked := by
  obtain ⟨a, b, c⟩ := h
  exact ⟨by rw [hu]; exact a, by unfold fkeys; rw [hf]; exact b,
         fun x hx => by rw [hu]; unfold fkeys; rw [hf]; exact c x hx⟩

theorem DInv.link {d : Disk} {acked : List (Nat × Nat)} (h : DInv d acked) (k info : Nat) (hk : k ∉ fkeys d) :
    DInv (apply d (.link k info)) acked := by
  obtain ⟨a, b, c⟩ := h
  refine ⟨a, ?_, ?_⟩
  · show ((d.files ++ [(k, info)]).map (·.1)).Nodup
    rw [List.map_append, List.nodup_append]
    refine ⟨b, by simp, ?_⟩
    intro x hx y hy; simp at hy; subst hy
    exact fun e => hk (e ▸ hx)
  · intro x hx
    refine ⟨(c x hx).1, ?_⟩
    show x.2 ∈ (d.files ++ [(k, info)]).map (·.1)
    rw [List.map_append, List.mem_append]; exact Or.inl (c x hx).2

theorem ULInv.addRec {u : UL} (h : ULInv u) (k : Nat) (hk : k ∉ rkeys u) :
    ULInv { u with next := u.next + 1, recs := u.recs ++ [(u.next, k)] } := by
  obtain ⟨a, b, c⟩ := h
  refine ⟨?_, ?_, ?_⟩
  · intro x hx
    have hx : x ∈ (u.recs ++ [(u.next, k)]).map (·.1) := hx
    rw [List.map_append, List.mem_append] at hx
    rcases hx with hx | hx
    · have := a x hx; show x < u.next + 1; omega
    · simp at hx; subst hx; show u.next < u.next + 1; omega
  · show ((u.recs ++ [(u.next, k)]).map (·.1)).Nodup
    rw [List.map_append, List.nodup_append]
    refine ⟨b, by simp, ?_⟩
    intro x hx y hy; simp at hy; subst hy
    intro e; have := a x hx; omega
  · show ((u.recs ++ [(u.next, k)]).map (·.2)).Nodup
    rw [List.map_append, List.nodup_append]
    refine ⟨c, by simp, ?_⟩
    intro x hx y hy; simp at hy; subst hy
    exact fun e => hk (e ▸ hx)

theorem DInv.addRec {d : Disk} {acked : List (Nat × Nat)} (h : DInv d acked) (k : Nat) (hk : k ∉ rkeys d.ul) :
    DInv (apply d (.renameUL { d.ul with next := d.ul.next + 1, recs := d.ul.recs ++ [(d.ul.next, k)] })) acked := by
  obtain ⟨a, b, c⟩ := h
  refine ⟨a.addRec k hk, b, ?_⟩
  intro x hx
  refine ⟨?_, (c x hx).2⟩
  show x ∈ d.ul.recs ++ [(d.ul.next, k)]
  rw [List.mem_append]; exact Or.inl (c x hx).1

theorem DInv.cleanRecs {d : Disk} {acked : List (Nat × Nat)} (h : DInv d acked) :
    DInv (apply d (.renameUL { d.ul with recs := d.ul.recs.filter (fun r => d.files.any (fun f => f.1 == r.2)) })) acked := by
  obtain ⟨a, b, c⟩ := h
  refine ⟨⟨?_, ?_, ?_⟩, b, ?_⟩
  · intro x hx
    have hx : x ∈ (d.ul.recs.filter _).map (·.1) := hx
    exact a.lt x (by simp only [ruids, List.mem_map, List.mem_filter] at hx ⊢
                     obtain ⟨r, ⟨hr, _⟩, rfl⟩ := hx; exact ⟨r, hr, rfl⟩)
  · exact a.ndU.sublist (List.Sublist.map _ List.filter_sublist)
  · exact a.ndK.sublist (List.Sublist.map _ List.filter_sublist)
  · intro x hx
    refine ⟨?_, (c x hx).2⟩
    show x ∈ d.ul.recs.filter _
    rw [List.mem_filter]
    refine ⟨(c x hx).1, ?_⟩
    have := (c x hx).2
    simp only [fkeys, List.mem_map] at this
    obtain ⟨f, hf, hfk⟩ := this
    rw [List.any_eq_true]; exact ⟨f, hf, by simp [hfk]⟩

theorem fkeys_renameInfo (d : Disk) (k info : Nat) : fkeys (apply d (.renameInfo k info)) = fkeys d := by
  show (d.files.map (fun f => if f.1 = k then (k, info) else f)).map (·.1) = d.files.map (·.1)
  rw [List.map_map]; apply List.map_congr_left
  intro f _; simp only [Function.comp]; split
  · rename_i e; exact e.symm
  · rfl

theorem DInv.renameInfo {d : Disk} {acked : List (Nat × Nat)} (h : DInv d acked) (k info : Nat) :
    DInv (apply d (.renameInfo k info)) acked := by
  obtain ⟨a, b, c⟩ := h
  exact ⟨a, by rw [fkeys_renameInfo]; exact b, fun x hx => ⟨(c x hx).1, by rw [fkeys_renameInfo]; exact (c x hx).2⟩⟩

theorem DInv.removeFile {d : Disk} {acked : List (Nat × Nat)} (h : DInv d acked) (k : Nat) :
    DInv (apply d (.removeFile k)) (acked.filter (fun a => a.2 != k)) := by
  obtain ⟨a, b, c⟩ := h
  refine ⟨a, b.sublist (List.Sublist.map _ List.filter_sublist), ?_⟩
  intro x hx
  obtain ⟨hx1, hx2⟩ := List.mem_filter.1 hx
  refine ⟨(c x hx1).1, ?_⟩
  have := (c x hx1).2
  simp only [fkeys, List.mem_map] at this ⊢
  obtain ⟨f, hf, hfk⟩ := this
  exact ⟨f, by show f ∈ d.files.filter _; rw [List.mem_filter]; exact ⟨hf, by simpa [hfk] using hx2⟩, hfk⟩

theorem DInv.mono {d : Disk} {a1 a2 : List (Nat × Nat)} (h : DInv d a1) (hs : ∀ x ∈ a2, x ∈ a1) : DInv d a2 :=
  ⟨h.ul, h.ndF, fun x hx => h.acked x (hs x hx)⟩

/-- **every crash point inside a command is safe**: after any prefix of its system calls the disk still
holds, under their UIDs, all acknowledged messages (except the one being expunged) -/
theorem C15_prefix (d : Disk) (acked : List (Nat × Nat)) (c : Cmd) (h : DInv d acked) (hf : fresh d c) (n : Nat) :
    DInv (applyAll d ((ops d c).take n)) (ackedDuring acked c) := by
  cases c with
  | append k info =>
    obtain ⟨hk1, hk2⟩ := hf
    have s1 : DInv (apply d (.createTmp k)) acked := h.sameFilesUl rfl rfl
    have s2 : DInv (apply (apply d (.createTmp k)) (.link k info)) acked := s1.link k info hk1
    have s3 : DInv (apply (apply (apply d (.createTmp k)) (.link k info)) (.removeTmp k)) acked := s2.sameFilesUl rfl rfl
    have s4 : DInv (apply (apply (apply (apply d (.createTmp k)) (.link k info)) (.removeTmp k)) .lockCreate) acked :=
      s3.sameFilesUl rfl rfl
    have s5 := s4.addRec k hk2
    have s6 : DInv (apply (apply (apply (apply (apply (apply d (.createTmp k)) (.link k info)) (.removeTmp k)) .lockCreate)
        (.renameUL { d.ul with next := d.ul.next + 1, recs := d.ul.recs ++ [(d.ul.next, k)] })) .lockRemove) acked :=
      s5.sameFilesUl rfl rfl
    simp only [ops, ackedDuring]
    match n with
    | 0 => exact h
    | 1 => exact s1
    | 2 => exact s2
    | 3 => exact s3
    | 4 => exact s4
    | 5 => exact s5
    | n+6 => simpa [applyAll] using s6
  | expunge k =>
    simp only [ops, ackedDuring]
    match n with
    | 0 => exact h.mono (fun x hx => (List.mem_filter.1 hx).1)
    | n+1 => simpa [applyAll] using h.removeFile k
  | setFlags k info =>
    simp only [ops, ackedDuring]
    match n with
    | 0 => exact h
    | n+1 => simpa [applyAll] using h.renameInfo k info
  | cleanup =>
    have s1 : DInv (apply d .lockCreate) acked := h.sameFilesUl rfl rfl
    have s2 := s1.cleanRecs
    have s3 : DInv (apply (apply (apply d .lockCreate)
        (.renameUL { d.ul with recs := d.ul.recs.filter (fun r => d.files.any (fun f => f.1 == r.2)) })) .lockRemove) acked :=
      s2.sameFilesUl rfl rfl
    simp only [ops, ackedDuring]
    match n with
    | 0 => exact h
    | 1 => exact s1
    | 2 => exact s2
    | n+3 => simpa [applyAll] using s3

/-- **recovery serves what was acknowledged, under the same UID, and hands out only fresh UIDs** -/
theorem adopt_spec : ∀ (ks : List Nat) (u : UL), ULInv u → ks.Nodup → (∀ k ∈ ks, k ∉ rkeys u) →
    ULInv (adopt u ks) ∧ (∀ r ∈ u.recs, r ∈ (adopt u ks).recs) ∧ u.next ≤ (adopt u ks).next ∧
    (adopt u ks).validity = u.validity
  | [], u, h, _, _ => ⟨h, fun _ hr => hr, Nat.le_refl _, rfl⟩
  | k :: ks, u, h, hnd, hk => by
    simp only [List.nodup_cons] at hnd
    have hstep := h.addRec k (hk k (by simp))
    have hk' : ∀ x ∈ ks, x ∉ rkeys { u with next := u.next + 1, recs := u.recs ++ [(u.next, k)] } := by
      intro x hx hc
      have hc : x ∈ (u.recs ++ [(u.next, k)]).map (·.2) := hc
      rw [List.map_append, List.mem_append] at hc
      rcases hc with hc | hc
      · exact hk x (by simp [hx]) hc
      · simp at hc; subst hc; exact hnd.1 hx
    obtain ⟨i1, i2, i3, i4⟩ := adopt_spec ks _ hstep hnd.2 hk'
    refine ⟨i1, fun r hr => i2 r (by show r ∈ u.recs ++ [(u.next, k)]; simp [hr]), ?_, i4⟩
    have : u.next + 1 ≤ (adopt { u with next := u.next + 1, recs := u.recs ++ [(u.next, k)] } ks).next := i3
    show u.next ≤ _; simp only [adopt]; omega

theorem C15_recover (d : Disk) (acked : List (Nat × Nat)) (h : DInv d acked) :
    (∀ a ∈ acked, a ∈ (recover d).ul.recs ∧ a.2 ∈ fkeys (recover d)) ∧
    ULInv (recover d).ul ∧ d.ul.next ≤ (recover d).ul.next ∧ (recover d).ul.validity = d.ul.validity := by
  have hnd : ((d.files.map (·.1)).filter (fun k => !(d.ul.recs.any (fun r => r.2 == k)))).Nodup :=
    h.ndF.sublist List.filter_sublist
  have hk : ∀ k ∈ (d.files.map (·.1)).filter (fun k => !(d.ul.recs.any (fun r => r.2 == k))), k ∉ rkeys d.ul := by
    intro k hk hc
    have := (List.mem_filter.1 hk).2
    simp only [rkeys, List.mem_map] at hc
    obtain ⟨r, hr, hrk⟩ := hc
    simp at this
    exact this r.1 r.2 hr hrk
  obtain ⟨i1, i2, i3, i4⟩ := adopt_spec _ d.ul h.ul hnd hk
  exact ⟨fun a ha => ⟨i2 a (h.acked a ha).1, (h.acked a ha).2⟩, i1, i3, i4⟩

theorem take_all {α : Type} (l : List α) : l.take l.length = l := List.take_length

/-- a completed command re-establishes the invariant for the new set of acknowledged messages -/
theorem C15_full (d : Disk) (acked : List (Nat × Nat)) (c : Cmd) (h : DInv d acked) (hf : fresh d c) :
    DInv (applyAll d (ops d c)) (ackedAfter (applyAll d (ops d c)) acked c) := by
  have hp := C15_prefix d acked c h hf (ops d c).length
  rw [take_all] at hp
  cases c with
  | append k info =>
    simp only [ackedDuring] at hp
    simp only [ackedAfter]
    cases hfind : (applyAll d (ops d (.append k info))).ul.recs.find? (fun r => r.2 == k) with
    | none => exact hp
    | some r =>
      refine ⟨hp.ul, hp.ndF, ?_⟩
      intro x hx
      rw [List.mem_append] at hx
      rcases hx with hx | hx
      · exact hp.acked x hx
      · simp at hx; subst hx
        have hr := List.mem_of_find?_eq_some hfind
        have hk : x.2 = k := by simpa using List.find?_some hfind
        refine ⟨hr, ?_⟩
        rw [hk]
        show k ∈ (applyAll d (ops d (.append k info))).files.map (·.1)
        simp [applyAll, ops, apply]
  | expunge k => exact hp
  | setFlags k info => exact hp
  | cleanup => exact hp

/-- run a history of completed commands -/
def runCmds : Disk × List (Nat × Nat) → List Cmd → Disk × List (Nat × Nat)
  | s, [] => s
  | (d, acked), c :: cs => runCmds (applyAll d (ops d c), ackedAfter (applyAll d (ops d c)) acked c) cs

/-- every APPEND of the history uses a key not present when it starts (maildir keys are unique) -/
def AllFresh : Disk × List (Nat × Nat) → List Cmd → Prop
  | _, [] => True
  | (d, acked), c :: cs => fresh d c ∧ AllFresh (applyAll d (ops d c), ackedAfter (applyAll d (ops d c)) acked c) cs

theorem runCmds_inv : ∀ (cs : List Cmd) (d : Disk) (acked : List (Nat × Nat)), DInv d acked → AllFresh (d, acked) cs →
    DInv (runCmds (d, acked) cs).1 (runCmds (d, acked) cs).2
  | [], _, _, h, _ => h
  | c :: cs, d, acked, h, hf => by
    simp only [runCmds]
    exact runCmds_inv cs _ _ (C15_full d acked c h hf.1) hf.2

/-- **Crash anywhere in any history.** After any history of APPEND / EXPUNGE / STORE / CHECK and a
process kill between any two system calls of the next command, a new server on the same directory
serves every message whose APPEND had been acknowledged (and that was not expunged, nor is being
expunged), under the same UID and UIDVALIDITY; the UID list it writes assigns no UID twice and its
next-UID counter has not gone back. -/
theorem C15_crash_anywhere (v : Nat) (cs : List Cmd) (c : Cmd) (n : Nat)
    (hf : AllFresh (⟨[], [], ⟨v, 1, []⟩, false⟩, []) (cs ++ [c])) :
    let before := runCmds (⟨[], [], ⟨v, 1, []⟩, false⟩, []) cs
    let crashed := applyAll before.1 ((ops before.1 c).take n)
    (∀ a ∈ ackedDuring before.2 c, a ∈ (recover crashed).ul.recs ∧ a.2 ∈ fkeys (recover crashed)) ∧
    ULInv (recover crashed).ul ∧ (recover crashed).ul.validity = crashed.ul.validity ∧
    crashed.ul.next ≤ (recover crashed).ul.next := by
  intro before crashed
  have h0 : DInv ⟨[], [], ⟨v, 1, []⟩, false⟩ [] :=
    ⟨⟨by simp [ruids], by simp [ruids], by simp [rkeys]⟩, by simp [fkeys], by simp⟩
  -- split the freshness hypothesis
  have hsplit : ∀ (cs : List Cmd) (s : Disk × List (Nat × Nat)), AllFresh s (cs ++ [c]) →
      AllFresh s cs ∧ fresh (runCmds s cs).1 c := by
    intro cs
    induction cs with
    | nil => intro s h; obtain ⟨d, a⟩ := s; exact ⟨trivial, h.1⟩
    | cons x xs ih =>
      intro s h; obtain ⟨d, a⟩ := s
      obtain ⟨h1, h2⟩ := h
      obtain ⟨i1, i2⟩ := ih _ h2
      exact ⟨⟨h1, i1⟩, i2⟩
  obtain ⟨hf1, hf2⟩ := hsplit cs _ hf
  have hb := runCmds_inv cs _ _ h0 hf1
  have hc := C15_prefix before.1 before.2 c hb hf2 n
  obtain ⟨r1, r2, r3, r4⟩ := C15_recover crashed _ hc
  exact ⟨r1, r2, r4, r3⟩

example : (recover ⟨[(5, 0), (6, 0)], [], ⟨9, 3, [(1, 5)]⟩, true⟩).ul = ⟨9, 4, [(1, 5), (3, 6)]⟩ := by decide

end Pymap.C15
