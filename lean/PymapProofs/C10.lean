import PymapModel.Session
import PymapSpec.Imap
import PymapProofs.Lemmas.Mailbox
import PymapProofs.Lemmas.Client
import PymapProofs.C10_seq
/-!
# C10 — message commands behave as the IMAP reference model says (refinement, single session)
-/
namespace Pymap.C10
open Pymap.Sync Pymap.Mailbox Pymap.Seq Pymap.Session

/-- the abstraction: what the reference model can see of a dict mailbox -/
def toS (m : Msg) : Spec.SMsg := ⟨m.uid, m.flags, m.cid, m.date⟩
def abs (b : MBox) : Spec.SBox := b.msgs.map toS

theorem applyOp_eq (mode : Nat) (o c : List Nat) : Session.applyOp mode o c = Spec.applyOp mode o c := rfl

/-- one `update` changes exactly the addressed message -/
theorem abs_updateFlags (b : MBox) (u : Nat) (f : List Nat → List Nat) :
    abs (updateFlags b u f) = (abs b).map (fun m => if m.uid = u then { m with flags := f m.flags } else m) := by
  unfold updateFlags abs
  split
  · simp only [List.map_map]
    apply List.map_congr_left
    intro m _
    simp only [Function.comp, toS]
    by_cases e : m.uid = u <;> simp [e]
  · rename_i hu
    symm
    rw [List.map_map]
    have : ∀ m ∈ b.msgs, ((fun m : Spec.SMsg => if m.uid = u then { m with flags := f m.flags } else m) ∘ toS) m = toS m := by
      intro m hm
      simp only [Function.comp, toS]
      have : m.uid ≠ u := fun e => hu (by simp [MBox.uids]; exact ⟨m, hm, e⟩)
      simp [this]
    exact List.map_congr_left this

/-- a STORE loop over distinct uids = one map with a membership test -/
theorem abs_fold_update (f : List Nat → List Nat) : ∀ (us : List Nat) (b : MBox), us.Nodup →
    abs (us.foldl (fun b u => updateFlags b u f) b) =
      (abs b).map (fun m => if m.uid ∈ us then { m with flags := f m.flags } else m)
  | [], b, _ => by simp
  | u :: us, b, hnd => by
    simp only [List.nodup_cons] at hnd
    simp only [List.foldl_cons]
    rw [abs_fold_update f us _ hnd.2, abs_updateFlags, List.map_map]
    apply List.map_congr_left
    intro m _
    simp only [Function.comp]
    by_cases e : m.uid = u
    · have hnot : ¬ u ∈ us := hnd.1
      simp [e, hnot]
    · simp [e]

theorem mapIdx_eq_map (g : Nat → Spec.SMsg → Spec.SMsg) (h : Spec.SMsg → Spec.SMsg) :
    ∀ (l : List Spec.SMsg) (k : Nat), (∀ i (hi : i < l.length), g (k + i) l[i] = h l[i]) →
    Spec.mapIdx g k l = l.map h
  | [], _, _ => rfl
  | m :: r, k, hg => by
    simp only [Spec.mapIdx, List.map_cons]
    have h0 := hg 0 (by simp)
    simp only [Nat.add_zero, List.getElem_cons_zero] at h0
    rw [h0, mapIdx_eq_map g h r (k + 1) (fun i hi => by
      have := hg (i + 1) (by simp; omega)
      simpa [Nat.add_assoc, Nat.add_comm 1 i] using this)]

/-- the view of a synchronised session lists the mailbox's uids in order -/
structure Synced (b : MBox) (v : View) : Prop where
  sorted : v.sorted = b.uids
  uids   : ∀ u, u ∈ v.uids ↔ u ∈ b.uids
  len    : v.uids.length = b.uids.length
  nodup  : b.uids.Nodup

theorem mem_getBySeq (v : View) (S : List Nat) (u : Nat) :
    u ∈ (getBySeq v S).map (·.2) ↔ ∃ i, ∃ (hi : i < v.sorted.length), v.sorted[i] = u ∧ (i + 1) ∈ S := by
  simp only [getBySeq, List.mem_map, List.mem_filterMap]
  constructor
  · rintro ⟨p, ⟨q, hq, hp⟩, rfl⟩
    obtain ⟨x, s⟩ := q
    rcases List.mem_iff_getElem.1 hq with ⟨i, hi, hqi⟩
    simp at hqi hi
    obtain ⟨rfl, rfl⟩ := hqi
    split at hp
    · rename_i hc
      simp at hp; subst hp
      exact ⟨i, hi, rfl, by simpa [Nat.add_comm] using hc⟩
    · simp at hp
  · rintro ⟨i, hi, rfl, hS⟩
    refine ⟨(i + 1, v.sorted[i]), ⟨(v.sorted[i], 1 + i), ?_, ?_⟩, rfl⟩
    · rw [List.mem_iff_getElem]; exact ⟨i, by simpa using hi, by simp⟩
    · simp [Nat.add_comm, hS]

theorem mem_getByUid (v : View) (U : List Nat) (u : Nat) (hv : ∀ x, x ∈ v.uids ↔ x ∈ v.sorted) :
    u ∈ (getByUid v U).map (·.2) ↔ u ∈ v.sorted ∧ u ∈ U := by
  simp only [getByUid, List.mem_map, List.mem_filterMap]
  constructor
  · rintro ⟨p, ⟨q, hq, hp⟩, rfl⟩
    obtain ⟨x, s⟩ := q
    have hx : x ∈ v.sorted := by
      rcases List.mem_iff_getElem.1 hq with ⟨i, hi, hqi⟩
      simp at hqi; obtain ⟨rfl, _⟩ := hqi; exact List.getElem_mem _
    split at hp
    · rename_i hc
      simp at hp; subst hp
      simp at hc
      exact ⟨hx, hc.1⟩
    · simp at hp
  · rintro ⟨hs, hU⟩
    rcases List.mem_iff_getElem.1 hs with ⟨i, hi, rfl⟩
    refine ⟨(i + 1, v.sorted[i]), ⟨(v.sorted[i], 1 + i), ?_, ?_⟩, rfl⟩
    · rw [List.mem_iff_getElem]; exact ⟨i, by simpa using hi, by simp⟩
    · have h2 : v.sorted[i] ∈ v.uids := (hv _).2 (List.getElem_mem _)
      simp [hU, h2, Nat.add_comm]

end Pymap.C10

namespace Pymap.C10
open Pymap.Sync Pymap.Mailbox Pymap.Seq Pymap.Session

theorem filterMap_zipIdx_sublist (c : Nat → Nat → Bool) : ∀ (l : List Nat) (k : Nat),
    (((l.zipIdx k).filterMap (fun (p : Nat × Nat) => if c p.1 p.2 then some (p.2, p.1) else none)).map (·.2)).Sublist l
  | [], _ => by simp
  | x :: r, k => by
    have ih := filterMap_zipIdx_sublist c r (k + 1)
    simp only [List.zipIdx_cons, List.filterMap_cons]
    by_cases h : c x k = true
    · simp only [h, if_true, List.map_cons]
      exact List.Sublist.cons_cons _ ih
    · simp only [h, Bool.false_eq_true, if_false]
      exact List.Sublist.cons _ ih

theorem targets_nodup (v : View) (byUid : Bool) (set : List Elem) (h : v.sorted.Nodup) :
    ((targets v byUid set).map (·.2)).Nodup := by
  unfold targets
  split
  · exact h.sublist (filterMap_zipIdx_sublist (fun u _ => (flatten (v.sorted.getLastD 0) set).contains u && v.uids.contains u) v.sorted 1)
  · exact h.sublist (filterMap_zipIdx_sublist (fun _ s => (flatten v.uids.length set).contains s) v.sorted 1)

theorem abs_uid (b : MBox) : (abs b).map (·.uid) = b.uids := by
  simp [abs, MBox.uids, toS, Function.comp_def]

theorem abs_getElem_uid (b : MBox) (i : Nat) (hi : i < (abs b).length) :
    ((abs b)[i]).uid = b.uids[i]'(by simpa [abs, MBox.uids] using hi) := by
  simp [abs, MBox.uids, toS]

/-- **STORE refines the reference model**: for every sequence/UID set (ranges, reversed ranges, `*`,
out-of-range, duplicates), every mode and every flag list, the mailbox after the command is the
reference model's. -/
theorem C10_store_refines (b : MBox) (v : View) (hs : Synced b v) (byUid : Bool) (set : List Elem)
    (mode : Nat) (fs permitted : List Nat) :
    abs (storeCmd b v byUid set mode fs permitted) = Spec.store (abs b) byUid set mode fs permitted := by
  unfold storeCmd Spec.store
  have hnd : v.sorted.Nodup := by rw [hs.sorted]; exact hs.nodup
  rw [abs_fold_update _ _ _ (targets_nodup v byUid set hnd)]
  symm
  apply mapIdx_eq_map
  intro i hi
  simp only [Nat.zero_add]
  have huid := abs_getElem_uid b i hi
  have hi' : i < b.uids.length := by simpa [abs, MBox.uids] using hi
  -- addressed in the reference model ↔ resolved through the view
  have key : Spec.addressed (abs b) byUid set i (abs b)[i] = true ↔
      ((abs b)[i]).uid ∈ (targets v byUid set).map (·.2) := by
    unfold Spec.addressed targets
    cases byUid with
    | false =>
      simp only [Bool.false_eq_true, if_false]
      rw [mem_getBySeq]
      have hlen : (abs b).length = v.uids.length := by rw [hs.len]; simp [abs, MBox.uids]
      rw [hlen]
      constructor
      · intro hc
        refine ⟨i, by rw [hs.sorted]; exact hi', ?_, by simpa using hc⟩
        rw [huid]; simp [hs.sorted]
      · rintro ⟨j, hj, hju, hS⟩
        have hj' : j < b.uids.length := by rw [← hs.sorted]; exact hj
        have : b.uids[j] = b.uids[i] := by rw [← huid, ← hju]; simp [hs.sorted]
        have := (List.getElem_inj hs.nodup).1 this
        subst this; simpa using hS
    | true =>
      simp only [if_true]
      rw [mem_getByUid v _ _ (fun x => by rw [hs.sorted]; exact hs.uids x)]
      have hlast : ((abs b).map (·.uid)).getLastD 0 = v.sorted.getLastD 0 := by rw [abs_uid, hs.sorted]
      rw [hlast]
      constructor
      · intro hc
        refine ⟨?_, by simpa using hc⟩
        rw [huid, hs.sorted]; exact List.getElem_mem _
      · rintro ⟨_, hU⟩; simpa using hU
  by_cases hc : Spec.addressed (abs b) byUid set i (abs b)[i] = true
  · simp only [hc, if_true, key.1 hc]; rfl
  · have hn : ¬ ((abs b)[i]).uid ∈ (targets v byUid set).map (·.2) := fun h => hc (key.2 h)
    simp only [hc, hn, if_false, Bool.false_eq_true]

/-- APPEND adds exactly one message with the given flags, date and content, under the next UID -/
theorem C10_append_refines (b : MBox) (flags : List Nat) (recent : Bool) (cid date : Nat) :
    abs (appendCmd b flags recent cid date) = Spec.append (abs b) (b.maxUid + 1) flags cid date := by
  simp [appendCmd, push, abs, Spec.append, toS]

/-- `\Recent` can never be set or cleared by STORE: the permitted flags never contain it, and what is
not permitted is dropped before the operation is applied -/
theorem C10_permitted (b : MBox) (v : View) (byUid : Bool) (set : List Elem) (mode : Nat) (fs permitted : List Nat) :
    storeCmd b v byUid set mode fs permitted =
      storeCmd b v byUid set mode (fs.filter (fun f => permitted.contains f)) permitted := by
  unfold storeCmd
  congr 2
  funext b u
  congr 2
  simp [List.filter_filter]

theorem abs_delete (b : MBox) (us : List Nat) :
    abs (delete b us) = (abs b).filter (fun m => !(us.contains m.uid)) := by
  simp only [delete, abs, List.filter_map]; rfl

theorem find?_uid_of_mem : ∀ (l : List Msg), (l.map (·.uid)).Nodup → ∀ m ∈ l,
    l.find? (fun x => x.uid == m.uid) = some m
  | [], _, _, hm => by simp at hm
  | x :: r, hnd, m, hm => by
    simp only [List.map_cons, List.nodup_cons] at hnd
    simp only [List.mem_cons] at hm
    rcases hm with rfl | hm
    · simp [List.find?]
    · have hne : (x.uid == m.uid) = false := by
        have : x.uid ≠ m.uid := fun e => hnd.1 (by rw [e]; exact List.mem_map.2 ⟨m, hm, rfl⟩)
        simpa using this
      simp only [List.find?, hne]
      exact find?_uid_of_mem r hnd.2 m hm

theorem le_getLastD : ∀ (l : List Nat), l.Pairwise (· < ·) → ∀ u ∈ l, u ≤ l.getLastD 0
  | [], _, _, h => by simp at h
  | [a], _, u, h => by simp at h; subst h; simp
  | a :: b :: r, hp, u, h => by
    have hp := List.pairwise_cons.1 hp
    have ih := le_getLastD (b :: r) hp.2
    have hlast : (a :: b :: r).getLastD 0 = (b :: r).getLastD 0 := by simp [List.getLastD]
    rw [hlast]
    simp only [List.mem_cons] at h
    rcases h with rfl | h
    · have h1 : u < b := hp.1 b (by simp)
      have := ih b (by simp); omega
    · exact ih u (by simpa using h)

/-- **EXPUNGE refines the reference model**: exactly the messages flagged `\Deleted` go -/
theorem C10_expunge_refines (b : MBox) (v : View) (hs : Synced b v) (hpw : b.uids.Pairwise (· < ·))
    (hpos : ∀ u ∈ b.uids, 1 ≤ u) :
    abs (expungeCmd b v none) = Spec.expunge (abs b) := by
  unfold expungeCmd Spec.expunge
  simp only [Option.getD_none]
  rw [abs_delete]
  apply List.filter_congr
  intro m hm
  simp only [abs, List.mem_map] at hm
  obtain ⟨m0, hm0, rfl⟩ := hm
  have hfind : b.find m0.uid = some m0 := find?_uid_of_mem b.msgs hs.nodup m0 hm0
  have hu : m0.uid ∈ b.uids := by simp [MBox.uids]; exact ⟨m0, hm0, rfl⟩
  -- `1:*` by UID addresses every message of the view
  have hcand : m0.uid ∈ (targets v true [.range (.num 1) .star]).map (·.2) := by
    unfold targets; simp only [if_true]
    rw [mem_getByUid v _ _ (fun x => by rw [hs.sorted]; exact hs.uids x)]
    refine ⟨by rw [hs.sorted]; exact hu, ?_⟩
    rw [C10_seqset]
    refine ⟨.range (.num 1) .star, by simp, ?_⟩
    simp only [Spec.elemHas, Idx.val]
    have h1 := hpos _ hu
    have h2 := le_getLastD b.uids hpw _ hu
    rw [hs.sorted]; omega
  have key : m0.uid ∈ (List.map (fun x => x.2) (targets v true [.range (.num 1) .star])).filter
      (fun u => match b.find u with | some m => m.flags.contains Session.deletedF | none => false)
      ↔ Session.deletedF ∈ m0.flags := by
    rw [List.mem_filter]
    constructor
    · rintro ⟨_, h⟩; simpa [hfind] using h
    · intro h; exact ⟨hcand, by simpa [hfind] using h⟩
  have e : Spec.deletedF = Session.deletedF := rfl
  simp only [toS, e]
  rw [Bool.eq_iff_iff]
  simp only [Bool.not_eq_true', ← Bool.not_eq_true, List.contains_iff_mem]
  exact not_congr key

example : abs (storeCmd (push (push MBox.new [] false 1 0).1 [] false 2 0).1
    ⟨[102, 101], [101, 102], [(101, 1), (102, 2)], [], []⟩ false [.range .star (.num 2)] 1 [0, 9] [0, 1, 2, 3, 4])
    = [⟨101, [], 1, 0⟩, ⟨102, [0], 2, 0⟩] := by decide

end Pymap.C10
