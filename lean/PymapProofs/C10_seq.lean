import PymapSpec.SeqSet
namespace Pymap.C10
open Pymap.Seq Pymap.Spec

theorem mem_rangeIncl (a b n : Nat) : n ∈ rangeIncl a b ↔ a ≤ n ∧ n ≤ b := by
  simp only [rangeIncl, List.mem_map, List.mem_range]
  constructor
  · rintro ⟨k, hk, rfl⟩; omega
  · rintro ⟨h1, h2⟩; exact ⟨n - a, by omega, by omega⟩

theorem mem_getRange (mx n : Nat) (e : Elem) : n ∈ getRange mx e ↔ elemHas mx n e := by
  cases e with
  | one i =>
    cases i with
    | num k =>
      simp only [getRange, elemHas, Idx.val]
      split <;> simp <;> omega
    | star => simp [getRange, elemHas, Idx.val]; omega
  | range l r =>
    simp only [getRange, elemHas]
    split
    · rw [mem_rangeIncl]; omega
    · simp; omega

/-- `flatten` addresses exactly the messages the RFC says, for every shape of set:
single numbers, ranges in either order, `*`, `n:*` beyond the end, out-of-range members, duplicates. -/
theorem C10_seqset (mx : Nat) (s : List Elem) (n : Nat) :
    n ∈ flatten mx s ↔ seqSet mx s n := by
  simp only [flatten, List.mem_flatMap, seqSet, mem_getRange]

/-- non-vacuity: `5:*` on a 3-message mailbox addresses message 3; `*` on an empty one addresses nothing real -/
example : flatten 3 [.range (.num 5) .star] = [3] ∧ flatten 0 [.one .star] = [0] ∧
          flatten 4 [.range (.num 3) (.num 1), .one (.num 9)] = [1, 2, 3] := by decide

end Pymap.C10
