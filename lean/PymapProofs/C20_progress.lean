import PymapProofs.Lemmas.RWProgress
/-! C20, "never deadlocks when every holder eventually releases": in every reachable state of the read-write lock
model in which some task has not finished, some task can take a step; and every schedule is finite. -/
namespace Pymap.RWLock

theorem PInv.afterR {s : St} (h : PInv s) (i : Nat) (t : Task) (ht : s.tasks[i]? = some t)
    (hpc : t.pc = .idle ∨ t.pc = .rWaitR) (r1 : ALock) (hl : r1.locked = true)
    (hk : ∀ j b, (j, b) ∈ keys r1 ↔ (j, b) ∈ keys s.r ∧ j ≠ i) :
    PInv (afterR { s with r := r1 } i t) := by
  have n1 : t.pc ≠ .rWaitW := by rcases hpc with e | e <;> rw [e] <;> decide
  have n2 : t.pc ≠ .wWaitW := by rcases hpc with e | e <;> rw [e] <;> decide
  have n3 : t.pc ≠ .cRW := by rcases hpc with e | e <;> rw [e] <;> decide
  have n4 : t.pc ≠ .cW := by rcases hpc with e | e <;> rw [e] <;> decide
  have lr1 : ∀ (p : PC) j b, (j, b) ∈ keys r1 → (j ≠ i ∧ (j, b) ∈ keys s.r) ∨ (j = i ∧ okR p b) :=
    fun p j b hm => Or.inl ⟨((hk j b).1 hm).2, ((hk j b).1 hm).1⟩
  have qr1 : ∀ j, j ≠ i → (j, true) ∈ keys s.r → (j, true) ∈ keys r1 := fun j hj hm => (hk j true).2 ⟨hm, hj⟩
  unfold Pymap.RWLock.afterR
  split
  · split
    · rename_i hfast
      refine h.upd i t { t with pc := .rIn } ht r1.release { s.w with locked := true } 1
        (headOk_release _) (headOk_locked rfl) ?_ (h.keepW ht n1 n2 n3 n4 _) ?_ ?_ (fun j _ hm => hm) ?_ ?_
      · intro j b hm; rw [keys_release] at hm; exact lr1 _ j b hm
      · intro j hj hm; rw [keys_release]; exact qr1 j hj hm
      · intro e; cases e
      · intro e; rcases e with e | e <;> cases e
      · intro e; rw [release_locked] at e; cases e
    · rename_i hfast
      have hfast' : s.w.canFast = false := by simpa using hfast
      refine h.upd i t { t with pc := .rWaitW } ht r1 (s.w.enqueue i) s.counter
        (headOk_locked hl) (headOk_enqueue h.hw i hfast') (lr1 _) ?_ qr1 ?_ ?_ ?_ ?_
      · intro j b hm
        rw [keys_enqueue, List.mem_append, List.mem_singleton] at hm
        rcases hm with hm | hm
        · exact h.keepW ht n1 n2 n3 n4 _ j b hm
        · injection hm with e1 e2; subst e1; subst e2
          exact Or.inr ⟨rfl, fun _ => Or.inl rfl, fun e => by cases e⟩
      · intro e; cases e
      · intro j _ hm; rw [keys_enqueue]; exact List.mem_append_left _ hm
      · intro _; rw [keys_enqueue]; simp
      · intro _; exact Or.inl (Or.inl rfl)
  · refine h.upd i t { t with pc := .rIn } ht r1.release s.w (s.counter + 1)
      (headOk_release _) h.hw ?_ (h.keepW ht n1 n2 n3 n4 _) ?_ ?_ (fun j _ hm => hm) ?_ ?_
    · intro j b hm; rw [keys_release] at hm; exact lr1 _ j b hm
    · intro j hj hm; rw [keys_release]; exact qr1 j hj hm
    · intro e; cases e
    · intro e; rcases e with e | e <;> cases e
    · intro e; rw [release_locked] at e; cases e

theorem PInv.exit {s : St} (h : PInv s) (i : Nat) (t t' : Task) (ht : s.tasks[i]? = some t)
    (hpc : t.pc = .rIn ∨ t.pc = .wIn) (hpc' : t'.pc = .idle ∨ t'.pc = .dead) (w' : ALock) (c' : Nat)
    (hw : w' = s.w ∨ w' = s.w.release) :
    PInv (setPc { s with w := w', counter := c' } i t') := by
  have n1 : t.pc ≠ .rWaitW := by rcases hpc with e | e <;> rw [e] <;> decide
  have n2 : t.pc ≠ .wWaitW := by rcases hpc with e | e <;> rw [e] <;> decide
  have n3 : t.pc ≠ .cRW := by rcases hpc with e | e <;> rw [e] <;> decide
  have n4 : t.pc ≠ .cW := by rcases hpc with e | e <;> rw [e] <;> decide
  have n5 : t.pc ≠ .rWaitR := by rcases hpc with e | e <;> rw [e] <;> decide
  have n6 : t.pc ≠ .cR := by rcases hpc with e | e <;> rw [e] <;> decide
  have hkw : keys w' = keys s.w := by rcases hw with e | e <;> rw [e]; exact keys_release _
  have hhw : headOk w' := by rcases hw with e | e <;> rw [e]; exact h.hw; exact headOk_release _
  refine h.upd i t t' ht s.r w' c' h.hr hhw (h.keepR ht n5 n6 _) ?_ (fun j _ hm => hm) ?_ ?_ ?_ ?_
  · intro j b hm; rw [hkw] at hm; exact h.keepW ht n1 n2 n3 n4 _ j b hm
  · intro e; rcases hpc' with e' | e' <;> rw [e'] at e <;> cases e
  · intro j _ hm; rw [hkw]; exact hm
  · intro e; rcases hpc' with e' | e' <;> rw [e'] at e <;> rcases e with e | e <;> cases e
  · intro hl; exact Or.inr ⟨hl, fun e => by rcases e with e | e; exact n1 e; exact n3 e⟩

theorem exitRead_eq (s : St) : exitRead s =
    { s with w := (if s.counter - 1 = 0 then s.w.release else s.w), counter := s.counter - 1 } := rfl

theorem PInv.step {s s' : St} (h : PInv s) (l : Label) (hs : step s l = some s') : PInv s' := by
  cases l with
  | run i =>
    simp only [Pymap.RWLock.step] at hs
    cases ht : s.tasks[i]? with
    | none => rw [ht] at hs; simp at hs
    | some t =>
      rw [ht] at hs; simp only [] at hs
      cases hpc : t.pc <;> rw [hpc] at hs <;> simp only [] at hs
      · -- idle
        have m1 : t.pc ≠ .rWaitR := by rw [hpc]; decide
        have m2 : t.pc ≠ .cR := by rw [hpc]; decide
        have n1 : t.pc ≠ .rWaitW := by rw [hpc]; decide
        have n2 : t.pc ≠ .wWaitW := by rw [hpc]; decide
        have n3 : t.pc ≠ .cRW := by rw [hpc]; decide
        have n4 : t.pc ≠ .cW := by rw [hpc]; decide
        cases hprog : t.prog with
        | nil => rw [hprog] at hs; simp at hs
        | cons sec rest =>
          rw [hprog] at hs
          cases sec with
          | true =>
            simp only [] at hs
            split at hs
            · injection hs with hs; subst hs
              refine h.afterR i t ht (Or.inl hpc) { s.r with locked := true } rfl ?_
              intro j b
              constructor
              · intro hm
                refine ⟨hm, ?_⟩
                rcases h.keepR ht m1 m2 .idle j b hm with ⟨hne, _⟩ | ⟨_, hok⟩
                · exact hne
                · cases b
                  · cases hok.2 rfl
                  · cases hok.1 rfl
              · intro hm; exact hm.1
            · rename_i hfast
              have hfast' : s.r.canFast = false := by simpa using hfast
              injection hs with hs; subst hs
              refine h.upd i t _ ht (s.r.enqueue i) s.w s.counter
                (headOk_enqueue h.hr i hfast') h.hw ?_ (h.keepW ht n1 n2 n3 n4 _) ?_ ?_ (fun j _ hm => hm) ?_ ?_
              · intro j b hm
                rw [keys_enqueue, List.mem_append, List.mem_singleton] at hm
                rcases hm with hm | hm
                · exact h.keepR ht m1 m2 _ j b hm
                · injection hm with e1 e2; subst e1; subst e2
                  exact Or.inr ⟨rfl, fun _ => rfl, fun e => by cases e⟩
              · intro j _ hm; rw [keys_enqueue]; exact List.mem_append_left _ hm
              · intro _; rw [keys_enqueue]; simp
              · intro e; rcases e with e | e <;> cases e
              · intro hl
                have hl' : s.r.locked = true := hl
                exact Or.inr ⟨hl', fun e => by rcases e with e | e; exact n1 e; exact n3 e⟩
          | false =>
            simp only [] at hs
            split at hs
            · injection hs with hs; subst hs
              refine h.upd i t _ ht s.r { s.w with locked := true } s.counter
                h.hr (headOk_locked rfl) (h.keepR ht m1 m2 _) (h.keepW ht n1 n2 n3 n4 _) (fun j _ hm => hm) ?_
                (fun j _ hm => hm) ?_ ?_
              · intro e; cases e
              · intro e; rcases e with e | e <;> cases e
              · intro hl; exact Or.inr ⟨hl, fun e => by rcases e with e | e; exact n1 e; exact n3 e⟩
            · rename_i hfast
              have hfast' : s.w.canFast = false := by simpa using hfast
              injection hs with hs; subst hs
              refine h.upd i t _ ht s.r (s.w.enqueue i) s.counter
                h.hr (headOk_enqueue h.hw i hfast') (h.keepR ht m1 m2 _) ?_ (fun j _ hm => hm) ?_ ?_ ?_ ?_
              · intro j b hm
                rw [keys_enqueue, List.mem_append, List.mem_singleton] at hm
                rcases hm with hm | hm
                · exact h.keepW ht n1 n2 n3 n4 _ j b hm
                · injection hm with e1 e2; subst e1; subst e2
                  exact Or.inr ⟨rfl, fun _ => Or.inr rfl, fun e => by cases e⟩
              · intro e; cases e
              · intro j _ hm; rw [keys_enqueue]; exact List.mem_append_left _ hm
              · intro _; rw [keys_enqueue]; simp
              · intro hl; exact Or.inr ⟨hl, fun e => by rcases e with e | e; exact n1 e; exact n3 e⟩
      · -- rWaitR
        split at hs
        · injection hs with hs; subst hs
          exact h.afterR i t ht (Or.inr hpc) (s.r.take i) rfl (fun j b => mem_keys_take s.r i j b)
        · simp at hs
      · -- rWaitW: woken, takes W, releases R
        have m1 : t.pc ≠ .rWaitR := by rw [hpc]; decide
        have m2 : t.pc ≠ .cR := by rw [hpc]; decide
        split at hs
        · injection hs with hs; subst hs
          refine h.upd i t { t with pc := .rIn } ht s.r.release (s.w.take i) (s.counter + 1)
            (headOk_release _) (headOk_locked rfl) ?_ ?_ ?_ ?_ ?_ ?_ ?_
          · intro j b hm; rw [keys_release] at hm; exact h.keepR ht m1 m2 _ j b hm
          · intro j b hm; rw [mem_keys_take] at hm; exact Or.inl ⟨hm.2, hm.1⟩
          · intro j _ hm; rw [keys_release]; exact hm
          · intro e; cases e
          · intro j hj hm; rw [mem_keys_take]; exact ⟨hm, hj⟩
          · intro e; rcases e with e | e <;> cases e
          · intro e; rw [release_locked] at e; cases e
        · simp at hs
      · -- rIn: leave
        injection hs with hs; subst hs
        rw [exitRead_eq]
        refine h.exit i t _ ht (Or.inl hpc) (Or.inl rfl) _ _ ?_
        split
        · exact Or.inr rfl
        · exact Or.inl rfl
      · -- wWaitW
        have m1 : t.pc ≠ .rWaitR := by rw [hpc]; decide
        have m2 : t.pc ≠ .cR := by rw [hpc]; decide
        split at hs
        · injection hs with hs; subst hs
          refine h.upd i t { t with pc := .wIn } ht s.r (s.w.take i) s.counter
            h.hr (headOk_locked rfl) (h.keepR ht m1 m2 _) ?_ (fun j _ hm => hm) ?_ ?_ ?_ ?_
          · intro j b hm; rw [mem_keys_take] at hm; exact Or.inl ⟨hm.2, hm.1⟩
          · intro e; cases e
          · intro j hj hm; rw [mem_keys_take]; exact ⟨hm, hj⟩
          · intro e; rcases e with e | e <;> cases e
          · intro hl; exact Or.inr ⟨hl, fun e => by rw [hpc] at e; rcases e with e | e <;> cases e⟩
        · simp at hs
      · -- wIn: leave
        injection hs with hs; subst hs
        exact h.exit i t _ ht (Or.inr hpc) (Or.inl rfl) s.w.release s.counter (Or.inr rfl)
      · -- cR
        have n1 : t.pc ≠ .rWaitW := by rw [hpc]; decide
        have n2 : t.pc ≠ .wWaitW := by rw [hpc]; decide
        have n3 : t.pc ≠ .cRW := by rw [hpc]; decide
        have n4 : t.pc ≠ .cW := by rw [hpc]; decide
        injection hs with hs; subst hs
        refine h.upd i t { t with pc := .dead } ht (s.r.unwind i) s.w s.counter
          (headOk_unwind _ _) h.hw ?_ (h.keepW ht n1 n2 n3 n4 _) ?_ ?_ (fun j _ hm => hm) ?_ ?_
        · intro j b hm; rw [mem_keys_unwind] at hm; exact Or.inl ⟨hm.2, hm.1⟩
        · intro j hj hm; rw [mem_keys_unwind]; exact ⟨hm, hj⟩
        · intro e; cases e
        · intro e; rcases e with e | e <;> cases e
        · intro hl
          have hl' : s.r.locked = true := by rw [unwind_locked s.r i] at hl; exact hl
          exact Or.inr ⟨hl', fun e => by rcases e with e | e; exact n1 e; exact n3 e⟩
      · -- cRW
        have m1 : t.pc ≠ .rWaitR := by rw [hpc]; decide
        have m2 : t.pc ≠ .cR := by rw [hpc]; decide
        injection hs with hs; subst hs
        refine h.upd i t { t with pc := .dead } ht s.r.release (s.w.unwind i) s.counter
          (headOk_release _) (headOk_unwind _ _) ?_ ?_ ?_ ?_ ?_ ?_ ?_
        · intro j b hm; rw [keys_release] at hm; exact h.keepR ht m1 m2 _ j b hm
        · intro j b hm; rw [mem_keys_unwind] at hm; exact Or.inl ⟨hm.2, hm.1⟩
        · intro j _ hm; rw [keys_release]; exact hm
        · intro e; cases e
        · intro j hj hm; rw [mem_keys_unwind]; exact ⟨hm, hj⟩
        · intro e; rcases e with e | e <;> cases e
        · intro e; rw [release_locked] at e; cases e
      · -- cW
        have m1 : t.pc ≠ .rWaitR := by rw [hpc]; decide
        have m2 : t.pc ≠ .cR := by rw [hpc]; decide
        injection hs with hs; subst hs
        refine h.upd i t { t with pc := .dead } ht s.r (s.w.unwind i) s.counter
          h.hr (headOk_unwind _ _) (h.keepR ht m1 m2 _) ?_ (fun j _ hm => hm) ?_ ?_ ?_ ?_
        · intro j b hm; rw [mem_keys_unwind] at hm; exact Or.inl ⟨hm.2, hm.1⟩
        · intro e; cases e
        · intro j hj hm; rw [mem_keys_unwind]; exact ⟨hm, hj⟩
        · intro e; rcases e with e | e <;> cases e
        · intro hl; exact Or.inr ⟨hl, fun e => by rw [hpc] at e; rcases e with e | e <;> cases e⟩
      · simp at hs
  | cancel i =>
    simp only [Pymap.RWLock.step] at hs
    cases ht : s.tasks[i]? with
    | none => rw [ht] at hs; simp at hs
    | some t =>
      rw [ht] at hs; simp only [] at hs
      cases hpc : t.pc <;> rw [hpc] at hs <;> simp only [] at hs <;> (try (simp at hs; done))
      · -- rWaitR → cR
        have n1 : t.pc ≠ .rWaitW := by rw [hpc]; decide
        have n2 : t.pc ≠ .wWaitW := by rw [hpc]; decide
        have n3 : t.pc ≠ .cRW := by rw [hpc]; decide
        have n4 : t.pc ≠ .cW := by rw [hpc]; decide
        injection hs with hs; subst hs
        refine h.upd i t { t with pc := .cR } ht (s.r.markCancel i) s.w s.counter
          (headOk_markCancel h.hr i) h.hw ?_ (h.keepW ht n1 n2 n3 n4 _) ?_ ?_ (fun j _ hm => hm) ?_ ?_
        · intro j b hm
          rw [mem_keys_markCancel] at hm
          rcases hm with hm | ⟨e1, e2, _⟩
          · exact Or.inl hm
          · subst e1; subst e2; exact Or.inr ⟨rfl, (fun e => by cases e), fun _ => rfl⟩
        · intro j hj hm; rw [mem_keys_markCancel]; exact Or.inl ⟨hj, hm⟩
        · intro e; cases e
        · intro e; rcases e with e | e <;> cases e
        · intro hl; exact Or.inr ⟨hl, fun e => by rcases e with e | e; exact n1 e; exact n3 e⟩
      · -- rWaitW → cRW
        have m1 : t.pc ≠ .rWaitR := by rw [hpc]; decide
        have m2 : t.pc ≠ .cR := by rw [hpc]; decide
        injection hs with hs; subst hs
        refine h.upd i t { t with pc := .cRW } ht s.r (s.w.markCancel i) s.counter
          h.hr (headOk_markCancel h.hw i) (h.keepR ht m1 m2 _) ?_ (fun j _ hm => hm) ?_ ?_ ?_ ?_
        · intro j b hm
          rw [mem_keys_markCancel] at hm
          rcases hm with hm | ⟨e1, e2, _⟩
          · exact Or.inl hm
          · subst e1; subst e2; exact Or.inr ⟨rfl, (fun e => by cases e), fun _ => Or.inl rfl⟩
        · intro e; cases e
        · intro j hj hm; rw [mem_keys_markCancel]; exact Or.inl ⟨hj, hm⟩
        · intro e; rcases e with e | e <;> cases e
        · intro _; exact Or.inl (Or.inr rfl)
      · -- rIn → dead
        injection hs with hs; subst hs
        rw [exitRead_eq]
        refine h.exit i t _ ht (Or.inl hpc) (Or.inr rfl) _ _ ?_
        split
        · exact Or.inr rfl
        · exact Or.inl rfl
      · -- wWaitW → cW
        have m1 : t.pc ≠ .rWaitR := by rw [hpc]; decide
        have m2 : t.pc ≠ .cR := by rw [hpc]; decide
        injection hs with hs; subst hs
        refine h.upd i t { t with pc := .cW } ht s.r (s.w.markCancel i) s.counter
          h.hr (headOk_markCancel h.hw i) (h.keepR ht m1 m2 _) ?_ (fun j _ hm => hm) ?_ ?_ ?_ ?_
        · intro j b hm
          rw [mem_keys_markCancel] at hm
          rcases hm with hm | ⟨e1, e2, _⟩
          · exact Or.inl hm
          · subst e1; subst e2; exact Or.inr ⟨rfl, (fun e => by cases e), fun _ => Or.inr rfl⟩
        · intro e; cases e
        · intro j hj hm; rw [mem_keys_markCancel]; exact Or.inl ⟨hj, hm⟩
        · intro e; rcases e with e | e <;> cases e
        · intro hl; exact Or.inr ⟨hl, fun e => by rw [hpc] at e; rcases e with e | e <;> cases e⟩
      · -- wIn → dead
        injection hs with hs; subst hs
        exact h.exit i t _ ht (Or.inr hpc) (Or.inr rfl) s.w.release s.counter (Or.inr rfl)

theorem PInv.run {s s' : St} (h : PInv s) (ls : List Label) (hs : Pymap.RWLock.run s ls = some s') : PInv s' := by
  induction ls generalizing s with
  | nil =>
    have hs' : some s = some s' := hs
    injection hs' with e; subst e; exact h
  | cons l ls ih =>
    simp only [Pymap.RWLock.run] at hs
    cases h1 : Pymap.RWLock.step s l with
    | none => rw [h1] at hs; simp at hs
    | some s1 => rw [h1] at hs; exact ih (h.step l h1) hs

end Pymap.RWLock

namespace Pymap.C20
open Pymap.RWLock

/-- a task is finished when it was cancelled and has unwound, or has no section left to run -/
def finished (t : Task) : Prop := t.pc = .dead ∨ (t.pc = .idle ∧ t.prog = [])

theorem exists_of_countP {α : Type} (p : α → Bool) : ∀ (l : List α), 1 ≤ l.countP p → ∃ (i : Nat) (a : α), l[i]? = some a ∧ p a = true
  | [], h => by simp at h
  | x :: xs, h => by
    cases hp : p x with
    | true => exact ⟨0, x, rfl, hp⟩
    | false =>
      simp only [List.countP_cons, hp] at h
      obtain ⟨i, a, hi, ha⟩ := exists_of_countP p xs (by simpa using h)
      exact ⟨i + 1, a, by simpa using hi, ha⟩

def canRun (s : St) (j : Nat) (t : Task) : Prop :=
  match t.pc with
  | .idle => t.prog ≠ []
  | .rWaitR => s.r.isWoken j = true
  | .rWaitW => s.w.isWoken j = true
  | .wWaitW => s.w.isWoken j = true
  | .dead => False
  | _ => True

theorem enabled_of {s : St} {j : Nat} {t : Task} (ht : s.tasks[j]? = some t) (hc : canRun s j t) :
    ∃ s', step s (.run j) = some s' := by
  simp only [step, ht]
  unfold canRun at hc
  cases hpc : t.pc <;> rw [hpc] at hc <;> simp only [] at hc ⊢
  · cases hprog : t.prog with
    | nil => exact absurd hprog hc
    | cons sec rest =>
      cases sec <;> simp only [] <;> split <;> exact ⟨_, rfl⟩
  · rw [if_pos hc]; exact ⟨_, rfl⟩
  · rw [if_pos hc]; exact ⟨_, rfl⟩
  · exact ⟨_, rfl⟩
  · rw [if_pos hc]; exact ⟨_, rfl⟩
  · exact ⟨_, rfl⟩
  · exact ⟨_, rfl⟩
  · exact ⟨_, rfl⟩
  · exact ⟨_, rfl⟩

theorem head_mem_keys {l : ALock} {j : Nat} {st : WSt} {rest : List (Nat × WSt)} (hq : l.waiters = (j, st) :: rest) :
    (j, st.live) ∈ keys l := by
  simp [keys, hq]

theorem head_isWoken {l : ALock} {j : Nat} {rest : List (Nat × WSt)} (hq : l.waiters = (j, .woken) :: rest) :
    l.isWoken j = true := by
  simp [ALock.isWoken, hq]

theorem keys_ne_nil {l : ALock} {j : Nat} {b : Bool} (hm : (j, b) ∈ keys l) : ∃ j' st rest, l.waiters = (j', st) :: rest := by
  cases hq : l.waiters with
  | nil => simp [keys, hq] at hm
  | cons a as => exact ⟨a.1, a.2, as, rfl⟩

/-- a free `R` with somebody queued: its first waiter can run -/
theorem progress_r {s : St} (h : PInv s) (hl : s.r.locked = false) {j0 : Nat} {b0 : Bool} (hm : (j0, b0) ∈ keys s.r) :
    ∃ j s', step s (.run j) = some s' := by
  obtain ⟨j, st, rest, hq⟩ := keys_ne_nil hm
  have hne := h.hr hl (j, st) rest hq
  obtain ⟨t, ht, hok⟩ := h.lr j st.live (head_mem_keys hq)
  refine ⟨j, enabled_of ht ?_⟩
  unfold canRun
  cases st with
  | pending => exact absurd rfl hne
  | woken => rw [hok.1 rfl]; exact head_isWoken hq
  | cancelled => rw [hok.2 rfl]; trivial
  | wokenCancelled => rw [hok.2 rfl]; trivial

theorem progress_w_free {s : St} (h : PInv s) (hl : s.w.locked = false) {j0 : Nat} {b0 : Bool} (hm : (j0, b0) ∈ keys s.w) :
    ∃ j s', step s (.run j) = some s' := by
  obtain ⟨j, st, rest, hq⟩ := keys_ne_nil hm
  have hne := h.hw hl (j, st) rest hq
  obtain ⟨t, ht, hok⟩ := h.lw j st.live (head_mem_keys hq)
  refine ⟨j, enabled_of ht ?_⟩
  unfold canRun
  cases st with
  | pending => exact absurd rfl hne
  | woken => rcases hok.1 rfl with e | e <;> rw [e] <;> exact head_isWoken hq
  | cancelled => rcases hok.2 rfl with e | e <;> rw [e] <;> trivial
  | wokenCancelled => rcases hok.2 rfl with e | e <;> rw [e] <;> trivial

/-- somebody is queued on `W`: either a holder of `W` can leave its section, or the first waiter can run -/
theorem progress_w {s : St} (h : PInv s) (hI : Inv s) {j0 : Nat} {b0 : Bool} (hm : (j0, b0) ∈ keys s.w) :
    ∃ j s', step s (.run j) = some s' := by
  cases hl : s.w.locked with
  | false => exact progress_w_free h hl hm
  | true =>
    rcases hI.wlk.1 hl with hw | hr
    · obtain ⟨j, t, ht, hp⟩ := exists_of_countP isW s.tasks hw
      refine ⟨j, enabled_of ht ?_⟩
      have : t.pc = .wIn := by simpa [isW] using hp
      unfold canRun; rw [this]; trivial
    · obtain ⟨j, t, ht, hp⟩ := exists_of_countP isR s.tasks hr
      refine ⟨j, enabled_of ht ?_⟩
      have : t.pc = .rIn := by simpa [isR] using hp
      unfold canRun; rw [this]; trivial

/-- **No deadlock.** In every reachable state — any number of tasks, any programs, any schedule, any cancellations —
in which some task is not finished, some task can take its next step: a holder leaves its section (releases), a woken
waiter enters, a cancelled waiter unwinds, or an idle task starts its next section.  Together with `C20_terminates`
every maximal schedule ends with every task finished: the lock never deadlocks when every holder eventually releases. -/
theorem C20_no_deadlock (progs : List (List Bool)) (ls : List Label) (s : St)
    (hs : run (St.init progs) ls = some s) (i : Nat) (t : Task) (hi : s.tasks[i]? = some t) (hnf : ¬ finished t) :
    ∃ j s', step s (.run j) = some s' := by
  have hP := (PInv.init progs).run ls hs
  have hI := (Inv.init progs).run ls hs
  have wprog : ∀ j b, (j, b) ∈ keys s.w → ∃ j s', step s (.run j) = some s' := fun j b hm => progress_w hP hI hm
  have rprog : ∀ j b, (j, b) ∈ keys s.r → ∃ j s', step s (.run j) = some s' := by
    intro j b hm
    cases hl : s.r.locked with
    | false => exact progress_r hP hl hm
    | true =>
      obtain ⟨k, tk, hk, hp⟩ := hP.rl hl
      rcases hp with hp | hp
      · exact wprog k true (hP.qw k tk hk (Or.inl hp))
      · exact ⟨k, enabled_of hk (by unfold canRun; rw [hp]; trivial)⟩
  cases hpc : t.pc with
  | idle =>
    refine ⟨i, enabled_of hi ?_⟩
    unfold canRun; rw [hpc]
    intro e; exact hnf (Or.inr ⟨hpc, e⟩)
  | rWaitR => exact rprog i true (hP.qr i t hi hpc)
  | rWaitW => exact wprog i true (hP.qw i t hi (Or.inl hpc))
  | wWaitW => exact wprog i true (hP.qw i t hi (Or.inr hpc))
  | rIn => exact ⟨i, enabled_of hi (by unfold canRun; rw [hpc]; trivial)⟩
  | wIn => exact ⟨i, enabled_of hi (by unfold canRun; rw [hpc]; trivial)⟩
  | cR => exact ⟨i, enabled_of hi (by unfold canRun; rw [hpc]; trivial)⟩
  | cRW => exact ⟨i, enabled_of hi (by unfold canRun; rw [hpc]; trivial)⟩
  | cW => exact ⟨i, enabled_of hi (by unfold canRun; rw [hpc]; trivial)⟩
  | dead => exact absurd (Or.inl hpc) hnf

/-- how much a task still has to do -/
def weight (t : Task) : Nat :=
  match t.pc with
  | .dead => 0
  | .cR | .cRW | .cW => 1
  | .idle => 4 * t.prog.length + 2
  | .rWaitR => 4 * t.prog.tail.length + 5
  | .rWaitW => 4 * t.prog.tail.length + 4
  | .rIn => 4 * t.prog.tail.length + 3
  | .wWaitW => 4 * t.prog.tail.length + 5
  | .wIn => 4 * t.prog.tail.length + 3

def mu (s : St) : Nat := (s.tasks.map weight).sum

theorem sum_set (f : Task → Nat) : ∀ (l : List Task) (i : Nat) (a b : Task), l[i]? = some a →
    ((l.set i b).map f).sum + f a = (l.map f).sum + f b
  | [], _, _, _, h => by simp at h
  | x :: xs, 0, a, b, h => by
    simp at h; subst h
    simp only [List.set, List.map_cons, List.sum_cons]; omega
  | x :: xs, i+1, a, b, h => by
    simp at h
    have ih := sum_set f xs i a b h
    simp only [List.set, List.map_cons, List.sum_cons]; omega

theorem afterR_tasks (s : St) (i : Nat) (t : Task) :
    (afterR s i t).tasks = s.tasks.set i { t with pc := .rIn } ∨ (afterR s i t).tasks = s.tasks.set i { t with pc := .rWaitW } := by
  unfold Pymap.RWLock.afterR
  split
  · split
    · exact Or.inl rfl
    · exact Or.inr rfl
  · exact Or.inl rfl

/-- every step — a task running or a task being cancelled — moves exactly one task, to a state of smaller weight -/
theorem step_weight {s s' : St} (l : Label) (hs : step s l = some s') :
    ∃ i t t', s.tasks[i]? = some t ∧ s'.tasks = s.tasks.set i t' ∧ weight t' < weight t := by
  cases l with
  | run i =>
    simp only [Pymap.RWLock.step] at hs
    cases ht : s.tasks[i]? with
    | none => rw [ht] at hs; simp at hs
    | some t =>
      rw [ht] at hs; simp only [] at hs
      cases hpc : t.pc <;> rw [hpc] at hs <;> simp only [] at hs
      · cases hprog : t.prog with
        | nil => rw [hprog] at hs; simp at hs
        | cons sec rest =>
          rw [hprog] at hs
          cases sec with
          | true =>
            simp only [] at hs
            split at hs
            · injection hs with hs; subst hs
              rcases afterR_tasks { s with r := { s.r with locked := true } } i t with e | e
              · exact ⟨i, t, _, ht, e, by simp [weight, hpc, hprog]; omega⟩
              · exact ⟨i, t, _, ht, e, by simp [weight, hpc, hprog]; omega⟩
            · injection hs with hs; subst hs
              exact ⟨i, t, _, ht, rfl, by simp [weight, hpc, hprog]; omega⟩
          | false =>
            simp only [] at hs
            split at hs
            · injection hs with hs; subst hs
              exact ⟨i, t, _, ht, rfl, by simp [weight, hpc, hprog]; omega⟩
            · injection hs with hs; subst hs
              exact ⟨i, t, _, ht, rfl, by simp [weight, hpc, hprog]; omega⟩
      · split at hs
        · injection hs with hs; subst hs
          rcases afterR_tasks { s with r := s.r.take i } i t with e | e
          · exact ⟨i, t, _, ht, e, by simp [weight, hpc]⟩
          · exact ⟨i, t, _, ht, e, by simp [weight, hpc]⟩
        · simp at hs
      · split at hs
        · injection hs with hs; subst hs
          exact ⟨i, t, _, ht, rfl, by simp [weight, hpc]⟩
        · simp at hs
      · injection hs with hs; subst hs
        exact ⟨i, t, _, ht, rfl, by simp [weight, hpc]⟩
      · split at hs
        · injection hs with hs; subst hs
          exact ⟨i, t, _, ht, rfl, by simp [weight, hpc]⟩
        · simp at hs
      · injection hs with hs; subst hs
        exact ⟨i, t, _, ht, rfl, by simp [weight, hpc]⟩
      · injection hs with hs; subst hs
        exact ⟨i, t, _, ht, rfl, by simp [weight, hpc]⟩
      · injection hs with hs; subst hs
        exact ⟨i, t, _, ht, rfl, by simp [weight, hpc]⟩
      · injection hs with hs; subst hs
        exact ⟨i, t, _, ht, rfl, by simp [weight, hpc]⟩
      · simp at hs
  | cancel i =>
    simp only [Pymap.RWLock.step] at hs
    cases ht : s.tasks[i]? with
    | none => rw [ht] at hs; simp at hs
    | some t =>
      rw [ht] at hs; simp only [] at hs
      cases hpc : t.pc <;> rw [hpc] at hs <;> simp only [] at hs <;> (try (simp at hs; done))
      all_goals
        injection hs with hs; subst hs
        exact ⟨i, t, _, ht, rfl, by simp [weight, hpc]⟩

theorem step_mu {s s' : St} (l : Label) (hs : step s l = some s') : mu s' < mu s := by
  obtain ⟨i, t, t', ht, he, hw⟩ := step_weight l hs
  have := sum_set weight s.tasks i t t' ht
  unfold mu; rw [he]; omega

/-- **Every schedule is finite.** A schedule — runs and cancellations in any order — is never longer than the work the
tasks started with (four steps per section and two per task): no task spins, and with `C20_no_deadlock` every schedule
that is continued as long as some task can run ends with every task finished. -/
theorem C20_terminates (ls : List Label) (s s' : St) (hs : run s ls = some s') : ls.length + mu s' ≤ mu s := by
  induction ls generalizing s with
  | nil =>
    have hs' : some s = some s' := hs
    injection hs' with e; subst e; simp
  | cons l ls ih =>
    simp only [Pymap.RWLock.run] at hs
    cases h1 : step s l with
    | none => rw [h1] at hs; simp at hs
    | some s1 =>
      rw [h1] at hs
      have := ih s1 hs
      have := step_mu l h1
      simp only [List.length_cons]; omega

/-- non-vacuity: a state with a writer inside, a reader holding `R` queued on `W`, and a second reader queued on `R` -/
example : (run (St.init [[false], [true], [true]]) [.run 0, .run 1, .run 2]).map (fun s => s.tasks.map (·.pc)) =
    some [.wIn, .rWaitW, .rWaitR] := by decide

end Pymap.C20
