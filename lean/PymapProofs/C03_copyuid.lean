import PymapModel.CopyUid
/-!
# C03 — the copy that COPYUID announces for a message is the copy of that message

`get_uids` hands out the requested UIDs in ascending order; the copies are numbered consecutively; sorting both sides independently then
pairs every source with its own copy.  The ascending order is what carries the statement: `copyuid_set_order_as_seeded` is the concrete
history of seeded change C03-g (the UIDs in the iteration order of a Python set).
-/
namespace Pymap.C03
open Pymap.CopyUid

theorem map_fst_copyAll : ∀ (us : List Nat) (n : Nat), (copyAll us n).map Prod.fst = us
  | [], _ => rfl
  | u :: us, n => by simp [copyAll, map_fst_copyAll us (n + 1)]

theorem map_snd_copyAll : ∀ (us : List Nat) (n : Nat), (copyAll us n).map Prod.snd = List.range' n us.length
  | [], _ => rfl
  | u :: us, n => by simp [copyAll, map_snd_copyAll us (n + 1), List.range']

theorem zip_fst_snd : ∀ (l : List (Nat × Nat)), (l.map Prod.fst).zip (l.map Prod.snd) = l
  | [] => rfl
  | p :: l => by simp [zip_fst_snd l]

theorem sortNat_of_le : ∀ {l : List Nat}, l.Pairwise (· ≤ ·) → sortNat l = l
  | [], _ => rfl
  | [a], _ => rfl
  | a :: b :: l, h => by
    have ht : (b :: l).Pairwise (· ≤ ·) := (List.pairwise_cons.mp h).2
    have hab : a ≤ b := (List.pairwise_cons.mp h).1 b (by simp)
    simp only [sortNat] at *
    rw [show insertNat b (sortNat l) = b :: l from sortNat_of_le ht]
    simp [insertNat, hab]

/-- **C03 (copies), pairing.**  When the messages are copied in ascending order of their UIDs, the pairs a client reads off COPYUID are
exactly the copies that were made: the UID announced for the copy of `u` holds `u`. -/
theorem C03_copyuid_pairs (uids : List Nat) (next : Nat) (h : uids.Pairwise (· < ·)) :
    announce (copyAll uids next) = copyAll uids next := by
  unfold announce
  rw [sortNat_of_le (l := (copyAll uids next).map Prod.fst), sortNat_of_le (l := (copyAll uids next).map Prod.snd)]
  · exact zip_fst_snd _
  · rw [map_snd_copyAll]; exact List.pairwise_le_range'
  · rw [map_fst_copyAll]; exact h.imp (fun hab => Nat.le_of_lt hab)

/-- every requested message is announced, once, with its own copy -/
theorem C03_copyuid_mem (uids : List Nat) (next : Nat) (h : uids.Pairwise (· < ·)) (u d : Nat) :
    (u, d) ∈ announce (copyAll uids next) ↔ (u, d) ∈ copyAll uids next := by
  rw [C03_copyuid_pairs uids next h]

/-! `sortNat` is a sort (so `announce` says what `SequenceSet.build` does for any order of copying, not only the ascending one) -/
theorem insertNat_perm (a : Nat) : ∀ l : List Nat, (insertNat a l).Perm (a :: l)
  | [] => List.Perm.refl _
  | b :: l => by
    unfold insertNat
    split
    · exact List.Perm.refl _
    · exact ((insertNat_perm a l).cons b).trans (List.Perm.swap a b l)

theorem sortNat_perm : ∀ l : List Nat, (sortNat l).Perm l
  | [] => List.Perm.refl _
  | a :: l => (insertNat_perm a (sortNat l)).trans ((sortNat_perm l).cons a)

theorem insertNat_sorted (a : Nat) : ∀ l : List Nat, l.Pairwise (· ≤ ·) → (insertNat a l).Pairwise (· ≤ ·)
  | [], _ => by simp [insertNat]
  | b :: l, h => by
    have hb := (List.pairwise_cons.mp h).1
    have ht := (List.pairwise_cons.mp h).2
    unfold insertNat
    split
    · rename_i hab
      refine List.pairwise_cons.mpr ⟨?_, h⟩
      intro c hc
      rcases List.mem_cons.mp hc with rfl | hc
      · exact hab
      · exact Nat.le_trans hab (hb c hc)
    · rename_i hab
      refine List.pairwise_cons.mpr ⟨?_, insertNat_sorted a l ht⟩
      intro c hc
      rcases List.mem_cons.mp ((insertNat_perm a l).mem_iff.mp hc) with rfl | hc
      · omega
      · exact hb c hc

theorem C03_sortNat_sorted : ∀ l : List Nat, (sortNat l).Pairwise (· ≤ ·)
  | [] => by simp [sortNat]
  | a :: l => insertNat_sorted a _ (C03_sortNat_sorted l)

/-- non-vacuity, and the seeded history: four messages copied in the iteration order of the set {101,…,104} -/
example : announce (copyAll [101, 102, 103, 104] 7) = [(101, 7), (102, 8), (103, 9), (104, 10)] := by decide
theorem copyuid_set_order_as_seeded :
    (104, 101) ∈ copyAll [104, 101, 102, 103] 101 ∧ (104, 101) ∉ announce (copyAll [104, 101, 102, 103] 101) := by decide

end Pymap.C03
