import PymapProofs.C13
/-!
# C13 — the top-level keys of a SEARCH are a *set*

`SearchCommand` keeps the top-level keys in a `frozenset`: their order is the hash order and equal keys collapse.  Neither can
change the result — provided that equality of keys is equality (the seeded changes C13-b and C13-c broke exactly that proviso:
a `__hash__` that forgets a field makes different keys "equal").
-/
namespace Pymap.C13
open Pymap.Search

theorem critAll_eq_all (maxSeq maxUid : Nat) (m : Msg) : ∀ (ks : List Key),
    critAll maxSeq maxUid ks m = ks.all (fun k => crit maxSeq maxUid k m)
  | [] => by simp [critAll]
  | k :: ks => by simp [critAll, critAll_eq_all maxSeq maxUid m ks]

/-- **set semantics**: two key lists with the same members — in any order, with any repetitions — select the same messages,
whichever sequence-set key the pre-filter happens to pick -/
theorem C13_set_semantics (view : List Msg) (maxSeq maxUid : Nat) (ks ks' : List Key) (h : ∀ k, k ∈ ks ↔ k ∈ ks') :
    search view maxSeq maxUid ks = search view maxSeq maxUid ks' := by
  rw [C13_prefilter_sound, C13_prefilter_sound]
  apply List.filter_congr
  intro m _
  rw [critAll_eq_all, critAll_eq_all, Bool.eq_iff_iff]
  simp only [List.all_eq_true]
  constructor
  · intro hall k hk; exact hall k ((h k).2 hk)
  · intro hall k hk; exact hall k ((h k).1 hk)

/-- dropping one of two *different* keys is not licensed by this theorem: `SEEN` and `NOT SEEN` together select nothing,
either of them alone does not -/
example : ∃ (m : Msg), crit 1 1 (.flag 0 true) m = true ∧ critAll 1 1 [.flag 0 true, .not (.flag 0 true)] m = false :=
  ⟨⟨1, 1, [0], 0, none, 0, fun _ => false⟩, by decide, by decide⟩

end Pymap.C13
