import PymapProofs.Lemmas.Grammar
/-!
# C18 — numbers: `Number.__bytes__` (`b'%d' % n`, `Wire.digits`) and the digit scan of `Number.parse` (`Grammar.readNum`)
-/
namespace Pymap.C18
open Pymap.Grammar Pymap.Wire

/-- `readNum` stops at the first byte that is not a digit -/
theorem readNum_stop (acc : Nat) (rest : List Nat) (h : firstIsDigit rest = false) : readNum acc rest = (acc, rest) := by
  cases rest with
  | nil => simp [readNum]
  | cons b r =>
    have hb : isDigit b = false := by simpa [firstIsDigit] using h
    simp [readNum, hb]

/-- **round trip of numbers**: parsing the decimal spelling of `n` followed by anything that does not start with a digit
yields `n` and consumes exactly its own bytes -/
theorem C18_roundtrip_number (n : Nat) (rest : List Nat) (h : firstIsDigit rest = false) :
    readNum 0 (digits n ++ rest) = (n, rest) := by
  rw [readNum_digits, readNum_stop n rest h]

/-- the spelling is never empty and consists of digits only -/
theorem digits_all_digit : ∀ (n : Nat), ∀ b ∈ digits n, isDigit b = true := by
  intro n
  induction n using Nat.strongRecOn with
  | _ n ih =>
    intro b hb
    rw [digits] at hb
    split at hb
    · rename_i hlt
      simp at hb; subst hb; exact isDigit_48 n hlt
    · rename_i hge
      simp only [List.mem_append, List.mem_singleton] at hb
      rcases hb with hb | hb
      · exact ih (n / 10) (by omega) b hb
      · subst hb; exact isDigit_48 (n % 10) (by omega)

example : readNum 0 (digits 4294967295 ++ [32, 120]) = (4294967295, [32, 120]) := by
  exact C18_roundtrip_number _ _ (by decide)

end Pymap.C18
