import PymapModel.Layout
/-!
# C08 — mailbox names cannot reach outside the user's own mail store (path construction part)
-/
namespace Pymap.C08
open Pymap.Layout

theorem normAux_plain : ∀ (p stack : List Comp), (∀ c ∈ p, plain c = true) →
    normAux stack p = some (stack.reverse ++ p)
  | [], stack, _ => by simp [normAux]
  | c :: r, stack, h => by
    have hc := h c (by simp)
    simp [plain] at hc
    have h1 : ¬ (c = [] ∨ c = [dot]) := fun e => by rcases e with e | e; exact hc.1.1 e; exact hc.1.2 e
    rw [normAux.eq_def]; simp only [h1, hc.2, if_false]
    rw [normAux_plain r (c :: stack) (fun x hx => h x (by simp [hx]))]
    simp

theorem norm_plain (p : List Comp) (h : ∀ c ∈ p, plain c = true) : norm p = some p := by
  simpa [norm] using normAux_plain p [] h

theorem validPart_plain {p : Comp} (h : validPart p = true) : plain p = true := by
  simp [validPart] at h; simp [plain]
  refine ⟨⟨?_, h.1.1.1.2⟩, h.1.1.2⟩
  intro e; subst e; simp at h

/-- the Maildir++ directory name of a valid name is an ordinary component: not empty, not `.`, not `..` -/
theorem defaultSubdir_plain (parts : List Comp) (h : validParts parts = true) :
    plain (dot :: joinDot parts) = true := by
  simp only [validParts, Bool.and_eq_true, Bool.not_eq_true', List.all_eq_true] at h
  obtain ⟨hne, hall⟩ := h
  cases parts with
  | nil => simp at hne
  | cons p ps =>
    have hp := hall p (by simp)
    have hpp := hp
    simp [validPart] at hpp
    -- the name is '.' followed by a non-empty first part that is not '.'
    simp only [plain, Bool.and_eq_true, bne_iff_ne, ne_eq]
    refine ⟨⟨by simp, ?_⟩, ?_⟩
    · cases ps with
      | nil => simp [joinDot]; exact hpp.1.1.1.1
      | cons q qs =>
        simp only [joinDot]
        intro e
        have := congrArg List.length e
        simp at this
    · cases ps with
      | nil =>
        simp only [joinDot]
        intro e
        have : p = [dot] := by simpa using e
        exact hpp.1.1.1.2 this
      | cons q qs =>
        simp only [joinDot]
        intro e
        have := congrArg List.length e
        simp at this
        have hlen : 0 < p.length := by
          cases p with
          | nil => simp at hpp
          | cons _ _ => simp
        omega

/-- **Confinement, Maildir++ layout.** For every mailbox name whose parts pass the check, the folder
path resolves to a *strict* extension of the user's directory — never the directory itself, never
above it.  (`base` is the already-resolved user directory.) -/
theorem C08_confined_default (base parts : List Comp) (hb : ∀ c ∈ base, plain c = true)
    (h : validParts parts = true) :
    ∃ leaf, norm (defaultPath base parts) = some (base ++ [leaf]) := by
  have hne : parts.isEmpty = false := by
    simp only [validParts, Bool.and_eq_true, Bool.not_eq_true'] at h; exact h.1
  refine ⟨dot :: joinDot parts, ?_⟩
  simp only [defaultPath, hne, Bool.false_eq_true, if_false]
  apply norm_plain
  intro c hc
  simp only [List.mem_append, List.mem_singleton] at hc
  rcases hc with hc | rfl
  · exact hb c hc
  · exact defaultSubdir_plain parts h

/-- **Confinement, `fs` layout.** -/
theorem C08_confined_fs (base parts : List Comp) (hb : ∀ c ∈ base, plain c = true)
    (h : validParts parts = true) :
    norm (fsPath base parts) = some (base ++ parts) ∧ parts ≠ [] := by
  simp only [validParts, Bool.and_eq_true, Bool.not_eq_true', List.all_eq_true] at h
  obtain ⟨hne, hall⟩ := h
  refine ⟨?_, by cases parts <;> simp_all⟩
  apply norm_plain
  intro c hc
  simp only [fsPath, List.mem_append] at hc
  rcases hc with hc | hc
  · exact hb c hc
  · exact validPart_plain (hall c hc)

/-- the code as found has no check: on the default layout the name `.` resolves to the *parent* of the
user's directory and the empty name to the directory itself; on `fs`, `..` climbs out -/
theorem C08_escape_as_found :
    norm (defaultPath [[98], [117]] (splitOn slash [dot])) = some [[98]] ∧
    norm (defaultPath [[98], [117]] (splitOn slash [])) = some [[98], [117]] ∧
    norm (fsPath [[98], [117]] (splitOn slash [dot, dot])) = some [[98]] := by decide

end Pymap.C08
