import PymapModel.UidRW
/-!
# C04 — writers that read the UID list inside its lock never report one UID twice, under any interleaving
-/
namespace Pymap.C04
open Pymap.UidRW

structure Inv (s : St) : Prop where
  holds  : ∀ i, ((s.ws i).pc = .locked ∨ (s.ws i).pc = .read) → s.holder = some i
  fresh  : ∀ i, (s.ws i).pc = .read → (s.ws i).loc = s.next
  below  : ∀ i, (s.ws i).pc = .done → (s.ws i).uid < s.next
  apart  : ∀ i j, i ≠ j → (s.ws i).pc = .done → (s.ws j).pc = .done → (s.ws i).uid ≠ (s.ws j).uid

theorem inv_init (n : Nat) : Inv (init n) := by
  constructor <;> intros <;> simp_all [init]

theorem inv_step (s s' : St) (i : Nat) (h : Inv s) (hs : step s i = some s') : Inv s' := by
  obtain ⟨h1, h2, h3, h4⟩ := h
  unfold step at hs
  split at hs
  · -- acquire
    split at hs
    · rename_i hpc hh
      cases hs
      constructor
      · intro j hj
        by_cases hji : j = i
        · simp [St.setW, hji]
        · simp [St.setW, hji] at hj
          have := h1 j hj
          simp [hh] at this
      · intro j hj
        by_cases hji : j = i
        · simp [St.setW, hji] at hj
        · simp [St.setW, hji] at hj ⊢
          exact h2 j hj
      · intro j hj
        by_cases hji : j = i
        · simp [St.setW, hji] at hj
        · simp [St.setW, hji] at hj ⊢
          exact h3 j hj
      · intro j k hjk hj hk
        by_cases hji : j = i
        · simp [St.setW, hji] at hj
        · by_cases hki : k = i
          · simp [St.setW, hki] at hk
          · simp [St.setW, hji, hki] at hj hk ⊢
            exact h4 j k hjk hj hk
    · cases hs
  · -- read
    rename_i hpc
    cases hs
    constructor
    · intro j hj
      by_cases hji : j = i
      · subst hji; simp [St.setW]; exact h1 j (Or.inl hpc)
      · simp [St.setW, hji] at hj ⊢
        exact h1 j hj
    · intro j hj
      by_cases hji : j = i
      · simp [St.setW, hji]
      · simp [St.setW, hji] at hj ⊢
        exact h2 j hj
    · intro j hj
      by_cases hji : j = i
      · simp [St.setW, hji] at hj
      · simp [St.setW, hji] at hj ⊢
        exact h3 j hj
    · intro j k hjk hj hk
      by_cases hji : j = i
      · simp [St.setW, hji] at hj
      · by_cases hki : k = i
        · simp [St.setW, hki] at hk
        · simp [St.setW, hji, hki] at hj hk ⊢
          exact h4 j k hjk hj hk
  · -- write and release
    rename_i hpc
    cases hs
    have hloc := h2 i hpc
    have hhold := h1 i (Or.inr hpc)
    have others : ∀ j, j ≠ i → ¬ ((s.ws j).pc = .locked ∨ (s.ws j).pc = .read) := by
      intro j hji hj
      have := h1 j hj
      rw [hhold] at this
      exact hji (Option.some.inj this).symm
    constructor
    · intro j hj
      by_cases hji : j = i
      · simp [St.setW, hji] at hj
      · simp [St.setW, hji] at hj
        exact absurd hj (others j hji)
    · intro j hj
      by_cases hji : j = i
      · simp [St.setW, hji] at hj
      · simp [St.setW, hji] at hj
        exact absurd (Or.inr hj) (others j hji)
    · intro j hj
      by_cases hji : j = i
      · simp [St.setW, hji]
      · simp [St.setW, hji] at hj ⊢
        have := h3 j hj
        omega
    · intro j k hjk hj hk
      by_cases hji : j = i
      · by_cases hki : k = i
        · exact absurd (hji.trans hki.symm) hjk
        · simp [St.setW, hji, hki] at hk ⊢
          have := h3 k hk
          omega
      · by_cases hki : k = i
        · simp [St.setW, hji, hki] at hj ⊢
          have := h3 j hj
          omega
        · simp [St.setW, hji, hki] at hj hk ⊢
          exact h4 j k hjk hj hk
  · cases hs

theorem inv_run : ∀ (sched : List Nat) (s : St), Inv s → Inv (run s sched)
  | [], _, h => h
  | i :: is, s, h => by
    unfold run
    split
    · rename_i s' hs; exact inv_run is s' (inv_step s s' i h hs)
    · exact inv_run is s h

/-- **C04 (maildir, contended UID list).**  Whatever the interleaving of any number of writers, two writers that have finished were given
different UIDs, and every UID given is below the `next_uid` in the file. -/
theorem C04_uidlist_no_reuse (n : Nat) (sched : List Nat) (i j : Nat) (hij : i ≠ j)
    (hi : ((run (init n) sched).ws i).pc = .done) (hj : ((run (init n) sched).ws j).pc = .done) :
    ((run (init n) sched).ws i).uid ≠ ((run (init n) sched).ws j).uid ∧ ((run (init n) sched).ws i).uid < (run (init n) sched).next :=
  ⟨(inv_run sched _ (inv_init n)).apart i j hij hi hj, (inv_run sched _ (inv_init n)).below i hi⟩

/-- mutual exclusion of the critical section, as a corollary -/
theorem C04_uidlist_exclusion (n : Nat) (sched : List Nat) (i j : Nat)
    (hi : ((run (init n) sched).ws i).pc = .locked ∨ ((run (init n) sched).ws i).pc = .read)
    (hj : ((run (init n) sched).ws j).pc = .locked ∨ ((run (init n) sched).ws j).pc = .read) : i = j := by
  have h := inv_run sched _ (inv_init n)
  have a := h.holds i hi
  have b := h.holds j hj
  rw [a] at b
  exact Option.some.inj b

/-- non-vacuity: two writers interleaved as far as the lock allows both finish, with UIDs 4 and 5 -/
example : let s := run (init 4) [0, 1, 0, 1, 0, 1, 1, 1]
    (s.ws 0).pc = .done ∧ (s.ws 1).pc = .done ∧ (s.ws 0).uid = 4 ∧ (s.ws 1).uid = 5 ∧ s.next = 6 := by decide

/-- the seeded order (C04-g: read, then lock): both writers read 4 while a third party holds the lock, and both report UID 4 -/
theorem uidlist_read_before_lock_as_seeded :
    let s := runReadFirst { init 4 with holder := some 9 } [0, 1]
    let s := runReadFirst { s with holder := none } [0, 0, 1, 1]
    (s.ws 0).pc = .done ∧ (s.ws 1).pc = .done ∧ (s.ws 0).uid = 4 ∧ (s.ws 1).uid = 4 := by decide

end Pymap.C04
