import PymapModel.Conn
/-!
# C05 — the connection state machine follows RFC 3501 §3 (and the C09 corollaries that live in it)
-/
namespace Pymap.C05
open Pymap.Conn

/-- acceptance depends only on whether the connection is authenticated / has a selection -/
theorem C05_state_only (s s' : St) (c : Cmd)
    (h1 : s.user.isSome = s'.user.isSome) (h2 : s.selected.isSome = s'.selected.isSome) :
    gate s c = gate s' c := by
  cases c <;> simp [gate, Cmd.cls, h1, h2, Option.isNone_iff_eq_none, ← Option.not_isSome_iff_eq_none] <;>
    (try cases hu : s.user <;> cases hu' : s'.user <;> simp_all)

/-- the gate, spelled out per command class -/
theorem C05_gate (s : St) (c : Cmd) (hc : c ≠ .invalid) :
    gate s c = true ↔
      (c.cls = .any) ∨ (c.cls = .nonauth ∧ s.user = none) ∨ (c.cls = .auth ∧ s.user.isSome) ∨
      (c.cls = .select ∧ s.user.isSome ∧ s.selected.isSome) := by
  cases c <;> simp_all [gate, Cmd.cls]

@[simp] theorem count_user (x : Bool) (r : St × Resp) : (count x r).1.user = r.1.user := by
  unfold count; split <;> (try split) <;> (try split) <;> rfl
@[simp] theorem count_selected (x : Bool) (r : St × Resp) : (count x r).1.selected = r.1.selected := by
  unfold count; split <;> (try split) <;> (try split) <;> rfl
theorem count_resp (x : Bool) (r : St × Resp) (h : r.2 ≠ .bad) : (count x r).2 = r.2 := by
  unfold count; split
  · rfl
  · split
    · rename_i hb; exact absurd hb h
    · rfl
theorem count_closed (x : Bool) (r : St × Resp) (h : r.2 ≠ .bad) : (count x r).1.closed = r.1.closed := by
  unfold count; split
  · rfl
  · split
    · rename_i hb; exact absurd hb h
    · rfl

theorem count_ne (x : Bool) (r : St × Resp) (k : Resp) (h1 : k ≠ .bad) (h2 : k ≠ .badBye) (h : r.2 ≠ k) :
    (count x r).2 ≠ k := by
  unfold count; split
  · exact h
  · split
    · split
      · exact fun e => h2 e.symm
      · exact fun e => h1 e.symm
    · exact h

theorem step_user (s : St) (c : Cmd) : (step s c).1.user = if s.closed then s.user else (core s c).1.user := by
  unfold step; split <;> simp
theorem step_selected (s : St) (c : Cmd) :
    (step s c).1.selected = if s.closed then s.selected else (core s c).1.selected := by
  unfold step; split <;> simp

/-- a refused command changes neither who is logged in nor what is selected -/
theorem C05_refused_noop (s : St) (c : Cmd) (h : gate s c = false) :
    (step s c).1.user = s.user ∧ (step s c).1.selected = s.selected := by
  rw [step_user, step_selected]; simp [core, h]

/-- SELECT/EXAMINE: success selects exactly that mailbox in the right mode, failure leaves none selected -/
theorem C05_select (s : St) (name : Nat) (ex : Bool) (be : Option Bool)
    (hc : s.closed = false) (hu : s.user.isSome) :
    (be = none → (step s (.selectCmd name ex be)).2 = .no ∧ (step s (.selectCmd name ex be)).1.selected = none) ∧
    (∀ ro, be = some ro → (step s (.selectCmd name ex be)).2 = .ok ∧
        (step s (.selectCmd name ex be)).1.selected = some (name, ex || ro)) := by
  constructor
  · rintro rfl
    have hcore : core s (.selectCmd name ex none) = ({ s with selected := none }, .no) := by
      simp [core, gate, Cmd.cls, hu, handle]
    simp [step, hc, hcore, count_resp]
  · rintro ro rfl
    have hcore : core s (.selectCmd name ex (some ro)) = ({ s with selected := some (name, ex || ro) }, .ok) := by
      simp [core, gate, Cmd.cls, hu, handle]
    simp [step, hc, hcore, count_resp]

/-- CLOSE always succeeds (read-only or not) and deselects -/
theorem C05_close (s : St) (hc : s.closed = false) (hu : s.user.isSome) (hs : s.selected.isSome) :
    (step s .close).2 = .ok ∧ (step s .close).1.selected = none := by
  have hcore : core s .close = ({ s with selected := none }, .ok) := by
    simp [core, gate, Cmd.cls, hu, hs, handle]
  simp [step, hc, hcore, count_resp]

/-- LOGOUT always ends with BYE then OK and closes -/
theorem C05_logout (s : St) (hc : s.closed = false) :
    (step s .logout).2 = .byeOk ∧ (step s .logout).1.closed = true := by
  have hcore : core s .logout = ({ s with closed := true }, .byeOk) := by
    simp [core, gate, Cmd.cls, handle]
  simp [step, hc, hcore, count_resp, count_closed]

/-- a mutating message command inside a read-only selection is answered NO (C12) -/
theorem C12_readonly_refuses (s : St) (name : Nat) (ok : Bool) (hc : s.closed = false) (hu : s.user.isSome)
    (hs : s.selected = some (name, true)) :
    (step s (.msgCmd true ok)).2 = .no := by
  have hcore : core s (.msgCmd true ok) = (s, .no) := by
    simp [core, gate, Cmd.cls, hu, hs, handle]
  simp [step, hc, hcore, count_resp]

/-- what an accepted command can do to the identity -/
theorem handle_user (s : St) (c : Cmd) (u : Nat) (h : (handle s c).1.user = some u) :
    s.user = some u ∨ c = .login (some u) ∨ c = .authenticate true true (some u) := by
  cases c <;> simp only [handle] at h <;> (try exact Or.inl h)
  · split at h <;> exact Or.inl h
  · rename_i who
    split at h
    · exact Or.inl h
    · cases who with
      | none => exact Or.inl h
      | some w => simp at h; subst h; exact Or.inr (Or.inl rfl)
  · rename_i offered exch who
    cases offered <;> cases exch <;> simp at h <;> (try exact Or.inl h)
    cases who with
    | none => exact Or.inl h
    | some w => simp at h; subst h; exact Or.inr (Or.inr rfl)
  · rename_i name ex be
    cases be <;> exact Or.inl h
  · split at h <;> exact Or.inl h

/-- once authenticated, the identity never changes (C09; D7 repaired) -/
theorem C09_no_reauth (s : St) (u : Nat) (hu : s.user = some u) (cs : List Cmd) : (run s cs).user = some u := by
  induction cs generalizing s with
  | nil => exact hu
  | cons c cs ih =>
    apply ih
    show (step s c).1.user = some u
    rw [step_user]; split
    · exact hu
    · unfold core; split
      · rename_i hg
        -- an accepted command of an authenticated connection is not a nonauth one
        cases c <;> simp_all [gate, Cmd.cls, handle]
        all_goals (try split) <;> simp_all
      · exact hu

/-- **soundness**: a connection is authenticated as `u` only if some LOGIN or SASL exchange in its
history presented credentials the backend accepted for `u` -/
theorem C09_sound (lo tls : Bool) (cs : List Cmd) (u : Nat) (h : (run (St.init lo tls) cs).user = some u) :
    ∃ c ∈ cs, c = .login (some u) ∨ c = .authenticate true true (some u) := by
  have H : ∀ (cs : List Cmd) (s : St), (run s cs).user = some u → s.user = some u ∨
      ∃ c ∈ cs, c = .login (some u) ∨ c = .authenticate true true (some u) := by
    intro cs
    induction cs with
    | nil => intro s hs; exact Or.inl hs
    | cons c cs ih =>
      intro s hs
      rcases ih (step s c).1 hs with h1 | ⟨c', hc', h2⟩
      · rw [step_user] at h1
        split at h1
        · exact Or.inl h1
        · unfold core at h1
          split at h1
          · rcases handle_user s c u h1 with h3 | h3
            · exact Or.inl h3
            · exact Or.inr ⟨c, by simp, h3⟩
          · exact Or.inl h1
      · exact Or.inr ⟨c', by simp [hc'], h2⟩
  rcases H cs _ h with h1 | h1
  · simp [St.init] at h1
  · exact h1

/-- plain-text LOGIN is refused while LOGINDISABLED is advertised, whatever the password -/
theorem C09_logindisabled (s : St) (who : Option Nat) (hl : s.loginOff = true) :
    (step s (.login who)).1.user = s.user ∧ (step s (.login who)).2 ≠ .ok := by
  have hcore : (core s (.login who)).1 = s ∧ (core s (.login who)).2 ≠ .ok := by
    unfold core; split <;> simp [handle, hl]
  constructor
  · rw [step_user]; split <;> simp [hcore.1]
  · unfold step; split
    · simp
    · exact count_ne _ _ _ (by decide) (by decide) hcore.2

/-- non-vacuity: the two sequences that used to misbehave -/
example : (run (St.init false false) [.login (some 7), .authenticate true true (some 8)]).user = some 7 ∧
          (run (St.init false false) [.login (some 7), .selectCmd 1 true (some false), .close]).selected = none := by
  decide

end Pymap.C05

namespace Pymap.C05
open Pymap.Conn

/-- **C09 (failed attempt keeps the state)**: a LOGIN or AUTHENTICATE that does not succeed — wrong
credentials (`who = none`), mechanism not on offer, broken exchange, LOGINDISABLED, or not allowed in
this state — leaves the connection exactly as authenticated (or not) and as selected as before, and is
never answered OK. -/
theorem C09_failed_keeps (s : St) (c : Cmd)
    (hc : c = .login none ∨ (∃ o e, c = .authenticate o e none) ∨ (∃ w, c = .authenticate false true w)
        ∨ (∃ o w, c = .authenticate o false w)) :
    (step s c).1.user = s.user ∧ (step s c).1.selected = s.selected ∧ (step s c).2 ≠ .ok ∧ (step s c).2 ≠ .byeOk := by
  have hcore : (core s c).1 = s ∧ (core s c).2 ≠ .ok ∧ (core s c).2 ≠ .byeOk := by
    rcases hc with rfl | ⟨o, e, rfl⟩ | ⟨w, rfl⟩ | ⟨o, w, rfl⟩
    · unfold core; split <;> simp [handle]
      all_goals (try split) <;> simp
    · unfold core; split <;> simp [handle]; cases o <;> cases e <;> simp
    · unfold core; split <;> simp [handle]
    · unfold core; split <;> simp [handle]; cases o <;> simp
  refine ⟨?_, ?_, ?_, ?_⟩
  · rw [step_user]; split <;> simp [hcore.1]
  · rw [step_selected]; split <;> simp [hcore.1]
  · unfold step; split
    · simp
    · exact count_ne _ _ _ (by decide) (by decide) hcore.2.1
  · unfold step; split
    · simp
    · exact count_ne _ _ _ (by decide) (by decide) hcore.2.2

/-- non-vacuity: a wrong password after a successful STARTTLS on a fresh connection -/
example : (run (St.init true true) [.starttls, .login none]).user = none := by decide

end Pymap.C05
