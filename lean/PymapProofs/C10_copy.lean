import PymapProofs.C10
/-!
# C10 — COPY and MOVE refine the plain reference model

`Session.copyCmd` (one `push` per addressed message that still exists, in view order) and `Session.moveSrc`
(one `pop` per moved message) against `Spec.copy` / `Spec.moveSrc`.
-/
namespace Pymap.C10
open Pymap.Sync Pymap.Mailbox Pymap.Seq Pymap.Session

/-- select the messages whose (1-based position, uid) satisfies `c`, in order -/
def selIdx (c : Nat → Nat → Bool) : Nat → List Msg → List Msg
  | _, [] => []
  | k, m :: r => if c k m.uid then m :: selIdx c (k + 1) r else selIdx c (k + 1) r

/-- the destination after a run of pushes: the old messages, then the copies under consecutive UIDs -/
theorem abs_copyInto (recent : Bool) : ∀ (ms : List Msg) (dst : MBox),
    abs (copyInto dst recent ms).1 = abs dst ++ Spec.renumber (dst.maxUid + 1) (ms.map toS) ∧
    (copyInto dst recent ms).2 = List.range' (dst.maxUid + 1) ms.length
  | [], dst => by simp [copyInto, Spec.renumber]
  | m :: ms, dst => by
    have ih := abs_copyInto recent ms (push dst m.flags recent m.cid m.date).1
    simp only [copyInto]
    have hmax : (push dst m.flags recent m.cid m.date).1.maxUid = dst.maxUid + 1 := rfl
    have habs : abs (push dst m.flags recent m.cid m.date).1 = abs dst ++ [⟨dst.maxUid + 1, m.flags, m.cid, m.date⟩] := by
      simp [push, abs, toS]
    have h2 : (push dst m.flags recent m.cid m.date).2 = dst.maxUid + 1 := rfl
    rw [hmax] at ih
    constructor
    · rw [ih.1, habs]
      simp [Spec.renumber, toS, List.append_assoc]
    · rw [ih.2, h2]
      simp [List.range'_succ]

/-- `zipIdx`-`filterMap` over the uid column, then `find` in the whole mailbox = positional selection -/
theorem find_targets (b : MBox) (hnd : b.uids.Nodup) (c : Nat → Nat → Bool) :
    ∀ (l : List Msg) (k : Nat), (∀ m ∈ l, m ∈ b.msgs) →
    (((l.map (·.uid)).zipIdx k).filterMap (fun (p : Nat × Nat) => if c p.2 p.1 then some (p.2, p.1) else none)
        |>.map (·.2)).filterMap b.find = selIdx c k l
  | [], _, _ => by simp [selIdx]
  | m :: r, k, hm => by
    have ih := find_targets b hnd c r (k + 1) (fun x hx => hm x (List.mem_cons_of_mem _ hx))
    have hfind : b.find m.uid = some m := find?_uid_of_mem b.msgs hnd m (hm m (by simp))
    simp only [List.map_cons, List.zipIdx_cons, List.filterMap_cons, selIdx]
    by_cases hc : c k m.uid = true
    · simp only [hc, if_true, List.map_cons, List.filterMap_cons, hfind]
      rw [ih]
    · have hc' : c k m.uid = false := by simpa using hc
      simp only [hc', Bool.false_eq_true, if_false]
      rw [ih]

theorem selIdx_toS (c : Nat → Nat → Bool) : ∀ (l : List Msg) (k : Nat),
    (selIdx c (k + 1) l).map toS = Spec.filterIdx (fun i m => c (i + 1) m.uid) k (l.map toS)
  | [], _ => by simp [selIdx, Spec.filterIdx]
  | m :: r, k => by
    simp only [selIdx, List.map_cons, Spec.filterIdx]
    have ih := selIdx_toS c r (k + 1)
    have hu : (toS m).uid = m.uid := rfl
    rw [hu]
    split <;> simp [ih]

theorem filterIdx_congr (p q : Nat → Spec.SMsg → Bool) : ∀ (l : Spec.SBox) (k : Nat),
    (∀ i (hi : i < l.length), p (k + i) l[i] = q (k + i) l[i]) → Spec.filterIdx p k l = Spec.filterIdx q k l
  | [], _, _ => rfl
  | m :: r, k, h => by
    simp only [Spec.filterIdx]
    have h0 := h 0 (by simp)
    simp only [Nat.add_zero, List.getElem_cons_zero] at h0
    have ih := filterIdx_congr p q r (k + 1) (fun i hi => by
      have := h (i + 1) (by simp; omega)
      simpa [Nat.add_assoc, Nat.add_comm 1 i] using this)
    rw [h0, ih]

/-- what a COPY/MOVE reads from the source is exactly what the reference model addresses -/
theorem sourceMsgs_spec (b : MBox) (v : View) (hs : Synced b v) (byUid : Bool) (set : List Elem) :
    (sourceMsgs b v byUid set).map toS = Spec.addressedMsgs (abs b) byUid set := by
  unfold sourceMsgs Spec.addressedMsgs targets
  have hsorted : v.sorted = b.msgs.map (·.uid) := by rw [hs.sorted]; rfl
  cases byUid with
  | false =>
    simp only [Bool.false_eq_true, if_false]
    unfold getBySeq
    rw [hsorted]
    have := find_targets b hs.nodup (fun s _ => (flatten v.uids.length set).contains s) b.msgs 1 (fun m hm => hm)
    rw [this]
    have h2 := selIdx_toS (fun s _ => (flatten v.uids.length set).contains s) b.msgs 0
    simp only [Nat.zero_add] at h2
    rw [h2]
    apply filterIdx_congr
    intro i hi
    simp only [Nat.zero_add, Spec.addressed, Bool.false_eq_true, if_false]
    have hlen : (abs b).length = v.uids.length := by rw [hs.len]; simp [abs, MBox.uids]
    show (flatten v.uids.length set).contains (i + 1) = (flatten (abs b).length set).contains (i + 1)
    rw [hlen]
  | true =>
    simp only [if_true]
    unfold getByUid
    rw [hsorted]
    have := find_targets b hs.nodup
      (fun _ u => (flatten ((b.msgs.map (·.uid)).getLastD 0) set).contains u && v.uids.contains u) b.msgs 1 (fun m hm => hm)
    rw [this]
    have h2 := selIdx_toS (fun _ u => (flatten ((b.msgs.map (·.uid)).getLastD 0) set).contains u && v.uids.contains u) b.msgs 0
    simp only [Nat.zero_add] at h2
    rw [h2]
    apply filterIdx_congr
    intro i hi
    simp only [Nat.zero_add, Spec.addressed, if_true]
    have hlast : ((abs b).map (·.uid)).getLastD 0 = (b.msgs.map (·.uid)).getLastD 0 := by rw [abs_uid]; rfl
    rw [hlast]
    have hmem : v.uids.contains ((abs b)[i]).uid = true := by
      have hi' : i < b.uids.length := by simpa [abs, MBox.uids] using hi
      rw [abs_getElem_uid b i hi]
      simpa using (hs.uids _).2 (List.getElem_mem hi')
    have hib : i < b.msgs.length := by simpa using hi
    have hmem' : (toS (b.msgs[i]'hib)).uid ∈ v.uids := by simpa [abs] using hmem
    simp only [abs, List.getElem_map] at hmem ⊢
    simp
    intro _
    exact hmem'

/-- **COPY refines the reference model**: the destination gains a copy of every addressed message — same flags,
date and content — under the next UIDs, in order; nothing else in the destination changes -/
theorem C10_copy_refines (src dst : MBox) (v : View) (hs : Synced src v) (byUid : Bool) (set : List Elem) (recent : Bool) :
    abs (copyCmd src dst v byUid set recent).1 = Spec.copy (abs src) (abs dst) (dst.maxUid + 1) byUid set := by
  unfold copyCmd Spec.copy
  rw [(abs_copyInto recent _ dst).1, sourceMsgs_spec src v hs]

/-- the UIDs handed out by a COPY are consecutive from the destination's next UID (COPYUID's second set) -/
theorem C10_copy_uids (src dst : MBox) (v : View) (byUid : Bool) (set : List Elem) (recent : Bool) :
    (copyCmd src dst v byUid set recent).2 = List.range' (dst.maxUid + 1) (sourceMsgs src v byUid set).length :=
  (abs_copyInto recent _ dst).2

example : abs (copyCmd (push (push MBox.new [3] false 1 0).1 [] false 2 0).1 MBox.new
    ⟨[102, 101], [101, 102], [(101, 1), (102, 2)], [], []⟩ false [.range .star (.num 1)] false).1
    = [⟨101, [3], 1, 0⟩, ⟨102, [], 2, 0⟩] := by decide

end Pymap.C10

namespace Pymap.C10
open Pymap.Sync Pymap.Mailbox Pymap.Seq Pymap.Session

theorem abs_pop (b : MBox) (u : Nat) : abs (pop b u).1 = (abs b).filter (fun m => m.uid != u) := by
  unfold pop
  cases h : b.find u with
  | none =>
    simp only []
    have hall : ∀ m ∈ b.msgs, (m.uid == u) = false := by
      intro m hm
      have := List.find?_eq_none.1 h m hm
      simpa using this
    symm
    rw [List.filter_eq_self]
    intro m hm
    simp only [abs, List.mem_map] at hm
    obtain ⟨m0, hm0, rfl⟩ := hm
    have := hall m0 hm0
    simp only [toS, bne, this, Bool.not_false]
  | some m =>
    simp only [abs, List.filter_map]
    rfl

theorem abs_moveSrc (us : List Nat) : ∀ (b : MBox),
    abs (Session.moveSrc b us) = (abs b).filter (fun m => !(us.contains m.uid)) := by
  induction us with
  | nil =>
    intro b
    have : (fun (m : Spec.SMsg) => !(([] : List Nat).contains m.uid)) = fun _ => true := by funext m; simp
    rw [this]; exact (List.filter_eq_self.2 (fun _ _ => rfl)).symm
  | cons u us ih =>
    intro b
    have : Session.moveSrc b (u :: us) = Session.moveSrc (pop b u).1 us := rfl
    rw [this, ih, abs_pop, List.filter_filter]
    apply List.filter_congr
    intro m _
    simp only [List.contains_cons, Bool.not_or, bne]
    rw [Bool.and_comm]

theorem mem_filterIdx (p : Nat → Spec.SMsg → Bool) : ∀ (l : Spec.SBox) (k : Nat) (m : Spec.SMsg),
    m ∈ Spec.filterIdx p k l → m ∈ l
  | [], _, _, h => by simp [Spec.filterIdx] at h
  | x :: r, k, m, h => by
    simp only [Spec.filterIdx] at h
    split at h
    · simp only [List.mem_cons] at h ⊢
      rcases h with h | h
      · exact Or.inl h
      · exact Or.inr (mem_filterIdx p r (k + 1) m h)
    · exact List.mem_cons_of_mem _ (mem_filterIdx p r (k + 1) m h)

/-- removing "every uid the selection produced" = keeping the positions the selection skipped (uids are unique) -/
theorem filter_not_selected (p : Nat → Spec.SMsg → Bool) : ∀ (l : Spec.SBox) (k : Nat) (E : List Nat),
    (l.map (·.uid)).Nodup → (∀ m ∈ l, m.uid ∉ E) →
    l.filter (fun m => !((E ++ (Spec.filterIdx p k l).map (·.uid)).contains m.uid))
      = Spec.filterIdx (fun i m => !(p i m)) k l
  | [], _, _, _, _ => by simp [Spec.filterIdx]
  | x :: r, k, E, hnd, hE => by
    simp only [List.map_cons, List.nodup_cons] at hnd
    have hxr : ∀ m ∈ r, m.uid ≠ x.uid := fun m hm e => hnd.1 (by rw [← e]; exact List.mem_map.2 ⟨m, hm, rfl⟩)
    simp only [Spec.filterIdx]
    by_cases hp : p k x = true
    · simp only [hp, if_true, List.map_cons, Bool.not_true, Bool.false_eq_true, if_false]
      have hin : (E ++ x.uid :: (Spec.filterIdx p (k + 1) r).map (·.uid)).contains x.uid = true := by simp
      rw [List.filter_cons]
      simp only [hin, Bool.not_true, Bool.false_eq_true, if_false]
      have ih := filter_not_selected p r (k + 1) (E ++ [x.uid]) hnd.2 (fun m hm => by
        have h1 := hE m (List.mem_cons_of_mem _ hm)
        have h2 := hxr m hm
        simp [h1, h2])
      simpa [List.append_assoc] using ih
    · have hp' : p k x = false := by simpa using hp
      simp only [hp', Bool.false_eq_true, if_false, Bool.not_false, if_true]
      have hnot : (E ++ (Spec.filterIdx p (k + 1) r).map (·.uid)).contains x.uid = false := by
        rw [Bool.eq_false_iff]
        intro hc
        simp only [List.contains_iff_mem, List.mem_append, List.mem_map] at hc
        rcases hc with hc | ⟨m, hm, hmu⟩
        · exact hE x (by simp) hc
        · exact hxr m (mem_filterIdx p r (k + 1) m hm) hmu
      rw [List.filter_cons]
      simp only [hnot, Bool.not_false, if_true]
      rw [filter_not_selected p r (k + 1) E hnd.2 (fun m hm => hE m (List.mem_cons_of_mem _ hm))]

/-- **MOVE refines the reference model** on the source side: exactly the addressed messages leave, everything else
keeps its place (the destination side is `C10_copy_refines`) -/
theorem C10_move_refines (src : MBox) (v : View) (hs : Synced src v) (byUid : Bool) (set : List Elem) :
    abs (Session.moveSrc src ((sourceMsgs src v byUid set).map (·.uid))) = Spec.moveSrc (abs src) byUid set := by
  rw [abs_moveSrc]
  have hsrc : (sourceMsgs src v byUid set).map (·.uid) = (Spec.addressedMsgs (abs src) byUid set).map (·.uid) := by
    rw [← sourceMsgs_spec src v hs, List.map_map]; rfl
  rw [hsrc]
  unfold Spec.moveSrc Spec.addressedMsgs
  have hnd : ((abs src).map (·.uid)).Nodup := by rw [abs_uid]; exact hs.nodup
  have := filter_not_selected (Spec.addressed (abs src) byUid set) (abs src) 0 [] hnd (fun _ _ => by simp)
  simpa using this

example : abs (Session.moveSrc (push (push MBox.new [3] false 1 0).1 [] false 2 0).1
    ((sourceMsgs (push (push MBox.new [3] false 1 0).1 [] false 2 0).1
      ⟨[102, 101], [101, 102], [(101, 1), (102, 2)], [], []⟩ true [.one (.num 101)]).map (·.uid)))
    = [⟨102, [], 2, 0⟩] := by decide

end Pymap.C10
