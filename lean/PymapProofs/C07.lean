import PymapProofs.Lemmas.Grammar
/-!
# C07 — every response is well-formed IMAP (structural grammar)
-/
namespace Pymap.C07
open Pymap.Grammar Pymap.Wire

theorem scan_literal_bin (v rest : List Nat) (f : Nat) (st : List Nat) (tok : Bool)
    (hf : (serLiteral true v ++ rest).length < f) :
    scan f st tok (serLiteral true v ++ rest) = scan (rest.length + 1) st true rest := by
  cases f with
  | zero => omega
  | succ f =>
    have e : serLiteral true v ++ rest = 126 :: (serLiteral false v ++ rest) := by simp [serLiteral]
    have e2 : (serLiteral false v ++ rest).head? = some lc := by simp [serLiteral, lc]
    rw [e, scan.eq_def]
    simp only [e2, if_true]
    have n1 : ¬ (126 : Nat) = 13 := by decide
    have n2 : ¬ (126 : Nat) = 32 := by decide
    have n3 : ¬ ((126 : Nat) = lp ∨ (126 : Nat) = lb) := by decide
    have n4 : ¬ (126 : Nat) = rp := by decide
    have n5 : ¬ (126 : Nat) = rb := by decide
    have n6 : ¬ (126 : Nat) = dq := by decide
    have n7 : ¬ (126 : Nat) = lc := by decide
    simp only [n1, n2, n3, n4, n5, n6, n7, if_false, if_true]
    apply scan_literal
    rw [e] at hf; simp at hf ⊢; omega

/-- whatever `String.build` makes of a value — quoted or literal — is skipped -/
theorem scan_str (binary : Bool) (v rest : List Nat) (f : Nat) (st : List Nat) (tok : Bool)
    (hf : (buildString binary v ++ rest).length < f) :
    scan f st tok (buildString binary v ++ rest) = scan (rest.length + 1) st true rest := by
  by_cases he : v.isEmpty = true
  · simp only [buildString, he, if_true] at hf ⊢
    exact scan_quoted [] rest (by simp) f st tok hf
  · by_cases hc : (!binary && decide (v.length < 64) && !(v.contains 10) && !(v.contains 0) && !(v.contains 13)) = true
    · simp only [buildString, he, hc, if_true, Bool.false_eq_true, if_false] at hf ⊢
      simp only [Bool.and_eq_true, Bool.not_eq_true', decide_eq_true_eq] at hc
      apply scan_quoted v rest _ f st tok hf
      intro b hb
      refine ⟨?_, ?_, ?_⟩
      · intro e; subst e; have := hc.2; simp_all
      · intro e; subst e; have := hc.1.1.2; simp_all
      · intro e; subst e; have := hc.1.2; simp_all
    · simp only [buildString, he, hc, Bool.false_eq_true, if_false] at hf ⊢
      cases binary with
      | true => exact scan_literal_bin v rest f st tok hf
      | false => exact scan_literal v rest f st tok hf

mutual
def validItem : Item → Bool
  | .atom s => !s.isEmpty && s.all tokByte
  | .str _ _ => true
  | .group _ xs => validItems xs
def validItems : List Item → Bool
  | [] => true
  | x :: r => validItem x && validItems r
end

mutual
theorem scan_item : ∀ (x : Item), validItem x = true → ∀ (f : Nat) (st : List Nat) (tok : Bool) (rest : List Nat),
    (serItem x ++ rest).length < f → scan f st tok (serItem x ++ rest) = scan (rest.length + 1) st true rest
  | .atom s, hv, f, st, tok, rest, hf => by
    simp only [validItem, Bool.and_eq_true, Bool.not_eq_true', List.all_eq_true] at hv
    simp only [serItem] at hf ⊢
    exact scan_atom s (by cases s <;> simp_all) hv.2 f st tok rest hf
  | .str b v, _, f, st, tok, rest, hf => by
    simp only [serItem] at hf ⊢
    exact scan_str b v rest f st tok hf
  | .group sq xs, hv, f, st, tok, rest, hf => by
    simp only [validItem] at hv
    cases f with
    | zero => omega
    | succ f =>
      simp only [serItem, List.cons_append, List.append_assoc, List.nil_append] at hf ⊢
      cases sq with
      | false =>
        simp only [Bool.false_eq_true, if_false] at hf ⊢
        rw [scan.eq_def]
        have n1 : ¬ lp = 13 := by decide
        have n2 : ¬ lp = 32 := by decide
        simp only [n1, n2, if_false, true_or, if_true]
        rw [scan_items xs hv f (lp :: st) rp rest (by simp at hf ⊢; omega)]
        -- now the closing parenthesis
        rw [scan.eq_def]
        have m1 : ¬ rp = 13 := by decide
        have m2 : ¬ rp = 32 := by decide
        have m3 : ¬ (rp = lp ∨ rp = lb) := by decide
        simp only [m1, m2, m3, if_false, if_true, List.head?_cons, List.tail_cons, decide_true, Bool.true_and]
        exact scan_norm _ st true rest (by simp)
      | true =>
        simp only [if_true] at hf ⊢
        rw [scan.eq_def]
        have n1 : ¬ lb = 13 := by decide
        have n2 : ¬ lb = 32 := by decide
        simp only [n1, n2, if_false, or_true, if_true]
        rw [scan_items xs hv f (lb :: st) rb rest (by simp at hf ⊢; omega)]
        rw [scan.eq_def]
        have m1 : ¬ rb = 13 := by decide
        have m2 : ¬ rb = 32 := by decide
        have m3 : ¬ (rb = lp ∨ rb = lb) := by decide
        have m4 : ¬ rb = rp := by decide
        simp only [m1, m2, m3, m4, if_false, if_true, List.head?_cons, List.tail_cons, decide_true, Bool.true_and]
        exact scan_norm _ st true rest (by simp)
/-- the items of a group, up to (not including) the closing bracket `cl`; afterwards `tok` is whatever
lets `cl` follow: an empty group leaves `tok = false`, which `)`/`]` accept -/
theorem scan_items : ∀ (xs : List Item), validItems xs = true → ∀ (f : Nat) (st : List Nat) (cl : Nat) (rest : List Nat),
    (serItems xs ++ cl :: rest).length < f →
    scan f st false (serItems xs ++ cl :: rest) = scan ((cl :: rest).length + 1) st (!xs.isEmpty) (cl :: rest)
  | [], _, f, st, cl, rest, hf => by
    simp only [serItems, List.nil_append] at hf ⊢
    exact scan_norm f st false (cl :: rest) hf
  | [x], hv, f, st, cl, rest, hf => by
    simp only [validItems, Bool.and_true] at hv
    simp only [serItems] at hf ⊢
    exact scan_item x hv f st false (cl :: rest) hf
  | x :: y :: r, hv, f, st, cl, rest, hf => by
    simp only [validItems, Bool.and_eq_true] at hv
    simp only [serItems, List.append_assoc, List.cons_append] at hf ⊢
    rw [scan_item x hv.1 f st false _ hf]
    -- the separating space
    rw [scan.eq_def]
    have n1 : ¬ (32 : Nat) = 13 := by decide
    simp only [n1, if_false, if_true, Bool.true_and]
    have hv' : validItems (y :: r) = true := by simp only [validItems, Bool.and_eq_true]; exact hv.2
    have := scan_items (y :: r) hv' ((serItems (y :: r) ++ cl :: rest).length + 1) st cl rest (by omega)
    simpa using this
end

/-- **Well-formedness.** Every line pymap writes — whatever mailbox names, flags, header values, MIME
parameters or nesting shapes went into it — is accepted by the strict recogniser: balanced lists,
quoted strings free of CR/LF/NUL with only `\"`/`\\` escapes, literal lengths equal to the bytes that
follow, CRLF-terminated, no stray or trailing spaces. -/
theorem C07_wellformed (xs : List Item) (hne : xs ≠ []) (hv : validItems xs = true) : wf (serLine xs) = true := by
  unfold wf serLine
  have h := scan_items xs hv ((serItems xs ++ [13, 10]).length + 1) [] 13 [10] (by simp)
  have e : serItems xs ++ [13, 10] = serItems xs ++ 13 :: [10] := rfl
  rw [e, h]
  have hx : (!xs.isEmpty) = true := by cases xs <;> simp_all
  rw [hx, scan.eq_def]
  simp [scan]

/-- non-vacuity: `* L () "/" <a"␍b>` — the value with a quote and a bare CR goes out as a literal -/
example : wf (serLine [.atom [42], .atom [76], .group false [], .str false [47], .str false [97, 34, 13, 98]]) = true :=
  C07_wellformed _ (by simp) (by decide)

end Pymap.C07
