import PymapModel.Structure
/-!
# C07 — ENVELOPE and BODYSTRUCTURE values follow their grammar

For every message structure — any nesting of multiparts and embedded messages, any number of addresses, parameters, with or
without Content-Disposition / language / location — what the server writes is an `envelope` / a `body` of RFC 3501 section 9.
-/
namespace Pymap.C07
open Pymap.Structure

theorem all_replicate {α : Type} (p : α → Bool) (a : α) (h : p a = true) : ∀ n, (List.replicate n a).all p = true
  | 0 => rfl
  | n + 1 => by simp [List.replicate, h, all_replicate p a h n]

theorem isParams_paramsT (n : Nat) : isParams (paramsT n) = true := by
  unfold paramsT
  by_cases h : n = 0
  · simp [h, isParams]
  · simp only [h, if_false, isParams]
    have h1 : (List.replicate (2 * n) (T.str 0)).isEmpty = false := by
      cases n with
      | zero => exact absurd rfl h
      | succ k => simp [Nat.mul_succ, List.replicate]
    have h2 : (List.replicate (2 * n) (T.str 0)).length % 2 = 0 := by simp
    have h3 := all_replicate isString (T.str 0) rfl (2 * n)
    simp [h1, h2, h3]

theorem isDsp_dspT (d : Option Nat) : isDsp (dspT d) = true := by
  cases d with
  | none => rfl
  | some n => simp [dspT, isDsp, isString, isParams_paramsT]

theorem extOk_extT (h : Hdr) : extOk (extT h) = true := by
  unfold extT extOk
  simp only [isDsp_dspT, Bool.true_and]
  cases h.lang <;> cases h.loc <;> simp [isLang, isNString]

theorem isAddrList_addrList (n : Nat) : isAddrList (addrList n) = true := by
  unfold addrList
  by_cases h : n = 0
  · simp [h, isAddrList]
  · simp only [h, if_false, isAddrList]
    have h1 : (List.replicate n addr).isEmpty = false := by
      cases n with
      | zero => exact absurd rfl h
      | succ k => simp [List.replicate]
    have h3 := all_replicate isAddr addr (by simp [addr, isAddr, isNString]) n
    simp [h1, h3]

/-- **ENVELOPE**: an address field is NIL or a non-empty list of four-field addresses, whatever the headers held -/
theorem C07_envelope (e : Env) : isEnvelope (renderEnv e) = true := by
  simp [renderEnv, isEnvelope, isNString, isAddrList_addrList]

theorem render_list : ∀ (p : Part), ∃ l, render p = .list l
  | .basic h => by rw [render]; exact ⟨_, rfl⟩
  | .text h => by rw [render]; exact ⟨_, rfl⟩
  | .msg h e inner => by rw [render]; exact ⟨_, rfl⟩
  | .multi h f r => by rw [render]; exact ⟨_, rfl⟩

theorem renderEnv_list (e : Env) : ∃ l, renderEnv e = .list l := ⟨_, rfl⟩

theorem tail_ok (h : Hdr) : (match (T.nil :: extT h) with | [] => true | md5 :: x => isNString md5 && extOk x) = true := by
  simp [isNString, extOk_extT]

mutual
/-- **BODYSTRUCTURE**: every part structure is rendered as a `body` -/
theorem C07_body : ∀ (p : Part), isBody (render p) = true
  | .basic h => by
    simp only [render, List.cons_append, List.nil_append, isBody]
    simp [isParams_paramsT, isNString, isString, isNum, extOk_extT]
  | .text h => by
    simp only [render, List.cons_append, List.nil_append, isBody]
    simp [isParams_paramsT, isNString, isString, isNum, extOk_extT]
  | .msg h e inner => by
    obtain ⟨b, hb⟩ := render_list inner
    obtain ⟨el, he⟩ := renderEnv_list e
    have ih := C07_body inner
    have hen := C07_envelope e
    simp only [render, List.cons_append, List.nil_append, hb, he, isBody]
    rw [hb] at ih; rw [he] at hen
    simp [isParams_paramsT, isNString, isString, isNum, extOk_extT, ih, hen]
  | .multi h first rest => by
    obtain ⟨b, hb⟩ := render_list first
    have ih := C07_body first
    have it := multiTail_renderAll rest h
    rw [hb] at ih
    rw [render, hb, isBody.eq_1, ih, it]; rfl
theorem multiTail_renderAll : ∀ (ps : List Part) (h : Hdr),
    multiTail (renderAll ps ++ (T.str 0 :: paramsT h.params :: extT h)) = true
  | [], h => by simp [renderAll, multiTail, isParams_paramsT, extOk_extT]
  | p :: r, h => by
    obtain ⟨b, hb⟩ := render_list p
    have ih := C07_body p
    have it := multiTail_renderAll r h
    simp only [renderAll, List.cons_append, hb, multiTail]
    rw [hb] at ih
    simp [ih, it]
end

-- non-vacuity: a multipart holding a text part and an embedded message that holds a multipart
example : isBody (render (.multi ⟨1, some 1, true, false⟩ (.text ⟨0, none, false, false⟩)
    [.msg ⟨0, some 0, false, true⟩ ⟨1, 0, 0, 2, 0, 0⟩ (.multi ⟨2, none, false, false⟩ (.basic ⟨0, none, false, false⟩) [])])) = true := by
  decide
-- and the shapes the code used to write are rejected by the recogniser
example : isEnvelope (.list [.nil, .str 0, .nil, .nil, .nil, .list [], .nil, .nil, .nil, .nil]) = false := by decide
example : isBody (.list [.str 1, .str 0, .nil, .nil, .nil, .str 0, .num, .num, .nil, .str 0, .nil, .nil]) = false := by decide

end Pymap.C07
