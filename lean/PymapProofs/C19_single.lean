import PymapModel.SieveSingle
/-!
# C19 on the one-script store: what was acknowledged holds
-/
namespace Pymap.C19
open Pymap.Sieve Pymap.SieveSingle

/-- a PUTSCRIPT that was answered OK is followed by GETSCRIPT returning those bytes and LISTSCRIPTS showing the name -/
theorem C19_single_put_get (maxLen : Nat) (slot : Slot) (n : Name) (s : Script)
    (h : (SieveSingle.runState maxLen slot (.putscript n s)).2 = .ok) :
    let slot' := (SieveSingle.runState maxLen slot (.putscript n s)).1
    (SieveSingle.runState maxLen slot' (.getscript n)).2 = .script s ∧
    (SieveSingle.runState maxLen slot' .listscripts).2 = .list [(n, true)] := by
  simp only [SieveSingle.runState] at h ⊢
  by_cases hl : s.length ≤ maxLen
  · by_cases hn : n = permanent
    · subst hn; simp [hl]
    · simp [hl, hn] at h
  · simp [hl] at h

/-- a command that is not answered OK leaves the store as it was; GETSCRIPT, LISTSCRIPTS, HAVESPACE and CHECKSCRIPT never change it -/
theorem C19_single_refused_unchanged (maxLen : Nat) (slot : Slot) (c : Cmd)
    (h : isOk (SieveSingle.runState maxLen slot c).2 = false) : (SieveSingle.runState maxLen slot c).1 = slot := by
  cases c <;> simp only [SieveSingle.runState] at h ⊢ <;> (try rfl)
  all_goals (repeat' split) <;> simp_all [isOk]

/-- GETSCRIPT and LISTSCRIPTS answer from the view: exactly the acknowledged map -/
theorem C19_single_reads (maxLen : Nat) (slot : Slot) (n : Name) :
    (SieveSingle.runState maxLen slot (.getscript n)).2 = (match dget n (view slot) with | some s => .script s | none => .no "NONEXISTENT") ∧
    (SieveSingle.runState maxLen slot .listscripts).2 = .list ((view slot).map (fun p => (p.1, true))) := by
  cases slot with
  | none => simp [SieveSingle.runState, view, dget]
  | some s =>
    by_cases hn : n = permanent
    · subst hn; simp [SieveSingle.runState, view, dget]
    · simp [SieveSingle.runState, view, dget, hn]

/-- SETACTIVE and DELETESCRIPT are acknowledged only for a stored script -/
theorem C19_single_no_ghosts (maxLen : Nat) (slot : Slot) (n : Name) :
    ((SieveSingle.runState maxLen slot (.setactive (some n))).2 = .ok → (dget n (view slot)).isSome) ∧
    ((SieveSingle.runState maxLen slot (.deletescript n)).2 = .ok → (dget n (view slot)).isSome) := by
  cases slot with
  | none => simp [SieveSingle.runState, view, dget]
  | some s =>
    by_cases hn : n = permanent
    · subst hn; simp [SieveSingle.runState, view, dget]
    · simp [SieveSingle.runState, view, dget, hn]

/-- **as found (D80)**: the one script is listed ACTIVE and DELETESCRIPT of it is nevertheless answered OK — the clause "the active
script cannot be deleted" of C19 does not hold for this store -/
theorem single_delete_active_as_found (maxLen : Nat) (s : Script) :
    (SieveSingle.runState maxLen (some s) .listscripts).2 = .list [(permanent, true)] ∧
    (SieveSingle.runState maxLen (some s) (.deletescript permanent)).2 = .ok := by
  simp [SieveSingle.runState]

end Pymap.C19
