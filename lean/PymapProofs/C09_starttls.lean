import PymapModel.StartTls
/-!
# C09 / C05 — nothing written in clear text behind STARTTLS is acted on inside TLS
-/
namespace Pymap.C05
open Pymap.Conn

/-- **No injection.** Whatever a client (or somebody in the middle) writes in clear text behind a STARTTLS that is answered OK has
no effect at all on the protected session: the state after the handshake and everything sent inside TLS is the state that STARTTLS
and the TLS traffic alone produce. -/
theorem C09_starttls_no_injection (s : St) (segment after : List Cmd) (h : (step s .starttls).2 = .ok) :
    runAcross true s segment after = run (step s .starttls).1 after := by
  simp [runAcross, h]

/-- **as found (D82)**: a LOGIN that travelled in clear text while LOGINDISABLED was advertised authenticates the connection
— the clear-text segment is read with the capabilities of the protected session -/
theorem starttls_injection_as_found :
    (St.init true true).loginOff = true ∧
    (runAcross false (St.init true true) [.login (some 1)] []).user = some 1 ∧
    (runAcross true (St.init true true) [.login (some 1)] []).user = none := by decide

end Pymap.C05
