import PymapModel.Loop
/-!
# C06 — every input is answered (the dispatch-loop part)
-/
namespace Pymap.C06
open Pymap.Loop

/-- **Answered.** Whatever way the processing of a command line ends, something is written for it: a
tagged completion, or a BYE; and the connection is never closed without a BYE having been written. -/
theorem C06_answered (s : St) (o : Outcome) :
    let r := handle s o
    r.1 ≠ [] ∧ (r.2.1 = false → (Wire.bye ∈ r.1 ∨ Wire.byeServerBug ∈ r.1)) := by
  cases o <;> simp [handle] <;> (try split) <;> (try split) <;> (try split) <;> simp_all

/-- an internal-error BYE is written only for the two outcome classes that *are* internal errors;
every modelled outcome class gets a tagged completion or an ordinary BYE -/
theorem C06_no_serverbug (s : St) (o : Outcome) (h1 : o ≠ .other) (h2 : o ≠ .writeFails) :
    Wire.byeServerBug ∉ (handle s o).1 := by
  cases o <;> simp [handle] <;> (try split) <;> (try split) <;> (try split) <;> simp_all

/-- a command line whose processing ends normally (response or `ResponseError`) gets its tagged completion -/
theorem C06_tagged (s : St) (o : Outcome)
    (h : ∃ b t, o = .resp b t ∨ o = .responseError t ∨ o = .authError ∨ o = .timeout) :
    Wire.tagged ∈ (handle s o).1 := by
  obtain ⟨b, t, h⟩ := h
  rcases h with rfl | rfl | rfl | rfl <;> simp [handle] <;> (try split) <;> (try split) <;> (try split) <;> simp

example : handle ⟨4⟩ (.resp true false) = ([.bye, .tagged], false, ⟨5⟩) := by decide

end Pymap.C06
