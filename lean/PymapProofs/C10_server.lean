import PymapModel.Server
import PymapProofs.C10_copy
/-!
# C10 — the command-level server model runs COPY / MOVE through `Session.copyCmd` / `Session.moveSrc`

`Server.copyMove` is what the wire-level correspondence compares with the implementation; for two distinct mailboxes its effect
on the mailboxes is literally `copyCmd` on the destination and `moveSrc` on the source (up to the canonical flag order the server
model stores), so `C10_copy_refines` / `C10_move_refines` speak about the tied model.
-/
namespace Pymap.C10
open Pymap.Sync Pymap.Mailbox Pymap.Seq Pymap.Session Pymap.Server

theorem box_setSel (s : Srv) (i : Nat) (x : Option Sel) (b : Nat) : (s.setSel i x).box b = s.box b := rfl

theorem boxes_setSel (s : Srv) (i : Nat) (x : Option Sel) : (s.setSel i x).boxes = s.boxes := rfl

theorem boxes_addRecentTo (s : Srv) (j : Option Nat) (u : Nat) : (addRecentTo s j u).boxes = s.boxes := by
  unfold addRecentTo
  cases j with
  | none => rfl
  | some j => simp only []; split <;> rfl

theorem boxes_fold_addRecentTo (j : Option Nat) : ∀ (us : List Nat) (s : Srv),
    (us.foldl (fun acc du => addRecentTo acc j du) s).boxes = s.boxes
  | [], _ => rfl
  | u :: us, s => by
    simp only [List.foldl_cons]
    rw [boxes_fold_addRecentTo j us, boxes_addRecentTo]

theorem box_setBox_same (s : Srv) (b : Nat) (m : MBox) (h : b < s.boxes.length) : (s.setBox b m).box b = normBox m := by
  simp [Srv.setBox, Srv.box, List.getD, h]

theorem box_setBox_ne (s : Srv) (b c : Nat) (m : MBox) (h : c ≠ b) : (s.setBox b m).box c = s.box c := by
  simp [Srv.setBox, Srv.box, List.getD, List.getElem?_set, Ne.symm h]

theorem boxes_finish (s : Srv) (i : Nat) (x : Sel) (hide withUid : Bool) (sil : List (Nat × List Nat)) (st : Status) (code : String)
    (f : List Nat → List Item) : (finish s i x hide withUid sil st code f).1.boxes = s.boxes := rfl

/-- **the tied server model copies and moves by `copyCmd` / `moveSrc`** (distinct mailboxes; the same-mailbox case is a plain
fold of `push`/`pop` covered by the correspondence only) -/
theorem C10_server_copyMove (s : Srv) (i : Nat) (move byUid : Bool) (set : List Elem) (dest pick : Nat) (x : Sel)
    (hsel : s.sel i = some x) (hro : (move && x.ro) = false) (hd : dest < s.boxes.length) (hx : x.box < s.boxes.length)
    (hne : dest ≠ x.box) :
    let r := (copyMove s i move byUid set dest pick).1
    r.box dest = normBox (copyCmd (s.box x.box) (s.box dest) x.view byUid set (pickDest s i dest pick).isNone).1 ∧
    r.box x.box = if move then normBox (moveSrc (s.box x.box) ((sourceMsgs (s.box x.box) x.view byUid set).map (·.uid)))
                  else s.box x.box := by
  intro r
  have hnd : ¬ (dest ≥ s.boxes.length) := by omega
  -- whatever the tail of the command does, it only touches the sessions
  have key : r.boxes =
      (if move then
        ((s.setBox dest (copyCmd (s.box x.box) (s.box dest) x.view byUid set (pickDest s i dest pick).isNone).1).setBox x.box
          (moveSrc (s.box x.box) ((sourceMsgs (s.box x.box) x.view byUid set).map (·.uid)))).boxes
      else (s.setBox dest (copyCmd (s.box x.box) (s.box dest) x.view byUid set (pickDest s i dest pick).isNone).1).boxes) := by
    show (copyMove s i move byUid set dest pick).1.boxes = _
    unfold copyMove
    simp only [hsel, hro, Bool.false_eq_true, if_false, hnd, ne_eq, hne, not_false_eq_true, if_true]
    split
    · rw [boxes_finish]
      cases move with
      | true => simp only [if_true]; simp [Srv.setBox, boxes_fold_addRecentTo]
      | false => simp only [Bool.false_eq_true, if_false]; rw [boxes_fold_addRecentTo]
    · cases move with
      | true => simp only [if_true]; simp [Srv.setBox, boxes_fold_addRecentTo]
      | false => simp only [Bool.false_eq_true, if_false]; rw [boxes_fold_addRecentTo]
  have hbox : ∀ b, r.box b = (r.boxes).getD b MBox.new := fun _ => rfl
  constructor
  · rw [hbox, key]
    cases move with
    | true =>
      simp only [if_true]
      show ((s.setBox dest _).setBox x.box _).box dest = _
      rw [box_setBox_ne _ _ _ _ hne, box_setBox_same _ _ _ hd]
    | false =>
      simp only [Bool.false_eq_true, if_false]
      show (s.setBox dest _).box dest = _
      rw [box_setBox_same _ _ _ hd]
  · rw [hbox, key]
    cases move with
    | true =>
      simp only [if_true]
      show ((s.setBox dest _).setBox x.box _).box x.box = _
      rw [box_setBox_same]
      simpa [Srv.setBox] using hx
    | false =>
      simp only [Bool.false_eq_true, if_false]
      show (s.setBox dest _).box x.box = _
      rw [box_setBox_ne _ _ _ _ (Ne.symm hne)]

/-- **EXPUNGE/CLOSE in the tied server model**: the stale-view re-expunge (uids already gone are handed to `delete` again, and
logged again) does not touch the content: the mailbox is the one `Session.expungeCmd` leaves, about which `C10_expunge_refines`
speaks -/
theorem C10_server_expunge (s : Srv) (x : Sel) (uidSet : Option (List Elem)) :
    abs (delete (s.box x.box) (expungeUids s x uidSet)) = abs (expungeCmd (s.box x.box) x.view uidSet) := by
  rw [abs_delete]
  unfold expungeCmd
  rw [abs_delete]
  apply List.filter_congr
  intro m hm
  simp only [abs, List.mem_map] at hm
  obtain ⟨m0, hm0, rfl⟩ := hm
  -- a live message is found
  have hlive : ∃ m1, (s.box x.box).find m0.uid = some m1 := by
    cases h : (s.box x.box).find m0.uid with
    | some m1 => exact ⟨m1, rfl⟩
    | none =>
      have := List.find?_eq_none.1 h m0 hm0
      simp at this
  obtain ⟨m1, hm1⟩ := hlive
  have e : ∀ (l : List Nat),
      (l.filter (fun u => match (s.box x.box).find u with
        | some m => m.flags.contains deletedF
        | none => (graveFlags s x.box u x).contains deletedF)).contains m0.uid =
      (l.filter (fun u => match (s.box x.box).find u with
        | some m => m.flags.contains deletedF
        | none => false)).contains m0.uid := by
    intro l
    rw [Bool.eq_iff_iff]
    simp only [List.contains_iff_mem, List.mem_filter, hm1]
  show (!(List.contains (expungeUids s x uidSet) (toS m0).uid)) = _
  unfold expungeUids
  simp only [toS]
  congr 1
  exact e _

/-- flag sets are stored in canonical order; nothing else differs -/
def normS (m : Spec.SMsg) : Spec.SMsg := { m with flags := sortAsc m.flags }

theorem abs_normBox (b : MBox) : abs (normBox b) = (abs b).map normS := by
  simp [abs, normBox, normS, toS, List.map_map, Function.comp_def]

theorem normS_flags (m : Spec.SMsg) (f : Nat) : f ∈ (normS m).flags ↔ f ∈ m.flags := by
  simp [normS, mem_sortAsc]

/-- **end to end for COPY/MOVE between two mailboxes**: what the tied server model leaves in the destination is the
reference model's COPY, and what MOVE leaves in the source is the reference model's MOVE (flag sets in canonical order) -/
theorem C10_server_copy_spec (s : Srv) (i : Nat) (move byUid : Bool) (set : List Elem) (dest pick : Nat) (x : Sel)
    (hsel : s.sel i = some x) (hro : (move && x.ro) = false) (hd : dest < s.boxes.length) (hx : x.box < s.boxes.length)
    (hne : dest ≠ x.box) (hs : Synced (s.box x.box) x.view) :
    let r := (copyMove s i move byUid set dest pick).1
    abs (r.box dest) = (Spec.copy (abs (s.box x.box)) (abs (s.box dest)) ((s.box dest).maxUid + 1) byUid set).map normS ∧
    (move = true → abs (r.box x.box) = (Spec.moveSrc (abs (s.box x.box)) byUid set).map normS) := by
  intro r
  have h := C10_server_copyMove s i move byUid set dest pick x hsel hro hd hx hne
  constructor
  · rw [h.1, abs_normBox, C10_copy_refines _ _ _ hs]
  · intro hm
    rw [h.2, hm]
    simp only [if_true]
    rw [abs_normBox, C10_move_refines _ _ hs]

end Pymap.C10
