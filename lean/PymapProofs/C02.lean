import PymapProofs.Lemmas.System
/-!
# C02 — cross-session convergence: no lost, phantom or stuck updates

Property theorems only.  Models: `ModSeq`, `Mailbox`, `System`.
-/
namespace Pymap.C02
open Pymap.Sync Pymap.System Pymap.Mailbox Pymap.ModSeq

/-- The change log keeps its shape under every update/expunge record. -/
theorem C02_log_inv {l : Log} (h : LogInv l) (uids : List Nat) (hnd : uids.Nodup) (k : Kind) :
    LogInv (set l uids k) := set_inv h uids hnd k

/-- `find_updated(p)` returns exactly the uids last changed at or after `p`, by kind of that last change. -/
theorem C02_log_complete {l : Log} (h : LogInv l) (p u : Nat) :
    (u ∈ (findUpdated l p).1 ↔ ∃ m, alookup u l.last = some m ∧ p ≤ m ∧ inU l m u) ∧
    (u ∈ (findUpdated l p).2 ↔ ∃ m, alookup u l.last = some m ∧ p ≤ m ∧ inE l m u) :=
  ⟨findUpdated_updates h p u, findUpdated_expunges h p u⟩

theorem getElem?_modifyNth {α : Type} (f : α → α) : ∀ (n : Nat) (l : List α),
    (modifyNth f n l)[n]? = (l[n]?).map f
  | _, [] => by simp [modifyNth]
  | 0, a :: as => by simp [modifyNth]
  | n+1, a :: as => by simp [modifyNth, getElem?_modifyNth f n as]

/-- **Convergence.**  After any history by any number of sessions, a NOOP (or any command that does not
hide expunges) by session `i` leaves its view — the UIDs it believes exist and the flags of each —
equal to the mailbox: nothing lost, nothing phantom, nothing stuck. -/
theorem C02_noop_converges (ops : List Op) (i : Nat) (wu : Bool) (x : Sess)
    (hx : (run Sys.init (ops ++ [.sync i false wu])).sess[i]? = some x) :
    let s := run Sys.init (ops ++ [.sync i false wu])
    (∀ u, u ∈ x.view.uids ↔ u ∈ s.box.uids) ∧
    (∀ u ∈ s.box.uids, x.view.flagsOf u = (s.box.find u).map (·.flags)) ∧
    x.view.pending = [] := by
  intro s
  have hrun : s = step (run Sys.init ops) (.sync i false wu) := by
    simp [s, run, List.foldl_append]
  have hinv := reachable_inv ops
  have hbox : s.box = (run Sys.init ops).box := by rw [hrun]; rfl
  have hsess : s.sess = modifyNth (syncSess (run Sys.init ops).box false wu) i (run Sys.init ops).sess := by
    rw [hrun]; rfl
  have hx' : s.sess[i]? = some x := hx
  rw [hsess, getElem?_modifyNth] at hx'
  cases hy : (run Sys.init ops).sess[i]? with
  | none => rw [hy] at hx'; simp at hx'
  | some y =>
    rw [hy] at hx'; simp at hx'; subst hx'
    have hyinv := hinv.sess y (List.mem_of_getElem? hy)
    obtain ⟨h1, h2, h3, _⟩ := sync_converges hinv.box hyinv.cons
    rw [hbox]
    exact ⟨h1, h2, h3⟩

/-- non-vacuity: session 1 stores on a message session 0 has just expunged; session 2 still converges -/
example :
    let s := run Sys.init [.append [] false 1 0, .append [] false 2 0, .select, .select, .select,
      .expunge 0 [101], .store 101 [3] 1, .sync 2 false false]
    (s.sess[2]?.map (·.view.uids)) = some [102] ∧ s.box.uids = [102] := by decide

end Pymap.C02
