import PymapModel.AString
import PymapProofs.C18_quoted
import PymapProofs.C18_framing
/-!
# C18 — a string argument means the same however it is spelled

`AStr.parse` (the model of `AString.parse` / `String.parse`) returns the same value and leaves the same rest for the atom, the
quoted and the `{n+}` literal spelling of a value, and refuses all three alike when the value is longer than the limit (D78).
-/
namespace Pymap.C18
open Pymap.Grammar Pymap.Wire Pymap.Framing Pymap.AStr

def firstIsAtom (r : List Nat) : Bool := match r with | b :: _ => isAtomChar b | [] => false

theorem spanAtom_append : ∀ (v rest : List Nat), (∀ b ∈ v, isAtomChar b = true) → firstIsAtom rest = false →
    spanAtom (v ++ rest) = (v, rest)
  | [], rest, _, h => by
    cases rest with
    | nil => simp [spanAtom]
    | cons b r =>
      have hb : isAtomChar b = false := by simpa [firstIsAtom] using h
      simp [spanAtom, hb]
  | d :: ds, rest, hd, h => by
    have h1 : isAtomChar d = true := hd d (by simp)
    have ih := spanAtom_append ds rest (fun b hb => hd b (by simp [hb])) h
    simp [spanAtom, h1, ih]

theorem skipSpaces_of_ne (b : Nat) (r : List Nat) (h : b ≠ 32) : skipSpaces (b :: r) = b :: r := by
  unfold skipSpaces
  split
  · rename_i heq; injection heq with e _; exact absurd e h
  · rfl

theorem atomChar_ne_space {b : Nat} (h : isAtomChar b = true) : b ≠ 32 := by
  intro e; subst e; simp [isAtomChar] at h

/-- the atom spelling -/
theorem parse_atom (maxLen : Nat) (v rest : List Nat) (hne : v ≠ []) (hv : ∀ b ∈ v, isAtomChar b = true)
    (hr : firstIsAtom rest = false) :
    AStr.parse maxLen (asAtom v ++ rest) = if v.length ≤ maxLen then some (v, rest) else none := by
  cases v with
  | nil => exact absurd rfl hne
  | cons b t =>
    have hb := hv b (by simp)
    have hs : skipSpaces ((b :: t) ++ rest) = (b :: t) ++ rest := skipSpaces_of_ne b (t ++ rest) (atomChar_ne_space hb)
    have hsp := spanAtom_append (b :: t) rest hv hr
    simp only [AStr.parse, asAtom, hs, hsp]
    simp only [List.isEmpty_cons, Bool.not_false, if_true, List.length_cons]
    split <;> split <;> first | rfl | (exfalso; omega)

theorem parse_not_atom (maxLen : Nat) (b : Nat) (r : List Nat) (hb : isAtomChar b = false) (hs : b ≠ 32) :
    AStr.parse maxLen (b :: r) = parseString maxLen (b :: r) := by
  simp [AStr.parse, skipSpaces_of_ne b r hs, spanAtom, hb]

/-- the quoted spelling -/
theorem parse_quoted (maxLen : Nat) (v rest : List Nat) (hv : ∀ b ∈ v, b ≠ 13 ∧ b ≠ 10) :
    AStr.parse maxLen (asQuoted v ++ rest) = if v.length ≤ maxLen then some (v, rest) else none := by
  have hrt := C18_roundtrip_quoted v rest hv
  have hshape : asQuoted v ++ rest = dq :: (escape v ++ [dq] ++ rest) := by simp [asQuoted, serQuoted]
  have hp : AStr.parse maxLen (asQuoted v ++ rest) = parseString maxLen (asQuoted v ++ rest) := by
    rw [hshape]; exact parse_not_atom maxLen dq _ (by decide) (by decide)
  rw [hp]
  have hq : parseQuoted (asQuoted v ++ rest) = some (v, rest) := hrt
  by_cases hl : v.length ≤ maxLen
  · have : ¬ v.length > maxLen := by omega
    simp [parseString, parseQuotedLim, hq, hl, this]
  · have h2 : v.length > maxLen := by omega
    have hlit : parseLiteral maxLen (asQuoted v ++ rest) = none := by
      rw [hshape]
      have hs : skipSpaces (dq :: (escape v ++ [dq] ++ rest)) = dq :: (escape v ++ [dq] ++ rest) :=
        skipSpaces_of_ne dq _ (by decide)
      simp only [parseLiteral, hs]
      simp [dq]
    simp [parseString, parseQuotedLim, hq, hl, h2, hlit]

theorem readNum_digits_nil (n : Nat) : (readNum 0 (digits n)).1 = n := by
  have := C18_roundtrip_number n [] rfl
  simp at this
  rw [this]

/-- the non-synchronising literal spelling: any bytes at all -/
theorem parse_literal (maxLen : Nat) (v rest : List Nat) :
    AStr.parse maxLen (asLiteral v ++ rest) = if v.length ≤ maxLen then some (v, rest) else none := by
  have hshape : asLiteral v ++ rest = 123 :: (digits v.length ++ (43 :: 125 :: 13 :: 10 :: (v ++ rest))) := by
    simp [asLiteral]
  rw [hshape, parse_not_atom maxLen 123 _ (by decide) (by decide)]
  have hq : parseQuotedLim maxLen (123 :: (digits v.length ++ (43 :: 125 :: 13 :: 10 :: (v ++ rest)))) = none := by
    simp [parseQuotedLim, parseQuoted, skipSpaces_of_ne 123 _ (by decide : (123 : Nat) ≠ 32), dq]
  have hsp := spanDigits_append (digits v.length) (43 :: 125 :: 13 :: 10 :: (v ++ rest)) (digits_all_digit v.length) rfl
  have hne : (digits v.length).isEmpty = false := by
    cases hd : digits v.length with
    | nil => exact absurd hd (digits_ne_nil _)
    | cons a as => rfl
  simp only [parseString, hq, parseLiteral, skipSpaces_of_ne 123 _ (by decide : (123 : Nat) ≠ 32), hsp, hne, eol,
    readNum_digits_nil]
  by_cases hl : v.length ≤ maxLen
  · have h1 : ¬ v.length > maxLen := by omega
    have h2 : ¬ (v ++ rest).length < v.length := by simp
    simp [hl, h1]
  · have h1 : v.length > maxLen := by omega
    simp [hl, h1]

/-- **Spelling independence of a string argument.** For every value and everything that may follow it, the spellings that
can carry the value — the atom when it consists of atom characters, the quoted string when it has no CR or LF, the `{n+}`
literal always — are parsed to the same value with the same rest, and all of them are refused when the value is longer than
the limit (the code as found refused only the literal: D78). -/
theorem C18_astring_spelling (maxLen : Nat) (v rest : List Nat) :
    AStr.parse maxLen (asLiteral v ++ rest) = (if v.length ≤ maxLen then some (v, rest) else none) ∧
    ((∀ b ∈ v, b ≠ 13 ∧ b ≠ 10) → AStr.parse maxLen (asQuoted v ++ rest) = AStr.parse maxLen (asLiteral v ++ rest)) ∧
    (v ≠ [] → (∀ b ∈ v, isAtomChar b = true) → firstIsAtom rest = false →
      AStr.parse maxLen (asAtom v ++ rest) = AStr.parse maxLen (asLiteral v ++ rest)) := by
  refine ⟨parse_literal maxLen v rest, ?_, ?_⟩
  · intro hv; rw [parse_quoted maxLen v rest hv, parse_literal]
  · intro hne hv hr; rw [parse_atom maxLen v rest hne hv hr, parse_literal]

/-- non-vacuity: `INBOX` in three spellings followed by ` x`, and a value over a limit of 3 -/
example : AStr.parse 4096 ([73, 78, 66, 79, 88] ++ [32, 120]) = some ([73, 78, 66, 79, 88], [32, 120]) ∧
    AStr.parse 4096 (asQuoted [73, 78, 66, 79, 88] ++ [32, 120]) = some ([73, 78, 66, 79, 88], [32, 120]) ∧
    AStr.parse 4096 (asLiteral [73, 78, 66, 79, 88] ++ [32, 120]) = some ([73, 78, 66, 79, 88], [32, 120]) ∧
    AStr.parse 3 ([73, 78, 66, 79, 88] ++ [32, 120]) = none := by
  refine ⟨?_, ?_, ?_, ?_⟩
  · exact (parse_atom 4096 [73, 78, 66, 79, 88] [32, 120] (by simp) (by decide) (by decide)).trans (by decide)
  · exact (parse_quoted 4096 [73, 78, 66, 79, 88] [32, 120] (by decide)).trans (by decide)
  · exact (parse_literal 4096 [73, 78, 66, 79, 88] [32, 120]).trans (by decide)
  · exact (parse_atom 3 [73, 78, 66, 79, 88] [32, 120] (by simp) (by decide) (by decide)).trans (by decide)

end Pymap.C18
