import PymapModel.Namespace
/-!
# C11 — mailbox namespace commands behave as the reference model says
-/
namespace Pymap.C11
open Pymap.Namespace

/-- `*` matches every name — whatever characters it contains (newline included) -/
theorem C11_star_all (ci : Bool) : ∀ (n : Name), wild ci [star] n = true
  | [] => by simp [wild]
  | c :: cs => by
    have ih := C11_star_all ci cs
    rw [wild]; simp [ih]

/-- `%` matches exactly the names without a hierarchy delimiter -/
theorem C11_pct (ci : Bool) : ∀ (n : Name), wild ci [pct] n = true ↔ delim ∉ n
  | [] => by simp [wild]
  | c :: cs => by
    have ih := C11_pct ci cs
    have hne : ¬ pct = star := by decide
    rw [wild]; simp only [hne, if_false, if_true]
    have h0 : wild ci [] (c :: cs) = false := by simp [wild]
    simp only [h0, Bool.false_or, Bool.and_eq_true, bne_iff_ne, ne_eq, ih, List.mem_cons, not_or]
    constructor
    · rintro ⟨h1, h2⟩; exact ⟨fun e => h1 e.symm, h2⟩
    · rintro ⟨h1, h2⟩; exact ⟨fun e => h1 e.symm, h2⟩

/-- a pattern without wildcards matches exactly itself: `abc` does not match `abc` followed by a newline -/
theorem C11_literal : ∀ (p n : Name), (∀ c ∈ p, c ≠ star ∧ c ≠ pct) → (wild false p n = true ↔ p = n)
  | [], [], _ => by simp [wild]
  | [], _ :: _, _ => by simp [wild]
  | p :: ps, [], h => by
    have := h p (by simp)
    rw [wild]; simp [this.1, this.2]
  | p :: ps, c :: cs, h => by
    have hp := h p (by simp)
    have ih := C11_literal ps cs (fun x hx => h x (by simp [hx]))
    rw [wild]; simp only [hp.1, hp.2, if_false, Bool.false_eq_true, Bool.and_eq_true, beq_iff_eq, ih]
    simp

/-- LIST returns exactly the entries (existing names and their missing superiors) that match -/
theorem C11_list (names : List Name) (ref pat : Name) (e : Entry) :
    e ∈ listMatching names ref pat ↔
      e ∈ entries names ∧ (if e.name = inbox then wild true (ref ++ pat) inbox = true
                           else wild false (ref ++ pat) e.name = true) := by
  unfold listMatching
  rw [List.mem_filter]
  by_cases h : e.name = inbox <;> simp [h]

/-- INBOX can be neither created, deleted nor overwritten, in any spelling of its case -/
theorem C11_inbox_guard (s : NS) (n f : Name) (h : n.map upper = inbox) :
    create s n = (s, .no) ∧ delete s n = (s, .no) ∧ rename s f n = (s, .no) := by
  simp [create, delete, rename, normName, h]

/-- failures change nothing -/
theorem C11_errors_unchanged (s : NS) (n f t : Name) :
    ((create s n).2 = .no → (create s n).1 = s) ∧
    ((delete s n).2 = .no → (delete s n).1 = s) ∧
    ((rename s f t).2 = .no → (rename s f t).1 = s) := by
  refine ⟨?_, ?_, ?_⟩
  · unfold create; simp only []; split; simp; split; simp; simp
  · unfold delete; simp only []; split; simp; split; simp; simp
  · unfold rename; simp only []
    split; simp; split; simp; split; simp; split <;> simp

/-- creating an existing name, deleting or renaming a missing one is refused -/
theorem C11_conflicts (s : NS) (n t : Name) (hn : normName n ≠ inbox) :
    (s.has (normName n) = true → create s n = (s, .no)) ∧
    (s.has (normName n) = false → delete s n = (s, .no)) ∧
    (s.node (normName n) = false → rename s n t = (s, .no)) := by
  refine ⟨?_, ?_, ?_⟩
  · intro h; simp [create, hn, h]
  · intro h; simp [delete, hn, h]
  · intro h; unfold rename; simp only [h]; split <;> simp

/-- RENAME moves the mailbox and every inferior with its mailbox *object* (hence its messages, UIDs and
UIDVALIDITY), and touches nothing else -/
theorem C11_rename (s : NS) (f t : Name) (hf : normName f ≠ inbox) (hok : (rename s f t).2 = .ok) :
    (∀ b ∈ s.boxes, isUnder (normName f) b.1 = true →
        (normName t ++ b.1.drop (normName f).length, b.2) ∈ (rename s f t).1.boxes) ∧
    (∀ b ∈ s.boxes, isUnder (normName f) b.1 = false → b ∈ (rename s f t).1.boxes) ∧
    (rename s f t).1.inboxId = s.inboxId := by
  unfold rename at hok ⊢
  simp only [] at hok ⊢
  split at hok; simp at hok
  split at hok; simp at hok
  split at hok; simp at hok
  rename_i h1 h2 h3
  simp only [h1, h2, h3, if_false, hf, Bool.false_eq_true]
  refine ⟨?_, ?_, trivial⟩
  · intro b hb hu
    simp only [List.mem_append, List.mem_map, List.mem_filter]
    exact Or.inr ⟨b, ⟨hb, hu⟩, rfl⟩
  · intro b hb hu
    simp only [List.mem_append, List.mem_filter]
    exact Or.inl ⟨hb, by simp [hu]⟩

/-- renaming INBOX leaves a fresh, different (hence empty) INBOX behind, moves the old object, and leaves every
other mailbox — the inferiors of INBOX included — where it was -/
theorem C11_rename_inbox (s : NS) (t : Name) (hok : (rename s inbox t).2 = .ok) :
    (rename s inbox t).1.inboxId = s.fresh ∧ (normName t, s.inboxId) ∈ (rename s inbox t).1.boxes ∧
    (∀ b ∈ s.boxes, b ∈ (rename s inbox t).1.boxes) := by
  have hn : normName inbox = inbox := by decide
  unfold rename at hok ⊢
  simp only [hn] at hok ⊢
  split at hok; simp at hok
  split at hok; simp at hok
  split at hok; simp at hok
  rename_i h1 h2 h3
  simp only [h1, h2, h3, if_false, if_true, Bool.false_eq_true]
  exact ⟨trivial, by simp, fun b hb => by simp [hb]⟩

/-- non-vacuity on the shapes that used to fail: a literal pattern does not match the name followed by a
newline; `*` matches a name containing a newline -/
example : wild false [97, 98, 99] [97, 98, 99, 10] = false ∧ wild false [star] [97, 10, 98] = true := by
  constructor
  · cases h : wild false [97, 98, 99] [97, 98, 99, 10] with
    | false => rfl
    | true =>
      have := (C11_literal [97, 98, 99] [97, 98, 99, 10] (by decide)).1 h
      simp at this
  · exact C11_star_all false _

end Pymap.C11
