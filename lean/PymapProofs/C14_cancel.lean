import PymapModel.AppendCancel
/-!
# C14 — an APPEND the client calls off stores nothing, wherever it is called off
-/
namespace Pymap.C14
open Pymap.AppendCancel

theorem parseMsgs_cancelled : ∀ (lits : List Lit), Lit.empty ∈ lits → (parseMsgs lits).2 = true
  | [], h => by simp at h
  | .empty :: _, _ => rfl
  | .msg d :: r, h => by
    simp only [parseMsgs]
    exact parseMsgs_cancelled r (by simpa using h)

/-- **Client-side cancel.** A multi-message APPEND that contains an empty literal anywhere — after no message, after one, after
many — is answered NO and leaves the mailbox exactly as it was. -/
theorem C14_client_cancel (box : List (List Nat)) (lits : List Lit) (h : Lit.empty ∈ lits) :
    doAppend true box lits = (box, .no) := by
  have hne : lits ≠ [] := by intro e; rw [e] at h; simp at h
  simp [doAppend, hne, parseMsgs_cancelled lits h]

/-- a complete APPEND stores its messages, in order, after what was there -/
theorem C14_append_all (box : List (List Nat)) (ms : List (List Nat)) (hne : ms ≠ []) :
    doAppend true box (ms.map .msg) = (box ++ ms, .ok) := by
  have hp : ∀ (l : List (List Nat)), parseMsgs (l.map .msg) = (l, false) := by
    intro l
    induction l with
    | nil => rfl
    | cons a as ih => simp [parseMsgs, ih]
  have h1 : ms.map Lit.msg ≠ [] := by simpa using hne
  simp [doAppend, h1, hp]

/-- **as seeded (C14-e)**: with the guard "no messages" a cancel after the first message stores that message and answers OK -/
theorem client_cancel_as_seeded :
    doAppend false [] [.msg [1], .empty] = ([[1]], .ok) ∧ doAppend true [] [.msg [1], .empty] = ([], .no) := by decide

end Pymap.C14
