import PymapModel.FileLock
/-!
# C20 — the lock-file lock: never two writers, released on every exit
-/
namespace Pymap.C20
open Pymap.FileLock

structure FInv (s : St) : Prop where
  atMostOne : s.holders.length ≤ 1
  fileWhenHeld : s.holders ≠ [] → s.file = true

theorem FInv.init : FInv St.init := ⟨by simp [St.init], by simp [St.init]⟩

theorem FInv.step {s s' : St} (h : FInv s) (l : Label) (hs : FileLock.step s l = some s') : FInv s' := by
  cases l with
  | tryLock i =>
    simp only [FileLock.step] at hs
    split at hs
    · simp at hs
    · rename_i hf
      simp at hs; subst hs
      have hne : s.holders = [] := by
        cases hh : s.holders with
        | nil => rfl
        | cons a as => exact absurd (h.fileWhenHeld (by simp [hh])) (by simpa using hf)
      exact ⟨by simp [hne], by simp⟩
  | unlock i =>
    simp only [FileLock.step] at hs
    split at hs
    · rename_i hc
      simp at hs; subst hs
      have hlen := h.atMostOne
      have hmem : i ∈ s.holders := by simpa using hc
      have : (s.holders.erase i).length = s.holders.length - 1 := List.length_erase_of_mem hmem
      refine ⟨by show (s.holders.erase i).length ≤ 1; omega, ?_⟩
      intro hne
      exfalso; apply hne
      show s.holders.erase i = []
      apply List.eq_nil_of_length_eq_zero; omega
    · simp at hs
  | expire =>
    simp only [FileLock.step] at hs
    split at hs
    · rename_i he
      simp at hs; subst hs
      have : s.holders = [] := by simpa using he
      exact ⟨h.atMostOne, by intro hne; exact absurd this hne⟩
    · simp at hs
  | stale =>
    simp only [FileLock.step] at hs
    split at hs
    · simp at hs; subst hs
      exact ⟨h.atMostOne, fun _ => rfl⟩
    · simp at hs

theorem FInv.run : ∀ (ls : List Label) (s s' : St), FInv s → FileLock.run s ls = some s' → FInv s'
  | [], s, s', h, hr => by simp [FileLock.run] at hr; subst hr; exact h
  | l :: ls, s, s', h, hr => by
    simp only [FileLock.run] at hr
    cases hs : FileLock.step s l with
    | none => simp [hs] at hr
    | some s1 =>
      simp [hs] at hr
      exact FInv.run ls s1 s' (h.step l hs) hr

/-- **exclusion**: along every history of lock attempts, releases, expirations and stale files, at most one writer
holds the lock file -/
theorem C20_file_exclusion (ls : List Label) (s : St) (hr : FileLock.run St.init ls = some s) : s.holders.length ≤ 1 :=
  (FInv.run ls _ _ FInv.init hr).atMostOne

/-- **released on exit**: the step every exit path of the critical section runs removes the file and leaves no holder,
so the next attempt succeeds -/
theorem C20_file_released (ls : List Label) (s s' : St) (i j : Nat) (hr : FileLock.run St.init ls = some s)
    (hu : FileLock.step s (.unlock i) = some s') :
    s'.file = false ∧ s'.holders = [] ∧ (FileLock.step s' (.tryLock j)).isSome := by
  have hinv := FInv.run ls _ _ FInv.init hr
  have hinv' := hinv.step _ hu
  simp only [FileLock.step] at hu
  split at hu
  · rename_i hc
    simp at hu; subst hu
    have hmem : i ∈ s.holders := by simpa using hc
    have hlen : (s.holders.erase i).length = s.holders.length - 1 := List.length_erase_of_mem hmem
    have hone := hinv.atMostOne
    have hnil : s.holders.erase i = [] := by apply List.eq_nil_of_length_eq_zero; omega
    exact ⟨rfl, hnil, by simp [FileLock.step]⟩
  · simp at hu

/-- non-vacuity: two writers, the second has to retry until the first leaves -/
example : FileLock.run St.init [.tryLock 0, .unlock 0, .tryLock 1] = some ⟨true, [1]⟩ ∧
          FileLock.step ⟨true, [0]⟩ (.tryLock 1) = none := by decide

end Pymap.C20
