import PymapModel.Sieve
/-!
# C19 — ManageSieve: no script access before login; the script store is a map
-/
namespace Pymap.C19
open Pymap.Sieve

def keys (d : List (Name × Script)) : List Name := d.map (·.1)

theorem dget_dput_self (k : Name) (v : Script) (d : List (Name × Script)) : dget k (dput k v d) = some v := by
  induction d with
  | nil => simp [dput, dget]
  | cons p r ih => obtain ⟨k', v'⟩ := p; simp only [dput]; split <;> simp [dget, *]

theorem dget_dput_ne {k k' : Name} (h : k' ≠ k) (v : Script) (d : List (Name × Script)) :
    dget k' (dput k v d) = dget k' d := by
  induction d with
  | nil => simp [dput, dget, h]
  | cons p r ih =>
    obtain ⟨k2, v2⟩ := p; simp only [dput]
    split
    · rename_i e; subst e; simp [dget, h]
    · simp only [dget]; split <;> simp [ih]

theorem mem_keys_iff (k : Name) (d : List (Name × Script)) : k ∈ keys d ↔ (dget k d).isSome := by
  induction d with
  | nil => simp [keys, dget]
  | cons p r ih =>
    obtain ⟨k', v'⟩ := p
    simp only [keys, List.map_cons, List.mem_cons, dget] at ih ⊢
    by_cases e : k = k'
    · simp [e]
    · simp [e, ih]

theorem keys_dput (k : Name) (v : Script) (d : List (Name × Script)) :
    keys (dput k v d) = if k ∈ keys d then keys d else keys d ++ [k] := by
  induction d with
  | nil => simp [dput, keys]
  | cons p r ih =>
    obtain ⟨k', v'⟩ := p
    simp only [dput]
    by_cases e : k = k'
    · subst e; simp [keys]
    · simp only [e, if_false]
      simp only [keys, List.map_cons, List.mem_cons, e, false_or] at ih ⊢
      rw [ih]; split <;> simp_all

theorem nodup_dput {k : Name} {v : Script} {d : List (Name × Script)} (h : (keys d).Nodup) :
    (keys (dput k v d)).Nodup := by
  rw [keys_dput]; split
  · exact h
  · rename_i hk; rw [List.nodup_append]
    refine ⟨h, by simp, ?_⟩
    intro a ha b hb; simp at hb; subst hb
    exact fun e => hk (e ▸ ha)

theorem dget_ddel_self {k : Name} {d : List (Name × Script)} (h : (keys d).Nodup) : dget k (ddel k d) = none := by
  induction d with
  | nil => simp [ddel, dget]
  | cons p r ih =>
    obtain ⟨k', v'⟩ := p
    simp only [keys, List.map_cons, List.nodup_cons] at h
    simp only [ddel]
    by_cases e : k = k'
    · subst e; simp only [if_true]
      cases hg : dget k r with
      | none => rfl
      | some s => exact absurd ((mem_keys_iff k r).2 (by simp [hg])) h.1
    · simp only [e, if_false, dget]; exact ih h.2

theorem dget_ddel_ne {k k' : Name} (h : k' ≠ k) (d : List (Name × Script)) : dget k' (ddel k d) = dget k' d := by
  induction d with
  | nil => simp [ddel, dget]
  | cons p r ih =>
    obtain ⟨k2, v2⟩ := p; simp only [ddel]
    by_cases e : k = k2
    · subst e; simp [dget, h]
    · simp only [e, if_false, dget]; split <;> simp [ih]

theorem keys_ddel_sublist (k : Name) (d : List (Name × Script)) : (keys (ddel k d)).Sublist (keys d) := by
  induction d with
  | nil => simp [ddel, keys]
  | cons p r ih =>
    obtain ⟨k', v'⟩ := p; simp only [ddel]; split
    · simp [keys]
    · simp only [keys, List.map_cons]; exact List.Sublist.cons_cons _ ih

/-- well-formedness of a script store: unique names, and the active name (if any) exists -/
structure WF (fs : FilterSet) : Prop where
  nodup  : (keys fs.filters).Nodup
  active : ∀ n, fs.active = some n → (dget n fs.filters).isSome

theorem WF.empty : WF FilterSet.empty := ⟨by simp [FilterSet.empty, keys], by simp [FilterSet.empty]⟩

/-- **gate**: before authentication only CAPABILITY, NOOP, LOGOUT, STARTTLS and AUTHENTICATE have any
effect; every script command is refused and touches nothing -/
theorem C19_gate (c : Conn) (st : Store) (cmd : Cmd) (hu : c.user = none)
    (hcmd : match cmd with
      | .noop | .capability | .logout | .starttls | .authenticate _ _ => False
      | _ => True) :
    step c st cmd = (c, st, .no "Bad command.") := by
  cases cmd <;> simp_all [step]

/-- every command keeps the store well-formed (at most one active name, and it exists) -/
theorem C19_wf (maxLen : Nat) (fs : FilterSet) (cmd : Cmd) (h : WF fs) : WF (runState maxLen fs cmd).1 := by
  obtain ⟨hn, ha⟩ := h
  cases cmd with
  | putscript n s =>
    simp only [runState]; split
    · refine ⟨nodup_dput hn, ?_⟩
      intro m hm
      by_cases e : m = n
      · subst e; simp [dget_dput_self]
      · rw [dget_dput_ne e]; exact ha m hm
    · exact ⟨hn, ha⟩
  | setactive o =>
    cases o with
    | none => exact ⟨hn, by simp [runState]⟩
    | some n =>
      simp only [runState]; split
      · rename_i hs; exact ⟨hn, by intro m hm; simp at hm; subst hm; exact hs⟩
      · exact ⟨hn, ha⟩
  | deletescript n =>
    simp only [runState]; split
    · exact ⟨hn, ha⟩
    · split
      · exact ⟨hn, ha⟩
      · rename_i h1 h2
        refine ⟨hn.sublist (keys_ddel_sublist n _), ?_⟩
        intro m hm
        have e : m ≠ n := fun e => h2 (e ▸ hm)
        rw [dget_ddel_ne e]; exact ha m hm
  | renamescript o n =>
    simp only [runState]
    cases ho : dget o fs.filters with
    | none => exact ⟨hn, ha⟩
    | some s =>
      simp only []
      split
      · exact ⟨hn, ha⟩
      · rename_i hnn
        have hne : n ≠ o := by intro e; subst e; simp [ho] at hnn
        refine ⟨(nodup_dput hn).sublist (keys_ddel_sublist o _), ?_⟩
        intro m hm
        by_cases hact : fs.active = some o
        · simp [hact] at hm; subst hm
          rw [dget_ddel_ne hne, dget_dput_self]; rfl
        · simp [hact] at hm
          have hmo : m ≠ o := fun e => hact (e ▸ hm)
          rw [dget_ddel_ne hmo]
          by_cases e : m = n
          · subst e; simp [dget_dput_self]
          · rw [dget_dput_ne e]; exact ha m hm
  | getscript n => simp only [runState]; split <;> exact ⟨hn, ha⟩
  | _ => exact ⟨hn, ha⟩

/-- PUTSCRIPT then GETSCRIPT returns the same bytes -/
theorem C19_put_get (maxLen : Nat) (fs : FilterSet) (n : Name) (s : Script) (h : s.length ≤ maxLen) :
    (runState maxLen (runState maxLen fs (.putscript n s)).1 (.getscript n)).2 = .script s := by
  simp [runState, h, dget_dput_self]

/-- … and leaves every other script alone -/
theorem C19_put_frame (maxLen : Nat) (fs : FilterSet) (n m : Name) (s : Script) (hne : m ≠ n) :
    dget m (runState maxLen fs (.putscript n s)).1.filters = dget m fs.filters := by
  simp only [runState]; split
  · exact dget_dput_ne hne _ _
  · rfl

/-- LISTSCRIPTS lists exactly the stored names and marks exactly the active one -/
theorem C19_list (maxLen : Nat) (fs : FilterSet) :
    (runState maxLen fs .listscripts).2 = .list (fs.filters.map (fun p => (p.1, fs.active = some p.1))) ∧
    (∀ n, n ∈ keys fs.filters ↔ (dget n fs.filters).isSome) :=
  ⟨rfl, fun n => mem_keys_iff n _⟩

/-- the active script cannot be deleted -/
theorem C19_delete_active (maxLen : Nat) (fs : FilterSet) (n : Name) (h : WF fs) (ha : fs.active = some n) :
    runState maxLen fs (.deletescript n) = (fs, .no "ACTIVE") := by
  have := h.active n ha
  simp only [runState]
  cases hg : dget n fs.filters with
  | none => rw [hg] at this; simp at this
  | some s => simp [ha]

/-- a deleted script is gone, the others stay -/
theorem C19_delete (maxLen : Nat) (fs : FilterSet) (n : Name) (h : WF fs)
    (hr : (runState maxLen fs (.deletescript n)).2 = .ok) :
    dget n (runState maxLen fs (.deletescript n)).1.filters = none ∧
    ∀ m, m ≠ n → dget m (runState maxLen fs (.deletescript n)).1.filters = dget m fs.filters := by
  simp only [runState] at hr ⊢
  split at hr
  · simp at hr
  · split at hr
    · simp at hr
    · rename_i h1 h2; simp only [h1, h2, if_false]
      exact ⟨dget_ddel_self h.nodup, fun m hm => dget_ddel_ne hm _⟩

/-- RENAMESCRIPT keeps content and active status -/
theorem C19_rename (maxLen : Nat) (fs : FilterSet) (o n : Name) (s : Script) (h : WF fs)
    (ho : dget o fs.filters = some s) (hn : dget n fs.filters = none) :
    let fs' := (runState maxLen fs (.renamescript o n)).1
    dget n fs'.filters = some s ∧ dget o fs'.filters = none ∧
    (fs.active = some o → fs'.active = some n) ∧ (fs.active ≠ some o → fs'.active = fs.active) := by
  have hne : n ≠ o := by intro e; subst e; rw [ho] at hn; simp at hn
  simp only [runState, ho, hn, Option.isSome_none, Bool.false_eq_true, if_false]
  refine ⟨?_, ?_, ?_, ?_⟩
  · rw [dget_ddel_ne hne, dget_dput_self]
  · exact dget_ddel_self (nodup_dput h.nodup)
  · intro ha; simp [ha]
  · intro ha; simp [ha]

theorem sget_sput_self (u : Nat) (f : FilterSet) (st : Store) : sget u (sput u f st) = f := by
  induction st with
  | nil => simp [sput, sget]
  | cons p r ih => obtain ⟨u', f'⟩ := p; simp only [sput]; split <;> simp [sget, *]

theorem sget_sput_ne {u u' : Nat} (h : u' ≠ u) (f : FilterSet) (st : Store) : sget u' (sput u f st) = sget u' st := by
  induction st with
  | nil => simp [sput, sget, h]
  | cons p r ih =>
    obtain ⟨u2, f2⟩ := p; simp only [sput]; split
    · rename_i e; subst e; simp [sget, h]
    · simp only [sget]; split <;> simp [ih]

/-- one user's commands never change what another user sees -/
theorem C19_isolation (c : Conn) (st : Store) (cmd : Cmd) (u u' : Nat) (hu : c.user = some u) (hne : u' ≠ u) :
    sget u' (step c st cmd).2.1 = sget u' st := by
  cases cmd <;> simp [step, hu, sget_sput_ne hne]

/-- non-vacuity -/
example : (step ⟨some 1, false, 100⟩ [] (.putscript [97] [1,2,3])).2.1 = [(1, ⟨[([97], [1,2,3])], none⟩)] := by decide

end Pymap.C19
