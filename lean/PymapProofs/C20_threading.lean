import PymapModel.TRWLock
import PymapProofs.Lemmas.RWInv
import PymapProofs.C20
import PymapProofs.C20_progress
/-!
# C20 for the threading read-write lock (what the maildir backend runs): exclusion, no deadlock, finite schedules

Threads are pre-empted between any two primitive operations.  The invariant counts who is where:
the counter is the number of threads between their increment and their decrement; `R` is held exactly by the one thread in a
section of code bracketed by `with self._read_lock`; `W` is held by the writer inside, or by the reader side as soon as the first
reader has obtained it and until the last one gives it back.
-/
namespace Pymap.TRW
open Pymap.RWLock (countP_set ind)

def inIn (t : Task) : Bool := t.pc == .rIn || t.pc == .xWantR || t.pc == .xDec
def holdR (t : Task) : Bool := t.pc == .rHoldR || t.pc == .rWantW || t.pc == .rInc || t.pc == .xDec
def isW (t : Task) : Bool := t.pc == .wIn
def isInc (t : Task) : Bool := t.pc == .rInc
def isWW (t : Task) : Bool := t.pc == .rWantW
def nIn (s : St) : Nat := s.tasks.countP inIn
def nHold (s : St) : Nat := s.tasks.countP holdR
def nW (s : St) : Nat := s.tasks.countP isW
def nInc (s : St) : Nat := s.tasks.countP isInc
def nWW (s : St) : Nat := s.tasks.countP isWW

structure Inv (s : St) : Prop where
  cnt : s.counter = nIn s
  rl  : ind s.r = nHold s
  wl  : ind s.w = nW s + min 1 (s.counter + nInc s)
  ww  : 1 ≤ nWW s → s.counter = 0

theorem countP_map_idle (progs : List (List Bool)) (p : Task → Bool) (hp : ∀ pr, p ⟨.idle, pr⟩ = false) :
    (progs.map (fun pr => (⟨.idle, pr⟩ : Task))).countP p = 0 := by
  induction progs with
  | nil => rfl
  | cons a as ih => simp [List.countP_cons, hp, ih]

theorem Inv.init (progs : List (List Bool)) : Inv (St.init progs) := by
  have h1 : nIn (St.init progs) = 0 := countP_map_idle progs inIn (fun _ => rfl)
  have h2 : nHold (St.init progs) = 0 := countP_map_idle progs holdR (fun _ => rfl)
  have h3 : nW (St.init progs) = 0 := countP_map_idle progs isW (fun _ => rfl)
  have h4 : nInc (St.init progs) = 0 := countP_map_idle progs isInc (fun _ => rfl)
  have h5 : nWW (St.init progs) = 0 := countP_map_idle progs isWW (fun _ => rfl)
  constructor
  · rw [h1]; rfl
  · rw [h2]; rfl
  · rw [h3, h4]; rfl
  · rw [h5]; intro h; omega

/-- thread `i` moves from `t` to `t'`, the mutexes and the counter take new values: the invariant in terms of the new counts -/
theorem Inv.mk' {s : St} (i : Nat) (t t' : Task) (ht : s.tasks[i]? = some t) (r' w' : Bool) (c' : Nat)
    (H : ∀ a b c d e : Nat,
      a + ind (inIn t) = nIn s + ind (inIn t') → b + ind (holdR t) = nHold s + ind (holdR t') →
      c + ind (isW t) = nW s + ind (isW t') → d + ind (isInc t) = nInc s + ind (isInc t') →
      e + ind (isWW t) = nWW s + ind (isWW t') →
      c' = a ∧ ind r' = b ∧ ind w' = c + min 1 (c' + d) ∧ (1 ≤ e → c' = 0)) :
    Inv (setPc { s with r := r', w := w', counter := c' } i t') := by
  have := H _ _ _ _ _ (countP_set inIn s.tasks i t t' ht) (countP_set holdR s.tasks i t t' ht)
    (countP_set isW s.tasks i t t' ht) (countP_set isInc s.tasks i t t' ht) (countP_set isWW s.tasks i t t' ht)
  exact ⟨this.1, this.2.1, this.2.2.1, this.2.2.2⟩

theorem countP_succ_le {α : Type} (p r : α → Bool) (hpr : ∀ a, p a = true → r a = true) :
    ∀ (l : List α) (i : Nat) (t : α), l[i]? = some t → r t = true → p t = false → l.countP p + 1 ≤ l.countP r
  | [], _, _, h, _, _ => by simp at h
  | x :: xs, 0, t, h, hr, hp => by
    simp at h; subst h
    have hle : xs.countP p ≤ xs.countP r := List.countP_mono_left (fun a _ => hpr a)
    simp only [List.countP_cons, hr, hp]; simp; omega
  | x :: xs, i + 1, t, h, hr, hp => by
    simp at h
    have ih := countP_succ_le p r hpr xs i t h hr hp
    simp only [List.countP_cons]
    cases hx : p x with
    | true => simp [hpr x hx]; omega
    | false => cases hrx : r x <;> simp <;> omega

theorem ind_false : ind false = 0 := rfl
theorem ind_true : ind true = 1 := rfl

/-- **the invariant is preserved by every primitive step of every thread** -/
theorem Inv.step {s s' : St} (h : Inv s) (i : Nat) (hs : step s i = some s') : Inv s' := by
  have hcnt := h.cnt
  have hrl := h.rl
  have hwl := h.wl
  have hww := h.ww
  simp only [Pymap.TRW.step] at hs
  cases ht : s.tasks[i]? with
  | none => rw [ht] at hs; simp at hs
  | some t =>
    rw [ht] at hs; simp only [] at hs
    cases hpc : t.pc <;> rw [hpc] at hs <;> simp only [] at hs
    · -- idle
      cases hprog : t.prog with
      | nil => rw [hprog] at hs; simp at hs
      | cons sec rest =>
        rw [hprog] at hs
        cases sec <;> simp only [] at hs <;> injection hs with hs <;> subst hs
        · refine Inv.mk' i t _ ht s.r s.w s.counter ?_
          intro a b c d e h1 h2 h3 h4 h5
          simp [inIn, holdR, isW, isInc, isWW, ind, hpc] at h1 h2 h3 h4 h5
          refine ⟨?_, ?_, ?_, ?_⟩ <;> omega
        · refine Inv.mk' i t _ ht s.r s.w s.counter ?_
          intro a b c d e h1 h2 h3 h4 h5
          simp [inIn, holdR, isW, isInc, isWW, ind, hpc] at h1 h2 h3 h4 h5
          refine ⟨?_, ?_, ?_, ?_⟩ <;> omega
    · -- rWantR
      split at hs
      · simp at hs
      · rename_i hr
        have hr0 : ind s.r = 0 := by simp [ind, hr]
        injection hs with hs; subst hs
        refine Inv.mk' i t _ ht true s.w s.counter ?_
        intro a b c d e h1 h2 h3 h4 h5
        simp [inIn, holdR, isW, isInc, isWW, ind, hpc] at h1 h2 h3 h4 h5
        refine ⟨?_, ?_, ?_, ?_⟩ <;> (try simp only [ind_true, ind_false]) <;> omega
    · -- rHoldR
      injection hs with hs; subst hs
      by_cases hc : s.counter = 0
      · refine Inv.mk' i t _ ht s.r s.w s.counter ?_
        intro a b c d e h1 h2 h3 h4 h5
        simp [inIn, holdR, isW, isInc, isWW, ind, hpc, hc] at h1 h2 h3 h4 h5
        refine ⟨?_, ?_, ?_, ?_⟩ <;> omega
      · refine Inv.mk' i t _ ht s.r s.w s.counter ?_
        intro a b c d e h1 h2 h3 h4 h5
        simp [inIn, holdR, isW, isInc, isWW, ind, hpc, hc] at h1 h2 h3 h4 h5
        refine ⟨?_, ?_, ?_, ?_⟩ <;> omega
    · -- rWantW
      split at hs
      · simp at hs
      · rename_i hw
        have hw0 : ind s.w = 0 := by simp [ind, hw]
        injection hs with hs; subst hs
        refine Inv.mk' i t _ ht s.r true s.counter ?_
        intro a b c d e h1 h2 h3 h4 h5
        simp [inIn, holdR, isW, isInc, isWW, ind, hpc] at h1 h2 h3 h4 h5
        have hww' : 1 ≤ nWW s := by omega
        have := hww hww'
        refine ⟨?_, ?_, ?_, ?_⟩ <;> (try simp only [ind_true, ind_false]) <;> omega
    · -- rInc
      injection hs with hs; subst hs
      refine Inv.mk' i t _ ht false s.w (s.counter + 1) ?_
      intro a b c d e h1 h2 h3 h4 h5
      simp [inIn, holdR, isW, isInc, isWW, ind, hpc] at h1 h2 h3 h4 h5
      have hb : ind s.r ≤ 1 := by unfold ind; split <;> omega
      have hwb : ind s.w ≤ 1 := by unfold ind; split <;> omega
      have hx : nWW s + 1 ≤ nHold s := countP_succ_le isWW holdR
        (fun a ha => by simp [isWW] at ha; simp [holdR, ha]) s.tasks i t ht (by simp [holdR, hpc]) (by simp [isWW, hpc])
      refine ⟨?_, ?_, ?_, ?_⟩ <;> (try simp only [ind_true, ind_false]) <;> omega
    · -- rIn
      injection hs with hs; subst hs
      refine Inv.mk' i t _ ht s.r s.w s.counter ?_
      intro a b c d e h1 h2 h3 h4 h5
      simp [inIn, holdR, isW, isInc, isWW, ind, hpc] at h1 h2 h3 h4 h5
      refine ⟨?_, ?_, ?_, ?_⟩ <;> omega
    · -- xWantR
      split at hs
      · simp at hs
      · rename_i hr
        have hr0 : ind s.r = 0 := by simp [ind, hr]
        injection hs with hs; subst hs
        refine Inv.mk' i t _ ht true s.w s.counter ?_
        intro a b c d e h1 h2 h3 h4 h5
        simp [inIn, holdR, isW, isInc, isWW, ind, hpc] at h1 h2 h3 h4 h5
        refine ⟨?_, ?_, ?_, ?_⟩ <;> (try simp only [ind_true, ind_false]) <;> omega
    · -- xDec
      injection hs with hs; subst hs
      have hb : ind s.r ≤ 1 := by unfold ind; split <;> omega
      have hwb : ind s.w ≤ 1 := by unfold ind; split <;> omega
      have hx : nInc s + 1 ≤ nHold s := countP_succ_le isInc holdR
        (fun a ha => by simp [isInc] at ha; simp [holdR, ha]) s.tasks i t ht (by simp [holdR, hpc]) (by simp [isInc, hpc])
      by_cases hc : s.counter - 1 = 0
      · rw [if_pos hc]
        refine Inv.mk' i t _ ht false false (s.counter - 1) ?_
        intro a b c d e h1 h2 h3 h4 h5
        simp [inIn, holdR, isW, isInc, isWW, ind, hpc] at h1 h2 h3 h4 h5
        refine ⟨?_, ?_, ?_, ?_⟩ <;> (try simp only [ind_true, ind_false]) <;> omega
      · rw [if_neg hc]
        refine Inv.mk' i t _ ht false s.w (s.counter - 1) ?_
        intro a b c d e h1 h2 h3 h4 h5
        simp [inIn, holdR, isW, isInc, isWW, ind, hpc] at h1 h2 h3 h4 h5
        refine ⟨?_, ?_, ?_, ?_⟩ <;> (try simp only [ind_true, ind_false]) <;> omega
    · -- wWantW
      split at hs
      · simp at hs
      · rename_i hw
        have hw0 : ind s.w = 0 := by simp [ind, hw]
        injection hs with hs; subst hs
        refine Inv.mk' i t _ ht s.r true s.counter ?_
        intro a b c d e h1 h2 h3 h4 h5
        simp [inIn, holdR, isW, isInc, isWW, ind, hpc] at h1 h2 h3 h4 h5
        refine ⟨?_, ?_, ?_, ?_⟩ <;> (try simp only [ind_true, ind_false]) <;> omega
    · -- wIn
      injection hs with hs; subst hs
      have hwb : ind s.w ≤ 1 := by unfold ind; split <;> omega
      refine Inv.mk' i t _ ht s.r false s.counter ?_
      intro a b c d e h1 h2 h3 h4 h5
      simp [inIn, holdR, isW, isInc, isWW, ind, hpc] at h1 h2 h3 h4 h5
      refine ⟨?_, ?_, ?_, ?_⟩ <;> (try simp only [ind_true, ind_false]) <;> omega

theorem Inv.run {s s' : St} (h : Inv s) (is : List Nat) (hs : Pymap.TRW.run s is = some s') : Inv s' := by
  induction is generalizing s with
  | nil =>
    have hs' : some s = some s' := hs
    injection hs' with e; subst e; exact h
  | cons i is ih =>
    simp only [Pymap.TRW.run] at hs
    cases h1 : Pymap.TRW.step s i with
    | none => rw [h1] at hs; simp at hs
    | some s1 => rw [h1] at hs; exact ih (h.step i h1) hs

end Pymap.TRW

namespace Pymap.C20
open Pymap.TRW
open Pymap.RWLock (ind)

/-- **Exclusion, threading lock.** Any number of threads, any programs, pre-emption between any two primitive operations:
while a thread is inside a write section no other thread is inside a write or a read section. -/
theorem C20_thread_exclusion (progs : List (List Bool)) (is : List Nat) (s : St)
    (hs : run (St.init progs) is = some s) (i j : Nat) (ti tj : Task)
    (hi : s.tasks[i]? = some ti) (hj : s.tasks[j]? = some tj) (hij : i ≠ j)
    (hw : ti.pc = .wIn) : tj.pc ≠ .wIn ∧ tj.pc ≠ .rIn := by
  have h := (Inv.init progs).run is hs
  have hwi : isW ti = true := by simp [isW, hw]
  have h1 := countP_pos_of_getElem isW s.tasks i ti hi hwi
  have hwl := h.wl
  have hcnt := h.cnt
  have hwb : ind s.w ≤ 1 := by unfold ind; split <;> omega
  constructor
  · intro hc
    have hwj : isW tj = true := by simp [isW, hc]
    have := countP_two isW s.tasks i j ti tj hij hi hj hwi hwj
    unfold nW at hwl; omega
  · intro hc
    have hrj : inIn tj = true := by simp [inIn, hc]
    have h2 := countP_pos_of_getElem inIn s.tasks j tj hj hrj
    unfold nW at hwl; unfold nIn at hcnt; omega

/-- a thread is finished when it has no section left to run -/
def tfinished (t : Task) : Prop := t.pc = .idle ∧ t.prog = []

def tcanRun (s : St) (t : Task) : Prop :=
  match t.pc with
  | .idle => t.prog ≠ []
  | .rWantR => s.r = false
  | .xWantR => s.r = false
  | .rWantW => s.w = false
  | .wWantW => s.w = false
  | _ => True

theorem tenabled_of {s : St} {j : Nat} {t : Task} (ht : s.tasks[j]? = some t) (hc : tcanRun s t) :
    ∃ s', step s j = some s' := by
  simp only [step, ht]
  unfold tcanRun at hc
  cases hpc : t.pc <;> rw [hpc] at hc <;> simp only [] at hc ⊢
  · cases hprog : t.prog with
    | nil => exact absurd hprog hc
    | cons sec rest => cases sec <;> exact ⟨_, rfl⟩
  · simp [hc]
  · exact ⟨_, rfl⟩
  · simp [hc]
  · exact ⟨_, rfl⟩
  · exact ⟨_, rfl⟩
  · simp [hc]
  · exact ⟨_, rfl⟩
  · simp [hc]
  · exact ⟨_, rfl⟩

/-- **No deadlock, threading lock.** In every reachable state in which some thread is not finished, some thread can perform its
next primitive operation: whoever holds `R` is never waiting for anything but `W`, and while `W` is held the writer inside or a
reader between its increment and its decrement can go on. -/
theorem C20_thread_no_deadlock (progs : List (List Bool)) (is : List Nat) (s : St)
    (hs : run (St.init progs) is = some s) (i : Nat) (t : Task) (hi : s.tasks[i]? = some t) (hnf : ¬ tfinished t) :
    ∃ j s', step s j = some s' := by
  have h := (Inv.init progs).run is hs
  have hcnt := h.cnt
  have hrl := h.rl
  have hwl := h.wl
  have hww := h.ww
  -- `W` is held: somebody who does not need `W` can move, possibly after the holder of `R`
  have rprog : s.r = true → (∃ j s', step s j = some s') ∨ (∃ (j : Nat) (tj : Task), s.tasks[j]? = some tj ∧ tj.pc = .rWantW) := by
    intro hr
    have : 1 ≤ nHold s := by simp [ind, hr] at hrl; omega
    obtain ⟨j, tj, hj, hp⟩ := exists_of_countP holdR s.tasks this
    simp [holdR] at hp
    rcases hp with ((hp | hp) | hp) | hp
    · exact Or.inl ⟨j, tenabled_of hj (by unfold tcanRun; rw [hp]; trivial)⟩
    · exact Or.inr ⟨j, tj, hj, hp⟩
    · exact Or.inl ⟨j, tenabled_of hj (by unfold tcanRun; rw [hp]; trivial)⟩
    · exact Or.inl ⟨j, tenabled_of hj (by unfold tcanRun; rw [hp]; trivial)⟩
  have wprog : s.w = true → ∃ j s', step s j = some s' := by
    intro hw
    have hw1 : ind s.w = 1 := by simp [ind, hw]
    by_cases hnw : 1 ≤ nW s
    · obtain ⟨j, tj, hj, hp⟩ := exists_of_countP isW s.tasks hnw
      have : tj.pc = .wIn := by simpa [isW] using hp
      exact ⟨j, tenabled_of hj (by unfold tcanRun; rw [this]; trivial)⟩
    · by_cases hni : 1 ≤ nInc s
      · obtain ⟨j, tj, hj, hp⟩ := exists_of_countP isInc s.tasks hni
        have : tj.pc = .rInc := by simpa [isInc] using hp
        exact ⟨j, tenabled_of hj (by unfold tcanRun; rw [this]; trivial)⟩
      · have hc1 : 1 ≤ nIn s := by omega
        obtain ⟨j, tj, hj, hp⟩ := exists_of_countP inIn s.tasks hc1
        simp [inIn] at hp
        rcases hp with (hp | hp) | hp
        · exact ⟨j, tenabled_of hj (by unfold tcanRun; rw [hp]; trivial)⟩
        · -- wants `R` to leave: either it is free, or its holder can move (a holder waiting for `W` saw the counter at 0)
          cases hr : s.r with
          | false => exact ⟨j, tenabled_of hj (by unfold tcanRun; rw [hp]; exact hr)⟩
          | true =>
            rcases rprog hr with hm | ⟨k, tk, hk, hpk⟩
            · exact hm
            · have : 1 ≤ nWW s := countP_pos_of_getElem isWW s.tasks k tk hk (by simp [isWW, hpk])
              have := hww this
              omega
        · exact ⟨j, tenabled_of hj (by unfold tcanRun; rw [hp]; trivial)⟩
  have rfull : s.r = true → ∃ j s', step s j = some s' := by
    intro hr
    rcases rprog hr with hm | ⟨k, tk, hk, hpk⟩
    · exact hm
    · cases hw : s.w with
      | false => exact ⟨k, tenabled_of hk (by unfold tcanRun; rw [hpk]; exact hw)⟩
      | true => exact wprog hw
  cases hpc : t.pc with
  | idle =>
    refine ⟨i, tenabled_of hi ?_⟩
    unfold tcanRun; rw [hpc]
    intro e; exact hnf ⟨hpc, e⟩
  | rWantR =>
    cases hr : s.r with
    | false => exact ⟨i, tenabled_of hi (by unfold tcanRun; rw [hpc]; exact hr)⟩
    | true => exact rfull hr
  | xWantR =>
    cases hr : s.r with
    | false => exact ⟨i, tenabled_of hi (by unfold tcanRun; rw [hpc]; exact hr)⟩
    | true => exact rfull hr
  | rWantW =>
    cases hw : s.w with
    | false => exact ⟨i, tenabled_of hi (by unfold tcanRun; rw [hpc]; exact hw)⟩
    | true => exact wprog hw
  | wWantW =>
    cases hw : s.w with
    | false => exact ⟨i, tenabled_of hi (by unfold tcanRun; rw [hpc]; exact hw)⟩
    | true => exact wprog hw
  | rHoldR => exact ⟨i, tenabled_of hi (by unfold tcanRun; rw [hpc]; trivial)⟩
  | rInc => exact ⟨i, tenabled_of hi (by unfold tcanRun; rw [hpc]; trivial)⟩
  | rIn => exact ⟨i, tenabled_of hi (by unfold tcanRun; rw [hpc]; trivial)⟩
  | xDec => exact ⟨i, tenabled_of hi (by unfold tcanRun; rw [hpc]; trivial)⟩
  | wIn => exact ⟨i, tenabled_of hi (by unfold tcanRun; rw [hpc]; trivial)⟩

/-- how much a thread still has to do -/
def tweight (t : Task) : Nat :=
  match t.pc with
  | .idle => 8 * t.prog.length + 1
  | .rWantR => 8 * t.prog.tail.length + 8
  | .rHoldR => 8 * t.prog.tail.length + 7
  | .rWantW => 8 * t.prog.tail.length + 6
  | .rInc => 8 * t.prog.tail.length + 5
  | .rIn => 8 * t.prog.tail.length + 4
  | .xWantR => 8 * t.prog.tail.length + 3
  | .xDec => 8 * t.prog.tail.length + 2
  | .wWantW => 8 * t.prog.tail.length + 8
  | .wIn => 8 * t.prog.tail.length + 2

def tmu (s : St) : Nat := (s.tasks.map tweight).sum

theorem tsum_set (f : Task → Nat) : ∀ (l : List Task) (i : Nat) (a b : Task), l[i]? = some a →
    ((l.set i b).map f).sum + f a = (l.map f).sum + f b
  | [], _, _, _, h => by simp at h
  | x :: xs, 0, a, b, h => by
    simp at h; subst h
    simp only [List.set, List.map_cons, List.sum_cons]; omega
  | x :: xs, i+1, a, b, h => by
    simp at h
    have ih := tsum_set f xs i a b h
    simp only [List.set, List.map_cons, List.sum_cons]; omega

theorem tstep_weight {s s' : St} (i : Nat) (hs : step s i = some s') :
    ∃ t t', s.tasks[i]? = some t ∧ s'.tasks = s.tasks.set i t' ∧ tweight t' < tweight t := by
  simp only [Pymap.TRW.step] at hs
  cases ht : s.tasks[i]? with
  | none => rw [ht] at hs; simp at hs
  | some t =>
    rw [ht] at hs; simp only [] at hs
    cases hpc : t.pc <;> rw [hpc] at hs <;> simp only [] at hs
    · cases hprog : t.prog with
      | nil => rw [hprog] at hs; simp at hs
      | cons sec rest =>
        rw [hprog] at hs
        cases sec <;> simp only [] at hs <;> injection hs with hs <;> subst hs <;>
          exact ⟨t, _, rfl, rfl, by simp [tweight, hpc, hprog]; omega⟩
    · split at hs
      · simp at hs
      · injection hs with hs; subst hs; exact ⟨t, _, rfl, rfl, by simp [tweight, hpc]⟩
    · injection hs with hs; subst hs
      refine ⟨t, _, rfl, rfl, ?_⟩
      by_cases hc : s.counter = 0 <;> simp [tweight, hpc, hc]
    · split at hs
      · simp at hs
      · injection hs with hs; subst hs; exact ⟨t, _, rfl, rfl, by simp [tweight, hpc]⟩
    · injection hs with hs; subst hs; exact ⟨t, _, rfl, rfl, by simp [tweight, hpc]⟩
    · injection hs with hs; subst hs; exact ⟨t, _, rfl, rfl, by simp [tweight, hpc]⟩
    · split at hs
      · simp at hs
      · injection hs with hs; subst hs; exact ⟨t, _, rfl, rfl, by simp [tweight, hpc]⟩
    · injection hs with hs; subst hs; exact ⟨t, _, rfl, rfl, by simp [tweight, hpc]⟩
    · split at hs
      · simp at hs
      · injection hs with hs; subst hs; exact ⟨t, _, rfl, rfl, by simp [tweight, hpc]⟩
    · injection hs with hs; subst hs; exact ⟨t, _, rfl, rfl, by simp [tweight, hpc]⟩

/-- **Every schedule of the threading lock is finite**: at most eight primitive steps per section and one per thread. -/
theorem C20_thread_terminates (is : List Nat) (s s' : St) (hs : run s is = some s') : is.length + tmu s' ≤ tmu s := by
  induction is generalizing s with
  | nil =>
    have hs' : some s = some s' := hs
    injection hs' with e; subst e; simp
  | cons i is ih =>
    simp only [Pymap.TRW.run] at hs
    cases h1 : step s i with
    | none => rw [h1] at hs; simp at hs
    | some s1 =>
      rw [h1] at hs
      have := ih s1 hs
      obtain ⟨t, t', ht, he, hw⟩ := tstep_weight i h1
      have := tsum_set tweight s.tasks i t t' ht
      have hm : tmu s1 < tmu s := by unfold tmu; rw [he]; omega
      simp only [List.length_cons]; omega

/-- non-vacuity: a writer inside, the first reader holding `R` and waiting for `W`, a second reader waiting for `R` -/
example : (run (St.init [[false], [true], [true]]) [0, 0, 1, 1, 1, 2]).map (fun s => (s.tasks.map (·.pc), s.r, s.w, s.counter)) =
    some ([.wIn, .rWantW, .rWantR], true, true, 0) := by decide

end Pymap.C20
