import PymapModel.Session
/-!
# C12 — a read-only selection never changes the mailbox
-/
namespace Pymap.C12
open Pymap.Session Pymap.Mailbox Pymap.Sync

/-- **Frame.** Whatever message command a read-only selection issues, with whatever arguments, the
mailbox — messages, flags (including the implicit `\Seen` of a body fetch), stored `\Recent` bits, change
log — is exactly what it was. -/
theorem C12_frame (b : MBox) (v : View) (permitted : List Nat) (c : MCmd) : (exec b v true permitted c).1 = b := by
  cases c <;> simp [exec]

/-- a whole program -/
theorem C12_frame_program (b : MBox) (v : View) (permitted : List Nat) (cs : List MCmd) :
    cs.foldl (fun b c => (exec b v true permitted c).1) b = b := by
  induction cs with
  | nil => rfl
  | cons c cs ih => rw [List.foldl_cons, C12_frame]; exact ih

/-- STORE and EXPUNGE are refused with NO; CLOSE succeeds (and removes nothing, by `C12_frame`) -/
theorem C12_answers (b : MBox) (v : View) (permitted : List Nat) (byUid : Bool) (set : List Seq.Elem) (mode : Nat)
    (fs : List Nat) (us : Option (List Seq.Elem)) :
    (exec b v true permitted (.store byUid set mode fs)).2 = .no ∧
    (exec b v true permitted (.expunge us)).2 = .no ∧
    (exec b v true permitted .close).2 = .ok := by
  simp [exec]

end Pymap.C12
