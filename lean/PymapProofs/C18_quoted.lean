import PymapModel.Wire
namespace Pymap.C18
open Pymap.Wire

theorem scanQuoted_dq (acc r : List Nat) : scanQuoted acc (dq :: r) = some (acc.reverse, r) := by
  unfold scanQuoted; simp

theorem scanQuoted_esc (acc r : List Nat) (c : Nat) (hc : c = bs ∨ c = dq) :
    scanQuoted acc (bs :: c :: r) = scanQuoted (c :: acc) r := by
  rw [scanQuoted.eq_def]
  have h1 : ¬ bs = dq := by decide
  have h2 : ¬ (bs = 13 ∨ bs = 10) := by decide
  simp only [h1, h2, if_false, if_true, hc]

theorem scanQuoted_plain (acc r : List Nat) (b : Nat) (h1 : b ≠ dq) (h2 : b ≠ bs) (h3 : b ≠ 13) (h4 : b ≠ 10) :
    scanQuoted acc (b :: r) = scanQuoted (b :: acc) r := by
  rw [scanQuoted.eq_def]
  have h5 : ¬ (b = 13 ∨ b = 10) := fun e => by rcases e with e | e; exact h3 e; exact h4 e
  simp only [h1, h2, h5, if_false]

theorem scanQuoted_escape (v rest acc : List Nat) (h : ∀ b ∈ v, b ≠ 13 ∧ b ≠ 10) :
    scanQuoted acc (escape v ++ dq :: rest) = some (acc.reverse ++ v, rest) := by
  induction v generalizing acc with
  | nil => simp [escape, scanQuoted_dq]
  | cons b r ih =>
    have hb := h b (by simp)
    have ih' := fun acc' => ih acc' (fun x hx => h x (by simp [hx]))
    simp only [escape]
    by_cases hq : b = dq ∨ b = bs
    · simp only [hq, if_true, List.cons_append]
      rw [scanQuoted_esc _ _ _ hq.symm, ih']; simp
    · simp only [hq, if_false, List.cons_append]
      rw [scanQuoted_plain _ _ _ (fun e => hq (Or.inl e)) (fun e => hq (Or.inr e)) hb.1 hb.2, ih']; simp

/-- serialising a quoted string and parsing it again yields the same value and consumes exactly
its own bytes, whatever follows -/
theorem C18_roundtrip_quoted (v rest : List Nat) (h : ∀ b ∈ v, b ≠ 13 ∧ b ≠ 10) :
    parseQuoted (serQuoted v ++ rest) = some (v, rest) := by
  have : serQuoted v ++ rest = dq :: (escape v ++ dq :: rest) := by simp [serQuoted]
  rw [this]
  simp only [parseQuoted]
  have hs : skipSpaces (dq :: (escape v ++ dq :: rest)) = dq :: (escape v ++ dq :: rest) := by
    simp [skipSpaces, dq]
  rw [hs]; simp only [if_true]
  have := scanQuoted_escape v rest [] h
  simpa using this

/-- what `escape` emits contains no bare quote or backslash: every `"`/`\` is preceded by a backslash
that is not itself escaped — stated as: un-escaping is the identity (the strict grammar's reading) -/
theorem C07_quoted_escape (v : List Nat) (h : ∀ b ∈ v, b ≠ 13 ∧ b ≠ 10) :
    scanQuoted [] (escape v ++ [dq]) = some (v, []) := by
  have := scanQuoted_escape v [] [] h; simpa using this

/-- `String.build` never puts CR, LF or NUL inside a quoted string -/
theorem C07_build_safe (v : List Nat) (hq : buildString false v = serQuoted v) (hne : v ≠ []) :
    ∀ b ∈ v, b ≠ 13 ∧ b ≠ 10 ∧ b ≠ 0 := by
  unfold buildString at hq
  have he : v.isEmpty = false := by cases v <;> simp_all
  simp only [he, Bool.false_eq_true, if_false] at hq
  split at hq
  · rename_i hc
    simp only [Bool.not_false, Bool.true_and, Bool.and_eq_true, Bool.not_eq_true', decide_eq_true_eq] at hc
    intro b hb
    refine ⟨?_, ?_, ?_⟩
    · intro e; subst e; have := hc.2; simp_all
    · intro e; subst e; have := hc.1.1.2; simp_all
    · intro e; subst e; have := hc.1.2; simp_all
  · -- the literal form starts with `{`, the quoted form with `"`
    simp [serLiteral, serQuoted, dq] at hq

example : parseQuoted (serQuoted [97, 34, 92, 98] ++ [32, 120]) = some ([97, 34, 92, 98], [32, 120]) := by decide

end Pymap.C18
