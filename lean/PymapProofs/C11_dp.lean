import PymapModel.Namespace
/-!
# C11 — the position-set matcher of the repaired `ListTree` is the recursive wildcard semantics

`wildDP` (what `ListTree._matches` computes: one pass over the name with the set of reachable pattern positions) equals
`wild` (RFC 3501's reading of `*` and `%`, about which `C11_star_all`, `C11_pct`, `C11_literal`, `C11_list` speak).
-/
namespace Pymap.C11
open Pymap.Namespace

/-- some position of the set accepts the rest of the name -/
def acc (ci : Bool) (S : List (List Nat)) (n : List Nat) : Bool := S.any (fun p => wild ci p n)

theorem acc_append (ci : Bool) (A B : List (List Nat)) (n : List Nat) : acc ci (A ++ B) n = (acc ci A n || acc ci B n) := by
  simp [acc, List.any_append]

theorem acc_flatMap {α : Type} (ci : Bool) (f : α → List (List Nat)) (n : List Nat) : ∀ (l : List α),
    acc ci (l.flatMap f) n = l.any (fun x => acc ci (f x) n)
  | [] => by simp [acc]
  | x :: r => by
    simp only [List.flatMap_cons, acc_append, List.any_cons]
    rw [acc_flatMap ci f n r]

theorem acc_eraseDups (ci : Bool) (S : List (List Nat)) (n : List Nat) : acc ci S.eraseDups n = acc ci S n := by
  unfold acc
  rw [Bool.eq_iff_iff]
  simp only [List.any_eq_true]
  constructor
  · rintro ⟨p, hp, h⟩; exact ⟨p, List.mem_eraseDups.1 hp, h⟩
  · rintro ⟨p, hp, h⟩; exact ⟨p, List.mem_eraseDups.2 hp, h⟩

/-- skipping a wildcard never loses a match -/
theorem wild_skip (ci : Bool) (p : Nat) (ps n : List Nat) (hw : isWild p = true) (h : wild ci ps n = true) :
    wild ci (p :: ps) n = true := by
  have hp : p = star ∨ p = pct := by simpa [isWild] using hw
  cases n with
  | nil =>
    unfold wild
    rcases hp with rfl | rfl <;> simp [h]
  | cons c cs =>
    unfold wild
    rcases hp with rfl | rfl
    · simp [h]
    · have : (pct = star) = False := by simp [pct, star]
      simp [this, h]

theorem acc_closure1 (ci : Bool) (n : List Nat) : ∀ (p : List Nat), acc ci (closure1 p) n = wild ci p n
  | [] => by simp [closure1, acc]
  | p :: ps => by
    unfold closure1
    by_cases hw : isWild p = true
    · simp only [hw, if_true]
      have ih := acc_closure1 ci n ps
      have : acc ci ((p :: ps) :: closure1 ps) n = (wild ci (p :: ps) n || acc ci (closure1 ps) n) := by simp [acc]
      rw [this, ih]
      cases h : wild ci ps n with
      | false => simp
      | true => rw [wild_skip ci p ps n hw h]; rfl
    · have hw' : isWild p = false := by simpa using hw
      simp [hw', acc]

theorem acc_closure (ci : Bool) (S : List (List Nat)) (n : List Nat) : acc ci (closure S) n = acc ci S n := by
  unfold closure
  rw [acc_eraseDups, acc_flatMap]
  unfold acc
  congr 1
  funext p
  exact acc_closure1 ci n p

/-- one character: stepping every position of a closed set -/
theorem acc_step1 (ci : Bool) (c : Nat) (cs : List Nat) : ∀ (p : List Nat),
    acc ci ((closure1 p).flatMap (stepPos ci c)) cs = wild ci p (c :: cs)
  | [] => by simp [closure1, stepPos, acc, wild]
  | p :: ps => by
    have ih := acc_step1 ci c cs ps
    unfold closure1
    by_cases hs : p = star
    · subst hs
      have hw : isWild star = true := by simp [isWild]
      simp only [hw, if_true, List.flatMap_cons, acc_append]
      rw [ih]
      have h1 : acc ci (stepPos ci c (star :: ps)) cs = wild ci (star :: ps) cs := by simp [stepPos, acc]
      rw [h1]
      conv => rhs; unfold wild
      simp only [if_true]
      rw [Bool.or_comm]
    · by_cases hp : p = pct
      · subst hp
        have hw : isWild pct = true := by simp [isWild]
        have hne : (pct = star) = False := by simp [pct, star]
        simp only [hw, if_true, List.flatMap_cons, acc_append]
        rw [ih]
        have h1 : acc ci (stepPos ci c (pct :: ps)) cs = (c != delim && wild ci (pct :: ps) cs) := by
          unfold stepPos
          simp only [hne, if_false, if_true]
          by_cases hc : (c != delim) = true
          · simp [hc, acc]
          · have : (c != delim) = false := by simpa using hc
            simp [this, acc]
        rw [h1]
        conv => rhs; unfold wild
        simp only [hne, if_false, if_true]
        rw [Bool.or_comm]
      · have hw : isWild p = false := by simp [isWild, hs, hp]
        simp only [hw, Bool.false_eq_true, if_false, List.flatMap_cons, List.flatMap_nil, List.append_nil]
        conv => rhs; unfold wild
        simp only [hs, hp, if_false]
        unfold stepPos
        simp only [hs, hp, if_false]
        cases hm : (if ci then upper p == upper c else p == c) with
        | true => simp [acc]
        | false => simp [acc]

theorem acc_step (ci : Bool) (c : Nat) (cs : List Nat) (T : List (List Nat)) :
    acc ci ((closure T).flatMap (stepPos ci c)) cs = acc ci T (c :: cs) := by
  -- membership in `closure T` = membership in `T.flatMap closure1`
  have hmem : ∀ q, q ∈ closure T ↔ q ∈ T.flatMap closure1 := fun q => by unfold closure; exact List.mem_eraseDups
  have h1 : acc ci ((closure T).flatMap (stepPos ci c)) cs = acc ci ((T.flatMap closure1).flatMap (stepPos ci c)) cs := by
    unfold acc
    rw [Bool.eq_iff_iff]
    simp only [List.any_eq_true, List.mem_flatMap]
    constructor
    · rintro ⟨p, ⟨q, hq, hp⟩, h⟩; exact ⟨p, ⟨q, List.mem_flatMap.1 ((hmem q).1 hq), hp⟩, h⟩
    · rintro ⟨p, ⟨q, hq, hp⟩, h⟩; exact ⟨p, ⟨q, (hmem q).2 (List.mem_flatMap.2 hq), hp⟩, h⟩
  rw [h1, List.flatMap_assoc, acc_flatMap]
  unfold acc
  congr 1
  funext p
  exact acc_step1 ci c cs p

theorem closure1_nil (ci : Bool) : ∀ (p : List Nat), (closure1 p).contains [] = wild ci p []
  | [] => by simp [closure1, wild]
  | p :: ps => by
    have ih := closure1_nil ci ps
    unfold closure1
    conv => rhs; unfold wild
    by_cases hw : isWild p = true
    · have hp : (p = star || p = pct) = true := by simpa [isWild] using hw
      simp only [hw, if_true, List.contains_cons]
      have : (([] : List Nat) == p :: ps) = false := by simp
      rw [this, Bool.false_or, ih]
      simp [hp]
    · have hw' : isWild p = false := by simpa using hw
      have hp : (p = star || p = pct) = false := by simpa [isWild] using hw'
      simp [hw', hp]

theorem closure_nil (ci : Bool) (T : List (List Nat)) : (closure T).contains [] = acc ci T [] := by
  unfold closure acc
  rw [Bool.eq_iff_iff]
  simp only [List.contains_iff_mem, List.mem_eraseDups, List.mem_flatMap, List.any_eq_true]
  constructor
  · rintro ⟨p, hp, h⟩
    refine ⟨p, hp, ?_⟩
    rw [← closure1_nil ci p]; simpa using h
  · rintro ⟨p, hp, h⟩
    refine ⟨p, hp, ?_⟩
    have := closure1_nil ci p
    rw [h] at this
    simpa using this

theorem run_eq (ci : Bool) : ∀ (n : List Nat) (T : List (List Nat)),
    (n.foldl (fun S c => closure (S.flatMap (stepPos ci c))) (closure T)).contains [] = acc ci T n
  | [], T => by simpa using closure_nil ci T
  | c :: cs, T => by
    simp only [List.foldl_cons]
    rw [run_eq ci cs ((closure T).flatMap (stepPos ci c)), acc_step]

/-- **the repaired matcher computes the wildcard semantics**: for every pattern and every name, in
`len(pattern) × len(name)` set operations instead of a backtracking search -/
theorem C11_dp_matches (ci : Bool) (pat name : List Nat) : wildDP ci pat name = wild ci pat name := by
  unfold wildDP
  rw [run_eq]
  simp [acc]

example : wildDP false [42, 97, 42, 98] [120, 97, 121, 98] = true := by decide
example : wildDP false [37, 98] [97, 47, 98] = false := by decide

end Pymap.C11
