import PymapModel.Idle
/-!
# C16 — IDLE delivers every change without further stimulus
-/
namespace Pymap.C16
open Pymap.Idle

structure Inv (s : St) : Prop where
  le       : s.consumed ≤ s.highest
  armed    : s.pc = .wait → s.fired ≠ none
  parked   : s.pc = .wait → s.fired = some false → s.consumed = s.highest ∧ s.done = false
  inSync   : (s.pc = .arm ∨ s.pc = .wait) → s.written = s.consumed
  exited   : s.pc = .exit → s.done = true

theorem Inv.init : Inv St.init := by constructor <;> simp [St.init]

theorem fire_ne_none {f : Option Bool} (h : f ≠ none) : fire f ≠ none := by
  cases f <;> simp_all [fire]
theorem fire_ne_false (f : Option Bool) : fire f ≠ some false := by
  cases f <;> simp [fire]

theorem Inv.change {s : St} (h : Inv s) : Inv { s with highest := s.highest + 1, fired := fire s.fired } where
  le := by have := h.le; show s.consumed ≤ s.highest + 1; omega
  armed := fun hp => fire_ne_none (h.armed hp)
  parked := fun _ hf => absurd hf (fire_ne_false _)
  inSync := h.inSync
  exited := h.exited

theorem Inv.clientDone {s : St} (h : Inv s) : Inv { s with done := true, fired := fire s.fired } where
  le := h.le
  armed := fun hp => fire_ne_none (h.armed hp)
  parked := fun _ hf => absurd hf (fire_ne_false _)
  inSync := h.inSync
  exited := fun _ => rfl

theorem Inv.idler {s s' : St} (h : Inv s) (hs : idlerStep true s = some s') : Inv s' := by
  obtain ⟨h1, h2, h3, h4, h5⟩ := h
  unfold idlerStep at hs
  cases hpc : s.pc <;> simp only [hpc] at hs
  · -- arm
    split at hs
    · injection hs with hs; subst hs
      exact ⟨h1, by simp, by simp, by simp, fun _ => by assumption⟩
    · split at hs
      · injection hs with hs; subst hs
        exact ⟨h1, by simp, by simp, by simp, by simp⟩
      · rename_i hd hc
        injection hs with hs; subst hs
        have hd' : s.done = false := by simpa using hd
        have hc' : s.consumed = s.highest := by simp at hc; omega
        exact ⟨h1, by simp, fun _ _ => ⟨hc', hd'⟩, fun _ => h4 (Or.inl hpc), by simp⟩
  · -- wait
    split at hs
    · injection hs with hs; subst hs
      exact ⟨h1, by simp, by simp, by simp, by simp⟩
    · simp at hs
  · -- consume
    injection hs with hs; subst hs
    refine ⟨Nat.le_refl _, ?_, ?_, ?_, ?_⟩
    · intro h; cases h
    · intro h; cases h
    · rintro (h | h) <;> cases h
    · intro h; cases h
  · -- write
    injection hs with hs; subst hs
    refine ⟨h1, ?_, ?_, fun _ => rfl, ?_⟩
    · intro h; cases h
    · intro h; cases h
    · intro h; cases h
  · simp at hs

theorem Inv.step {s s' : St} (l : Label) (h : Inv s) (hs : Idle.step true s l = some s') : Inv s' := by
  cases l with
  | change =>
    have hs' : some { s with highest := s.highest + 1, fired := fire s.fired } = some s' := hs
    injection hs' with hs'; subst hs'; exact h.change
  | clientDone =>
    have hs' : some { s with done := true, fired := fire s.fired } = some s' := hs
    injection hs' with hs'; subst hs'; exact h.clientDone
  | idler => exact h.idler hs

theorem Inv.run {s s' : St} (ls : List Label) (h : Inv s) (hs : Idle.run true s ls = some s') : Inv s' := by
  induction ls generalizing s with
  | nil =>
    have hs' : some s = some s' := hs
    injection hs' with hs'; subst hs'; exact h
  | cons l ls ih =>
    have hs' : (Idle.step true s l).bind (fun s1 => Idle.run true s1 ls) = some s' := hs
    cases hst : Idle.step true s l with
    | none => rw [hst] at hs'; simp at hs'
    | some s1 => rw [hst] at hs'; exact ih (h.step l hst) hs'

/-- **no lost wake-up**: in every reachable state, an idler parked on an unfired event has consumed
and written everything there is -/
theorem C16_no_lost_wakeup (ls : List Label) (s : St) (hs : run true St.init ls = some s)
    (hp : s.pc = .wait) (hf : s.fired = some false) : s.consumed = s.highest ∧ s.written = s.highest := by
  have h := Inv.init.run ls hs
  have := h.parked hp hf
  exact ⟨this.1, by rw [h.inSync (Or.inr hp)]; exact this.1⟩

/-- draining from `arm` with nothing pending parks immediately with everything written -/
theorem drain_arm_synced (n : Nat) (s : St) (hpc : s.pc = .arm) (hd : s.done = false)
    (hc : s.consumed = s.highest) (hw : s.written = s.consumed) : (drain true n s).written = s.highest := by
  cases n with
  | zero => simp [drain, hw, hc]
  | succ n =>
    have h1 : idlerStep true s = some { s with pc := .wait, fired := some false } := by
      simp [idlerStep, hpc, hd, hc]
    simp only [drain, h1]
    cases n with
    | zero => simp [drain, hw, hc]
    | succ n => simp [drain, idlerStep, hw, hc]

theorem drain_write (n : Nat) (s : St) (hpc : s.pc = .write) (hd : s.done = false)
    (hc : s.consumed = s.highest) : (drain true (n+1) s).written = s.highest := by
  have h1 : idlerStep true s = some { s with written := s.consumed, pc := .arm } := by simp [idlerStep, hpc]
  simp only [drain, h1]
  exact drain_arm_synced n { s with written := s.consumed, pc := .arm } rfl hd hc rfl

theorem drain_consume (n : Nat) (s : St) (hpc : s.pc = .consume) (hd : s.done = false) :
    (drain true (n+2) s).written = s.highest := by
  have h1 : idlerStep true s = some { s with consumed := s.highest, pc := .write } := by simp [idlerStep, hpc]
  simp only [drain, h1]
  exact drain_write n { s with consumed := s.highest, pc := .write } rfl hd rfl

theorem drain_arm (n : Nat) (s : St) (hpc : s.pc = .arm) (hd : s.done = false) (hle : s.consumed ≤ s.highest)
    (hw : s.written = s.consumed) : (drain true (n+3) s).written = s.highest := by
  by_cases hc : s.consumed < s.highest
  · have h1 : idlerStep true s = some { s with pc := .consume, fired := none } := by
      simp [idlerStep, hpc, hd, hc]
    simp only [drain, h1]
    exact drain_consume n { s with pc := .consume, fired := none } rfl hd
  · exact drain_arm_synced _ s hpc hd (by omega) hw

/-- **progress**: from any reachable state, with no further mailbox activity and no client input,
the idler's own steps (at most four) bring every change to the client -/
theorem C16_progress (ls : List Label) (s : St) (hs : run true St.init ls = some s) (hd : s.done = false) :
    (drain true 4 s).written = s.highest := by
  have h := Inv.init.run ls hs
  cases hpc : s.pc with
  | arm => exact drain_arm 1 s hpc hd h.le (h.inSync (Or.inl hpc))
  | wait =>
    cases hf : s.fired with
    | none => exact absurd hf (h.armed hpc)
    | some b =>
      cases b with
      | true =>
        have h1 : idlerStep true s = some { s with pc := .consume, fired := none } := by simp [idlerStep, hpc, hf]
        simp only [drain, h1]
        exact drain_consume 1 { s with pc := .consume, fired := none } rfl hd
      | false =>
        have h1 : idlerStep true s = none := by simp [idlerStep, hpc, hf]
        simp only [drain, h1]
        rw [h.inSync (Or.inr hpc)]; exact (h.parked hpc hf).1
  | consume => exact drain_consume 2 s hpc hd
  | write =>
    have h1 : idlerStep true s = some { s with written := s.consumed, pc := .arm } := by simp [idlerStep, hpc]
    simp only [drain, h1]
    exact drain_arm 0 { s with written := s.consumed, pc := .arm } rfl hd h.le rfl
  | exit => have := h.exited hpc; rw [hd] at this; simp at this

/-- the code as found loses a wake-up: a change that lands while the idler is writing the previous
notification is never delivered (the idler parks on an unfired event with the change unwritten) -/
theorem C16_lost_wakeup_as_found :
    ∃ s, run false St.init [.idler, .change, .idler, .idler, .change, .idler, .idler] = some s ∧
      s.pc = .wait ∧ s.fired = some false ∧ s.written < s.highest ∧ idlerStep false s = none := by
  decide

end Pymap.C16
