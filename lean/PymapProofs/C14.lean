import PymapModel.Faults
/-!
# C14 — no message is lost or half-applied when a command fails midway
-/
namespace Pymap.C14
open Pymap.Faults

theorem mem_filter_ne {l : List Nat} {x c : Nat} (h : c ∈ l) (hne : c ≠ x) : c ∈ l.filter (· != x) := by
  simp [List.mem_filter, h, hne]

/-- what holds of the moved message `c` at every boundary of the repaired MOVE -/
structure Inv (c : Nat) (s : St) : Prop where
  atStart   : s.pc = .start → c ∈ s.src
  atCopied  : ∀ c', s.pc = .copied c' → c' = c ∧ c ∈ s.dst
  noHolding : ∀ c', s.pc ≠ .holding c'
  atDone    : s.pc = .done → c ∈ s.dst ∧ c ∉ s.src
  atCancel  : s.pc = .cancelled → c ∈ s.src ∨ c ∈ s.dst

theorem Inv.somewhere {c : Nat} {s : St} (h : Inv c s) : c ∈ s.src ∨ c ∈ s.dst := by
  cases hp : s.pc with
  | start => exact Or.inl (h.atStart hp)
  | holding c' => exact absurd hp (h.noHolding c')
  | copied c' => exact Or.inr (h.atCopied c' hp).2
  | done => exact Or.inr (h.atDone hp).1
  | cancelled => exact h.atCancel hp

theorem Inv.step {c : Nat} {s s' : St} (h : Inv c s) (l : Label)
    (hl : ∀ x, (l = .otherExpunge x ∨ l = .otherAppend x) → x ≠ c)
    (hs : Faults.step true c s l = some s') : Inv c s' := by
  obtain ⟨i1, i2, i3, i4, i5⟩ := h
  cases l with
  | step =>
    simp only [Faults.step] at hs
    cases hp : s.pc with
    | start =>
      rw [hp] at hs; simp only [] at hs
      have := i1 hp
      simp [this] at hs; subst hs
      exact ⟨by simp, by intro c' hc'; simp at hc'; subst hc'; simp, by simp, by simp, by simp⟩
    | holding c' => exact absurd hp (i3 c')
    | copied c' =>
      rw [hp] at hs; simp at hs; subst hs
      obtain ⟨e, hd⟩ := i2 c' hp; subst e
      exact ⟨by simp, by simp, by simp, fun _ => ⟨hd, by simp [List.mem_filter]⟩, by simp⟩
    | done => rw [hp] at hs; simp at hs
    | cancelled => rw [hp] at hs; simp at hs
  | cancel =>
    simp only [Faults.step] at hs
    cases hp : s.pc with
    | start =>
      rw [hp] at hs; simp at hs; subst hs
      exact ⟨by simp, by simp, by simp, by simp, fun _ => Or.inl (i1 hp)⟩
    | holding c' => exact absurd hp (i3 c')
    | copied c' =>
      rw [hp] at hs; simp at hs; subst hs
      exact ⟨by simp, by simp, by simp, by simp, fun _ => Or.inr (i2 c' hp).2⟩
    | done => rw [hp] at hs; simp at hs
    | cancelled => rw [hp] at hs; simp at hs
  | otherExpunge x =>
    have hx : x ≠ c := hl x (Or.inl rfl)
    simp only [Faults.step] at hs; injection hs with hs; subst hs
    refine ⟨fun hp => mem_filter_ne (i1 hp) (fun e => hx e.symm), i2, i3, ?_, ?_⟩
    · intro hp; exact ⟨(i4 hp).1, fun hc' => (i4 hp).2 (List.mem_filter.1 hc').1⟩
    · intro hp; rcases i5 hp with h | h
      · exact Or.inl (mem_filter_ne h (fun e => hx e.symm))
      · exact Or.inr h
  | otherAppend x =>
    have hx : x ≠ c := hl x (Or.inr rfl)
    simp only [Faults.step] at hs; injection hs with hs; subst hs
    refine ⟨fun hp => by simp [i1 hp], i2, i3, ?_, ?_⟩
    · intro hp; refine ⟨(i4 hp).1, ?_⟩
      simp only [List.mem_append, List.mem_singleton, not_or]
      exact ⟨(i4 hp).2, fun e => hx e.symm⟩
    · intro hp; rcases i5 hp with h | h
      · exact Or.inl (by simp [h])
      · exact Or.inr h

  | otherCopyDst x =>
    simp only [Faults.step] at hs; injection hs with hs; subst hs
    refine ⟨i1, ?_, i3, ?_, ?_⟩
    · intro c' hp; exact ⟨(i2 c' hp).1, by simp [(i2 c' hp).2]⟩
    · intro hp; exact ⟨by simp [(i4 hp).1], (i4 hp).2⟩
    · intro hp; rcases i5 hp with h | h
      · exact Or.inl h
      · exact Or.inr (by simp [h])

/-- **Conservation (repaired MOVE).** Under every schedule of the mover's own steps, a cancellation at
any boundary, and other sessions appending or expunging other messages: the moved message is never
outside both mailboxes; once the MOVE has completed it is in the destination and not in the source. -/
theorem C14_conservation (c : Nat) (s0 : St) (h0 : s0.pc = .start) (hc : c ∈ s0.src)
    (ls : List Label) (hother : ∀ x, (Label.otherExpunge x ∈ ls ∨ Label.otherAppend x ∈ ls) → x ≠ c) (s : St)
    (hs : run true c s0 ls = some s) :
    (c ∈ s.src ∨ c ∈ s.dst) ∧ (s.pc = .done → c ∈ s.dst ∧ c ∉ s.src) := by
  have h0inv : Inv c s0 := ⟨fun _ => hc, by simp [h0], by simp [h0], by simp [h0], by simp [h0]⟩
  have key : ∀ (ls : List Label) (s1 : St), Inv c s1 →
      (∀ x, (Label.otherExpunge x ∈ ls ∨ Label.otherAppend x ∈ ls) → x ≠ c) →
      run true c s1 ls = some s → Inv c s := by
    intro ls
    induction ls with
    | nil => intro s1 h _ hr; have : s1 = s := by simpa [run] using hr
             exact this ▸ h
    | cons l ls ih =>
      intro s1 h hoth hr
      have hr' : (Faults.step true c s1 l).bind (fun s' => run true c s' ls) = some s := hr
      cases hst : Faults.step true c s1 l with
      | none => rw [hst] at hr'; simp at hr'
      | some s2 =>
        rw [hst] at hr'
        apply ih s2 _ (fun x hx => hoth x (by rcases hx with hx | hx <;> simp [hx])) hr'
        apply h.step l _ hst
        intro x hx
        rcases hx with rfl | rfl
        · exact hoth x (Or.inl (by simp))
        · exact hoth x (Or.inr (by simp))
  have := key ls s0 h0inv hother hs
  exact ⟨this.somewhere, this.atDone⟩

/-- the code as found loses the message when the mover is cancelled between the two locks -/
theorem C14_move_loses_as_found :
    ∃ s, run false 7 ⟨[7, 8], [], .start⟩ [.step, .cancel] = some s ∧ 7 ∉ s.src ∧ 7 ∉ s.dst := by decide

/-- multi-APPEND is *not* all-or-nothing (known finding D21): cancelled after the first of two messages,
the command has not completed and one message is in the mailbox -/
theorem C14_multiappend_atomic_full_false :
    ∃ s, arun ⟨[], [1, 2], true⟩ [.step, .cancel] = some s ∧ s.live = false ∧ s.box = [1] := by decide

/-- … but a single-message APPEND is: if it did not complete, nothing was added -/
theorem C14_multiappend_atomic_partial (m : Nat) (box : List Nat) (ls : List Label) (s : ASt)
    (hs : arun ⟨box, [m], true⟩ ls = some s) : s.todo = [m] → s.box = box := by
  induction ls generalizing s with
  | nil => intro _; have : (⟨box, [m], true⟩ : ASt) = s := by simpa [arun] using hs
           rw [← this]
  | cons l ls ih =>
    intro htodo
    -- generalise over the state reached: while `todo = [m]`, `box` is unchanged
    have gen : ∀ (ls : List Label) (s1 s : ASt), s1.todo = [m] → s1.box = box →
        arun s1 ls = some s → s.todo = [m] → s.box = box := by
      intro ls
      induction ls with
      | nil => intro s1 s h1 h2 hr _; have : s1 = s := by simpa [arun] using hr
               exact this ▸ h2
      | cons l ls ih2 =>
        intro s1 s h1 h2 hr ht
        have hr' : (astep s1 l).bind (fun s' => arun s' ls) = some s := hr
        cases hst : astep s1 l with
        | none => rw [hst] at hr'; simp at hr'
        | some s2 =>
          rw [hst] at hr'
          cases l with
          | step =>
            simp only [astep] at hst
            split at hst
            · rw [h1] at hst; simp at hst; subst hst
              -- after the step `todo = []`; it never grows back
              have mono : ∀ (ls : List Label) (a s : ASt), a.todo = [] → arun a ls = some s → s.todo = [] := by
                intro ls
                induction ls with
                | nil => intro a s ha hr; have : a = s := by simpa [arun] using hr
                         exact this ▸ ha
                | cons l ls ih3 =>
                  intro a s ha hr
                  have hr2 : (astep a l).bind (fun s' => arun s' ls) = some s := hr
                  cases hs2 : astep a l with
                  | none => rw [hs2] at hr2; simp at hr2
                  | some a2 =>
                    rw [hs2] at hr2
                    apply ih3 a2 s _ hr2
                    cases l <;> simp only [astep] at hs2
                    · split at hs2
                      · rw [ha] at hs2; simp at hs2
                      · simp at hs2
                    · split at hs2
                      · injection hs2 with hs2; subst hs2; exact ha
                      · simp at hs2
                    · injection hs2 with hs2; subst hs2; exact ha
                    · injection hs2 with hs2; subst hs2; exact ha
                    · injection hs2 with hs2; subst hs2; exact ha
              have := mono ls _ s rfl hr'
              rw [this] at ht; simp at ht
            · simp at hst
          | cancel =>
            simp only [astep] at hst
            split at hst
            · injection hst with hst; subst hst
              exact ih2 { s1 with live := false } s h1 h2 (by simpa using hr') ht
            · simp at hst
          | otherExpunge x => simp only [astep] at hst; injection hst with hst; subst hst; exact ih2 _ s h1 h2 (by simpa using hr') ht
          | otherAppend x => simp only [astep] at hst; injection hst with hst; subst hst; exact ih2 _ s h1 h2 (by simpa using hr') ht
          | otherCopyDst x => simp only [astep] at hst; injection hst with hst; subst hst; exact ih2 _ s h1 h2 (by simpa using hr') ht
    exact gen (l :: ls) ⟨box, [m], true⟩ s rfl rfl hs htodo

end Pymap.C14
