import PymapProofs.Lemmas.RWInv
/-!
# C20 — lock primitives give the exclusion they document (asyncio read-write lock, repaired D25)
-/
namespace Pymap.C20
open Pymap.RWLock

theorem countP_pos_of_getElem {α : Type} (p : α → Bool) : ∀ (l : List α) (i : Nat) (a : α),
    l[i]? = some a → p a = true → 1 ≤ l.countP p
  | [], _, _, h, _ => by simp at h
  | x :: xs, 0, a, h, hp => by simp at h; subst h; simp [List.countP_cons, hp]
  | x :: xs, i+1, a, h, hp => by
    simp at h
    have := countP_pos_of_getElem p xs i a h hp
    simp only [List.countP_cons]; omega

theorem countP_two {α : Type} (p : α → Bool) : ∀ (l : List α) (i j : Nat) (a b : α), i ≠ j →
    l[i]? = some a → l[j]? = some b → p a = true → p b = true → 2 ≤ l.countP p
  | [], _, _, _, _, _, h, _, _, _ => by simp at h
  | x :: xs, 0, 0, _, _, hne, _, _, _, _ => absurd rfl hne
  | x :: xs, 0, j+1, a, b, _, ha, hb, hpa, hpb => by
    simp at ha hb; subst ha
    have := countP_pos_of_getElem p xs j b hb hpb
    simp only [List.countP_cons, hpa, if_true]; omega
  | x :: xs, i+1, 0, a, b, _, ha, hb, hpa, hpb => by
    simp at ha hb; subst hb
    have := countP_pos_of_getElem p xs i a ha hpa
    simp only [List.countP_cons, hpb, if_true]; omega
  | x :: xs, i+1, j+1, a, b, hne, ha, hb, hpa, hpb => by
    simp at ha hb
    have := countP_two p xs i j a b (fun e => hne (by omega)) ha hb hpa hpb
    simp only [List.countP_cons]; omega

/-- **Exclusion.** For any number of tasks running any programs of read and write sections, under
every schedule and with cancellation of any task at any step: a writer's critical section never
overlaps another writer's or any reader's. -/
theorem C20_exclusion (progs : List (List Bool)) (ls : List Label) (s : St)
    (hs : run (St.init progs) ls = some s) (i j : Nat) (ti tj : Task)
    (hi : s.tasks[i]? = some ti) (hj : s.tasks[j]? = some tj) (hij : i ≠ j)
    (hw : ti.pc = .wIn) : tj.pc ≠ .wIn ∧ tj.pc ≠ .rIn := by
  have h := (Inv.init progs).run ls hs
  have hwi : isW ti = true := by unfold isW; rw [hw]; decide
  constructor
  · intro hc
    have hwj : isW tj = true := by unfold isW; rw [hc]; decide
    have := countP_two isW s.tasks i j ti tj hij hi hj hwi hwj
    have := h.w1; unfold nW at this; omega
  · intro hc
    have hrj : isR tj = true := by unfold isR; rw [hc]; decide
    have h1 := countP_pos_of_getElem isW s.tasks i ti hi hwi
    have h2 := countP_pos_of_getElem isR s.tasks j tj hj hrj
    have := h.wr h1; unfold nR at this; omega

/-- **Cancellation-safe bookkeeping.** In every reachable state — whatever was cancelled, wherever —
the reader counter equals the number of tasks inside a read section, and the write mutex is held
exactly when somebody is inside a section.  (The lock as found leaks a count when the first reader
is cancelled while queued behind a writer; from then on readers bypass writers.) -/
theorem C20_cancel_safe (progs : List (List Bool)) (ls : List Label) (s : St)
    (hs : run (St.init progs) ls = some s) :
    s.counter = s.tasks.countP (fun t => t.pc == .rIn) ∧
    (s.w.locked = true ↔ (1 ≤ s.tasks.countP (fun t => t.pc == .wIn) ∨ 1 ≤ s.tasks.countP (fun t => t.pc == .rIn))) := by
  have h := (Inv.init progs).run ls hs
  exact ⟨h.cnt, h.wlk⟩

/-- non-vacuity: writer active, first reader queues behind it and is cancelled, second reader must wait -/
example :
    (run (St.init [[false], [true], [true]]) [.run 0, .run 1, .cancel 1, .run 1, .run 2]).map
      (fun s => (s.tasks.map (·.pc), s.counter)) = some ([.wIn, .dead, .rWaitW], 0) := by decide

end Pymap.C20
