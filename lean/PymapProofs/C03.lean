import PymapProofs.Lemmas.Mime
/-!
# C03 — message bytes are stored and returned verbatim (line index / slicing part)

Model: `PymapModel/Mime.lean` (with the repaired `get_raw`, defect D1).
-/
namespace Pymap.C03
open Pymap.Mime

/-- FETCH BODY[] / RFC822 returns exactly the appended bytes — for every byte string. -/
theorem C03_raw (data : List Nat) : (parse data).raw = data := by
  unfold parse
  simp only []
  rw [getRaw_two, splitLines_append, getRaw_chain data (findLines_chain data), slice_full]

/-- RFC822.SIZE is the length of the appended bytes. -/
theorem C03_size (data : List Nat) : (parse data).raw.length = data.length := by rw [C03_raw]

/-- BODY[HEADER] followed by BODY[TEXT] is the message. -/
theorem C03_header_text (data : List Nat) : (parse data).header ++ (parse data).body = data := by
  unfold parse
  simp only []
  have hch := findLines_chain data
  rw [← splitLines_append data (findLines data)] at hch
  obtain ⟨m, h1, h2⟩ := chain_append.1 hch
  rw [getRaw_chain data h1, getRaw_chain data h2, slice_append data h1.le h2.le, slice_full]

/-- BODY[]<o.n> is the slice `b[o:o+n]`. -/
theorem C03_partial (data : List Nat) (o n : Nat) :
    getPartial (parse data).raw o (some n) = (data.drop o).take n := by
  rw [C03_raw]; rfl

/-- non-vacuity, on exactly the shapes that used to lose a byte (header only, no separator,
whitespace-only last line) -/
example : (parse [83, 58, 32, 120, 13, 10]).raw = [83, 58, 32, 120, 13, 10] ∧
          (parse [83, 58, 32, 120, 13, 10]).body = [] ∧
          (parse [104, 105]).header = [] ∧ (parse [104, 105]).body = [104, 105] ∧
          (parse [97, 58, 98, 13, 10, 32]).raw = [97, 58, 98, 13, 10, 32] := by decide

end Pymap.C03
