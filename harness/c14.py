"""C14 — no message is lost or half-applied when a command fails midway.

Tie: a real connection (dict backend) whose backend locks park at every acquisition under the deterministic scheduler (the
`Subsystem` handed in through the public `subsystem=` argument) vs the Lean `Faults` transition system (MOVE as "add to the
destination, then remove from the source", cancellation at any boundary, a second session expunging/appending in between) about
which C14_conservation is proved; C14_move_loses_as_found is the `decide`d witness against the code as found;
C14_multiappend_atomic_full_false / _partial record the known finding D21.  For every single-message MOVE the run is replayed as
model labels and (in source?, in destination?) compared at every park point.
Monitor: for MOVE / COPY / multi-message APPEND / EXPUNGE the command is cut at *every* park point in turn — by cancelling the
connection task (= client gone) and by an exception from the n-th storage call — under random interleaving with a second
session; an independent probe connection dumps both mailboxes at every park point and at the end: a message being moved is
always in the source or the destination, and after a completed MOVE in exactly one; a COPY or EXPUNGE that did not complete
leaves every message in place; a multi-APPEND that did not complete with OK leaves none of its messages (known finding D21);
a command that ends in NO/BAD changes nothing.  Maildir: the process-kill variant is C15's child-process machinery.
"""
from __future__ import annotations
import asyncio
import random
import re

from .common import l3, wire, backends, imapresp
from .common.model import Model
from .common.report import Part, guarded

RULE = ('commands MOVE / UID MOVE / COPY / EXPUNGE / UID EXPUNGE / APPEND with 1-3 messages, cut at every park point k (lock entries of the backend) by task cancellation and by an '
        'injected exception at the n-th storage call, with 0-3 operations of a second session interleaved at random park points; non-trivial = the fault hit after the first and '
        'before the last mutation of the command; distinct by (command, fault kind, k, interleaving)')


async def setup(sched):
    from pymap.imap import IMAPServer
    from .common.sched import ISubsystem
    sub = ISubsystem(sched)
    sched.enabled = False
    be, config = await backends.make_dict(users=[('u', 'p', ())], bad_command_limit=None, subsystem=sub)
    srv = IMAPServer(be.login, config)
    a = wire.Client(srv, fd=10, name='s0')
    await a.start()
    await a.send(b'a LOGIN u p\r\n')
    await a.send(b'a CREATE other\r\n')
    b = wire.Client(srv, fd=11, name='s1')
    await b.start()
    await b.send(b'b LOGIN u p\r\n')
    for cid in (1, 2, 3, 4):
        body = l3.msg_bytes(cid)
        await a.send(b'a APPEND INBOX ' + (b'(\\Deleted) ' if cid in (2, 3) else b'') + b'{%d+}\r\n' % len(body) + body + b'\r\n')
    await a.send(b'a SELECT INBOX\r\n')
    await b.send(b'b SELECT INBOX\r\n')
    return srv, a, b


async def dump(srv):
    """{mailbox: sorted cids} through a fresh probe connection"""
    p = wire.Client(srv, fd=99, name='probe')
    await p.start()
    await p.send(b'p LOGIN u p\r\n')
    out = {}
    for name in (b'INBOX', b'other'):
        await p.send(b'p EXAMINE ' + name + b'\r\n')
        raw = await p.send(b'p UID FETCH 1:* (RFC822.SIZE FLAGS)\r\n')
        cids = []
        for resp in imapresp.parse(raw):
            f = imapresp.fetch_items(resp)
            if f:
                cids.append(l3.cid_of_size(int(f[1][b'RFC822.SIZE'].val)))
        out[name.decode()] = sorted(cids)
    await p.eof()
    return out


COMMANDS = {
    'move1': (b'UID MOVE 101 other', dict(moving=[1])),
    'move2': (b'MOVE 1,4 other', dict(moving=[1, 4])),
    'moveall': (b'MOVE 1:* other', dict(moving=[1, 2, 3, 4])),
    'copy': (b'COPY 1:2 other', dict(copying=[1, 2])),
    'expunge': (b'EXPUNGE', dict(expunging=[2, 3])),
    'uidexpunge': (b'UID EXPUNGE 102', dict(expunging=[2])),
    'append1': (None, dict(appending=[11])),
    'append3': (None, dict(appending=[11, 12, 13])),
    'move-missing': (b'MOVE 1:2 nobox', dict(refused=True)),
    'copy-missing': (b'UID COPY 101:104 nobox', dict(refused=True)),
    'store-bad': (b'STORE 1:* +FLAGS (\\Seen', dict(refused=True)),
}


def command_bytes(name):
    line, info = COMMANDS[name]
    if line is None:
        parts = []
        for cid in info['appending']:
            body = l3.msg_bytes(cid)
            parts.append(b'{%d+}\r\n' % len(body) + body)
        line = b'APPEND INBOX ' + b' '.join(parts)
    return line


OTHER_APPEND = b'b APPEND other {%d+}\r\n' % len(l3.msg_bytes(21)) + l3.msg_bytes(21)
OTHER_OPS = [b'b UID STORE 101 +FLAGS (\\Deleted)', b'b EXPUNGE', b'b NOOP', b'b UID EXPUNGE 101', b'b STORE 1 +FLAGS (\\Flagged)', b'b COPY 1 other',
             b'b UID COPY 104 other', b'b UID COPY 103:104 other', OTHER_APPEND]


async def dump_uids(srv, name=b'other'):
    """{uid: cid} of one mailbox through a fresh probe connection"""
    p = wire.Client(srv, fd=98, name='probe2')
    await p.start()
    await p.send(b'p LOGIN u p\r\n')
    await p.send(b'p EXAMINE ' + name + b'\r\n')
    raw = await p.send(b'p UID FETCH 1:* (RFC822.SIZE)\r\n')
    out = {}
    for resp in imapresp.parse(raw):
        f = imapresp.fetch_items(resp)
        if f:
            out[int(f[1][b'UID'].val)] = l3.cid_of_size(int(f[1][b'RFC822.SIZE'].val))
    await p.eof()
    return out


def uid_list(spec):
    out = []
    for t in spec.split(b','):
        lo, _, hi = t.partition(b':')
        out += list(range(int(lo), int(hi or lo) + 1))
    return out


async def run_case(part, m, name, fault, k, others, explore=False):
    """fault: 'none' | 'cancel' | 'raise' ; k: park index (cancel) / storage call index (raise) ; others: {park index: [op, ...]} of the second session"""
    from .common.sched import Sched
    import pymap.backend.dict.mailbox as dm
    sched = Sched(quiesce_rounds=50)
    srv, a, b = await setup(sched)
    line, info = COMMANDS[name]
    case = dict(command=name, fault=fault, k=k, others={str(i): [o.decode() for o in ops] for i, ops in others.items()})
    before = await dump(srv)
    saved = {}
    calls = [0]
    # what a storage layer really raises differs: a bug (RuntimeError), a full disk or an exhausted quota (OSError with ENOSPC / EDQUOT), a failing device (EIO),
    # a missing file, a lock that is not obtained in time (TimeoutError) - however the server classifies it, a command answered NO has changed nothing
    import errno as _errno
    injected = [RuntimeError('injected storage fault'), OSError(_errno.ENOSPC, 'No space left on device'), OSError(_errno.EDQUOT, 'Disk quota exceeded'),
                OSError(_errno.EIO, 'Input/output error'), FileNotFoundError(2, 'No such file'), MemoryError(), KeyError(1), TimeoutError()][(k + len(name)) % 8]
    if fault == 'raise':
        def wrap(fname):
            orig = getattr(dm.MailboxData, fname)
            saved[fname] = orig

            async def wrapper(self, *args, **kw):
                if asyncio.current_task().get_name() == 's0':
                    calls[0] += 1
                    if calls[0] == k + 1:
                        raise injected
                return await orig(self, *args, **kw)
            setattr(dm.MailboxData, fname, wrapper)
        for fname in ('append', 'copy', 'move', 'delete'):
            wrap(fname)
    try:
        if fault == 'cancel-steps':
            # no contention, no injected fault: the client goes away k turns of the event loop after the command was sent.  Where the
            # code never suspends between two mutations (an uncontended asyncio lock does not), nothing can be cut in the middle.
            a.feed(b'x ' + command_bytes(name) + b'\r\n')
            for _ in range(k):
                await asyncio.sleep(0)
            a.task.cancel()
            try:
                await a.finish()
            except Exception:
                pass
            out = a.take()
            after = await dump(srv)
            status = 'OK' if b'x OK' in out else 'CUT'
            part.case(key=repr((name, fault, k)), nontrivial=after != before and status != 'OK', sample=dict(case, status=status))
            part.trace()
            part.stat(f'{name}:steps:{status}')
            moving = info.get('moving', [])
            for cid in moving:
                n_in = (cid in after['INBOX']) + after['other'].count(cid)
                if n_in == 0:
                    part.violation('monitor', f'{name}: message {cid} is lost: in neither mailbox after the client went away {k} loop turns into the command; before {before}, after {after}',
                                   case, signature='move-lost')
                if status == 'OK' and (cid in after['INBOX'] or after['other'].count(cid) != 1):
                    part.violation('monitor', f'{name}: completed with OK but message {cid} is in {after}', case, signature='move-dest')
            if 'appending' in info:
                present = [c for c in info['appending'] if c in after['INBOX']]
                if status == 'OK' and present != info['appending']:
                    part.violation('monitor', f'{name}: APPEND answered OK but the mailbox holds {present} of {info["appending"]}', case, signature='append-ok-missing')
                if status != 'OK' and present and len(present) < len(info['appending']):
                    part.violation('monitor', f'{name}: the client went away {k} loop turns into an uncontended APPEND of {info["appending"]}: messages {present} are in the mailbox, '
                                   f'the others are not (the command suspended between two messages)', case, signature='multiappend-partial-uncontended')
            if 'copying' in info and after['INBOX'] != before['INBOX']:
                part.violation('monitor', f'{name}: COPY cut after {k} loop turns changed the source: {before["INBOX"]} -> {after["INBOX"]}', case, signature='copy-source')
            await b.eof()
            return 0
        sched.enabled = True
        sched.only = {'s0'}
        a.feed(b'x ' + command_bytes(name) + b'\r\n')
        await sched.quiesce()
        parks = 0
        moving = info.get('moving', [])
        single = moving[0] if len(moving) == 1 else None
        mstate = None
        model_on = single is not None and fault != 'raise'
        if model_on:
            mstate = m.ask(f"faults reset {','.join(map(str, before['INBOX']))} {','.join(map(str, before['other'])) or '-'}")
        last = (single in before['INBOX'], single in before['other']) if single else None
        ever_missing = None
        cut = False
        mutated_before_cut = False
        promised = []
        n_promised = 0
        while 's0' in sched.parked:
            # the second session's operations at this park point
            for op in others.get(parks, []):
                raw_b = await b.send(op + b'\r\n')
                # what the second session was promised: (uid in `other`, content)
                mm = re.search(rb'b OK \[COPYUID \d+ (\S+) (\S+)\]', raw_b)
                if mm:
                    promised += [(d, u - 100, op) for u, d in zip(uid_list(mm.group(1)), uid_list(mm.group(2)))]
                mm = re.search(rb'b OK \[APPENDUID \d+ (\d+)\]', raw_b)
                if mm:
                    promised.append((int(mm.group(1)), 21, op[:20]))
                if model_on:
                    # whatever the second session put into the destination (label otherCopyDst of the Faults model)
                    for d_, cid_, op_ in promised[n_promised:]:
                        r_ = m.ask(f'faults step 1 {single} ocopy {cid_}')
                        if r_ != 'DISABLED':
                            mstate = r_
                n_promised = len(promised)
                if model_on:
                    now = await dump(srv)
                    if single not in now['INBOX'] and last[0] and not (single in now['other'] and not last[1]):
                        mstate = m.ask(f'faults step 1 {single} oexp {single}')
            now = await dump(srv)
            if now != before:
                mutated_before_cut = True
            for cid in moving:
                if cid in before['INBOX'] and cid not in now['INBOX'] and cid not in now['other'] and not expunged_by_other(others, parks, cid):
                    ever_missing = (cid, parks)
            if fault == 'cancel' and parks == k:
                a.task.cancel()
                cut = True
                if model_on:
                    r = m.ask(f'faults step 1 {single} cancel 0')
                    if r != 'DISABLED':
                        mstate = r
                break
            await sched.release('s0')
            parks += 1
            if model_on:
                now = await dump(srv)
                cur = (single in now['INBOX'], single in now['other'])
                if cur != last and (cur[1] != last[1] or (last[0] and not cur[0])):
                    r = m.ask(f'faults step 1 {single} step 0')
                    if r != 'DISABLED':
                        mstate = r
                    last = cur
        sched.enabled = False
        await sched.quiesce()
        out = a.take()
        try:
            tg = imapresp.tagged(imapresp.parse(out), b'x') if out else None
        except imapresp.Malformed:
            tg = None
        status = tg[1].decode() if tg else ('CUT' if (cut or a.task.done()) else '?')
        try:
            await a.finish()
        except Exception:
            pass
        after = await dump(srv)
        nontrivial = mutated_before_cut and cut or (fault == 'raise' and after != before and status != 'OK')
        part.case(key=repr((name, fault, k, case['others'])), nontrivial=bool(nontrivial), sample=dict(case, status=status, parks=parks))
        part.trace()
        part.stat(f'{name}:{status}')
        other_touched = set()
        for ops in others.values():
            for op in ops:
                if b'EXPUNGE' in op or b'STORE 101' in op or b'COPY' in op:
                    other_touched.add('x')
        # ---- monitors
        if promised:
            held = await dump_uids(srv)
            for d, cid, op in promised:
                part.stat('second-session-promise-checked')
                if held.get(d) != cid:
                    part.violation('monitor', f'{name} ({fault}@{k}): the second session\'s {op.decode("latin1")!r} was acknowledged with uid {d} of `other` for message {cid}; '
                                   f'afterwards that uid holds {held.get(d)} (mailbox: {held})', case, signature='second-session-lost')
        if ever_missing:
            part.violation('monitor', f'{name}: message {ever_missing[0]} was in neither mailbox at park point {ever_missing[1]} (fault {fault}@{k}, second session {case["others"]})', case,
                           signature='move-gap')
        for cid in moving:
            if cid in before['INBOX'] and not expunged_by_other(others, 99, cid):
                n_in = (cid in after['INBOX']) + after['other'].count(cid)
                if n_in == 0:
                    part.violation('monitor', f'{name}: message {cid} is lost: in neither mailbox after the command was cut ({fault}@{k}, status {status}); before {before}, after {after}', case,
                                   signature='move-lost')
                if status == 'OK' and (cid in after['INBOX']) and not other_touched:
                    part.violation('monitor', f'{name}: completed with OK but message {cid} is still in the source: {after}', case, signature='move-not-removed')
                if status == 'OK' and after['other'].count(cid) != 1 and not other_touched:
                    part.violation('monitor', f'{name}: completed with OK but the destination holds message {cid} {after["other"].count(cid)} times', case, signature='move-dest')
        if 'copying' in info and not other_touched:
            if after['INBOX'] != before['INBOX']:
                part.violation('monitor', f'{name}: COPY ({fault}@{k}, status {status}) changed the source: {before["INBOX"]} -> {after["INBOX"]}', case, signature='copy-source')
        if 'expunging' in info and not other_touched:
            gone = set(before['INBOX']) - set(after['INBOX'])
            if not gone <= set(info['expunging']):
                part.violation('monitor', f'{name}: EXPUNGE ({fault}@{k}) removed {sorted(gone)}; only {info["expunging"]} are \\Deleted', case, signature='expunge-wrong')
        if 'appending' in info:
            present = [c for c in info['appending'] if c in after['INBOX']]
            if status == 'OK' and present != info['appending']:
                part.violation('monitor', f'{name}: APPEND answered OK but the mailbox holds {present} of {info["appending"]}', case, signature='append-ok-missing')
            if status != 'OK' and present:
                sig = 'multiappend-partial' if len(info['appending']) > 1 and len(present) < len(info['appending']) else 'append-not-ok-present'
                part.violation('monitor', f'{name}: APPEND did not complete with OK ({fault}@{k}, status {status}) but messages {present} of {info["appending"]} are in the mailbox '
                               '(a multi-message APPEND is not all-or-nothing)', case, signature=sig)
        if status in ('NO', 'BAD') and after != before and not other_touched and not others:
            part.violation('monitor', f'{name}: answered {status} but the mailboxes changed: {before} -> {after}' + (f' (storage call {k + 1} raised {type(injected).__name__})' if fault == 'raise' else ''),
                           dict(case, injected=type(injected).__name__ if fault == 'raise' else None),
                           signature='refused-changed' + (':' + type(injected).__name__ if fault == 'raise' else ''))
        # ---- model
        if model_on and mstate and mstate != 'DISABLED':
            src, dst, pc = mstate.split(' ')
            msrc = single in [int(x) for x in src.split(',') if x not in ('-', '')]
            mdst = single in [int(x) for x in dst.split(',') if x not in ('-', '')]
            if (msrc, mdst) != (single in after['INBOX'], single in after['other']):
                part.violation('correspondence', f'{name} ({fault}@{k}, others {case["others"]}): message {single} in (source, destination) = '
                               f'{(single in after["INBOX"], single in after["other"])}, Faults model {(msrc, mdst)} at {pc}', case, signature='faults-model')
        await b.eof()
        return parks
    finally:
        for fname, orig in saved.items():
            setattr(dm.MailboxData, fname, orig)


def expunged_by_other(others, upto, cid):
    if cid in (2, 3):
        # flagged \\Deleted by the fixture: any EXPUNGE of the second session takes them
        return any(op.startswith(b'b EXPUNGE') for i in sorted(others) if i <= upto for op in others[i])
    if cid != 1:
        return False
    seen_del = False
    for i in sorted(others):
        if i > upto:
            break
        for op in others[i]:
            if op.startswith(b'b UID STORE 101 +FLAGS (\\Deleted)'):
                seen_del = True
            if seen_del and (op.startswith(b'b EXPUNGE') or op.startswith(b'b UID EXPUNGE 101')):
                return True
    return False


async def client_cancel(part, backend):
    """the client itself calls a multi-message APPEND off (RFC 3502: a zero-length literal where the next message would start): the command ends in NO and
    none of the messages it had already sent is in the mailbox - at every position, with synchronising and non-synchronising literals"""
    from pymap.imap import IMAPServer
    from .common import wire, backends
    base = None
    if backend == 'dict':
        be, config = await backends.make_dict(users=[('u', 'p', ())], bad_command_limit=None)
        login = be.login
    else:
        base = backends.scratch_dir('pymap-verif-c14-')
        config, login = await backends.make_maildir(base, users=[('u', 'p', ())], bad_command_limit=None)
    try:
        srv = IMAPServer(login, config)
        c = wire.Client(srv)
        await c.start()
        await c.send(b'a LOGIN u p\r\n')
        await c.send(b'a APPEND INBOX {9+}\r\nA: b\r\n\r\nx\r\n')

        async def status():
            raw = await c.send(b's STATUS INBOX (MESSAGES UIDNEXT)\r\n')
            mt = re.search(rb'MESSAGES (\d+) UIDNEXT (\d+)', raw)
            return (int(mt.group(1)), int(mt.group(2))) if mt else raw[-80:]
        for nbefore in (0, 1, 2, 3):
            for plus in (False, True):
                case = dict(scenario='client-cancel', backend=backend, messages_before_the_cancel=nbefore, literal_plus=plus)
                before = await status()
                msgs = [b'Subject: m%d\r\n\r\nbody %d\r\n' % (k, k) for k in range(nbefore)]
                raw = b''
                if plus:
                    line = b'c APPEND INBOX' + b''.join(b' {%d+}\r\n' % len(m_) + m_ for m_ in msgs) + b' {0+}\r\n\r\n'
                    raw = await c.send(line)
                else:
                    raw = await c.send(b'c APPEND INBOX {%d}\r\n' % (len(msgs[0]) if msgs else 0))
                    for k, m_ in enumerate(msgs):
                        nxt = len(msgs[k + 1]) if k + 1 < len(msgs) else 0
                        if not raw.startswith(b'+'):
                            break
                        raw = await c.send(m_ + b' {%d}\r\n' % nxt)
                    if raw.startswith(b'+'):
                        raw = await c.send(b'\r\n')
                after = await status()
                part.case(key=f'client-cancel:{backend}:{nbefore}:{plus}', nontrivial=nbefore > 0, sample=case)
                # tie: AppendCancel.doAppend (about which C14_client_cancel is proved) on the same literals
                if isinstance(before, tuple) and isinstance(after, tuple):
                    from .common.model import batch
                    mod = batch([f'appendcancel {before[0]} ' + ','.join([f'm{len(m_)}' for m_ in msgs] + ['e'])])[0]
                    tagged_ = [l for l in raw.split(b'\r\n') if l.startswith(b'c ')]
                    impl = (tagged_[-1].split(b' ')[1].decode() if tagged_ else '?') + f' {after[0]}'
                    if impl != mod:
                        part.violation('correspondence', f'{backend}: APPEND called off after {nbefore} message(s): answered/holds {impl}, AppendCancel.doAppend gives {mod}', case,
                                       signature='client-cancel-model')
                part.stat('client-cancel')
                tagged = [l for l in raw.split(b'\r\n') if l.startswith(b'c ')]
                if not tagged or not tagged[-1].startswith(b'c NO'):
                    part.violation('monitor', f'{backend}: an APPEND the client called off after {nbefore} message(s) ({"{n+}" if plus else "{n}"} literals) was answered {raw[-80:]!r}, not NO', case,
                                   signature='client-cancel-answer')
                if after != before:
                    part.violation('monitor', f'{backend}: an APPEND the client called off after {nbefore} message(s) changed the mailbox: MESSAGES/UIDNEXT {before} -> {after} (reply {raw[-60:]!r})', case,
                                   signature='client-cancel-stored')
        await c.eof()
    finally:
        if base:
            backends.rmtree(base)


def cancel_worker(job):
    part = Part()
    for backend in ('dict', 'maildir'):
        with guarded(part, 'C14 client cancel', dict(scenario='client-cancel', backend=backend)):
            asyncio.run(client_cancel(part, backend))
    return part.result()


def worker(job):
    seed, names, nrandom = job
    r = random.Random(seed)
    part = Part()
    m = Model()
    try:
        for name in names:
            with guarded(part, 'C14 baseline', dict(command=name)):
                nparks = asyncio.run(run_case(part, m, name, 'none', 0, {}))
            for k in range(nparks + 1):
                with guarded(part, 'C14 cancel', dict(command=name, fault='cancel', k=k)):
                    asyncio.run(run_case(part, m, name, 'cancel', k, {}))
            for k in range(4):
                with guarded(part, 'C14 raise', dict(command=name, fault='raise', k=k)):
                    asyncio.run(run_case(part, m, name, 'raise', k, {}))
            for k in range(0, 14):
                with guarded(part, 'C14 cancel-steps', dict(command=name, fault='cancel-steps', k=k)):
                    asyncio.run(run_case(part, m, name, 'cancel-steps', k, {}))
            for _ in range(nrandom):
                k = r.randint(0, max(0, nparks))
                others = {}
                for _ in range(r.randint(1, 3)):
                    others.setdefault(r.randint(0, max(0, nparks - 1)), []).append(r.choice(OTHER_OPS))
                with guarded(part, 'C14 interleaved', dict(command=name, fault='cancel', k=k)):
                    asyncio.run(run_case(part, m, name, r.choice(['cancel', 'cancel', 'none']), k, others))
    finally:
        m.close()
    return part.result()


def run(ctx):
    ctx.rep.rule = RULE
    ctx.rep.assumptions = ['dict backend under asyncio: code between two lock acquisitions is atomic; the scheduler parks at every acquisition of the backend locks',
                           'process kill applies to maildir only (there is nothing persistent to kill in the dict backend); it is run here through C15\'s child-process machinery on MOVE/COPY histories']
    names = list(COMMANDS)
    nw = ctx.workers
    chunks = [names[k::nw] for k in range(nw)]
    ctx.rep.extra['fault_enumeration'] = 'every park point of every command is cut once by cancellation; storage calls 1-4 raise once each'
    ctx.pmap(worker, [(ctx.seed * 1000 + 140 + k, chunks[k % len(chunks)] if k < len(names) else [names[k % len(names)]], ctx.budget(6, 80)) for k in range(nw)])
    ctx.pmap(cancel_worker, [(ctx.seed,)])
    # maildir: the fault is a process kill at every filesystem-operation boundary of MOVE / COPY histories (C15's child-process machinery);
    # the judge there includes conservation: a message of a MOVE in flight is served from the source or the destination after the restart
    from . import c15
    configs = [('++', False), ('fs', False)]
    ctx.pmap(c15.worker, [(ctx.seed * 1000 + 1400 + k, ctx.budget(1, 6), ['moves'], configs[k % 2:] + configs[:k % 2]) for k in range(nw)])


def replay(case):
    case = case.get('case', case)
    if 'history' in case:
        from . import c15
        return c15.replay(case)
    part = Part()
    m = Model()
    others = {int(i): [o.encode() for o in ops] for i, ops in case.get('others', {}).items()}
    asyncio.run(run_case(part, m, case['command'], case.get('fault', 'none'), case.get('k', 0), others))
    m.close()
    res = part.result()
    for v in res['violations']:
        print(f"[{v['kind']}] {v['what']}")
    print('reproduced' if res['violations'] else 'not reproduced')
    return 1 if res['violations'] else 0
