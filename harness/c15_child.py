"""Child process of the C15 check: runs a command history against a maildir store and dies at the k-th filesystem operation.

usage: c15_child.py <repo> <base> <layout> <history.json> <k | -1> <ack log> <tmpdir | -> [before | after]
Counted operations (the boundaries a `kill -9` can fall between): os.rename/replace/remove/unlink/rmdir/mkdir/link/utime,
os.open with a creating/writing flag, builtins.open with a writing mode.  The process exits with os._exit(17) *instead of*
performing operation number k (mode `before`), or immediately after operation k has returned (mode `after`: whatever the
process still holds in user-space buffers at that moment is lost, as with SIGKILL).  Every completed command is appended to the ack log with fsync before the next one starts.
"""
import asyncio
import builtins
import json
import os
import sys
import tempfile


def main():
    repo, base, layout, hist_path, k, ack_path, tmpdir = sys.argv[1:8]
    mode = sys.argv[8] if len(sys.argv) > 8 else 'before'
    k = int(k)
    sys.path.insert(0, os.path.dirname(os.path.dirname(os.path.abspath(__file__))))
    sys.path.insert(0, repo)
    if tmpdir != '-':
        os.environ['TMPDIR'] = tmpdir
        tempfile.tempdir = tmpdir
    from harness.common import wire, backends
    if tmpdir != '-':
        tempfile.tempdir = tmpdir
    history = json.load(open(hist_path))
    ack_fd = os.open(ack_path, os.O_WRONLY | os.O_CREAT | os.O_APPEND, 0o600)
    state = dict(count=0, on=False, trace=[])

    def hit(kind, path):
        if not state['on']:
            return
        p = os.fsdecode(path) if not isinstance(path, int) else str(path)
        if p == ack_path or not p.startswith(base):
            if not (tmpdir != '-' and p.startswith(tmpdir)):
                return
        if state['count'] == k:
            if mode == 'after':
                state['die'] = dict(crash_at=k, op=kind, path=p[len(base):] if p.startswith(base) else p, after=True)
            else:
                os.write(ack_fd, (json.dumps(dict(crash_at=k, op=kind, path=p[len(base):] if p.startswith(base) else p)) + '\n').encode())
                os.fsync(ack_fd)
                os._exit(17)
        state['count'] += 1
        state['trace'].append([kind, p[len(base):] if p.startswith(base) else 'TMP:' + os.path.basename(p)])

    def wrap(mod, name, kind=None, path_arg=0, pred=None):
        orig = getattr(mod, name)

        def w(*a, **kw):
            if state['on'] and len(a) > path_arg and (pred is None or pred(a, kw)):
                hit(kind or name, a[path_arg])
            res = orig(*a, **kw)
            if state.get('die') is not None:
                os.write(ack_fd, (json.dumps(state['die']) + '\n').encode())
                os.fsync(ack_fd)
                os._exit(17)
            return res
        setattr(mod, name, w)
    for n in ('rename', 'replace', 'remove', 'unlink', 'rmdir', 'mkdir', 'link', 'utime'):
        wrap(os, n)
    wrap(os, 'open', 'create', 0, lambda a, kw: len(a) > 1 and isinstance(a[1], int) and a[1] & (os.O_CREAT | os.O_TRUNC | os.O_WRONLY | os.O_RDWR))
    wrap(builtins, 'open', 'create', 0, lambda a, kw: isinstance(a[0], (str, bytes)) and any(c in (a[1] if len(a) > 1 else kw.get('mode', 'r')) for c in 'wxa+'))

    async def run():
        from pymap.imap import IMAPServer
        cfg, login = await backends.make_maildir(base, layout=layout, users=[('u', 'p', ())], bad_command_limit=None)
        srv = IMAPServer(login, cfg)
        c = wire.Client(srv)
        await c.start()
        await c.send(b'a LOGIN u p\r\n')
        await c.send(b'a SELECT INBOX\r\n')
        state['on'] = True
        for i, line in enumerate(history):
            before = state['count']
            raw = await c.send(b't ' + line.encode('latin1') + b'\r\n')
            rec = dict(i=i, reply=raw.decode('latin1'), ops=state['trace'][before:])
            os.write(ack_fd, (json.dumps(rec) + '\n').encode())
            os.fsync(ack_fd)
        state['on'] = False
        os.write(ack_fd, (json.dumps(dict(total=state['count'])) + '\n').encode())
        os.fsync(ack_fd)
    asyncio.run(run())
    os._exit(0)


if __name__ == '__main__':
    main()
