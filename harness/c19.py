"""C19 — ManageSieve: no script access before login; the script store is a map.

Tie: real `ManageSieveServer` connections (dict backend, two users + admin) vs the Lean `Sieve` model (`step`, `runState`,
the `FilterSet` association list — about which C19_gate, C19_wf, C19_put_get, C19_put_frame, C19_list, C19_delete_active,
C19_delete, C19_rename, C19_isolation are proved): every reply (OK / NO + code / BYE / capabilities / script bytes /
LISTSCRIPTS with the active mark, in order) is diffed per command.
Monitors (independent of the model): (gate) a connection that has not authenticated gets NO for every script command and
the stores of all users, read afterwards, are unchanged; (map) an independent Python dict+active reference is stepped alongside;
(isolation) what user B can list/get is unaffected by anything user A does.
"""
from __future__ import annotations
import asyncio
import base64
import itertools
import random
import re

from .common import wire, backends, imapresp
from .common.model import Model, nats
from .common.report import Part, guarded

USERS = [('alice', 'pwalice'), ('bob', 'pwbob')]
NAMES = ['a', 'b', '', 'café', 'q"uo\\te', 'with space', '中', 'A', 'x' * 40, 'a\tb', '{3}', 'NIL',
         # names whose bytes are not UTF-8 (kept as str through surrogateescape): the server may refuse them, or accept them and then keep them apart
         b'caf\xe9'.decode('utf-8', 'surrogateescape'), b'caf\xe8'.decode('utf-8', 'surrogateescape'), b'\xff'.decode('utf-8', 'surrogateescape'),
         b'a\xc3'.decode('utf-8', 'surrogateescape'),
         # control characters a literal carries but a quoted string must not: the listing has to stay readable
         'old\rmac', 'two\r\nlines', 'x\ny']


def nbytes(n):
    return n.encode('utf-8', 'surrogateescape')


def utf8(n):
    try:
        n.encode('utf-8')
        return True
    except UnicodeEncodeError:
        return False

SCRIPTS = [b'keep;', b'', b'discard;\r\n', b'\x00\xff bin', b'if true { keep; }', b'x' * 300, b'not a script (',
           # script bytes that end like the announcement of a literal: they never take part in the framing of the command
           b'keep;\r\n# see {3+}', b'{0+}', b'keep; # {2']
MAXLEN = 200


def qs(s):
    b = nbytes(s) if isinstance(s, str) else s
    if any(c in b for c in b'\r\n\x00') or any(c > 126 for c in b) and False:
        return b'{%d+}\r\n' % len(b) + b
    if any(c in b for c in b'\r\n\x00'):
        return b'{%d+}\r\n' % len(b) + b
    return b'"' + b.replace(b'\\', b'\\\\').replace(b'"', b'\\"') + b'"'


def lit(b):
    return b'{%d+}\r\n' % len(b) + b


def b64plain(authz, user, pw):
    return base64.b64encode(f'{authz}\0{user}\0{pw}'.encode())


def gen_cmd(r, compiles):
    """-> (wire bytes, model token, reference op)"""
    k = r.choice(['put', 'put', 'put', 'get', 'get', 'list', 'list', 'setactive', 'setactive', 'delete', 'delete', 'rename', 'rename', 'check', 'havespace',
                  'noop', 'cap', 'unauth', 'auth', 'auth-bad', 'logout', 'starttls', 'junk'])
    return make_cmd(k, r, compiles)


def make_cmd(k, r, compiles):
    w, tok, op = _make_cmd(k, r, compiles)
    # an empty script name does not parse (sieve-name is 1*): the whole command is then an unparseable line
    if (op[0] in ('put', 'get', 'delete', 'havespace') and b' "" ' in w[:16] + b' ') or (op[0] in ('get', 'delete') and w.endswith(b' ""\r\n')) \
            or (op[0] == 'rename' and (op[1] == '' or op[2] == '')) or (op[0] == 'havespace' and b'HAVESPACE "" ' in w):
        return w, 'junk', ('junk',)
    return w, tok, op


def _make_cmd(k, r, compiles):
    # mostly a small pool so that commands hit existing scripts; the hostile names less often
    n = r.choice(NAMES[:2] + NAMES[3:5]) if r.random() < 0.65 else r.choice(NAMES)
    n2 = r.choice(NAMES[:2] + NAMES[3:5]) if r.random() < 0.65 else r.choice(NAMES)
    sc = r.choice(SCRIPTS)
    nb = nbytes(n)
    if k == 'put':
        return b'PUTSCRIPT ' + qs(n) + b' ' + lit(sc) + b'\r\n', f'put:{nats(nb)}:{nats(sc)}', ('put', n, sc)
    if k == 'get':
        return b'GETSCRIPT ' + qs(n) + b'\r\n', f'get:{nats(nb)}', ('get', n)
    if k == 'list':
        return b'LISTSCRIPTS\r\n', 'list', ('list',)
    if k == 'setactive':
        if r.random() < 0.25:
            return b'SETACTIVE ""\r\n', 'setactive:none', ('setactive', None)
        if n == '':
            n = 'a'
            nb = b'a'
        return b'SETACTIVE ' + qs(n) + b'\r\n', f'setactive:{nats(nb)}', ('setactive', n)
    if k == 'delete':
        return b'DELETESCRIPT ' + qs(n) + b'\r\n', f'delete:{nats(nb)}', ('delete', n)
    if k == 'rename':
        return b'RENAMESCRIPT ' + qs(n) + b' ' + qs(n2) + b'\r\n', f'rename:{nats(nb)}:{nats(nbytes(n2))}', ('rename', n, n2)
    if k == 'check':
        sc = r.choice([b'keep;', b'if true { keep; }', b'not a script (', b'discard;\r\n'])
        ok = compiles(sc)
        return b'CHECKSCRIPT ' + lit(sc) + b'\r\n', f'check:{nats(sc)}:{int(ok)}', ('check', sc, ok)
    if k == 'havespace':
        size = r.choice([0, 10, MAXLEN, MAXLEN + 1, 10 ** 6])
        return b'HAVESPACE ' + qs(n) + b' %d\r\n' % size, f'havespace:{nats(nb)}:{size}', ('havespace', size, n)
    if k == 'noop':
        return b'NOOP\r\n', 'noop', ('noop',)
    if k == 'cap':
        return b'CAPABILITY\r\n', 'cap', ('cap',)
    if k == 'unauth':
        return b'UNAUTHENTICATE\r\n', 'unauth', ('unauth',)
    if k == 'logout':
        return b'LOGOUT\r\n', 'logout', ('logout',)
    if k == 'starttls':
        return b'STARTTLS\r\n', 'starttls', ('starttls',)
    if k == 'auth':
        ui = r.randrange(len(USERS))
        u, p = USERS[ui]
        return b'AUTHENTICATE "PLAIN" "' + b64plain('', u, p) + b'"\r\n', f'auth:{ui}:1', ('auth', ui)
    if k == 'auth-bad':
        u = r.choice(['alice', 'bob', 'ghost', ''])
        p = r.choice(['wrong', '', 'pwalicex'])
        form = r.random()
        if form < 0.6:
            return b'AUTHENTICATE "PLAIN" "' + b64plain('', u, p) + b'"\r\n', 'auth:0:0', ('auth-bad',)
        if form < 0.8:
            return b'AUTHENTICATE "BOGUS"\r\n', 'auth:0:0', ('auth-bad',)
        return b'AUTHENTICATE "PLAIN" "!!!"\r\n', 'auth:0:0', ('auth-bad',)
    return r.choice([b'XYZZY\r\n', b'PUTSCRIPT\r\n', b'GETSCRIPT 5\r\n', b'"\r\n', b'(\r\n']), 'junk', ('junk',)


def canon_reply(raw, tok):
    """-> the string form the driver prints"""
    try:
        resps = imapresp.parse(raw)
    except imapresp.Malformed as exc:
        return f'MALFORMED({exc})'
    if not resps:
        return 'NONE'
    last = resps[-1]
    cond = imapresp.atom(last[0]) if last else None
    if cond == b'OK':
        if tok.startswith('get:') and len(resps) >= 2 and len(resps[0]) == 1 and isinstance(resps[0][0], imapresp.Tok):
            return 'SCRIPT:' + nats(resps[0][0].val)
        if tok == 'list':
            items = []
            for r in resps[:-1]:
                items.append(nats(r[0].val) + '=' + ('1' if len(r) > 1 and imapresp.atom(r[1]) == b'ACTIVE' else '0'))
            return 'LIST:' + ';'.join(items)
        if tok in ('cap', 'starttls') or any(imapresp.atom(r[0]) == b'IMPLEMENTATION' or (isinstance(r[0], imapresp.Tok) and r[0].val == b'IMPLEMENTATION') for r in resps[:-1]):
            return 'CAPS'
        return 'OK'
    if cond == b'NO':
        code = ''
        if len(last) > 1 and isinstance(last[1], list) and last[1]:
            code = imapresp.atom(last[1][0]).decode()
        elif len(last) > 1 and isinstance(last[1], imapresp.Tok):
            text = last[1].val
            if text == b'Bad command.':
                code = 'Bad command.'
        return 'NO:' + code
    if cond == b'BYE':
        return 'BYE'
    return 'OTHER'


def norm_model(reply, tok):
    """the model's NO carries a code string; texts that are not codes are normalised away on both sides"""
    r = reply.rsplit(' ', 1)[0]
    if r.startswith('NO:') and r[3:] not in ('QUOTA/MAXSIZE', 'NONEXISTENT', 'ACTIVE', 'ALREADYEXISTS', 'Bad command.'):
        r = 'NO:'
    return r, reply.rsplit(' ', 1)[1]


class Ref:
    """independent reference: per user an insertion-ordered dict + active name"""

    def __init__(self):
        self.store = {i: ({}, [None]) for i in range(len(USERS))}
        self.user = None

    def step(self, op):
        k = op[0]
        if k in ('noop',):
            return 'OK'
        if k == 'cap':
            return 'CAPS'
        if k == 'logout':
            return 'BYE'
        if self.user is None:
            if k == 'auth':
                self.user = op[1]
                return 'OK'
            if k == 'starttls':
                return None
            return 'NO'
        d, act = self.store[self.user]
        if k == 'unauth':
            self.user = None
            return 'OK'
        if k == 'put':
            if len(op[2]) > MAXLEN:
                return 'NO'
            d[op[1]] = op[2]
            return 'OK'
        if k == 'get':
            return ('SCRIPT', d[op[1]]) if op[1] in d else 'NO'
        if k == 'list':
            return ('LIST', [(n, n == act[0]) for n in d])
        if k == 'setactive':
            if op[1] is None:
                act[0] = None
                return 'OK'
            if op[1] in d:
                act[0] = op[1]
                return 'OK'
            return 'NO'
        if k == 'delete':
            if op[1] not in d or act[0] == op[1]:
                return 'NO'
            del d[op[1]]
            return 'OK'
        if k == 'rename':
            if op[1] not in d or op[2] in d:
                return 'NO'
            d[op[2]] = d.pop(op[1])
            if act[0] == op[1]:
                act[0] = op[2]
            return 'OK'
        if k == 'check':
            return 'OK' if op[2] else 'NO'
        if k == 'havespace':
            return 'OK' if op[1] <= MAXLEN else 'NO'
        return 'NO'


def ref_matches(expect, got):
    if expect is None:
        return True
    if isinstance(expect, tuple) and expect[0] == 'SCRIPT':
        return got == 'SCRIPT:' + nats(expect[1])
    if isinstance(expect, tuple) and expect[0] == 'LIST':
        return got == 'LIST:' + ';'.join(nats(nbytes(n)) + '=' + ('1' if a else '0') for n, a in expect[1])
    if expect == 'NO':
        return got.startswith('NO:')
    return got == expect


async def new_server(tls=False):
    from pymap.sieve.manage import ManageSieveServer
    kw = dict(users=[(u, p, ()) for u, p in USERS], max_append_len=MAXLEN)
    backend, config = await backends.make_dict(**kw)
    return ManageSieveServer(backend.login, config), config, backend


_compile_cache = {}


def compiles(sc):
    """the compiler oracle: sievelib's parser, asked directly"""
    if sc not in _compile_cache:
        from sievelib.parser import Parser
        try:
            _compile_cache[sc] = bool(Parser().parse(sc))
        except Exception:
            _compile_cache[sc] = False
    return _compile_cache[sc]


async def dump_all(srv):
    """every user's script store as a fresh connection sees it"""
    out = []
    for u, p in USERS:
        c = wire.Client(srv)
        await c.start()
        await c.send(b'AUTHENTICATE "PLAIN" "' + b64plain('', u, p) + b'"\r\n')
        raw = await c.send(b'LISTSCRIPTS\r\n')
        out.append(raw)
        try:
            for r in imapresp.parse(raw)[:-1]:
                out.append(await c.send(b'GETSCRIPT ' + qs(r[0].val) + b'\r\n'))
        except Exception:
            pass
        await c.send(b'LOGOUT\r\n')
        await c.finish()
    return tuple(out)


async def dump_users(srv):
    """[sorted (name, bytes, active)] per user through fresh connections"""
    out = []
    for u, p in USERS:
        c = wire.Client(srv)
        await c.start()
        await c.send(b'AUTHENTICATE "PLAIN" "' + b64plain('', u, p) + b'"\r\n')
        raw = await c.send(b'LISTSCRIPTS\r\n')
        items = []
        for r in imapresp.parse(raw)[:-1]:
            g = imapresp.parse(await c.send(b'GETSCRIPT ' + qs(r[0].val) + b'\r\n'))
            body = g[0][0].val if len(g) >= 2 and len(g[0]) == 1 and isinstance(g[0][0], imapresp.Tok) else None
            items.append((r[0].val, body, len(r) > 1 and imapresp.atom(r[1]) == b'ACTIVE'))
        await c.send(b'LOGOUT\r\n')
        await c.finish()
        out.append(sorted(items))
    return out


async def run_case(part, m, conns, case_key):
    """conns: list of connections, each a list of (wire, token, refop); run sequentially conn after conn on one server"""
    srv, config, backend = await new_server()
    ref = Ref()
    m.ask(f'sieve reset {MAXLEN} 0')
    log = []
    case = dict(scenario='sieve', log=log)
    nontrivial = False
    for ci, cmds in enumerate(conns):
        c = wire.Client(srv)
        await c.start()
        m.ask(f'sieve newconn {MAXLEN} 0')
        ref.user = None
        for (w, tok, op) in cmds:
            if c.task.done():
                break
            before = None
            if ref.user is None and op[0] in ('put', 'delete', 'rename', 'setactive', 'get', 'list', 'check', 'havespace'):
                before = await dump_all(srv)
            raw = await c.send(w)
            got = canon_reply(raw, tok)
            log.append([ci, w.decode('latin1')[:70], got])
            part.stat('sieve-op:' + op[0])
            if tok == 'junk':
                if not got.startswith('NO'):
                    part.violation('monitor', f'C19: unparseable command {w!r} answered {got}', case, signature='sieve-junk')
                if ref.user is None and op[0] == 'junk':
                    continue
                continue
            if any(isinstance(x, str) and not utf8(x) for x in op[1:]):
                # a name that is not UTF-8: refusing it is consistent (the Sieve model does); if it is accepted, it is a name like any other
                # for the reference map, and the listings that follow show whether it is kept apart from its neighbours
                part.stat('sieve-non-utf8-name')
                if got.startswith('NO') or got == 'BYE':
                    continue
                part.violation('correspondence', f'C19: connection {ci} command {w[:60]!r} carries a name that is not UTF-8 and was answered {got[:60]}; the Sieve model refuses such names',
                               case, signature='sieve-non-utf8-accepted')
                expect = ref.step(op)
                if not ref_matches(expect, got):
                    part.violation('monitor', f'C19: connection {ci} command {w[:60]!r}: answered {got[:120]}, the reference map says {expect}', case, signature='sieve-ref')
                continue
            mod, muser = norm_model(m.ask('sieve step ' + tok), tok)
            impl = got
            if impl.startswith('NO:') and impl[3:] not in ('QUOTA/MAXSIZE', 'NONEXISTENT', 'ACTIVE', 'ALREADYEXISTS', 'Bad command.'):
                impl = 'NO:'
            if tok == 'starttls' and impl.startswith('NO'):
                impl = 'NO:Bad command.'
            expect = ref.step(op)
            if not ref_matches(expect, got):
                part.violation('monitor', f'C19: connection {ci} command {w[:60]!r}: answered {got[:120]}, the reference map says {expect}', case,
                               signature='sieve-ref')
            if tok == 'cap' and got == 'CAPS':
                # the OWNER capability names the identity the connection acts as
                owner = re.search(rb'"OWNER" "([^"]*)"', raw)
                want = USERS[ref.user][0].encode() if ref.user is not None else None
                if (owner.group(1) if owner else None) != want:
                    part.violation('monitor', f'C19: connection {ci}: CAPABILITY names OWNER {owner.group(1) if owner else None!r}, the connection authenticated as {want!r}', case,
                                   signature='sieve-owner')
            if impl != mod:
                part.violation('correspondence', f'C19: connection {ci} command {w[:60]!r} ({tok[:40]}): implementation {impl[:120]}, model {mod[:120]}', case,
                               signature='sieve-reply')
                await c.eof()
                return
            if before is not None:
                after = await dump_all(srv)
                if not got.startswith('NO'):
                    part.violation('monitor', f'C19: script command {w[:60]!r} before authentication answered {got}', case, signature='sieve-gate-answer')
                if after != before:
                    part.violation('monitor', f'C19: script command {w[:60]!r} before authentication changed a script store', case, signature='sieve-gate-effect')
            if op[0] in ('rename', 'delete', 'setactive') and got == 'OK':
                nontrivial = True
        await c.eof()
    # every user's store, as fresh connections see it, is the reference map
    final = await dump_users(srv)
    for ui, (u, _) in enumerate(USERS):
        d, act = ref.store[ui]
        want = sorted((nbytes(n), bytes(b), n == act[0]) for n, b in d.items())
        if final[ui] != want:
            part.violation('monitor', f'C19: at the end user {u} holds {final[ui]!r}, the reference map says {want!r}', case, signature='sieve-final')
    part.case(key=case_key, nontrivial=nontrivial, sample=dict(log=log[:8]))
    part.trace()


def worker(job):
    seed, ncases, exhaustive = job
    r = random.Random(seed)
    part = Part()
    m = Model()
    try:
        for seq in exhaustive:
            cmds = [make_cmd(k, random.Random(hash((seq, i)) & 0xffff), compiles) for i, k in enumerate(seq)]
            with guarded(part, 'C19 exhaustive', dict(scenario='sieve', kinds=list(seq))):
                asyncio.run(run_case(part, m, [cmds], 'ex:' + repr(seq)))
        for k in range(ncases):
            nconn = r.choice([1, 2, 2, 3])
            conns = []
            for ci in range(nconn):
                cmds = []
                if r.random() < 0.75:
                    cmds.append(make_cmd('auth', r, compiles))
                for _ in range(r.randint(2, 12)):
                    cmds.append(gen_cmd(r, compiles))
                conns.append(cmds)
            with guarded(part, 'C19 random', dict(scenario='sieve', seed=seed, k=k)):
                asyncio.run(run_case(part, m, conns, f'r:{seed}:{k}'))
    finally:
        m.close()
    return part.result()


def auth_worker(job):
    """C09 on the sieve listener: sequences of failed and successful AUTHENTICATE attempts; identity observed through the script store"""
    seed, n = job
    r = random.Random(seed)
    part = Part()
    m = Model()
    try:
        for k in range(n):
            cmds = []
            if k % 2 == 0:
                for _ in range(r.randint(1, 6)):
                    cmds.append(make_cmd(r.choice(['auth', 'auth-bad', 'auth-bad', 'unauth', 'list', 'put', 'get', 'cap', 'starttls']), r, compiles))
            else:
                # one connection changing hands: authenticate, work, UNAUTHENTICATE, (failed attempts,) authenticate again — mostly as someone else
                first = r.randrange(len(USERS))
                second = first if r.random() < 0.25 else (first + 1) % len(USERS)
                for ui in (first, second):
                    u, p = USERS[ui]
                    cmds.append((b'AUTHENTICATE "PLAIN" "' + b64plain('', u, p) + b'"\r\n', f'auth:{ui}:1', ('auth', ui)))
                    for _ in range(r.randint(1, 4)):
                        cmds.append(make_cmd(r.choice(['list', 'put', 'put', 'get', 'cap', 'setactive', 'delete']), r, compiles))
                    if ui == first or r.random() < 0.3:
                        cmds.append(make_cmd('unauth', r, compiles))
                        for _ in range(r.randint(0, 2)):
                            cmds.append(make_cmd('auth-bad', r, compiles))
            cmds.append(make_cmd('cap', r, compiles))
            cmds.append(make_cmd('list', r, compiles))
            with guarded(part, 'C09 sieve auth', dict(scenario='sieve-auth', seed=seed, k=k)):
                asyncio.run(run_case(part, m, [[make_cmd('auth', random.Random(1), compiles), (b'PUTSCRIPT "mark0" {5+}\r\nkeep;\r\n', 'put:109,97,114,107,48:107,101,101,112,59', ('put', 'mark0', b'keep;'))],
                                               cmds], f'sa:{seed}:{k}'))
    finally:
        m.close()
    return part.result()


KINDS = ['put', 'get', 'list', 'setactive', 'delete', 'rename', 'check', 'havespace', 'noop', 'cap', 'unauth', 'auth', 'auth-bad', 'logout', 'starttls', 'junk']
RULE = ('sequences over the ManageSieve command set with script names incl. UTF-8, quotes, backslash, TAB, empty and long names, script bytes incl. NUL/8-bit/over-quota, two users: '
        'all command-kind sequences of length 2 (thorough: 3) before authentication and all of length 2 after AUTHENTICATE (arguments derived per position), plus random multi-connection '
        'programs of up to 3 connections x 12 commands; non-trivial = a RENAMESCRIPT, DELETESCRIPT or SETACTIVE succeeded; distinct by sequence')


def run(ctx):
    ctx.rep.rule = RULE
    ctx.rep.assumptions = ['the sieve compiler (CHECKSCRIPT) is an oracle of the model: the harness asks the same compiler',
                           'the Lean Sieve model is tied to the dict backend FilterSet; the maildir backend keeps one script per user (SingleFilterSet) and is judged by the acknowledged-map monitor of c19md only']
    ex = [t for t in itertools.product(KINDS, repeat=2)]
    ex += [('auth',) + t for t in itertools.product(KINDS, repeat=2)]
    if not ctx.quick:
        ex += [t for t in itertools.product(KINDS, repeat=3)]
    nw = ctx.workers
    chunks = [ex[k::nw] for k in range(nw)]
    ctx.rep.extra['exhaustive_enumeration'] = f'{len(ex)} command-kind sequences enumerated completely'
    ctx.pmap(worker, [(ctx.seed * 1000 + 900 + k, ctx.budget(20, 400), chunks[k]) for k in range(nw)])
    from . import c19md
    ctx.pmap(c19md.worker, [(ctx.seed * 1000 + 950 + k, ctx.budget(6, 120)) for k in range(nw)])


def replay(case):
    case = case.get('case', case)
    print('sieve case log:')
    for l in case.get('log', []):
        print('  ', l)
    print('re-run the check with the same VERIF_SEED to reproduce')
    return 0
