"""Strict reader of what an IMAP server writes.

`wf(data)` is the Python twin of the Lean recogniser `Pymap.Grammar.wf` (lean/PymapModel/Grammar.lean); the
two are diffed against each other by the C07 check.  `parse(data)` turns a byte stream into a list of
responses (nested token lists) for canonicalisation; it raises `Malformed` on anything `wf` rejects
structurally.
"""
from __future__ import annotations


class Malformed(Exception):
    pass


def _plain(b):
    return 33 <= b <= 126 and b not in (40, 41, 91, 93, 123, 34)


def wf(data: bytes) -> bool:
    """same acceptance as Grammar.wf: complete CRLF lines; () and [] balanced per line; quoted strings without
    CR/LF/NUL and only \\" / \\\\ escapes; literal count = bytes that follow; single SP separators."""
    n = len(data)
    i = 0
    stack = []
    tok = False
    while i < n:
        b = data[i]
        if b == 13:
            if i + 1 < n and data[i + 1] == 10:
                if stack or not tok:
                    return False
                i += 2
                tok = False
                continue
            return False
        if b == 32:
            if not tok:
                return False
            tok = False
            i += 1
        elif b in (40, 91):
            stack.append(b)
            tok = False
            i += 1
        elif b == 41:
            if not stack or stack[-1] != 40:
                return False
            stack.pop()
            tok = True
            i += 1
        elif b == 93:
            if stack and stack[-1] == 91:
                stack.pop()
            # a `]` that closes nothing is an ordinary character (tags and astrings may contain it)
            tok = True
            i += 1
        elif b == 34:
            i += 1
            while True:
                if i >= n:
                    return False
                c = data[i]
                if c == 34:
                    i += 1
                    break
                if c in (13, 10, 0):
                    return False
                if c == 92:
                    if i + 1 < n and data[i + 1] in (92, 34):
                        i += 2
                        continue
                    return False
                i += 1
            tok = True
        elif b == 123:
            j = i + 1
            num = 0
            while j < n and 48 <= data[j] <= 57:
                num = num * 10 + data[j] - 48
                j += 1
            if j == i + 1 or data[j:j + 3] != b'}\r\n':
                return False
            j += 3
            if num > n - j:
                return False
            i = j + num
            tok = True
        elif b == 126:
            if i + 1 < n and data[i + 1] == 123:
                tok = False             # literal8 prefix
            else:
                tok = True              # an ordinary atom character
            i += 1
        else:
            if not _plain(b):
                return False
            tok = True
            i += 1
    return not stack and not tok


class Tok:
    __slots__ = ('kind', 'val')

    def __init__(self, kind, val):
        self.kind = kind      # 'a' atom, 'q' quoted, 'l' literal
        self.val = val

    def __repr__(self):
        return f'{self.kind}:{self.val!r}'

    def __eq__(self, o):
        return isinstance(o, Tok) and (self.kind, self.val) == (o.kind, o.val)

    def __hash__(self):
        return hash((self.kind, self.val))


def parse(data: bytes):
    """-> list of responses; a response is a list whose elements are Tok or nested lists (parenthesised)"""
    out = []
    i = 0
    n = len(data)
    while i < n:
        resp, i = _parse_line(data, i)
        out.append(resp)
    return out


def _parse_line(data, i):
    n = len(data)
    root = []
    stack = [root]
    while True:
        if i >= n:
            raise Malformed('unterminated line')
        b = data[i]
        if b == 13:
            if data[i:i + 2] != b'\r\n':
                raise Malformed('bare CR')
            if len(stack) != 1:
                raise Malformed('unbalanced list at end of line')
            return root, i + 2
        if b == 10:
            raise Malformed('bare LF')
        if b == 32:
            i += 1
        elif b == 40:
            new = []
            stack[-1].append(new)
            stack.append(new)
            i += 1
        elif b == 41:
            if len(stack) == 1:
                raise Malformed('unbalanced )')
            stack.pop()
            i += 1
        elif b == 34:
            j = i + 1
            val = bytearray()
            while True:
                if j >= n:
                    raise Malformed('unterminated quoted string')
                c = data[j]
                if c == 34:
                    j += 1
                    break
                if c in (13, 10, 0):
                    raise Malformed('CR/LF/NUL in quoted string')
                if c == 92:
                    if j + 1 < n and data[j + 1] in (92, 34):
                        val.append(data[j + 1])
                        j += 2
                        continue
                    raise Malformed('bad escape in quoted string')
                val.append(c)
                j += 1
            stack[-1].append(Tok('q', bytes(val)))
            i = j
        elif b == 123 or (b == 126 and data[i + 1:i + 2] == b'{'):
            j = i + (2 if b == 126 else 1)
            k = j
            while k < n and 48 <= data[k] <= 57:
                k += 1
            if k == j or data[k:k + 3] != b'}\r\n':
                raise Malformed('bad literal header')
            num = int(data[j:k])
            k += 3
            if k + num > n:
                raise Malformed('literal longer than the data that follows')
            stack[-1].append(Tok('l', bytes(data[k:k + num])))
            i = k + num
        else:
            # atom; square brackets glue their content (sections, response codes) to the atom
            j = i
            depth = 0
            while j < n:
                c = data[j]
                if c in (13, 10):
                    break
                if depth == 0 and c in (32, 40, 41):
                    break
                if c == 91:
                    depth += 1
                elif c == 93:
                    depth = max(0, depth - 1)
                elif c == 34 and depth == 0:
                    break
                j += 1
            if depth != 0:
                raise Malformed('unbalanced [')
            if j == i:
                raise Malformed(f'unexpected byte {data[i]}')
            stack[-1].append(Tok('a', bytes(data[i:j])))
            i = j


def atom(t):
    return t.val if isinstance(t, Tok) else None


def tagged(resps, tag=None):
    """the last tagged completion: (tag, condition, code-or-None) or None"""
    for r in reversed(resps):
        if len(r) >= 2 and isinstance(r[0], Tok) and r[0].val not in (b'*', b'+') and isinstance(r[1], Tok):
            if tag is None or r[0].val == tag:
                code = None
                if len(r) >= 3 and isinstance(r[2], Tok) and r[2].kind == 'a' and r[2].val.startswith(b'['):
                    code = r[2].val
                return (r[0].val, r[1].val.upper(), code)
    return None


def untagged(resps):
    return [r for r in resps if r and isinstance(r[0], Tok) and r[0].val == b'*']


def fetch_items(resp):
    """`* n FETCH (name value ...)` -> (n, {NAME: value}) ; None if not a FETCH"""
    if len(resp) >= 4 and atom(resp[0]) == b'*' and atom(resp[2]) == b'FETCH' and isinstance(resp[3], list):
        items = resp[3]
        d = {}
        k = 0
        while k + 1 < len(items):
            name = atom(items[k])
            d[name.upper() if name else None] = items[k + 1]
            k += 2
        return int(resp[1].val), d
    return None


# ---------------------------------------------------------------- structure of ENVELOPE / BODYSTRUCTURE values (RFC 3501 section 9)
def _is_nil(x):
    return isinstance(x, Tok) and x.kind == 'a' and x.val.upper() == b'NIL'


def _is_string(x):
    return isinstance(x, Tok) and x.kind in ('q', 'l')


def _is_nstring(x):
    return _is_nil(x) or _is_string(x)


def _is_number(x):
    return isinstance(x, Tok) and x.kind == 'a' and x.val.isdigit()


def envelope_problem(v):
    """None if v is an `envelope`; otherwise what is wrong with it"""
    if not isinstance(v, list) or len(v) != 10:
        return f'envelope is not a list of 10 fields: {v!r}'
    for k in (0, 1, 8, 9):
        if not _is_nstring(v[k]):
            return f'envelope field {k} is not an nstring: {v[k]!r}'
    for k in range(2, 8):
        if _is_nil(v[k]):
            continue
        if not isinstance(v[k], list) or not v[k]:
            return f'envelope address field {k} is neither NIL nor a non-empty list (env-xxx = "(" 1*address ")" / nil): {v[k]!r}'
        for a in v[k]:
            if not isinstance(a, list) or len(a) != 4 or not all(_is_nstring(x) for x in a):
                return f'envelope address is not four nstrings: {a!r}'
    return None


def _params_problem(x):
    if _is_nil(x):
        return None
    if not isinstance(x, list) or not x or len(x) % 2 or not all(_is_string(t) for t in x):
        return f'body-fld-param is neither NIL nor a non-empty list of string pairs: {x!r}'
    return None


def _ext_problem(rest, what):
    """body-ext-1part/mpart after md5/params: [dsp [lang [loc *extension]]]"""
    if rest:
        d = rest[0]
        if not _is_nil(d) and not (isinstance(d, list) and len(d) == 2 and _is_string(d[0]) and _params_problem(d[1]) is None):
            return f'{what}: body-fld-dsp is neither NIL nor (string params): {d!r}'
    if len(rest) > 1:
        lang = rest[1]
        if not _is_nstring(lang) and not (isinstance(lang, list) and lang and all(_is_string(t) for t in lang)):
            return f'{what}: body-fld-lang is neither an nstring nor a non-empty list of strings: {lang!r}'
    if len(rest) > 2 and not _is_nstring(rest[2]):
        return f'{what}: body-fld-loc is not an nstring: {rest[2]!r}'
    return None


def body_problem(v, depth=0):
    """None if v is a `body`; otherwise what is wrong with it"""
    if not isinstance(v, list) or not v:
        return f'body is not a non-empty list: {v!r}'
    if depth > 400:
        return None
    if isinstance(v[0], list):
        k = 0
        while k < len(v) and isinstance(v[k], list):
            p = body_problem(v[k], depth + 1)
            if p:
                return p
            k += 1
        if k >= len(v) or not _is_string(v[k]):
            return f'multipart body: media subtype missing or not a string after {k} parts: {v[k:k + 1]!r}'
        rest = v[k + 1:]
        if rest:
            p = _params_problem(rest[0])
            if p:
                return 'multipart ' + p
        return _ext_problem(rest[1:], 'multipart body')
    if len(v) < 7:
        return f'single-part body has {len(v)} fields, at least 7 are required: {v!r}'
    if not _is_string(v[0]) or not _is_string(v[1]):
        return f'media type/subtype are not strings: {v[:2]!r}'
    p = _params_problem(v[2])
    if p:
        return p
    if not _is_nstring(v[3]) or not _is_nstring(v[4]):
        return f'body-fld-id / body-fld-desc are not nstrings: {v[3:5]!r}'
    if not _is_string(v[5]):
        return f'body-fld-enc is not a string: {v[5]!r}'
    if not _is_number(v[6]):
        return f'body-fld-octets is not a number: {v[6]!r}'
    k = 7
    mt, st = v[0].val.upper(), v[1].val.upper()
    if mt == b'MESSAGE' and st == b'RFC822':
        # body-type-msg: the media type decides, not what happens to follow (as Structure.isBody has it)
        if len(v) < 10 or not isinstance(v[7], list):
            return f'message/rfc822 body lacks envelope, body and line count: {v[7:]!r}'
        p = envelope_problem(v[7]) or body_problem(v[8], depth + 1)
        if p:
            return p
        if not _is_number(v[9]):
            return f'body-fld-lines is not a number: {v[9]!r}'
        k = 10
    elif mt == b'TEXT':
        if len(v) < 8 or not _is_number(v[7]):
            return f'text body: body-fld-lines is missing or not a number: {v[7:8]!r}'
        k = 8
    rest = v[k:]
    if rest and not _is_nstring(rest[0]):
        return f'body-fld-md5 is not an nstring: {rest[0]!r}'
    return _ext_problem(rest[1:], 'single-part body')


import re  # noqa: E402

_DATE_RE = re.compile(rb'^[ 0-3][0-9]-(Jan|Feb|Mar|Apr|May|Jun|Jul|Aug|Sep|Oct|Nov|Dec)-[0-9]{4} [0-2][0-9]:[0-5][0-9]:[0-6][0-9] [+-][0-9]{4}$')


def response_problem(resp):
    """None if an untagged data response has the shape its grammar gives it (message-data, mailbox-data); otherwise what is wrong.
    Responses this function does not know are not judged."""
    if len(resp) < 2 or atom(resp[0]) != b'*':
        return None
    a1 = atom(resp[1])
    if a1 is not None and a1.isdigit() and len(resp) >= 3:
        kind = (atom(resp[2]) or b'').upper()
        if kind in (b'EXISTS', b'RECENT', b'EXPUNGE'):
            if len(resp) != 3:
                return f'{kind.decode()} carries extra data: {resp[3:]!r}'
            if kind == b'EXPUNGE' and int(a1) == 0:
                return 'EXPUNGE 0: message numbers are nz-numbers'
            return None
        if kind == b'FETCH':
            if int(a1) == 0:
                return 'FETCH 0: message numbers are nz-numbers'
            if len(resp) != 4 or not isinstance(resp[3], list) or len(resp[3]) % 2:
                return f'FETCH is not followed by one list of name/value pairs: {resp[3:]!r}'[:300]
            items = resp[3]
            if not items:
                return 'FETCH () carries no data item: msg-att has at least one'
            for k in range(0, len(items), 2):
                name, v = (atom(items[k]) or b'').upper(), items[k + 1]
                if b'.PEEK' in name:
                    return f'{name.decode("latin1")} names a data item by its request spelling: a response says BODY[..] / BINARY[..]'
                if name in (b'UID', b'RFC822.SIZE', b'MODSEQ') and not (_is_number(v) and (name != b'UID' or int(v.val) > 0)):
                    return f'{name.decode()} is not a number: {v!r}'
                if name == b'INTERNALDATE' and not (isinstance(v, Tok) and v.kind == 'q' and _DATE_RE.match(v.val)):
                    return f'INTERNALDATE is not a quoted date-time: {v!r}'
                if name == b'FLAGS' and not (isinstance(v, list) and all(isinstance(t, Tok) and t.kind == 'a' and t.val for t in v)):
                    return f'FLAGS is not a list of atoms: {v!r}'
                if name.startswith(b'BINARY.SIZE[') and not _is_number(v):
                    return f'{name.decode()} is not a number: {v!r}'
                if (name.startswith(b'BODY[') or name.startswith(b'BINARY[') or name in (b'RFC822', b'RFC822.HEADER', b'RFC822.TEXT')) and not _is_nstring(v):
                    return f'{name.decode()[:40]} is not an nstring: {v!r}'[:300]
            return None
        return None
    kind = (a1 or b'').upper()
    if kind == b'SEARCH':
        if not all(_is_number(t) and int(t.val) > 0 for t in resp[2:]):
            return f'SEARCH lists something that is not an nz-number: {resp[2:]!r}'[:300]
    elif kind == b'FLAGS':
        if len(resp) != 3 or not isinstance(resp[2], list) or not all(isinstance(t, Tok) and t.kind == 'a' for t in resp[2]):
            return f'FLAGS is not one list of atoms: {resp[2:]!r}'[:300]
    elif kind in (b'LIST', b'LSUB'):
        if len(resp) != 5:
            return f'{kind.decode()} has {len(resp) - 2} fields, not (flags) delimiter mailbox: {resp[2:]!r}'[:300]
        if not isinstance(resp[2], list) or not all(isinstance(t, Tok) and t.kind == 'a' and t.val.startswith(b'\\') for t in resp[2]):
            return f'{kind.decode()} flags are not a list of \\-atoms: {resp[2]!r}'
        if not (_is_nil(resp[3]) or (isinstance(resp[3], Tok) and resp[3].kind == 'q' and len(resp[3].val) == 1)):
            return f'{kind.decode()} delimiter is neither NIL nor one quoted character: {resp[3]!r}'
        if not isinstance(resp[4], Tok):
            return f'{kind.decode()} mailbox is not an astring: {resp[4]!r}'
    elif kind == b'STATUS':
        if len(resp) != 4 or not isinstance(resp[2], Tok) or not isinstance(resp[3], list) or len(resp[3]) % 2:
            return f'STATUS is not mailbox (attribute value ...): {resp[2:]!r}'[:300]
        for k in range(0, len(resp[3]), 2):
            name = (atom(resp[3][k]) or b'').upper()
            if name in (b'MESSAGES', b'RECENT', b'UIDNEXT', b'UIDVALIDITY', b'UNSEEN', b'HIGHESTMODSEQ') and not _is_number(resp[3][k + 1]):
                return f'STATUS {name.decode()} is not a number: {resp[3][k + 1]!r}'
    elif kind == b'CAPABILITY':
        if not all(isinstance(t, Tok) and t.kind == 'a' for t in resp[2:]):
            return f'CAPABILITY lists something that is not an atom: {resp[2:]!r}'[:300]
    return None


def shape(v):
    """token stream of a parsed value for the Lean `Structure` recognisers: N NIL, S<k> string (k: 1 TEXT, 2 MESSAGE, 3 RFC822, 0 other),
    D number, A other atom, ( )"""
    out = []

    def go(x):
        if isinstance(x, list):
            out.append('(')
            for y in x:
                go(y)
            out.append(')')
        elif _is_nil(x):
            out.append('N')
        elif _is_number(x):
            out.append('D')
        elif _is_string(x):
            out.append('S' + str({b'TEXT': 1, b'MESSAGE': 2, b'RFC822': 3}.get(x.val.upper(), 0)))
        else:
            out.append('A')
    go(v)
    return ','.join(out)
