"""Evidence, violations, known findings, exit code."""
from __future__ import annotations
import collections
import json
import os
import time

from .model import VERIF

KNOWN_FILE = os.path.join(VERIF, 'known_findings.json')
TRUSTED_BASE = [
    "Lean 4.33.0 kernel (lake build); thorough tier additionally leanchecker",
    "axioms per theorem as printed by #print axioms: subset of {propext, Classical.choice, Quot.sound}",
    "hand-written Lean models (lean/PymapModel, lean/PymapSpec): faithfulness is checked on every run by the correspondence harness, not proved",
    "the Python harness (transport, scheduler, fault injector, response parser, canonicaliser)",
    "CPython/asyncio semantics assumed by the models (see DESIGN section 8)",
]


def load_known(prop):
    try:
        data = json.load(open(KNOWN_FILE))
    except FileNotFoundError:
        return []
    return [e for e in data.get('findings', []) if e.get('property') == prop]


class Report:
    def __init__(self, prop, tier, seed):
        self.prop = prop
        self.tier = tier
        self.seed = seed
        self.t0 = time.time()
        self.evaluations = 0
        self.nontrivial = set()
        self.samples = []
        self.stats = collections.Counter()
        self.violations = []          # dicts: kind, what, replay(obj), signature
        self.known_hits = collections.OrderedDict()   # finding id -> what
        self.disagreements = 0
        self.traces = 0
        self.obligations = {}
        self.notes = []
        self.rule = ''
        self.assumptions = []
        self.extra = {}
        self.known = load_known(prop)
        self.exhaustive = None

    # ---- accumulation
    def case(self, key=None, nontrivial=False, sample=None):
        self.evaluations += 1
        if nontrivial and key is not None:
            self.nontrivial.add(key if isinstance(key, (str, int, tuple)) else json.dumps(key, sort_keys=True, default=str))
        if sample is not None and len(self.samples) < 5:
            self.samples.append(sample)

    def merge(self, part):
        """merge a worker's partial result (plain dict)"""
        self.evaluations += part.get('evaluations', 0)
        self.nontrivial.update(part.get('nontrivial', ()))
        for s in part.get('samples', ()):
            if len(self.samples) < 5:
                self.samples.append(s)
        self.stats.update(part.get('stats', {}))
        self.traces += part.get('traces', 0)
        for v in part.get('violations', ()):
            self.violation(**v)

    def violation(self, kind, what, replay, signature=None):
        """kind: 'monitor' (the implementation breaks the property on this input),
        'correspondence' (model and implementation disagree), 'proof' (a proof obligation broke)"""
        if kind == 'correspondence':
            self.disagreements += 1
        for e in self.known:
            if e.get('status') == 'known' and signature is not None and signature in e.get('signatures', [e.get('signature')]):
                self.known_hits.setdefault(e['id'], e.get('what', what))
                self.stats['known-finding:' + e['id']] += 1
                return
        self.violations.append(dict(kind=kind, what=what, replay=replay, signature=signature))

    # ---- output
    def finish(self):
        wall = time.time() - self.t0
        os.makedirs(os.path.join(VERIF, 'evidence'), exist_ok=True)
        os.makedirs(os.path.join(VERIF, 'replays'), exist_ok=True)
        for fid, what in self.known_hits.items():
            print(f'KNOWN-FINDING: property={self.prop} {fid} {what}')
        # one replay file per distinct (kind, signature/what), monitor violations first
        order = {'monitor': 0, 'correspondence': 1, 'proof': 2}
        vs = sorted(self.violations, key=lambda v: order.get(v['kind'], 3))
        seen = set()
        printed = 0
        have_monitor = any(v['kind'] == 'monitor' for v in vs)
        for v in vs:
            sig = (v['kind'], v.get('signature') or v['what'][:80])
            if sig in seen:
                continue
            seen.add(sig)
            if printed >= 6:
                break
            path = os.path.join('replays', f'{self.prop}-{self.tier}-{self.seed}-{printed}.json')
            with open(os.path.join(VERIF, path), 'w') as fh:
                json.dump(dict(property=self.prop, kind=v['kind'], what=v['what'], signature=v.get('signature'),
                               seed=self.seed, tier=self.tier, replay=v['replay']), fh, indent=1, default=str)
            suffix = ''
            if v['kind'] != 'monitor' and not have_monitor:
                suffix = ' no-failing-input-found'
            print(f'VIOLATION property={self.prop} replay={path}{suffix}')
            print(f'  [{v["kind"]}] {v["what"][:300]}')
            printed += 1
        ob = self.obligations
        discharged = sum(1 for a in ob.values() if a.get('ok'))
        cov = dict(
            obligations=len(ob), discharged=discharged,
            checker_cmd='cd lean && lake build PymapModel PymapSpec PymapProofs driver && lake env lean <#print axioms audit>'
                        + (' && lake env leanchecker PymapModel PymapSpec PymapProofs' if self.tier == 'thorough' else ''),
            trusted_base=TRUSTED_BASE,
            theorems={k: v.get('axioms') for k, v in ob.items()},
            evaluations=self.evaluations, distinct_nontrivial=len(self.nontrivial), rule=self.rule,
            samples=self.samples[:5] or ['(no correspondence cases ran)'],
            traces_validated_against_impl=self.traces or self.evaluations,
            disagreements_checked=self.disagreements,
            distribution=dict(self.stats),
            known_findings_hit=list(self.known_hits),
            notes=self.notes,
        )
        if self.exhaustive is not None:
            cov['exhaustive'] = self.exhaustive
        cov.update(self.extra)
        ev = dict(property_id=self.prop, tier=self.tier, seed=self.seed, level='proof', coverage=cov,
                  assumptions=self.assumptions, wall_s=round(wall, 2), violations=len(self.violations))
        with open(os.path.join(VERIF, 'evidence', f'{self.prop}.json'), 'w') as fh:
            json.dump(ev, fh, indent=1, default=str)
        return 1 if self.violations else 0


class Part:
    """partial result collected inside a worker process; plain data so that it pickles"""

    def __init__(self):
        self.d = dict(evaluations=0, nontrivial=set(), samples=[], stats=collections.Counter(), violations=[], traces=0)

    def case(self, key=None, nontrivial=False, sample=None):
        self.d['evaluations'] += 1
        if nontrivial and key is not None:
            self.d['nontrivial'].add(key if isinstance(key, (str, int)) else repr(key))
        if sample is not None and len(self.d['samples']) < 3:
            self.d['samples'].append(sample)

    def stat(self, name, n=1):
        self.d['stats'][name] += n

    def trace(self, n=1):
        self.d['traces'] += n

    def violation(self, kind, what, replay, signature=None):
        key = 'sig:' + str(signature or what[:60])
        self.d['stats'][key] += 1
        if self.d['stats'][key] <= 3 and len(self.d['violations']) < 60:
            self.d['violations'].append(dict(kind=kind, what=what, replay=replay, signature=signature))
        self.d['stats']['violations-seen'] += 1

    def result(self):
        d = dict(self.d)
        d['nontrivial'] = list(d['nontrivial'])
        d['stats'] = dict(d['stats'])
        return d


def guarded(part, what, replay_obj):
    """decorator-free helper: run a case body, turn an unexpected harness exception into a violation"""
    import contextlib
    import traceback

    @contextlib.contextmanager
    def cm():
        try:
            yield
        except Exception as exc:   # noqa
            tb = traceback.format_exc()
            part.violation('monitor', f'{what}: harness/implementation raised {type(exc).__name__}: {exc}',
                           dict(case=replay_obj, traceback=tb[-1500:]), signature=f'exception:{type(exc).__name__}')
    return cm()
