"""Client of the compiled Lean line-protocol driver (`lean/.lake/build/bin/driver`)."""
from __future__ import annotations
import os
import subprocess

VERIF = os.path.dirname(os.path.dirname(os.path.dirname(os.path.abspath(__file__))))
DRIVER = os.path.join(VERIF, 'lean', '.lake', 'build', 'bin', 'driver')


def nats(bs):
    bs = list(bs)
    return ','.join(str(int(b)) for b in bs) if bs else '-'


def unnats(s):
    s = s.strip()
    return [] if s in ('-', '') else [int(x) for x in s.split(',')]


class Model:
    """persistent driver process: one request line in, one reply line out"""

    def __init__(self):
        self.p = subprocess.Popen([DRIVER], stdin=subprocess.PIPE, stdout=subprocess.PIPE,
                                  text=True, bufsize=1)

    def ask(self, line):
        assert '\n' not in line
        self.p.stdin.write(line + '\n')
        self.p.stdin.flush()
        out = self.p.stdout.readline()
        if not out:
            raise RuntimeError('model driver died on: ' + line)
        return out.rstrip('\n')

    def close(self):
        try:
            self.p.stdin.close()
            self.p.wait(timeout=5)
        except Exception:
            self.p.kill()


def batch(lines):
    """run a whole list of request lines through a fresh driver; returns the reply lines"""
    lines = list(lines)
    if not lines:
        return []
    p = subprocess.run([DRIVER], input='\n'.join(lines) + '\n', capture_output=True, text=True)
    out = p.stdout.split('\n')
    if out and out[-1] == '':
        out.pop()
    if len(out) != len(lines):
        raise RuntimeError(f'model driver answered {len(out)} lines for {len(lines)} requests: {p.stderr[:500]}')
    return out
