"""Construct real pymap backends (from /repo's working tree) for the harness."""
from __future__ import annotations
import os
import shutil
import tempfile
from argparse import Namespace

from pysasl.hashing import BuiltinHash
from pymap.concurrent import Subsystem

SCRATCH_ROOT = '/dev/shm' if os.path.isdir('/dev/shm') else tempfile.gettempdir()
# temp files on the same filesystem as the scratch stores (the cross-device configuration is C15's business)
tempfile.tempdir = SCRATCH_ROOT


class FakeArgs(Namespace):
    debug = False
    demo_data = False
    demo_user = 'testuser'
    demo_password = 'testpass'

    def __getattr__(self, k):
        return None


def fast_hash():
    return BuiltinHash(hash_name='sha1', salt_len=0, rounds=1)


async def make_dict(users=(), demo_data=False, subsystem=None, **over):
    """returns (backend, config).  `users`: iterable of (name, password, roles)"""
    from pymap.backend.dict import DictBackend, Identity
    from pymap.user import UserMetadata, Passwords
    args = FakeArgs()
    args.demo_data = demo_data
    if demo_data:
        args.demo_data = True
    kw = dict(hash_context=fast_hash(), invalid_user_sleep=0.0,
              cpu_subsystem=Subsystem.for_asyncio())
    if subsystem is not None:
        kw['subsystem'] = subsystem
    kw.update(over)
    if 'tls_enabled' in kw:             # Config.from_args passes tls_enabled=args.tls itself
        args.tls = kw.pop('tls_enabled')
    backend, config = await DictBackend.init(args, **kw)
    config.apply_context()
    for name, password, roles in users:
        ident = Identity(name, backend.login, None, {'admin'})
        # password None: an account without a stored secret (token-only, locked) - nothing verifies against it
        pw = await Passwords(config).hash_password(password) if password is not None else None
        await ident.set(UserMetadata(config, name, password=pw, roles=frozenset(roles)))
    return backend, config


def scratch_dir(prefix='pymap-verif-'):
    return tempfile.mkdtemp(prefix=prefix, dir=SCRATCH_ROOT)


async def make_maildir(base, layout='++', users=(('alice', 'pwalice', ()), ('bob', 'pwbob', ())),
                       subsystem=None, **over):
    """returns (config, login) for a maildir store rooted at `base`"""
    from pymap.backend.maildir import Config, Login, Identity
    from pymap.user import UserMetadata, Passwords
    args = FakeArgs(base_dir=base, layout=layout, colon=None, concurrency=None)
    kw = dict(hash_context=fast_hash(), invalid_user_sleep=0.0, tls_enabled=False,
              cpu_subsystem=Subsystem.for_asyncio())
    if subsystem is not None:
        kw['subsystem'] = subsystem
    kw.update(over)
    cfg = Config(args, host=None, port=143, base_dir=base, layout=layout, colon=None, **kw)
    cfg.apply_context()
    login = Login(cfg)
    for name, password, roles, *home in users:
        # an optional fourth element: the home directory of the account, relative to the base directory (default: the account name)
        ident = Identity(cfg, login.tokens, name, None, {'admin'})
        try:
            await ident.get()
        except Exception:
            pw = await Passwords(cfg).hash_password(password) if password is not None else None
            extra = dict(params={'mailbox_path': home[0]}) if home else {}
            await ident.set(UserMetadata(cfg, name, password=pw, roles=frozenset(roles), **extra))
    return cfg, login


def rmtree(path):
    try:
        shutil.rmtree(path, ignore_errors=True)
    except RecursionError:
        pass
    if os.path.lexists(path):
        # shutil recurses once per level: a hierarchy a thousand levels deep is beyond it
        import subprocess
        subprocess.run(['rm', '-rf', '--', path], check=False)
