"""Deterministic scheduler for tasks on a stock asyncio loop.

Tasks park on futures at instrumented points (`await sched.point(label)`); the driver runs the loop to quiescence and then
releases exactly one parked task (or cancels one).  With everything else in-process and no real I/O, the interleaving is a
function of the choices made, so a schedule (list of choices) replays exactly.
`Subsystem` below is handed to pymap through the public `subsystem=` config argument: its read-write locks and events are
pymap's own asyncio primitives with a park in front of every acquisition / wait, which realises on the real code the
suspension granularity of the Lean transition systems (DESIGN 3.3).
"""
from __future__ import annotations
import asyncio
from contextlib import asynccontextmanager

from pymap.concurrent import Subsystem as _Subsystem, ReadWriteLock, Event, _AsyncioReadWriteLock, _AsyncioEvent


class Sched:
    def __init__(self, quiesce_rounds=40):
        self.parked = {}      # task name -> (label, future)
        self.trace = []
        self.rounds = quiesce_rounds
        self.enabled = True   # when False, points do not park (setup / teardown phases)
        self.only = None      # if set: only tasks whose name is in this set park

    def name(self):
        t = asyncio.current_task()
        return t.get_name() if t else '?'

    async def point(self, label):
        n = self.name()
        if not self.enabled or (self.only is not None and n not in self.only):
            return
        fut = asyncio.get_running_loop().create_future()
        self.parked[n] = (label, fut)
        try:
            await fut
        finally:
            if self.parked.get(n, (None, None))[1] is fut:
                self.parked.pop(n, None)

    async def quiesce(self):
        for _ in range(self.rounds):
            await asyncio.sleep(0)

    async def release(self, n):
        label, fut = self.parked.pop(n)
        self.trace.append((n, label))
        if not fut.done():
            fut.set_result(None)
        await self.quiesce()
        return label

    async def release_all(self, limit=200):
        """drain: keep releasing parked tasks (lowest name first) until nothing is parked"""
        k = 0
        while self.parked and k < limit:
            await self.release(sorted(self.parked)[0])
            k += 1
        return not self.parked


class ILock(ReadWriteLock):
    """pymap's asyncio read-write lock with a scheduler point before every acquisition"""

    def __init__(self, sched, tag, exit_points=False):
        self.s = sched
        self.tag = tag
        self.exit_points = exit_points      # also park after the write lock has been let go (a lock whose release can yield, as on a thread-based subsystem)
        self.real = _AsyncioReadWriteLock()

    @property
    def subsystem(self):
        return 'asyncio'

    @asynccontextmanager
    async def read_lock(self):
        await self.s.point(f'{self.tag}:r')
        async with self.real.read_lock():
            yield

    @asynccontextmanager
    async def write_lock(self):
        await self.s.point(f'{self.tag}:w')
        async with self.real.write_lock():
            yield
        if self.exit_points:
            await self.s.point(f'{self.tag}:w-out')


class ISubsystem(_Subsystem):
    def __init__(self, sched, exit_points=False):
        self.s = sched
        self.n = 0
        self.exit_points = exit_points

    @property
    def subsystem(self):
        return 'asyncio'

    def execute(self, fut):
        return fut

    def new_rwlock(self):
        self.n += 1
        return ILock(self.s, f'L{self.n}', self.exit_points)

    def new_event(self):
        return _AsyncioEvent()
