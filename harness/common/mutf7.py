"""Modified UTF-7 (RFC 3501 5.1.3), written from the RFC, independent of pymap's implementation."""
import base64


def encode(name: str) -> bytes:
    out = bytearray()
    run = []

    def flush():
        if run:
            raw = ''.join(run).encode('utf-16-be', 'surrogatepass')
            out.extend(b'&' + base64.b64encode(raw).rstrip(b'=').replace(b'/', b',') + b'-')
            run.clear()
    for ch in name:
        o = ord(ch)
        if 0x20 <= o <= 0x7e:
            flush()
            out.extend(b'&-' if ch == '&' else ch.encode('ascii'))
        else:
            run.append(ch)
    flush()
    return bytes(out)


def decode(data: bytes) -> str:
    """strict decoder: raises ValueError on anything that is not a canonical encoding"""
    out = []
    i = 0
    n = len(data)
    while i < n:
        b = data[i]
        if b == 0x26:
            j = data.find(b'-', i + 1)
            if j < 0:
                raise ValueError('unterminated shift')
            if j == i + 1:
                out.append('&')
            else:
                chunk = data[i + 1:j].replace(b',', b'/')
                pad = b'=' * (-len(chunk) % 4)
                raw = base64.b64decode(chunk + pad, validate=True)
                if len(raw) % 2:
                    raise ValueError('odd utf-16')
                out.append(raw.decode('utf-16-be', 'surrogatepass'))
            i = j + 1
        elif 0x20 <= b <= 0x7e:
            out.append(chr(b))
            i += 1
        else:
            raise ValueError('unencoded byte')
    return ''.join(out)


def quote(b: bytes) -> bytes:
    """IMAP quoted string or LITERAL+ for a byte string"""
    if b and all(0x20 <= c <= 0x7e for c in b) or b == b'':
        return b'"' + b.replace(b'\\', b'\\\\').replace(b'"', b'\\"') + b'"'
    return b'{%d+}\r\n' % len(b) + b


def wire_name(name: str) -> bytes:
    return quote(encode(name))
