"""Leg P: build the Lean project, hygiene grep, axiom audit of the property theorems."""
from __future__ import annotations
import hashlib
import json
import os
import re
import subprocess

from .model import VERIF

LEAN = os.path.join(VERIF, 'lean')
ALLOWED_AXIOMS = {'propext', 'Classical.choice', 'Quot.sound'}
_BANNED = re.compile(r'\bsorry\b|\badmit\b|^\s*axiom\s|native_decide|bv_decide|implemented_by|\bunsafe\s|maxHeartbeats\s+0\b')


def _strip_comments(text):
    # remove /- ... -/ (nested) and -- ... comments, keep line structure
    out = []
    depth = 0
    i = 0
    n = len(text)
    while i < n:
        if text.startswith('/-', i):
            depth += 1
            i += 2
        elif depth and text.startswith('-/', i):
            depth -= 1
            i += 2
        elif depth:
            if text[i] == '\n':
                out.append('\n')
            i += 1
        elif text.startswith('--', i):
            while i < n and text[i] != '\n':
                i += 1
        else:
            out.append(text[i])
            i += 1
    return ''.join(out)


def sources():
    files = []
    for root, dirs, fs in os.walk(LEAN):
        dirs[:] = [d for d in dirs if d != '.lake']
        for f in fs:
            if f.endswith('.lean') or f in ('lakefile.toml', 'lake-manifest.json'):
                files.append(os.path.join(root, f))
    return sorted(files)


def source_hash():
    h = hashlib.sha256()
    for f in sources():
        h.update(f.encode())
        h.update(open(f, 'rb').read())
    return h.hexdigest()


def build():
    """lake build (library + driver).  returns (ok, output)"""
    p = subprocess.run(['lake', 'build', 'PymapModel', 'PymapSpec', 'PymapProofs', 'driver'], cwd=LEAN,
                       capture_output=True, text=True)
    out = p.stdout + p.stderr
    return p.returncode == 0, out


def hygiene():
    """banned constructs outside comments; returns list of 'file:line: text'"""
    hits = []
    for f in sources():
        if not f.endswith('.lean'):
            continue
        text = _strip_comments(open(f).read())
        for ln, line in enumerate(text.split('\n'), 1):
            if _BANNED.search(line):
                hits.append(f'{os.path.relpath(f, LEAN)}:{ln}: {line.strip()[:120]}')
    return hits


def audit(theorems):
    """`#print axioms` for each fully qualified theorem name.
    returns {name: sorted list of axioms} ; a name that does not exist maps to ['<missing>']"""
    cache_file = os.path.join(LEAN, '.lake', 'audit-cache.json')
    key = source_hash()
    cache = {}
    try:
        cache = json.load(open(cache_file))
        if cache.get('key') != key:
            cache = {}
    except Exception:
        cache = {}
    res = cache.get('res', {})
    todo = [t for t in theorems if t not in res]
    if todo:
        d = os.path.join(LEAN, '.lake', 'audit')
        os.makedirs(d, exist_ok=True)
        path = os.path.join(d, f'Audit_{os.getpid()}.lean')
        with open(path, 'w') as fh:
            fh.write('import PymapProofs\n')
            for t in todo:
                fh.write(f'#print axioms {t}\n')
        p = subprocess.run(['lake', 'env', 'lean', path], cwd=LEAN, capture_output=True, text=True)
        os.unlink(path)
        text = p.stdout + p.stderr
        # messages may wrap over several lines: join continuation lines
        joined = re.sub(r'\n\s+', ' ', text)
        for t in todo:
            m = re.search(r"'" + re.escape(t) + r"' depends on axioms: \[([^\]]*)\]", joined)
            if m:
                res[t] = sorted(a.strip() for a in m.group(1).split(',') if a.strip())
            elif re.search(r"'" + re.escape(t) + r"' does not depend on any axioms", joined):
                res[t] = []
            else:
                res[t] = ['<missing>']
        try:
            json.dump({'key': key, 'res': res}, open(cache_file, 'w'))
        except Exception:
            pass
    return {t: res[t] for t in theorems}


def leanchecker(mods=('PymapModel', 'PymapSpec', 'PymapProofs')):
    p = subprocess.run(['lake', 'env', 'leanchecker', *mods], cwd=LEAN, capture_output=True, text=True)
    return p.returncode == 0, (p.stdout + p.stderr)[-2000:]
