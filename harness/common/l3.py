"""Command-level (L3) engine shared by C01, C02, C04, C10, C12, C17:
N real IMAP connections on a dict backend  vs  the Lean `Server` model, plus generic per-session observers.

A *program* is a list of ops (plain lists, JSON-able):
  ['select', i, box, examine]      ['close', i]          ['noop', i]   ['check', i]
  ['append', i, box, flags, cid, day, pick]
  ['store', i, byuid, set, mode, flags, silent]
  ['fetch', i, byuid, set, attrs]                       attrs subset of FLAGS UID BODY[] BODY.PEEK[] RFC822.SIZE
  ['expunge', i, set-or-None]
  ['copy', i, move, byuid, set, dest, pick]
  ['search', i, byuid, seqset-or-None, uidset-or-None, [[flag, expected], ...]]
Boxes: 0 INBOX, 1 'box1', 2 'box2', 3 a mailbox that does not exist.  Flags: 0 \\Seen 1 \\Flagged 2 \\Answered
3 \\Deleted 4 \\Draft 5,6 keywords, 9 \\Recent (only ever *sent* to the server in APPEND/STORE flag lists).
`pick` is the oracle for `SelectedSet.any_selected` (read from the real run, see `resolve_pick`).
"""
from __future__ import annotations
import asyncio
import re

from . import wire, backends, imapresp, gen
from .model import batch

BOXES = [b'INBOX', b'box1', b'box2', b'nobox']
FLAGS = {0: b'\\Seen', 1: b'\\Flagged', 2: b'\\Answered', 3: b'\\Deleted', 4: b'\\Draft', 5: b'kwa', 6: b'kwb', 9: b'\\Recent'}
RFLAGS = {v.lower(): k for k, v in FLAGS.items()}
MONTHS = ['Jan', 'Feb', 'Mar', 'Apr', 'May', 'Jun', 'Jul', 'Aug', 'Sep', 'Oct', 'Nov', 'Dec']


def msg_bytes(cid):
    return b'From: a@b.c\r\nX-Cid: %d\r\n\r\n' % cid + b'x' * cid + b'\r\n'


def cid_of_size(size, lf=False):
    # len(header) depends on the number of digits of cid: solve by search (cids are small)
    for cid in range(0, 400):
        b = msg_bytes(cid)
        if lf:                          # maildir returns LF line endings (known finding D6)
            b = b.replace(b'\r\n', b'\n')
        if len(b) == size:
            return cid
    return -1


def flag_list(fl):
    # system flags are case-insensitive: the spelling on the wire varies (deterministically, by the flag set), the meaning does not
    def spell(f):
        w = FLAGS[f]
        k = (sum(fl) * 7 + f * 3 + len(fl)) % 4
        if not w.startswith(b'\\') or k == 0:
            return w
        return w.upper() if k == 1 else (w.lower() if k == 2 else w.swapcase())
    return b'(' + b' '.join(spell(f) for f in fl) + b')'


DATE_ZONES = [b'+0000', b'-0700', b'+0530', b'+1300', b'-1100', b'+0000', b'-0330', b'-0930', b'-0001']


def date_str(day):
    # the zone varies with the day: what has to be preserved is the instant, and a server that drops or swaps the zone moves it
    return b'"%02d-Jan-2020 10:00:00 %s"' % (1 + day % 28, DATE_ZONES[(day * 7 + 3) % len(DATE_ZONES)])


def _instant(text):
    import datetime
    return datetime.datetime.strptime(text.decode('ascii').strip(), '%d-%b-%Y %H:%M:%S %z').timestamp()


_DAY_OF_INSTANT = {}


def day_of(internaldate):
    """the day index whose `date_str` denotes the instant of this INTERNALDATE (any zone spelling), or -1"""
    if not _DAY_OF_INSTANT:
        for d in range(28):
            _DAY_OF_INSTANT[_instant(date_str(d).strip(b'"'))] = 1 + d % 28
    try:
        return _DAY_OF_INSTANT.get(_instant(internaldate), -1)
    except ValueError:
        return -1


def op_bytes(op, tag=b'a'):
    k = op[0]
    if k == 'select':
        return tag + (b' EXAMINE ' if op[3] else b' SELECT ') + BOXES[op[2]] + b'\r\n'
    if k == 'close':
        return tag + b' CLOSE\r\n'
    if k == 'noop':
        return tag + b' NOOP\r\n'
    if k == 'check':
        return tag + b' CHECK\r\n'
    if k == 'append':
        _, i, box, fl, cid, day, _pick = op
        body = msg_bytes(cid)
        return tag + b' APPEND ' + BOXES[box] + b' ' + flag_list(fl) + b' ' + date_str(day) + b' {%d+}\r\n' % len(body) + body + b'\r\n'
    if k == 'store':
        _, i, byuid, s, mode, fl, silent = op
        item = [b'FLAGS', b'+FLAGS', b'-FLAGS'][mode] + (b'.SILENT' if silent else b'')
        return tag + (b' UID' if byuid else b'') + b' STORE ' + s.encode() + b' ' + item + b' ' + flag_list(fl) + b'\r\n'
    if k == 'fetch':
        _, i, byuid, s, attrs = op
        return tag + (b' UID' if byuid else b'') + b' FETCH ' + s.encode() + b' (' + b' '.join(a.encode() for a in attrs) + b')\r\n'
    if k == 'expunge':
        return tag + (b' UID EXPUNGE ' + op[2].encode() if op[2] else b' EXPUNGE') + b'\r\n'
    if k == 'copy':
        _, i, move, byuid, s, dest, _pick = op
        return tag + (b' UID' if byuid else b'') + (b' MOVE ' if move else b' COPY ') + s.encode() + b' ' + BOXES[dest] + b'\r\n'
    if k == 'status':
        return tag + b' STATUS ' + BOXES[op[2]] + b' (MESSAGES UIDNEXT UNSEEN)\r\n'
    if k == 'search':
        _, i, byuid, seqs, uids, tests = op
        parts = []
        if seqs:
            parts.append(seqs.encode())
        if uids:
            parts.append(b'UID ' + uids.encode())
        names = {0: b'SEEN', 1: b'FLAGGED', 2: b'ANSWERED', 3: b'DELETED', 4: b'DRAFT'}
        for f, e in tests:
            parts.append((b'' if e else b'UN') + names[f])
        if not parts:
            parts.append(b'ALL')
        return tag + (b' UID' if byuid else b'') + b' SEARCH ' + b' '.join(parts) + b'\r\n'
    raise ValueError(op)


def mnats(l):
    return ','.join(str(x) for x in l) if l else '-'


def op_model(op):
    k = op[0]
    if k == 'select':
        return f'srv select {op[1]} {op[2]} {int(op[3])}'
    if k == 'close':
        return f'srv close {op[1]}'
    if k in ('noop', 'check'):
        return f'srv {k} {op[1]}'
    if k == 'append':
        _, i, box, fl, cid, day, pick = op
        return f'srv append {i} {box} {mnats([f for f in fl if f != 9])} {pick} {cid} {1 + day % 28}'
    if k == 'store':
        _, i, byuid, s, mode, fl, silent = op
        return f'srv store {i} {int(byuid)} {gen.seqset_model(s)} {mode} {mnats([f for f in fl if f != 9])} {int(silent)}'
    if k == 'fetch':
        _, i, byuid, s, attrs = op
        return f"srv fetch {i} {int(byuid)} {gen.seqset_model(s)} {int('FLAGS' in attrs)} {int('UID' in attrs)} {int(sets_seen(attrs))}"
    if k == 'expunge':
        return f"srv expunge {op[1]} {gen.seqset_model(op[2]) if op[2] else '-'}"
    if k == 'copy':
        _, i, move, byuid, s, dest, pick = op
        return f'srv copy {i} {int(move)} {int(byuid)} {gen.seqset_model(s)} {dest} {pick}'
    if k == 'status':
        return f'srv status {op[1]} {op[2]}'
    if k == 'search':
        _, i, byuid, seqs, uids, tests = op
        t = ';'.join(f'{f}:{int(e)}' for f, e in tests) or '-'
        return f"srv search {i} {int(byuid)} {gen.seqset_model(seqs) if seqs else '-'} {gen.seqset_model(uids) if uids else '-'} {t}"
    raise ValueError(op)


# ---------------------------------------------------------------- canonical forms
def canon_flags(tokens):
    fl = []
    rec = False
    for t in tokens:
        v = t.val.lower()
        if v == b'\\recent':
            rec = True
        else:
            fl.append(RFLAGS.get(v, 99))
    return tuple(sorted(fl)), rec


def expand_set(s):
    out = []
    for part in s.split(b','):
        if b':' in part:
            a, b_ = part.split(b':')
            out += list(range(int(a), int(b_) + 1))
        else:
            out.append(int(part))
    return out


def canon_real(raw):
    """-> (status, code, items) ; raises imapresp.Malformed"""
    resps = imapresp.parse(raw)
    items = []
    code = ''
    status = '?'
    uidnext = None
    unseen = 0
    rw = None
    for r in resps:
        a0 = imapresp.atom(r[0]) if r else None
        if a0 == b'*':
            a1 = imapresp.atom(r[1]) if len(r) > 1 else None
            a2 = imapresp.atom(r[2]) if len(r) > 2 else None
            if a2 in (b'EXISTS', b'EXPUNGE', b'RECENT'):
                items.append((a2.decode(), int(a1)))
            elif a2 == b'FETCH':
                n, d = imapresp.fetch_items(r)
                fl = None
                rec = False
                if b'FLAGS' in d:
                    fl, rec = canon_flags(d[b'FLAGS'])
                uid = int(d[b'UID'].val) if b'UID' in d else None
                items.append(('FETCH', n, fl, rec, uid))
            elif a1 == b'SEARCH':
                items.append(('SEARCH', tuple(int(t.val) for t in r[2:])))
            elif a1 == b'BYE':
                items.append(('BYE',))
            elif a1 == b'STATUS' and len(r) > 3 and isinstance(r[3], list):
                d = {imapresp.atom(r[3][k]): int(r[3][k + 1].val) for k in range(0, len(r[3]) - 1, 2)}
                code = f"STATUS messages={d.get(b'MESSAGES')} uidnext={d.get(b'UIDNEXT')} unseen={d.get(b'UNSEEN')}"
            elif a1 == b'OK' and a2 and a2.startswith(b'['):
                m = re.match(rb'\[UIDNEXT (\d+)\]', a2)
                if m:
                    uidnext = int(m.group(1))
                m = re.match(rb'\[UNSEEN (\d+)\]', a2)
                if m:
                    unseen = int(m.group(1))
                m = re.match(rb'\[COPYUID (\d+) (\S+) (\S+)\]', a2)
                if m:
                    code = f'COPYUID {mnats(expand_set(m.group(2)))} {mnats(expand_set(m.group(3)))}'
        elif a0 not in (b'+', None):
            status = imapresp.atom(r[1]).decode().upper()
            a2 = imapresp.atom(r[2]) if len(r) > 2 else None
            if a2 and a2.startswith(b'['):
                m = re.match(rb'\[(READ-ONLY|READ-WRITE|EXPUNGEISSUED|TRYCREATE)\]', a2)
                if m:
                    rw = m.group(1).decode()
                    code = rw if rw in ('EXPUNGEISSUED', 'TRYCREATE') else code
                m = re.match(rb'\[APPENDUID (\d+) (\S+)\]', a2)
                if m:
                    code = f'APPENDUID {mnats(expand_set(m.group(2)))}'
                m = re.match(rb'\[COPYUID (\d+) (\S+) (\S+)\]', a2)
                if m:
                    code = f'COPYUID {mnats(expand_set(m.group(2)))} {mnats(expand_set(m.group(3)))}'
    if uidnext is not None and status == 'OK':
        code = f'{rw} uidnext={uidnext} unseen={unseen}'
    elif rw in ('READ-ONLY',) and status == 'NO':
        code = 'READ-ONLY'
    return status, code, items


def canon_model(line):
    status, code, rest = line.split('|', 2)
    items = []
    for tok in rest.split():
        p = tok.split(':')
        if p[0] in ('EXISTS', 'EXPUNGE', 'RECENT'):
            items.append((p[0], int(p[1])))
        elif p[0] == 'FETCH':
            if p[2] == 'none':
                fl, rec = None, False
            else:
                rec = p[2].endswith('+R')
                body = p[2][:-2] if rec else p[2]
                fl = tuple(sorted(int(x) for x in body.split(',') if x not in ('', '-')))
            items.append(('FETCH', int(p[1]), fl, rec, None if p[3] == '-' else int(p[3])))
        elif p[0] == 'SEARCH':
            items.append(('SEARCH', tuple(int(x) for x in p[1].split(',') if x not in ('', '-'))))
        elif p[0] == 'BYE':
            items.append(('BYE',))
    return status, code, items


# ---------------------------------------------------------------- the real side
class Real:
    def __init__(self, nsess, subsystem=None, backend='dict'):
        self.nsess = nsess
        self.subsystem = subsystem
        self.clients = []
        self.raw_log = []
        self.kind = backend
        self.base = None

    async def start(self):
        from pymap.imap import IMAPServer
        kw = {}
        if self.subsystem is not None:
            kw['subsystem'] = self.subsystem
        # the consecutive-BAD limit is C05/C06's subject; random programs here may contain long runs of refused commands
        if self.kind == 'dict':
            self.backend, self.config = await backends.make_dict(users=[('u', 'p', ())], bad_command_limit=None, **kw)
            login = self.backend.login
        else:
            self.base = backends.scratch_dir()
            self.config, login = await backends.make_maildir(self.base, layout='++' if self.kind == 'maildir' else 'fs',
                                                             users=[('u', 'p', ())], bad_command_limit=None, **kw)
        self.server = IMAPServer(login, self.config)
        for i in range(self.nsess):
            c = wire.Client(self.server, fd=10 + i, name=f's{i}')
            await c.start()
            await c.send(b'a LOGIN u p\r\n')
            if i == 0:
                await c.send(b'a CREATE box1\r\n')
                await c.send(b'a CREATE box2\r\n')
            self.clients.append(c)

    async def do(self, op):
        c = self.clients[op[1]]
        raw = await c.send(op_bytes(op))
        self.raw_log.append((op[1], raw))
        return raw

    async def dump(self, box):
        """contents of a mailbox as an independent observer sees them: [(uid, flags, cid, day)], stored-recent count"""
        c = wire.Client(self.server, fd=99, name='probe')
        await c.start()
        await c.send(b'p LOGIN u p\r\n')
        raw = await c.send(b'p EXAMINE ' + BOXES[box] + b'\r\n')
        recent = None
        for r in imapresp.parse(raw):
            if len(r) > 2 and imapresp.atom(r[2]) == b'RECENT':
                recent = int(r[1].val)
        raw = await c.send(b'p UID FETCH 1:* (UID FLAGS RFC822.SIZE INTERNALDATE)\r\n')
        out = []
        for r in imapresp.parse(raw):
            f = imapresp.fetch_items(r)
            if f:
                d = f[1]
                fl, rec = canon_flags(d[b'FLAGS'])
                if rec:                 # an EXAMINE probe never owns \\Recent: it can only see one that was stored as a permanent flag
                    fl = tuple(sorted(fl + (9,)))
                day = day_of(d[b'INTERNALDATE'].val)
                out.append((int(d[b'UID'].val), fl, cid_of_size(int(d[b'RFC822.SIZE'].val), lf=self.kind != 'dict'), day))
        await c.send(b'p LOGOUT\r\n')
        await c.finish()
        return sorted(out), recent

    async def stop(self):
        for c in self.clients:
            try:
                await c.eof()
            except Exception:
                pass
        if self.base:
            backends.rmtree(self.base)


def sets_seen(attrs):
    """RFC 3501 6.4.5: BODY[<section>] in any form without .PEEK, RFC822 and RFC822.TEXT set \\Seen; RFC822.HEADER, RFC822.SIZE, the .PEEK forms
    and the structural items do not"""
    return any((a.startswith('BODY[') or a.startswith('BINARY[') or a in ('RFC822', 'RFC822.TEXT')) for a in attrs)


def sel_state(program_prefix, nsess):
    """which box each session has selected (box, examine) after the prefix, by the commands' own rules (harness-side shadow)"""
    st = [None] * nsess
    for op in program_prefix:
        if op[0] == 'select':
            st[op[1]] = (op[2], bool(op[3])) if op[2] < 3 else None
        elif op[0] == 'close':
            st[op[1]] = None
    return st


async def run_real(nsess, program, subsystem=None, dumps=True, backend='dict', dump_each=None):
    """executes the program; returns (extended program with resolved picks and inserted probe NOOPs, raw outputs, final dumps).
    `dump_each`: a list that receives the dumps of all three mailboxes after every command"""
    real = Real(nsess, subsystem, backend)
    await real.start()
    ext = []
    outs = []
    try:
        for op in program:
            op = list(op)
            if op[0] in ('append', 'copy'):
                i = op[1]
                dest = op[2] if op[0] == 'append' else op[5]
                st = sel_state(ext, nsess)
                own_rw = st[i] is not None and st[i][0] == dest and not st[i][1]
                cands = [j for j in range(nsess) if j != i and st[j] is not None and st[j][0] == dest and not st[j][1]]
                raw = await real.do(op)
                if not own_rw and len(cands) >= 2:
                    # ambiguous `any_selected`: ask the candidates for the flags of the new message; the one that was
                    # picked reports it with \\Recent
                    newuid = None
                    m = re.search(rb'\[APPENDUID \d+ (\d+)', raw) or re.search(rb'\[COPYUID \d+ \S+ (\d+)', raw)
                    if m:
                        newuid = int(m.group(1))
                    probes = []
                    pick = cands[0]
                    if newuid is not None:
                        for j in cands:
                            pop = ['fetch', j, True, str(newuid), ['FLAGS']]
                            nraw = await real.do(pop)
                            probes.append((pop, nraw))
                            try:
                                _, _, items = canon_real(nraw)
                            except imapresp.Malformed:
                                items = []
                            if any(it[0] == 'FETCH' and it[4] == newuid and it[3] for it in items):
                                pick = j
                    op[-1] = pick
                    ext.append(op)
                    outs.append(raw)
                    for p, nraw in probes:
                        ext.append(p)
                        outs.append(nraw)
                    if dump_each is not None:
                        d = [await real.dump(b) for b in range(3)]      # the probes are flag fetches: they change nothing
                        while len(dump_each) < len(ext):
                            dump_each.append(d)
                    continue
                op[-1] = cands[0] if cands else 0
                ext.append(op)
                outs.append(raw)
            else:
                raw = await real.do(op)
                ext.append(op)
                outs.append(raw)
            if dump_each is not None:
                while len(dump_each) < len(ext):
                    dump_each.append(None)
                dump_each[len(ext) - 1] = [await real.dump(b) for b in range(3)]
        final = []
        if dumps:
            for b in range(3):
                final.append(await real.dump(b))
    finally:
        await real.stop()
    return ext, outs, final


def run_model(cases):
    """cases: list of (nsess, extended program) -> list of per-op canonical replies + final dumps"""
    lines = []
    for nsess, prog in cases:
        lines.append(f'srv reset 3 {nsess}')
        lines += [op_model(op) for op in prog]
        lines += [f'srv dump {b}' for b in range(3)]
    res = batch(lines)
    out = []
    k = 0
    for nsess, prog in cases:
        k += 1
        replies = [canon_model(res[k + j]) for j in range(len(prog))]
        k += len(prog)
        dumps = []
        for b in range(3):
            toks = res[k].split()
            k += 1
            msgs = []
            rec = 0
            for t in toks[1:]:
                if t == '-':
                    continue
                u, fl, rc, cid = t.split(':')
                msgs.append((int(u), tuple(sorted(int(x) for x in fl.split(',') if x not in ('', '-'))), int(cid)))
                rec += int(rc)
            dumps.append((sorted(msgs), rec, int(toks[0])))
        out.append((replies, dumps))
    return out


# ---------------------------------------------------------------- generator
def gen_program(r, nsess, length, profile, uid_base=100):
    """profile: dict of op weights and switches"""
    w = dict(select=6, close=2, noop=10, check=2, append=14, store=18, fetch=10, expunge=8, uidexpunge=3, copy=6, move=4, search=5, status=0)
    w.update(profile.get('weights', {}))
    kinds = list(w)
    weights = [w[k] for k in kinds]
    prog = []
    count = [0, 0, 0]       # rough number of messages ever appended per box (for sequence-set ranges)
    cid = 1
    # every session starts by selecting something (mostly INBOX) so that interactions happen
    main_box = profile.get('main_box', 0)
    for i in range(nsess):
        ex = r.random() < profile.get('examine', 0.15)
        prog.append(['select', i, main_box if r.random() < 0.85 else r.randint(0, 2), ex])
    for _ in range(profile.get('pre_append', r.randint(0, 4))):
        prog.append(['append', r.randrange(nsess), main_box, gen_flags(r, profile), cid, r.randint(0, 5), 0])
        cid += 1
        count[main_box] += 1
    for _ in range(length):
        i = r.randrange(nsess)
        k = r.choices(kinds, weights)[0]
        st = sel_state(prog, nsess)
        box = st[i][0] if st[i] else main_box
        hi = max(1, count[box])
        if k == 'select':
            prog.append(['select', i, r.choice([0, 0, 0, 1, 2, 3]) if r.random() < 0.5 else main_box, r.random() < profile.get('examine', 0.15)])
        elif k == 'close':
            prog.append(['close', i])
        elif k in ('noop', 'check'):
            prog.append([k, i])
        elif k == 'status':
            prog.append(['status', i, r.choice([0, 1, 2, 3, box])])
        elif k == 'append':
            b = box if r.random() < 0.8 else r.choice([0, 1, 2, 3])
            prog.append(['append', i, b, gen_flags(r, profile), cid, r.randint(0, 5), 0])
            cid += 1
            if b < 3:
                count[b] += 1
        elif k == 'store':
            byuid = r.random() < 0.4
            s = gen.seqset(r, hi, uid_base if byuid else 0)
            prog.append(['store', i, byuid, s, r.choice([0, 1, 1, 2]), gen_flags(r, profile, store=True), r.random() < 0.25])
            # the same change made by another session straight afterwards: what one session predicted, was refused or silenced meets
            # the very change arriving from outside (most often when the first session holds the mailbox read-only)
            others = [j for j in range(nsess) if j != i and st[j] and st[j][0] == box and not st[j][1]]
            if others and r.random() < (0.6 if st[i] and st[i][1] else profile.get('echo', 0.12)):
                prog.append(['store', r.choice(others)] + prog[-1][2:6] + [False])
        elif k == 'fetch':
            byuid = r.random() < 0.4
            s = gen.seqset(r, hi, uid_base if byuid else 0)
            attrs = r.choice([['FLAGS'], ['UID', 'FLAGS'], ['BODY.PEEK[]'], ['BODY[]'], ['FLAGS', 'BODY[]'], ['RFC822.SIZE'], ['UID'], ['RFC822'],
                              # every shape of body section sets \\Seen unless it is a .PEEK; RFC822.HEADER does not
                              ['BODY[HEADER]'], ['BODY[TEXT]'], ['BODY[HEADER.FIELDS (SUBJECT)]'], ['BODY[HEADER.FIELDS.NOT (SUBJECT)]'], ['BODY[1]'], ['BODY[]<0.5>'], ['BODY[HEADER]<0.3>'],
                              ['RFC822.TEXT'], ['RFC822.HEADER'], ['BODY.PEEK[HEADER]'], ['BODY.PEEK[TEXT]'], ['BODY.PEEK[1]'], ['FLAGS', 'BODY[HEADER]'], ['ENVELOPE'], ['BODYSTRUCTURE']])
            prog.append(['fetch', i, byuid, s, attrs])
        elif k == 'expunge':
            prog.append(['expunge', i, None])
        elif k == 'uidexpunge':
            prog.append(['expunge', i, gen.seqset(r, hi, uid_base)])
        elif k in ('copy', 'move'):
            byuid = r.random() < 0.4
            s = gen.seqset(r, hi, uid_base if byuid else 0)
            dest = r.choice([0, 1, 2, 1, 2, 3]) if r.random() < 0.8 else box
            prog.append(['copy', i, k == 'move', byuid, s, dest, 0])
            if dest < 3:
                count[dest] += 2
        elif k == 'search':
            byuid = r.random() < 0.4
            seqs = gen.seqset(r, hi, 0) if r.random() < 0.4 else None
            uids = gen.seqset(r, hi, uid_base) if r.random() < 0.3 else None
            tests = [[r.randint(0, 4), r.random() < 0.5] for _ in range(r.randint(0, 2))]
            prog.append(['search', i, byuid, seqs, uids, tests])
    if profile.get('final_noops', True):
        for i in range(nsess):
            prog.append(['noop', i])
    return prog


def gen_flags(r, profile, store=False):
    pool = [0, 1, 2, 3, 3, 4]
    if not store or profile.get('store_keywords', True):
        pool += [5, 6]
    if r.random() < profile.get('recent_in_flags', 0.08):
        pool += [9, 9]
    k = r.randint(0, 3)
    return sorted(set(r.sample(pool, min(k, len(pool)))))


# ---------------------------------------------------------------- observers (monitors over the real byte streams)
class ShadowClient:
    """What a client that applies untagged responses in order holds: a list of (uid or None).  C01's ghost."""

    def __init__(self):
        self.msgs = None      # list of uids (None = unknown uid) while selected
        self.flags = None     # per position: (flags tuple, recent) as last told, None = never told
        self.box = None
        self.ro = False
        self.errors = []
        self.told_recent = []     # uids (or positions) this session was told are \\Recent: list of (box, uid-or-None, position)

    def archive(self):
        if self.msgs is not None:
            if not hasattr(self, 'history'):
                self.history = []
            self.history.append(dict(box=self.box, ro=self.ro, epoch=self.epoch,
                                     seen=list(zip(self.msgs, self.rec)) + list(self.gone)))

    def on_select(self, exists, box=None, ro=False):
        self.archive()
        self.msgs = [None] * exists
        self.flags = [None] * exists
        self.rec = [False] * exists       # was this position ever reported with \\Recent in this selection
        self.box = box
        self.ro = ro
        self.epoch = getattr(self, 'epoch', 0) + 1
        self.recent_count = None          # last RECENT n received
        self.gone = []                    # (uid-or-None, ever told recent) of positions removed by EXPUNGE

    def on_close(self):
        self.archive()
        self.msgs = None
        self.flags = None
        self.box = None

    def own_silent_store(self, op):
        """a client that sends STORE ... .SILENT knows the outcome itself (RFC 3501 6.4.6): update what it believes"""
        _, i, byuid, sset, mode, fl, silent = op
        if self.msgs is None or self.ro or not silent:
            return
        operand = tuple(sorted(f for f in fl if f in (0, 1, 2, 3, 4)))
        if byuid:
            if any(u is None for u in self.msgs):
                self.flags = [None] * len(self.flags)
                return
            mx = max(self.msgs) if self.msgs else 0
            want = rfc_set(sset, mx)
            pos = [k for k, u in enumerate(self.msgs) if u in want]
        else:
            want = rfc_set(sset, len(self.msgs))
            pos = [k for k in range(len(self.msgs)) if (k + 1) in want]
        for k in pos:
            cur = self.flags[k]
            if mode == 0:
                self.flags[k] = (operand, cur[1] if cur else False)
            elif cur is not None:
                if mode == 1:
                    self.flags[k] = (tuple(sorted(set(cur[0]) | set(operand))), cur[1])
                else:
                    self.flags[k] = (tuple(sorted(set(cur[0]) - set(operand))), cur[1])

    def apply(self, items, op, hide):
        for it in items:
            if self.msgs is None:
                if it[0] in ('EXISTS', 'EXPUNGE', 'FETCH'):
                    self.errors.append(f'{it} sent while no mailbox is selected (op {op})')
                continue
            if it[0] == 'EXPUNGE':
                n = it[1]
                if hide:
                    self.errors.append(f'EXPUNGE {n} sent while answering a non-UID FETCH/STORE/SEARCH (op {op})')
                if not (1 <= n <= len(self.msgs)):
                    self.errors.append(f'EXPUNGE {n} outside 1..{len(self.msgs)} (op {op})')
                else:
                    self.gone.append((self.msgs[n - 1], self.rec[n - 1]))
                    del self.msgs[n - 1]
                    del self.flags[n - 1]
                    del self.rec[n - 1]
            elif it[0] == 'RECENT':
                self.recent_count = it[1]
            elif it[0] == 'EXISTS':
                n = it[1]
                if n < len(self.msgs):
                    self.errors.append(f'EXISTS {n} shrinks the mailbox from {len(self.msgs)} (op {op})')
                else:
                    self.flags += [None] * (n - len(self.msgs))
                    self.rec += [False] * (n - len(self.msgs))
                    self.msgs += [None] * (n - len(self.msgs))
            elif it[0] == 'FETCH':
                _, n, fl, rec, uid = it
                if not (1 <= n <= len(self.msgs)):
                    self.errors.append(f'FETCH {n} outside 1..{len(self.msgs)} (op {op})')
                else:
                    if uid is not None:
                        if self.msgs[n - 1] is None:
                            self.msgs[n - 1] = uid
                        elif self.msgs[n - 1] != uid:
                            self.errors.append(f'FETCH {n} labelled UID {uid} but the client holds UID {self.msgs[n - 1]} at {n} (op {op})')
                    if fl is not None:
                        self.flags[n - 1] = (fl, rec)
                        if rec:
                            self.rec[n - 1] = True
            elif it[0] == 'SEARCH' and op[0] == 'search' and not op[2]:
                for n in it[1]:
                    if not (1 <= n <= len(self.msgs)):
                        self.errors.append(f'SEARCH result {n} outside 1..{len(self.msgs)} (op {op})')


def rfc_set(s, mx):
    """RFC 3501 meaning of a sequence set given the largest number in use (independent of pymap's SequenceSet)"""
    out = set()
    for part in s.split(','):
        ends = [mx if e == '*' else int(e) for e in part.split(':')]
        lo, hi = min(ends), max(ends)
        out.update(range(lo, hi + 1))
    return out


def hides(op):
    return op[0] in ('fetch', 'store', 'search') and not op[2]


# ---------------------------------------------------------------- judging a batch of executed cases
def analyse(nsess, ext, outs):
    """canonicalise the real outputs and run the shadow clients; returns (canon list, errors, nontrivial)"""
    shadows = [ShadowClient() for _ in range(nsess)]
    canon = []
    errors = []
    nontrivial = False
    for op, raw in zip(ext, outs):
        try:
            c = canon_real(raw)
        except imapresp.Malformed as exc:
            errors.append(f'malformed response to {op}: {exc}: {raw[:200]!r}')
            canon.append(('MALFORMED', '', []))
            continue
        canon.append(c)
        status, code, items = c
        i = op[1]
        sh = shadows[i]
        if op[0] == 'select':
            if status == 'OK':
                ex = [it[1] for it in items if it[0] == 'EXISTS']
                sh.on_select(ex[-1] if ex else 0, box=op[2], ro=bool(op[3]))
                rc = [it[1] for it in items if it[0] == 'RECENT']
                sh.recent_count = rc[-1] if rc else None
            else:
                sh.on_close()
            continue
        if op[0] == 'close' and status == 'OK':
            sh.on_close()
            continue
        held = len(sh.msgs) if sh.msgs is not None else None     # what the client holds when the server interprets the command
        if op[0] == 'store' and status == 'OK':
            sh.own_silent_store(op)
        sh.apply(items, op, hides(op))
        if op[0] in ('noop', 'check', 'fetch', 'store', 'search') and any(it[0] in ('EXPUNGE', 'EXISTS') for it in items):
            nontrivial = True
        if op[0] == 'fetch' and not op[2] and op[3] == '1:*' and 'UID' in op[4] and status == 'OK' and sh.msgs is not None:
            n = len([it for it in items if it[0] == 'FETCH' and it[4] is not None])
            if n != held and held:
                sh.errors.append(f'server answered FETCH 1:* with {n} messages, the client holds {held} (op {op})')
    for i, sh in enumerate(shadows):
        errors += [f'session {i}: {e}' for e in sh.errors]
    return canon, errors, nontrivial, shadows


def final_probes(prog, nsess):
    for i in range(nsess):
        prog.append(['fetch', i, False, '1:*', ['UID']])
    return prog


def judge(part, done, prop, extra_monitor=None):
    model = run_model([(n, ext) for n, ext, _, _ in done])
    for (nsess, ext, outs, final), (mreplies, mdumps) in zip(done, model):
        case = dict(nsess=nsess, program=ext)
        canon, errors, nontrivial, shadows = analyse(nsess, ext, outs)
        part.trace()
        for o in ext:
            part.stat('op:' + o[0])
        for e in errors:
            part.violation('monitor', e, case, signature='shadow:' + e.split('(op')[0].split(':', 1)[-1].strip()[:40].rstrip('0123456789 '))
        if extra_monitor is not None:
            nontrivial = bool(extra_monitor(part, case, canon, final, shadows))
        part.case(key=repr(ext), nontrivial=nontrivial, sample=dict(nsess=nsess, program=[' '.join(map(str, o)) for o in ext[:12]]))
        for j, (op, c, m) in enumerate(zip(ext, canon, mreplies)):
            if c != m:
                part.violation('correspondence', f'{prop}: op #{j} {op}: implementation {c} model {m}',
                               dict(case, at=j, impl=repr(c), model=repr(m)), signature='l3-stream')
                break
        else:
            # final mailbox contents
            for b in range(3):
                rmsgs = [(u, fl, cid) for (u, fl, cid, day) in final[b][0]]
                if rmsgs != mdumps[b][0] or (final[b][1] is not None and final[b][1] != mdumps[b][1]):
                    part.violation('correspondence', f'{prop}: final contents of box {b}: implementation {rmsgs} recent={final[b][1]} '
                                   f'model {mdumps[b][0]} recent={mdumps[b][1]}', dict(case, box=b), signature='l3-dump')
                    break


