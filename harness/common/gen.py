"""Shared generators.  Every choice comes from the `random.Random` passed in."""
from __future__ import annotations

ALPHA = [b'a', b'b', b':', b' ', b'\r', b'\n', b'\r\n', b'\t', b'x', b'\x00', b'\xff', b'\xe9', b'-', b'"', b'\\', b'(', b'{3}']


def raw_bytes(r, maxlen=12, alphabet=ALPHA):
    return b''.join(r.choice(alphabet) for _ in range(r.randint(0, maxlen)))


HEADER_NAMES = [b'From', b'To', b'Subject', b'Date', b'Message-ID', b'Content-Type', b'X-A', b'Content-Transfer-Encoding',
                b'Content-Disposition', b'In-Reply-To', b'Cc']
VALUES = [b'a', b'alice@example.com', b'"A B" <a@b.c>', b'hello world', b'=?utf-8?q?h=C3=A9llo?=', b'x' * 70,
          b'Mon, 1 Jan 2001 10:00:00 +0000', b'garbage', b'a\rb', b'caf\xc3\xa9', b'\xff\xfe', b'text/plain', b'text/html; charset="utf-8"',
          b'a "quoted" \\ value', b'<id@host>', b'']


def header_line(r, eol):
    name = r.choice(HEADER_NAMES)
    val = r.choice(VALUES)
    line = name + b': ' + val
    if r.random() < 0.15:
        line += eol + b' folded ' + r.choice(VALUES)
    return line + eol


def body_text(r, eol, maxlines=4):
    lines = []
    for _ in range(r.randint(0, maxlines)):
        lines.append(r.choice([b'hello', b'world line', b'', b' ', b'\t', b'x' * r.randint(1, 90), b'--xx', b'From me', b'\x00\x01', b'caf\xc3\xa9', b'bare\rcr']))
    s = eol.join(lines)
    if lines and r.random() < 0.7:
        s += eol
    return s


def message(r, depth=0):
    """a MIME-shaped message: header/body separator present or not, final newline or not, CRLF/LF/mixed, nesting"""
    eol = r.choice([b'\r\n', b'\r\n', b'\r\n', b'\n'])
    shape = r.random()
    if shape < 0.08:
        return raw_bytes(r, 14)
    hdr = b''.join(header_line(r, eol) for _ in range(r.randint(0, 4)))
    if shape < 0.16:
        return hdr                                      # header only, no separator
    if shape < 0.22:
        return hdr.rstrip(b'\r\n')                      # header without final newline
    sep = eol if r.random() < 0.92 else r.choice([b' ' + eol, b'\t' + eol, b'\n', b''])
    if shape < 0.55 or depth >= 2:
        return hdr + sep + body_text(r, eol)
    if shape < 0.85:
        bnd = r.choice([b'xx', b'b1', b'=_x'])
        parts = [message(r, depth + 1) for _ in range(r.randint(0, 3))]
        body = body_text(r, eol, 1)
        for p in parts:
            body += b'--' + bnd + eol + p
            if r.random() < 0.8:
                body += eol
        if r.random() < 0.85:
            body += b'--' + bnd + b'--' + eol
        body += body_text(r, eol, 1)
        q = r.choice([b'"', b''])
        h = hdr + b'Content-Type: multipart/mixed; boundary=' + q + bnd + q + eol
        return h + sep + body
    inner = message(r, depth + 1)
    return hdr + b'Content-Type: message/rfc822' + eol + sep + inner


SEQ_SHAPES = ['one', 'range', 'rev', 'star', 'nstar', 'big', 'dup']


def seqset(r, hi, base=0):
    """a sequence-set string over 1..hi (+base for uids) in all shapes, plus its element list for the model"""
    parts = []
    for _ in range(r.randint(1, 3)):
        shape = r.choice(SEQ_SHAPES)
        a = base + r.randint(1, max(1, hi + 1))
        b = base + r.randint(1, max(1, hi + 2))
        if shape == 'one':
            parts.append(str(a))
        elif shape == 'range':
            parts.append(f'{min(a, b)}:{max(a, b)}')
        elif shape == 'rev':
            parts.append(f'{max(a, b)}:{min(a, b)}')
        elif shape == 'star':
            parts.append('*')
        elif shape == 'nstar':
            parts.append(r.choice([f'{a}:*', f'*:{a}']))
        elif shape == 'big':
            parts.append(r.choice([str(base + hi + 5), f'{base + hi + 2}:{base + hi + 9}', f'{base + hi + 3}:*']))
        else:
            parts.append(str(a))
            parts.append(str(a))
    return ','.join(parts)


def seqset_model(s):
    """`1:3,5,*` -> driver syntax `1:3;5;*`"""
    return s.replace(',', ';')


HOSTILE_NAMES = ['', '.', '..', '/', 'a', 'a/b', 'a//b', '/a', 'a/', 'a/./b', 'a/../b', '../x', '../../x', 'a/../../x',
                 'a.b', '.a', 'a b', 'a%b', 'a*b', '%', '*', 'a"b', 'a\\b', 'a\rb', 'a\nb', 'a\x00b', 'a&b', '&', 'a&-b', 'café',
                 '中文', '\U0001f600', 'inbox', 'INBOX', 'Inbox', 'inbox/x', 'INBOX/x', 'x' * 40, 'a\tb', '~a', '#a', '{3}', 'a(b', 'a)b']
