"""In-process transport between the harness and a real pymap server object.

`Pipe` is a duck-typed StreamReader+StreamWriter pair (the same mechanism as the suite's mock
transport, but queue driven).  `Client` runs one `IMAPServer`/`ManageSieveServer` call as a task
and exchanges bytes with it.  No sockets, no threads: with `cpu_subsystem=Subsystem.for_asyncio()`
everything the server does happens on this event loop, so "run until the server waits for input"
is well defined and deterministic.
"""
from __future__ import annotations
import asyncio
import socket


class _Sock:
    family = socket.AF_INET

    def __init__(self, fd):
        self.fd = fd

    def fileno(self):
        return self.fd


class Pipe:
    def __init__(self, fd=1, sched=None, name=None, peer=('127.0.0.1', 1234)):
        self.inq: asyncio.Queue = asyncio.Queue()
        self.buf = bytearray()
        self.out = bytearray()
        self.closed = False
        self.socket = _Sock(fd)
        self.waiting = False
        self.sched = sched          # optional deterministic scheduler: parks the task in drain()
        self.name = name
        self.peer = peer
        self.tls = False
        self.fail_write = None      # optional callable(data) -> raises, for write-failure injection

    # ---- reader side
    async def _fill(self):
        self.waiting = True
        try:
            data = await self.inq.get()
        finally:
            self.waiting = False
        if data is None:
            return False
        self.buf += data
        return True

    async def readline(self):
        while b'\n' not in self.buf:
            if not await self._fill():
                r = bytes(self.buf)
                self.buf.clear()
                return r
        i = self.buf.index(b'\n') + 1
        r = bytes(self.buf[:i])
        del self.buf[:i]
        return r

    async def readexactly(self, n):
        while len(self.buf) < n:
            if not await self._fill():
                part = bytes(self.buf)
                self.buf.clear()
                raise asyncio.IncompleteReadError(part, n)
        r = bytes(self.buf[:n])
        del self.buf[:n]
        return r

    # ---- writer side
    def write(self, data):
        if self.fail_write is not None:
            self.fail_write(data)
        self.out += data

    async def drain(self):
        if self.sched is not None:
            await self.sched.point('drain')

    def close(self):
        self.closed = True

    def get_extra_info(self, name, default=None):
        if name == 'socket':
            return self.socket
        if name == 'peername':
            return self.peer
        if name == 'sockname':
            return ('127.0.0.1', 143)
        return default

    async def start_tls(self, ctx, **kw):
        self.tls = True


class Client:
    """One connection to a server callable (`IMAPServer` or `ManageSieveServer` instance)."""

    def __init__(self, server, fd=1, sched=None, name=None, sock_info=None):
        from proxyprotocol.sock import SocketInfoLocal
        self.pipe = Pipe(fd, sched=sched, name=name)
        self.server = server
        self.task = None
        self.name = name
        self._sock_info = sock_info or SocketInfoLocal(self.pipe)
        self.exc = None

    async def start(self):
        self.task = asyncio.create_task(
            self.server(self.pipe, self.pipe, self._sock_info), name=self.name)
        return await self.settle()

    def idle(self):
        """the server task cannot make progress without client input"""
        return self.task.done() or (self.pipe.waiting and self.pipe.inq.empty())

    async def settle(self, spins=200000, wall=5.0):
        """run the loop until the server waits for input or has finished; returns the bytes written"""
        loop = asyncio.get_running_loop()
        t0 = loop.time()
        n = 0
        while not self.idle():
            await asyncio.sleep(0)
            n += 1
            if n > spins:
                # something waits on real time (a thread, a timer): fall back to short sleeps
                if loop.time() - t0 > wall:
                    break
                await asyncio.sleep(0.001)
        return self.take()

    def take(self):
        o = bytes(self.pipe.out)
        self.pipe.out.clear()
        return o

    async def send(self, data):
        self.pipe.inq.put_nowait(data)
        return await self.settle()

    def feed(self, data):
        """queue input without running the loop (scheduler-driven tests)"""
        self.pipe.inq.put_nowait(data)

    async def eof(self):
        self.pipe.inq.put_nowait(None)
        out = await self.settle()
        await self.finish()
        return out

    async def finish(self):
        if self.task is None:
            return
        if not self.task.done():
            self.task.cancel()
        try:
            await self.task
        except BaseException as exc:   # noqa
            self.exc = exc

    def crashed(self):
        """exception that escaped the connection task, if any"""
        if self.task is not None and self.task.done() and not self.task.cancelled():
            return self.task.exception()
        return None
