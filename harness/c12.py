"""C12 — a read-only selection never changes the mailbox.

Tie: the command-level engine (real connections vs Lean `Server`, whose read-only branches are `Session.exec … true`,
the function C12_frame / C12_frame_program / C12_answers are about; C12_readonly_refuses is about `Conn.handle`).
Monitor (frame property, black box): session 0 works inside EXAMINE while 0-2 other sessions mutate the same mailbox;
all mailboxes are dumped by a probe connection after *every* command; a command issued inside a read-only selection must
leave every mailbox byte-for-byte as the previous dump (message set, permanent flags, contents, stored \\Recent count),
except APPEND (not a message command of the selection: exactly one message more) and COPY (the destination gains
messages, nothing that was there changes — also when the destination is the examined mailbox itself).
STORE / EXPUNGE / UID EXPUNGE must answer NO, CLOSE must answer OK.  A backend read-only mailbox (the demo `Trash`)
is covered by a directed program: SELECT is READ-ONLY, APPEND/COPY/MOVE into it answer NO, nothing changes.
"""
from __future__ import annotations
import asyncio
import json
import random
import re

from .common import l3, wire, backends, imapresp
from .common.report import Part, guarded

RULE = ('programs of every message command and UID variant issued by a session inside EXAMINE, interleaved with 0-2 read-write sessions on the same mailbox; '
        'probe dump of all mailboxes after every command; non-trivial = the read-only session issued at least one STORE/EXPUNGE/MOVE/BODY[] fetch/CLOSE on a '
        'non-empty mailbox; distinct by program text')

PROFILE = dict(weights=dict(select=2, close=3, noop=4, check=2, append=10, store=20, fetch=14, expunge=10, uidexpunge=5, copy=6, move=6, search=4),
               examine=0.0, recent_in_flags=0.05, final_noops=True, pre_append=3)


def gen_case(r):
    nsess = r.choice([1, 2, 2, 3])
    prog = l3.gen_program(r, nsess, r.randint(5, 16), PROFILE)
    # session 0 examines; re-examine after it closes
    out = []
    # now and then the connection has a read-write past: its first selection is read-write, everything after it read-only
    # (nothing of the earlier selection may carry over into the read-only one)
    rw_past = r.random() < 0.4
    seen_first = False
    for op in prog:
        op = list(op)
        if op[0] == 'select' and op[1] == 0:
            if rw_past and not seen_first:
                seen_first = True
                op[3] = False
                out.append(op)
                if r.random() < 0.5:
                    out.append(['close', 0])
                out.append(['select', 0, r.choice([0, 0, op[2] if op[2] < 3 else 0]), True])
                continue
            op[3] = True
        out.append(op)
        if op[0] == 'close' and op[1] == 0 and r.random() < 0.8:
            out.append(['select', 0, 0, True])
    # bias: the read-only session's share of message commands
    return nsess, out


def frame_monitor_factory(dumps):
    def monitor(part, case, canon, final, shadows):
        prog = case['program']
        nsess = case['nsess']
        nontrivial = False
        prev = None
        for j, (op, c) in enumerate(zip(prog, canon)):
            cur = dumps[j] if j < len(dumps) else None
            st = l3.sel_state(prog[:j], nsess)
            i = op[1]
            ro = st[i] is not None and st[i][1]
            if ro and op[0] in ('store', 'expunge') and c[0] != 'NO':
                part.violation('monitor', f'{op} inside a read-only selection answered {c[0]}, not NO', dict(case, at=j), signature='ro-not-refused')
            if ro and op[0] == 'close' and c[0] != 'OK':
                part.violation('monitor', f'CLOSE of a read-only selection answered {c[0]}, not OK', dict(case, at=j), signature='ro-close')
            if ro and prev is not None and cur is not None:
                if prev[st[i][0]][0] and op[0] in ('store', 'expunge', 'copy', 'close') or (op[0] == 'fetch' and l3.sets_seen(op[4])):
                    nontrivial = True
                for b in range(3):
                    before, after = prev[b], cur[b]
                    rw_here = any(st[k] is not None and st[k][0] == b and not st[k][1] for k in range(nsess))
                    if op[0] == 'append' and op[2] == b and c[0] == 'OK':
                        ok = after[0][:-1] == before[0] and len(after[0]) == len(before[0]) + 1
                        if ok and not rw_here and after[1] is not None and after[1] != before[1] + 1:
                            part.violation('monitor', f'command #{j} {op}: a read-only selection consumed the \\Recent of the new message (stored recent count '
                                           f'{before[1]} -> {after[1]}, no read-write session has the mailbox selected)', dict(case, at=j), signature='ro-took-recent')
                    elif op[0] == 'copy' and op[5] == b and c[0] == 'OK' and not op[2]:
                        ok = after[0][:len(before[0])] == before[0]
                        new = len(after[0]) - len(before[0])
                        if ok and not rw_here and after[1] is not None and after[1] != before[1] + new:
                            part.violation('monitor', f'command #{j} {op}: a read-only selection consumed the \\Recent of the copies (stored recent count '
                                           f'{before[1]} -> {after[1]}, {new} new)', dict(case, at=j), signature='ro-took-recent')
                    else:
                        ok = before == after
                    if not ok:
                        part.violation('monitor', f'command #{j} {op} issued inside a read-only selection changed mailbox {b}: before {before} after {after}',
                                       dict(case, at=j, box=b), signature='ro-frame:' + op[0])
            prev = cur
        return nontrivial
    return monitor


def worker(job):
    seed, ncases, corpus = job
    r = random.Random(seed)
    part = Part()
    cases = [(c['nsess'], c['program']) for c in corpus] + [gen_case(r) for _ in range(ncases)]
    for nsess, prog in cases:
        with guarded(part, 'C12 run', dict(nsess=nsess, program=prog)):
            dumps = []
            ext, outs, final = asyncio.run(l3.run_real(nsess, prog, dump_each=dumps))
            l3.judge(part, [(nsess, ext, outs, final)], 'C12', extra_monitor=frame_monitor_factory(dumps))
    if corpus:
        with guarded(part, 'C12 backend read-only mailbox', dict(scenario='demo-trash')):
            asyncio.run(backend_readonly(part))
    return part.result()


async def backend_readonly(part):
    """the demo data's Trash is a read-only *mailbox*"""
    from pymap.imap import IMAPServer
    backend, config = await backends.make_dict(demo_data=True, bad_command_limit=None)
    srv = IMAPServer(backend.login, config)
    c = wire.Client(srv)
    p = wire.Client(srv, 2)
    await c.start()
    await p.start()
    await c.send(b'a LOGIN testuser testpass\r\n')
    await p.send(b'p LOGIN testuser testpass\r\n')

    async def dump():
        await p.send(b'p EXAMINE Trash\r\n')
        out = await p.send(b'p UID FETCH 1:* (UID FLAGS RFC822.SIZE)\r\n')
        st = await p.send(b'p STATUS Trash (MESSAGES RECENT UIDNEXT UNSEEN)\r\n')
        return out, [l for l in st.split(b'\r\n') if b'STATUS' in l and l.startswith(b'*')]
    before = await dump()
    case = dict(scenario='demo-trash')
    msg = b'A: b\r\n\r\nx\r\n'
    steps = [
        (b'a SELECT Trash\r\n', b'OK', b'[READ-ONLY]'),
        (b'a STORE 1:* +FLAGS (\\Deleted)\r\n', b'NO', None),
        (b'a UID STORE 1:* FLAGS.SILENT (\\Seen)\r\n', b'NO', None),
        (b'a EXPUNGE\r\n', b'NO', None),
        (b'a UID EXPUNGE 1:*\r\n', b'NO', None),
        (b'a FETCH 1:* (BODY[])\r\n', b'OK', None),
        (b'a UID FETCH 1:* (RFC822)\r\n', b'OK', None),
        (b'a APPEND Trash {%d+}\r\n' % len(msg) + msg + b'\r\n', b'NO', None),
        (b'a MOVE 1 INBOX\r\n', None, None),
        (b'a CLOSE\r\n', b'OK', None),
        (b'a SELECT INBOX\r\n', b'OK', None),
        (b'a COPY 1 Trash\r\n', b'NO', None),
        (b'a MOVE 1 Trash\r\n', b'NO', None),
        (b'a UID COPY 1:* Trash\r\n', b'NO', None),
    ]
    for line, want, code in steps:
        out = await c.send(line)
        tg = imapresp.tagged(imapresp.parse(out))
        part.case(key='trash:' + line.decode('latin1')[:30], nontrivial=True)
        if want is not None and (tg is None or tg[1] != want):
            part.violation('monitor', f'read-only mailbox Trash: {line!r} answered {tg}, expected {want.decode()}', dict(case, line=line.decode('latin1')),
                           signature='backend-ro-answer')
        if code is not None and (tg is None or tg[2] != code):
            part.violation('monitor', f'read-only mailbox Trash: {line!r} answered {tg}, expected code {code.decode()}', dict(case, line=line.decode('latin1')),
                           signature='backend-ro-code')
        after = await dump()
        if after != before:
            part.violation('monitor', f'read-only mailbox Trash changed by {line!r}: before {before} after {after}', dict(case, line=line.decode('latin1')),
                           signature='backend-ro-frame')
            before = after
    await c.eof()
    await p.eof()


async def maildir_readonly(part, r):
    """maildir: messages a foreign writer (an MDA) put into new/ and cur/ - with and without an info suffix -, then a read-only selection that issues every
    command such a selection may issue; another connection and the disk say whether anything changed (UIDs, flags, UIDNEXT, the uid list)"""
    import os
    import time
    from pymap.imap import IMAPServer
    base = backends.scratch_dir('pymap-verif-c12-')
    layout = r.choice(['++', 'fs'])
    case = dict(scenario='maildir-readonly', layout=layout)
    try:
        config, login = await backends.make_maildir(base, layout=layout, users=[('u', 'p', ())], bad_command_limit=None)
        srv = IMAPServer(login, config)
        w = wire.Client(srv)
        await w.start()
        await w.send(b'w LOGIN u p\r\n')
        for k in range(r.randint(1, 2)):
            await w.send(b'w APPEND INBOX (%s) {9+}\r\nA: %d\r\n\r\nx\r\n' % (r.choice([b'', b'\\Seen', b'\\Deleted']), k))
        await w.send(b'w LOGOUT\r\n')
        await w.finish()
        inbox = os.path.join(base, 'u')
        if not os.path.isdir(os.path.join(inbox, 'new')):
            inbox = next(os.path.join(root) for root, dirs, files in os.walk(base) if 'new' in dirs and 'cur' in dirs)
        delivered = []
        for k in range(r.randint(1, 3)):
            sub, suffix = r.choice([('new', ''), ('new', ''), ('cur', ':2,'), ('cur', ':2,S'), ('cur', ''), ('new', ':2,')])
            name = f'{int(time.time())}.M{k}P{os.getpid()}Q{r.randrange(10 ** 6)}.host{suffix}'
            with open(os.path.join(inbox, sub, name), 'wb') as f:
                f.write(b'Subject: delivered %d\r\n\r\nbody\r\n' % k)
            delivered.append(sub + '/' + name)
        case['delivered'] = delivered
        # a first look registers the deliveries (that is the delivery being noticed, not a read-only command changing something)
        p0 = wire.Client(srv)
        await p0.start()
        await p0.send(b'p LOGIN u p\r\n')
        if r.random() < 0.5:
            await p0.send(b'p SELECT INBOX\r\n')
            await p0.send(b'p CLOSE\r\n')
        else:
            # only ever looked at read-only: the deliveries stay unclaimed (in new/), and nothing a read-only selection does may claim them
            await p0.send(b'p EXAMINE INBOX\r\n')
        await p0.send(b'p LOGOUT\r\n')
        await p0.finish()

        async def look():
            p = wire.Client(srv)
            await p.start()
            await p.send(b'p LOGIN u p\r\n')
            st = await p.send(b'p STATUS INBOX (MESSAGES UIDNEXT UIDVALIDITY RECENT)\r\n')
            await p.send(b'p EXAMINE INBOX\r\n')
            raw = await p.send(b'p UID FETCH 1:* (UID FLAGS RFC822.SIZE)\r\n')
            await p.send(b'p LOGOUT\r\n')
            await p.finish()
            items = []
            for resp in imapresp.parse(raw):
                f = imapresp.fetch_items(resp)
                if f:
                    items.append((int(f[1][b'UID'].val), tuple(sorted(imapresp.atom(x).lower() for x in f[1][b'FLAGS'] if imapresp.atom(x).lower() != b'\\recent')), int(f[1][b'RFC822.SIZE'].val)))
            mt = re.search(rb'MESSAGES (\d+) UIDNEXT (\d+) UIDVALIDITY (\d+) RECENT (\d+)', st)
            where = sorted(sub for sub in ('new', 'cur') for _f in os.listdir(os.path.join(inbox, sub)))
            return (sorted(items), mt.groups() if mt else st[-60:], where)
        before = await look()
        a = wire.Client(srv)
        await a.start()
        await a.send(b'a LOGIN u p\r\n')
        raw = await a.send(b'a EXAMINE INBOX\r\n')
        if b'a OK' not in raw:
            part.stat('maildir-ro:examine-failed')
            return
        cmds = [b'CHECK', b'NOOP', b'FETCH 1:* (FLAGS)', b'UID FETCH 1:* (BODY[])', b'FETCH 1 (BODY[HEADER])', b'SEARCH ALL', b'UID SEARCH UNSEEN', b'SEARCH BODY body', b'UID SEARCH TEXT delivered', b'FETCH 1:* (BODY.PEEK[TEXT]<0.5>)', b'FETCH 1:* (RFC822.SIZE BODYSTRUCTURE)', b'STORE 1 +FLAGS (\\Seen)', b'STORE 1:* FLAGS.SILENT ()',
                b'EXPUNGE', b'UID EXPUNGE 1:*', b'COPY 1 INBOX2', b'MOVE 1 INBOX2', b'UID MOVE 1:* nosuch', b'STATUS INBOX (MESSAGES UIDNEXT)', b'CHECK', b'IDLE']
        r.shuffle(cmds)
        log = case['log'] = []
        for line in cmds[:r.randint(3, 8)] + [b'CHECK', b'NOOP', b'CLOSE']:
            if a.task.done():
                break
            out = await a.send(b'a ' + line + b'\r\n')
            if line == b'IDLE':
                out += await a.send(b'DONE\r\n')
            log.append([line.decode(), out[-50:].decode('latin1')])
            exp = [l for l in out.split(b'\r\n') if l.endswith(b' EXPUNGE')]
            after = await look()
            part.stat('maildir-ro:command')
            if exp:
                part.violation('monitor', f'maildir {layout}: {line!r} in a read-only selection is answered with {exp}: nothing left the mailbox', case, signature='md-ro-expunge-told')
            if after != before:
                part.violation('monitor', f'maildir {layout}: {line!r} issued in a read-only selection changed the mailbox as another connection sees it: {before} -> {after} '
                               f'(delivered by a foreign writer: {delivered})', case, signature='md-ro-frame')
                before = after
        part.case(key='md-ro:' + layout + repr(delivered)[:80] + repr([l[0] for l in log]), nontrivial=True, sample=dict(layout=layout, delivered=delivered, commands=[l[0] for l in log]))
        await a.eof()
    finally:
        backends.rmtree(base)


def md_worker(job):
    seed, n = job
    r = random.Random(seed)
    part = Part()
    for k in range(n):
        with guarded(part, 'C12 maildir read-only', dict(scenario='maildir-readonly', seed=seed, k=k)):
            asyncio.run(maildir_readonly(part, r))
    return part.result()


CORPUS = [
    # D18: an EXAMINE session APPENDs to its own mailbox; the next read-write SELECT must get the \Recent
    dict(nsess=2, program=[['select', 0, 0, True], ['append', 0, 0, [], 1, 0, 0], ['noop', 0], ['select', 1, 0, False], ['noop', 1], ['noop', 0]]),
    # D8: CLOSE inside EXAMINE with \Deleted messages present
    dict(nsess=2, program=[['select', 1, 0, False], ['append', 1, 0, [3], 1, 0, 0], ['append', 1, 0, [], 2, 0, 0], ['select', 0, 0, True], ['fetch', 0, False, '1:*', ['BODY[]']],
                           ['store', 0, False, '1:*', 1, [0], False], ['expunge', 0, None], ['expunge', 0, '1:*'], ['copy', 0, True, False, '1', 1, 0], ['close', 0], ['noop', 1]]),
]


def run(ctx):
    ctx.rep.rule = RULE
    ctx.rep.assumptions = ['APPEND is not a command "issued in the selection": an EXAMINE session may APPEND to the examined mailbox (one more message, nothing else changes)']
    nw = ctx.workers
    ncases = ctx.budget(14, 300)
    jobs = [(ctx.seed * 1000 + 200 + k, ncases, CORPUS if k == 0 else []) for k in range(nw)]
    ctx.pmap(worker, jobs)
    ctx.pmap(md_worker, [(ctx.seed * 1000 + 250 + k, ctx.budget(2, 40)) for k in range(nw)])


def replay(case):
    part = Part()
    case = case.get('case', case)
    if case.get('scenario') == 'demo-trash':
        asyncio.run(backend_readonly(part))
    elif case.get('scenario') == 'maildir-readonly':
        print(json.dumps(case, indent=1)[:3000])
        print('re-run the check with the same VERIF_SEED to reproduce')
        return 0
    else:
        dumps = []
        ext, outs, final = asyncio.run(l3.run_real(case['nsess'], case['program'], dump_each=dumps))
        for op, raw in zip(ext, outs):
            print(op, '->', raw[-120:])
        l3.judge(part, [(case['nsess'], ext, outs, final)], 'C12', extra_monitor=frame_monitor_factory(dumps))
    res = part.result()
    for v in res['violations']:
        print(f"[{v['kind']}] {v['what']}")
    print('reproduced' if res['violations'] else 'not reproduced')
    return 1 if res['violations'] else 0
