"""C07 — every response is well-formed IMAP.

Tie: (i) the Python recogniser `imapresp.wf` used as the monitor is a line-by-line twin of the Lean `Grammar.wf` (about which
C07_wellformed is proved: every line built from atoms, `String.build` values and nested groups is accepted): the two are diffed
on every byte string the server produced in this run and on mutations of them; (ii) `String.build`, `QuotedString.__bytes__`,
`LiteralString` vs `Wire.buildString/serQuoted/serLiteral` (C07_build_safe, C07_quoted_escape) at L1 on hostile values.
Monitor: everything the real server writes — in scenario families that echo client-chosen data (mailbox names of any
Unicode/quotes/controls through LIST/LSUB/STATUS/SELECT, keywords, tags, message headers with bare CR, NUL, 8-bit, long and
encoded words through ENVELOPE/BODYSTRUCTURE/header fetches, MIME parameter values and nesting, search results, every error
path) — must be accepted by `wf`: complete CRLF lines, balanced lists per line, quoted strings without CR/LF/NUL and only
\\" \\\\ escapes, literal count = bytes that follow, single spaces.  The only exemption is the RFC's empty continuation `+ CRLF`.
"""
from __future__ import annotations
import asyncio
import random
import re

from .common import wire, backends, imapresp, mutf7, gen
from .common.model import batch, nats, unnats, Model
from .common.report import Part, guarded

RULE = ('scenario families: hostile mailbox names x (CREATE LIST LSUB STATUS SELECT RENAME SUBSCRIBE), hostile messages (MIME shape grammar + header values with bare CR/LF, '
        'NUL, 8-bit, quotes, braces, parens, long, RFC 2047 words) x every FETCH attribute and SEARCH, hostile keywords and tags, error paths, on dict and maildir; every output '
        'byte string checked by wf (Python twin) and wf twins diffed against the Lean recogniser incl. mutated outputs; non-trivial = the output contains a quoted string with an '
        'escape, a literal, or a nested list; distinct by output bytes')

HEADER_VALUES = [b'plain', b'a\rb', b'a\nb', b'a\r\n b', b'x\x00y', b'caf\xc3\xa9', b'\xff\xfe', b'"quoted" \\ back', b'(paren', b'{5}', b'brace}', b'x' * 90, b'=?utf-8?q?h=C3=A9llo?=',
                 b'=?utf-8?b?4pyT?= ok', b'a@b.c', b'"A \\"B\\"" <a@b.c>', b'<id@host>', b'Mon, 1 Jan 2001 10:00:00 +0000', b'garbage date', b'Fri, 31 Dec 9999 23:59:59 -0000', b'Fri, 31 Dec 9999 23:59:59 -1200', b'Mon, 1 Jan 0001 00:00:00 +1400', b'1 Jan 1800 00:00:00 -0000', b'', b' ', b'\t', b'a;b="c\rd"', b'%s%n',
                 b'NIL', b'\\', b'"', b'a' + b'\xe2\x80\xa8' + b'b', b'text/plain; charset="x\ry"; name="n\x00m"', b'multipart/mixed; boundary="b\r1"', b'inline; filename="f\\"g"', b'"attachment"; filename="report.pdf"', b';filename=x', b'"text/plain"; charset=x', b';charset=utf-8',
                 # repetition: whatever walks a header value must not do it by recursion (Subject prefixes, comments, groups, id lists)
                 b're: ' * 1500 + b'x', b'[t] ' * 1500 + b'x', b'Fwd: Re: ' * 800, b'<a@b> ' * 1500, b'(' * 1500, b'(a' * 700 + b')' * 700, b'a@b, ' * 1500, b'g:' * 1200 + b';',
                 b'"' + b'\\"' * 1500 + b'"', b'=?utf-8?q?x?= ' * 1200,
                 # an opening delimiter that is never closed, with a long tail behind it: whatever scans for the closing one must give up in linear time
                 b'[PATCH v2 net-next 00/12 add zero-copy receive support for the', b'Re: [' + b'ab cd ' * 12, b'[' + b'a' * 60, b'[[' * 30, b'(' + b'a b ' * 30, b'<' + b'a' * 80,
                 b'"' + b'a ' * 50, b'=?utf-8?q?' + b'a_' * 40, b'a@' + b'b.' * 60, b'"a" <' + b'x' * 70, b'[a]' * 20 + b'[' + b'b' * 40, b'{' + b'1' * 60]
HEADER_NAMES = gen.HEADER_NAMES + [b'Sender', b'Reply-To', b'Bcc', b'Content-ID', b'Content-Description', b'Content-Language', b'Content-Location', b'Content-MD5', b'References']
FETCH_ATTRS = [b'', b' ', b'ENVELOPE', b'BODYSTRUCTURE', b'BODY', b'FLAGS', b'INTERNALDATE', b'RFC822.SIZE', b'UID', b'BODY.PEEK[HEADER.FIELDS (SUBJECT FROM TO DATE)]', b'BODY.PEEK[HEADER.FIELDS.NOT (X-A)]',
               b'BODY.PEEK[HEADER]', b'BODY.PEEK[TEXT]', b'BODY.PEEK[]<0.10>', b'BODY.PEEK[1]', b'BODY.PEEK[1.MIME]', b'BODY.PEEK[2.1]', b'BODY.PEEK[1.HEADER]', b'BINARY.PEEK[1]', b'BINARY.SIZE[1]',
               b'BINARY.PEEK[]', b'RFC822.HEADER', b'RFC822.TEXT', b'RFC822', b'EMAILID', b'THREADID', b'BODY[]',
               # header names are astrings: the section specifier is echoed back, so quoted / literal names with special bytes matter
               b'BODY.PEEK[HEADER.FIELDS ("X)Y" "Subject")]', b'BODY.PEEK[HEADER.FIELDS ("q\\"r" From)]', b'BODY.PEEK[HEADER.FIELDS.NOT ("a(b")]',
               b'BODY.PEEK[HEADER.FIELDS ({6+}\r\nab\r\ncd To)]', b'BODY.PEEK[1.HEADER.FIELDS ("a b" "c]d" "{3}")]', b'BODY.PEEK[HEADER.FIELDS ("\\\\" "%" "*")]<0.5>',
               b'BODY.PEEK[HEADER.FIELDS ("caf\xc3\xa9")]']
KEYWORDS = [b'kw', b'$Forwarded', b'a.b', b'x-y', b'NonJunk', b'\\Custom', b'a]b', b'x&y', b'caf\xc3\xa9', b'k~', b'1', b'NIL']
TAGS = [b'a', b'A1', b'a.b', b'a-b', b'x]y', b'a&', b'~t', b'1', b'a{', b'a"b', b'a(b', b'a%b', b'a*b', b'a\\b', b'\xc3\xa9', b'a' * 70]


DISPOSITIONS = [b'"attachment"; filename="report.pdf"', b';filename=x', b'; filename="a b"', b'attachment', b'attachment;', b'attachment; filename', b'attachment; filename=', b'inline; =x',
                b'attachment; filename="x"; filename="y"', b'(comment) attachment; filename=x', b'attachment (c); filename*=utf-8\'\'%e2%82%ac.txt', b'a/b; x=y', b'=?utf-8?q?attachment?=; filename=x',
                b'attachment; filename*0="a"; filename*1="b"', b'"inline"', b'in line; x=y', b'attachment; size=12345678901234567890', b'']
CTYPES = [b'"text/plain"; charset=x', b';charset=utf-8', b'text; charset=x', b'text/; charset=x', b'/plain; charset=x', b'text/plain; charset', b'text/plain; =x', b'text/plain; charset="a"; charset="b"',
          b'text/plain (c); name*=utf-8\'\'%e2%82%ac', b'multipart/mixed', b'multipart/mixed; boundary=', b'message/rfc822; x=y', b'text/plain; name*0="a"; name*1="b"', b'']


def hostile_message(r):
    if r.random() < 0.4:
        return gen.message(r)
    eol = r.choice([b'\r\n', b'\r\n', b'\n'])
    hdr = b''
    for _ in range(r.randint(1, 6)):
        hdr += r.choice(HEADER_NAMES) + b': ' + r.choice(HEADER_VALUES) + eol
    if r.random() < 0.35:
        # a disposition or content type the email package reads only in part: parameters without a type, a quoted type, a type with nothing behind it
        hdr += b'Content-Disposition: ' + r.choice(DISPOSITIONS) + eol
    if r.random() < 0.15:
        hdr += b'Content-Type: ' + r.choice(CTYPES) + eol
    if r.random() < 0.4:
        b = r.choice([b'xx', b'b"1', b'y y'])
        hdr += b'Content-Type: multipart/' + r.choice([b'mixed', b'alternative', b'x"y']) + b'; boundary="' + b.replace(b'"', b'\\"') + b'"' + eol
        body = b''
        for _ in range(r.randint(0, 3)):
            # now and then a part with no lines at all (a delimiter directly followed by the next) or a header-less part
            inner = r.choice([b'', eol, eol + b'text' + eol]) if r.random() < 0.2 else hostile_message(r) + eol
            body += b'--' + b + eol + inner
        body += b'--' + b + b'--' + eol
        return hdr + eol + body
    if r.random() < 0.2:
        hdr += b'Content-Type: message/rfc822' + eol
        return hdr + eol + hostile_message(r)
    if r.random() < 0.3:
        hdr += b'Content-Transfer-Encoding: ' + r.choice([b'base64', b'quoted-printable', b'7bit', b'x-unknown']) + eol
    # bodies that end like the announcement of a literal: the bytes of a literal never take part in the framing of the command
    return hdr + eol + r.choice([b'body\r\n', b'aGVsbG8=\r\n', b'=E9=\r\n', b'', b'\x00\xff', b'ends in {5+}', b'ends in {5}', b'x {2', b'{0+}', b'a\r\n{3+}\r\nabc'])


def crash_site(c):
    """exception class and innermost pymap frame of an exception that escaped the connection task"""
    import traceback
    e = c.crashed() if c is not None else None
    if e is None:
        return None
    frames = [f for f in traceback.extract_tb(e.__traceback__) if '/pymap/' in f.filename]
    if not frames:
        return type(e).__name__
    f = frames[-1]
    return f'{type(e).__name__}@pymap/{f.filename.split("/pymap/", 1)[1]}:{f.name}'


def check_output(part, outputs, raw, case, sig, conn=None):
    outputs.append(raw)
    data = raw.replace(b'\r\n+ \r\n', b'\r\n')
    if data.startswith(b'+ \r\n'):
        data = data[4:]
    if not imapresp.wf(data):
        # find the offending line for the message
        bad = raw
        try:
            imapresp.parse(data)
        except imapresp.Malformed as exc:
            bad = f'{exc}'.encode()
        site = crash_site(conn)
        if site is not None:
            part.violation('monitor', f'{sig}: the response breaks off in the middle of a line because {site} escaped while it was being written: {raw[-120:]!r}',
                           case, signature='write-crash:' + site)
            return False
        part.violation('monitor', f'{sig}: the server wrote bytes that are not well-formed IMAP ({bad[:80]!r}): {raw[:300]!r}', case, signature='malformed:' + sig)
        return False
    # the values with a grammar of their own: envelope and body (RFC 3501 section 9)
    try:
        for resp in imapresp.parse(data):
            p = imapresp.response_problem(resp)
            if p:
                part.violation('monitor', f'{sig}: an untagged response does not follow its grammar: {p[:300]}', case, signature='structure:response')
                return False
            f = imapresp.fetch_items(resp)
            if not f:
                continue
            for name, v in f[1].items():
                p = None
                if name == b'ENVELOPE':
                    p = imapresp.envelope_problem(v)
                elif name in (b'BODYSTRUCTURE', b'BODY') and isinstance(v, list):
                    p = imapresp.body_problem(v)
                elif name in (b'EMAILID', b'THREADID'):
                    # RFC 8474 (OBJECTID is advertised): "EMAILID" SP "(" objectid ")", objectid = 1*255(ALPHA / DIGIT / "_" / "-"); THREADID may be NIL
                    part.stat('objectid-checked')
                    if not (isinstance(v, list) and len(v) == 1 and isinstance(v[0], imapresp.Tok) and re.fullmatch(rb'[A-Za-z0-9_-]{1,255}', v[0].val)) \
                            and not (name == b'THREADID' and isinstance(v, imapresp.Tok) and v.val.upper() == b'NIL'):
                        p = f'{v!r} is not "(" objectid ")"'
                if p:
                    part.stat('structure-problem')
                    part.violation('monitor', f'{sig}: {name.decode()} does not follow its grammar: {p[:300]}', case, signature='structure:' + name.decode())
                    return False
                elif name in (b'ENVELOPE', b'BODYSTRUCTURE', b'BODY'):
                    part.stat('structure-checked')
    except (imapresp.Malformed, RecursionError):
        pass
    return True


async def scenario(part, r, backend, outputs):
    from pymap.imap import IMAPServer
    base = None
    if backend == 'dict':
        be, config = await backends.make_dict(users=[('u', 'p', ())], bad_command_limit=None)
        login = be.login
    else:
        base = backends.scratch_dir()
        config, login = await backends.make_maildir(base, layout=r.choice(['++', 'fs']), users=[('u', 'p', ())], bad_command_limit=None)
    srv = IMAPServer(login, config)
    log = []
    case = dict(backend=backend, log=log)

    async def connect():
        c = wire.Client(srv)
        greeting = await c.start()
        check_output(part, outputs, greeting, case, 'greeting')
        return c
    c = await connect()
    tag = [b'a']

    async def cmd(line, sig):
        nonlocal c
        if c.task.done():
            await c.finish()
            c = await connect()
            await c.send(b'a LOGIN u p\r\n')
            await c.send(b'a SELECT INBOX\r\n')
        raw = await c.send(tag[0] + b' ' + line + b'\r\n')
        log.append(line.decode('latin1')[:100])
        if len(log) > 12:
            del log[0]
        ok = check_output(part, outputs, raw, dict(case, line=line.decode('latin1')[:400]), sig, conn=c)
        part.case(key=raw, nontrivial=(b'\\"' in raw or b'\\\\' in raw or b'}\r\n' in raw or b'((' in raw))
        part.trace()
        return raw
    try:
        await cmd(b'CAPABILITY', 'capability')
        await cmd(b'ID ("name" "x\\"y" "v" NIL)', 'id')
        # SASL exchanges on connections that are not authenticated yet: cancel, malformed, wrong, then a good one
        for resp in (b'*', b'!!!', b'A', b'AAAAA', b'AGEAYg==', b'', b'AHUAcA=='):
            c2 = await connect()
            raw = await c2.send(b'a AUTHENTICATE PLAIN\r\n')
            check_output(part, outputs, raw, dict(case, line='AUTHENTICATE PLAIN'), 'authenticate', conn=c2)
            raw = await c2.send(resp + b'\r\n')
            check_output(part, outputs, raw, dict(case, line='auth-response ' + resp.decode()), 'authenticate-response', conn=c2)
            raw = await c2.send(b'a AUTHENTICATE BOGUS\r\n')
            check_output(part, outputs, raw, dict(case, line='AUTHENTICATE BOGUS'), 'authenticate-bogus', conn=c2)
            await c2.eof()
        await cmd(b'LOGIN u p', 'login')
        # names
        names = [r.choice(gen.HOSTILE_NAMES) for _ in range(4)] + [''.join(chr(r.choice([0x22, 0x5c, 0x0d, 0x0a, 0x00, 0x41, 0x26, 0xe9, 0x4e2d, 0x7f, 0x20, 0x25, 0x2a, 0x28, 0x7b]))
                                                                          for _ in range(r.randint(1, 5))) for _ in range(3)]
        for n in names:
            w = mutf7.wire_name(n)
            await cmd(b'CREATE ' + w, 'create')
            await cmd(b'SUBSCRIBE ' + w, 'subscribe')
            await cmd(b'STATUS ' + w + b' (MESSAGES RECENT UIDNEXT UIDVALIDITY UNSEEN MAILBOXID)', 'status')
            await cmd(b'SELECT ' + w, 'select')
            await cmd(b'RENAME ' + w + b' ' + mutf7.wire_name(n + 'x'), 'rename')
        await cmd(b'LIST "" *', 'list')
        await cmd(b'LSUB "" *', 'lsub')
        await cmd(b'LIST "" ""', 'list-empty')
        await cmd(b'LIST ' + mutf7.wire_name(r.choice(names)) + b' %', 'list-ref')
        # raw (not modified-UTF-7) names: must be refused, in well-formed lines
        for rawname in (b'{3+}\r\n\xff\xfe\xfd', b'"&AOk"', b'"&2D3-"', b'"a&b"'):
            await cmd(b'SELECT ' + rawname, 'select-raw')
        # messages
        await cmd(b'SELECT INBOX', 'select')
        n_msgs = r.randint(2, 5)
        for _ in range(n_msgs):
            msg = hostile_message(r)
            if r.random() < 0.15:
                # nested as deep as, and deeper than, the MIME parser follows (100 levels): what is written about the parts around that depth is still a response
                msg = b'A: b\r\n\r\nleaf\r\n'
                for _ in range(r.choice([98, 99, 100, 101, 130])):
                    msg = b'Content-Type: message/rfc822\r\n\r\n' + msg
            kws = b' '.join(r.sample(KEYWORDS, r.randint(0, 3)))
            # now and then with a date-time: the ends of the calendar, short years, zones with seconds (refused or not, what comes back is a date-time)
            when = b''
            if r.random() < 0.4:
                when = b'"' + r.choice([b'31-Dec-9999 23:59:59 -1200', b'01-Jan-0001 00:00:00 +1400', b'01-Jan-0099 00:00:00 +0000', b'01-Jan-1800 00:00:00 +0000', b' 1-Jan-2020 00:00:00 +0100',
                                        b'01-Jan-2020 00:00:00 +000030', b'01-Jan-2020 00:00:00 Z', b'01-Jan-99 00:00:00 +0000', b'15-Jul-2021 23:30:00 -0930']) + b'" '
            await cmd(b'APPEND INBOX (' + kws + b') ' + when + b'{%d+}\r\n' % len(msg) + msg, 'append')
        await cmd(b'NOOP', 'noop')
        await cmd(b'FETCH 1:* (FLAGS UID)', 'fetch-flags')
        for attr in r.sample(FETCH_ATTRS, 10):
            await cmd(b'FETCH 1:* (' + attr + b')', 'fetch:' + attr.split(b'[')[0].split(b'.')[0].decode())
        await cmd(b'FETCH 1:* FULL', 'fetch:FULL')
        for depth_ in (98, 99, 100, 101):
            path = b'.'.join([b'1'] * depth_)
            await cmd(b'FETCH 1:* (BODY.PEEK[' + path + b'.HEADER] BODY.PEEK[' + path + b'.TEXT] BODY.PEEK[' + path + b'.MIME])', 'fetch:deep-part')
        await cmd(b'UID FETCH 1:* (ENVELOPE BODYSTRUCTURE)', 'fetch:ENVELOPE')
        # another connection removes a message behind this one's back: the view is stale until the next NOOP, and what is written about the message that is gone
        # (its file is gone too, on maildir) is still a response
        c3 = await connect()
        for l in (b'LOGIN u p', b'SELECT INBOX', b'STORE 1 +FLAGS.SILENT (\\Deleted)', b'EXPUNGE'):
            raw = await c3.send(b'x ' + l + b'\r\n')
            check_output(part, outputs, raw, dict(case, line='other connection: ' + l.decode()), 'other-connection', conn=c3)
        await c3.eof()
        for attr in [b'RFC822.HEADER', b'BODY.PEEK[HEADER]'] + r.sample(FETCH_ATTRS, 8):
            await cmd(b'FETCH 1:* (UID ' + attr + b')', 'fetch-stale:' + attr.split(b'[')[0].split(b'.')[0].decode())
        await cmd(b'STORE 1:* +FLAGS (' + b' '.join(r.sample(KEYWORDS, 2)) + b' \\Deleted)', 'store')
        await cmd(b'SEARCH OR SUBJECT "a" NOT FROM "b"', 'search')
        await cmd(b'UID SEARCH ALL', 'search')
        await cmd(b'SEARCH CHARSET utf-8 TEXT "' + r.choice([b'caf\xc3\xa9', b'x']) + b'"', 'search-charset')
        await cmd(b'SEARCH CHARSET bogus ALL', 'search-badcharset')
        await cmd(b'COPY 1:* ' + mutf7.wire_name(names[0] + 'x'), 'copy')
        await cmd(b'MOVE 1 ' + mutf7.wire_name(names[1] + 'x'), 'move')
        await cmd(b'EXPUNGE', 'expunge')
        await cmd(b'IDLE', 'idle')
        raw = await c.send(b'DONE\r\n')
        check_output(part, outputs, raw, dict(case, line='DONE'), 'idle-done')
        # hostile tags and error paths
        for t in r.sample(TAGS, 5):
            tag[0] = t
            await cmd(r.choice([b'NOOP', b'BOGUS', b'FETCH', b'SELECT nobox', b'STATUS INBOX (BOGUS)', b'CREATE INBOX', b'UID', b'STORE 1 FLAGS (\\Bad']), 'tagged-error')
        tag[0] = b'a'
        await cmd(b'CLOSE', 'close')
        await cmd(b'LOGOUT', 'logout')
    finally:
        try:
            await c.eof()
        except Exception:
            pass
        if base:
            backends.rmtree(base)


def mutate(r, b):
    b = bytearray(b)
    if not b:
        return bytes(b)
    for _ in range(r.randint(1, 3)):
        k = r.random()
        i = r.randrange(len(b))
        if k < 0.3:
            del b[i]
        elif k < 0.6:
            b.insert(i, r.choice(b' ()[]{}"\\\r\n~0a'))
        else:
            b[i] = r.choice(b' ()[]{}"\\\r\n~0a\x00\xff')
        if not b:
            break
    return bytes(b)


def worker(job):
    seed, n = job
    r = random.Random(seed)
    part = Part()
    outputs = []
    for k in range(n):
        backend = 'dict' if k % 3 else 'maildir'
        with guarded(part, f'C07 scenario {backend}', dict(seed=seed, k=k, backend=backend)):
            asyncio.run(scenario(part, r, backend, outputs))
    # wf twins
    sample = [o for o in outputs if len(o) < 3000]
    sample = r.sample(sample, min(len(sample), 300))
    sample = sample + [mutate(r, o) for o in sample for _ in range(2)]
    if sample:
        res = batch(['wf ' + nats(o) for o in sample])
        for o, m in zip(sample, res):
            py = imapresp.wf(o)
            part.stat('wf-twin:' + ('accept' if py else 'reject'))
            if py != (m == '1'):
                part.violation('correspondence', f'imapresp.wf = {py}, Lean Grammar.wf = {m} on {o[:200]!r}', dict(level='L1', bytes=list(o[:400])), signature='wf-twins')
    # structure twins: the Python envelope/body checkers against the Lean recognisers (isEnvelope / isBody, about which C07_envelope and
    # C07_body are proved) on what the server really wrote, and on damaged copies of it
    vals = []
    for o in outputs:
        if b'ENVELOPE' not in o and b'BODY' not in o:
            continue
        try:
            for resp in imapresp.parse(o):
                f = imapresp.fetch_items(resp)
                if f:
                    for name, v in f[1].items():
                        if name == b'ENVELOPE':
                            vals.append(('env', v))
                        elif name in (b'BODYSTRUCTURE', b'BODY') and isinstance(v, list):
                            vals.append(('body', v))
        except (imapresp.Malformed, RecursionError):
            pass
    vals = r.sample(vals, min(len(vals), 150))

    def damage(v):
        import copy
        v = copy.deepcopy(v)
        # walk to a random list and drop / duplicate / replace one element
        cur = v
        for _ in range(r.randint(0, 3)):
            subs = [x for x in cur if isinstance(x, list) and x]
            if not subs:
                break
            cur = r.choice(subs)
        if cur:
            k = r.randrange(len(cur))
            how = r.random()
            if how < 0.4:
                del cur[k]
            elif how < 0.6:
                cur.insert(k, cur[k])
            elif how < 0.8:
                cur[k] = imapresp.Tok('a', r.choice([b'NIL', b'5', b'x']))
            else:
                cur[k] = []
        return v
    vals = vals + [(w, damage(v)) for w, v in vals for _ in range(2)]
    vals = [(w, v) for w, v in vals if len(imapresp.shape(v)) < 20000]
    if vals:
        res = batch([f'struct {w} {imapresp.shape(v)}' for w, v in vals])
        for (w, v), mres in zip(vals, res):
            try:
                py = (imapresp.envelope_problem(v) if w == 'env' else imapresp.body_problem(v)) is None
            except RecursionError:
                continue
            part.stat(f'structure-twin:{w}:' + ('accept' if py else 'reject'))
            if mres not in ('0', '1') or py != (mres == '1'):
                part.violation('correspondence', f'{w}: the Python checker says {"ok" if py else "not ok"}, Lean Structure.is{"Envelope" if w == "env" else "Body"} says {mres} on '
                               f'{imapresp.shape(v)[:300]}', dict(level='L1', what=w, shape=imapresp.shape(v)[:2000]), signature='structure-twins')
    # String.build / quoted / literal vs the Wire model
    m = Model()
    try:
        from pymap.parsing.primitives import String, QuotedString, LiteralString
        for _ in range(400):
            v = r.choice(HEADER_VALUES) if r.random() < 0.5 else gen.raw_bytes(r, 10)
            built = bytes(String.build(v))
            mod = bytes(unnats(m.ask('build 0 ' + nats(v))))
            if built != mod:
                part.violation('correspondence', f'String.build({v!r}) = {built!r}, Wire.buildString = {mod!r}', dict(level='L1', value=list(v)), signature='l1-build')
            if not imapresp.wf(b'* X ' + built + b'\r\n'):
                part.violation('monitor', f'String.build({v!r}) = {built!r} is not a well-formed string', dict(level='L1', value=list(v)), signature='build-malformed')
            bb = bytes(String.build(v, True))
            mod = bytes(unnats(m.ask('build 1 ' + nats(v))))
            if bb != mod:
                part.violation('correspondence', f'String.build({v!r}, binary) = {bb!r}, Wire.buildString = {mod!r}', dict(level='L1', value=list(v)), signature='l1-build-binary')
            part.stat('l1-build')
    finally:
        m.close()
    return part.result()


def run(ctx):
    ctx.rep.rule = RULE
    ctx.rep.assumptions = ['which header values the email package hands to String.build is not modelled (the theorem is for all values)',
                           'the empty continuation "+ CRLF" (RFC 3501 continue-req with empty base64) is exempt from the no-trailing-space rule of the recogniser',
                           'human-readable response texts are fixed ASCII strings in pymap; the recogniser treats them as atoms']
    nw = ctx.workers
    ctx.pmap(worker, [(ctx.seed * 1000 + 50 + k, ctx.budget(5, 80)) for k in range(nw)])


def replay(case):
    case = case.get('case', case)
    print(case)
    print('re-run the check with the same VERIF_SEED to reproduce')
    return 0
