"""C16 — IDLE delivers every change without further stimulus.

Tie: a real idling connection (dict backend) whose stream object parks inside `drain()` under the deterministic scheduler —
so that other sessions' changes land *while the idler is in the middle of writing a previous notification* — vs the Lean `Idle`
transition system (edge-triggered `_AsyncioEvent`, the idler's arm / wait / consume / write loop) about which
C16_no_lost_wakeup and C16_progress (at most 6 own steps to deliver) are proved, and C16_lost_wakeup_as_found exhibits the
7-step witness against the code as found.  The harness replays every change and every idler release as model labels and
compares, at each quiescent point, "everything written" (model: written = highest) with what the real idler has been told.
Monitor: at quiescence — no DONE, no further mailbox activity — what the idling client has been told (message count and flags
per position, reconstructed from its bytes alone with the C01 shadow client, which also enforces the sequence-number rules on
the pushed data) must equal the mailbox as an independent probe sees it; then DONE must end IDLE with the tagged OK and
anything else with BAD.  Maildir (1 s polling) is exercised with real waiting in a few cases.
"""
from __future__ import annotations
import asyncio
import random

from .common import l3, wire, backends, imapresp
from .common.model import Model
from .common.report import Part, guarded

RULE = ('one idling session + 1-2 writer sessions issuing bursts of APPEND / STORE / UID EXPUNGE / MOVE; the idler is parked inside drain() at chosen moments so that changes '
        'arrive while a notification is being written; schedules random (quick) plus all placements of up to 3 changes around 2 parks (thorough); non-trivial = at least one change '
        'landed while the idler was parked in the middle of a notification; distinct by script')


async def idle_case(part, m, r, script, backend='dict', end='DONE', race=None, loose=False):
    """script: list of ['mut', session, op...] | ['release'] ; ops: append flags | store uidpos mode flags | expunge uidpos | move uidpos"""
    from pymap.imap import IMAPServer
    from .common.sched import Sched
    sched = Sched(quiesce_rounds=60)
    sched.enabled = False
    base = None
    if backend == 'dict':
        be, config = await backends.make_dict(users=[('u', 'p', ())], bad_command_limit=None)
        login = be.login
    else:
        base = backends.scratch_dir()
        config, login = await backends.make_maildir(base, users=[('u', 'p', ())], bad_command_limit=None)
    srv = IMAPServer(login, config)
    case = dict(backend=backend, script=script, end=end, race=race)
    try:
        a = wire.Client(srv, fd=10, sched=sched, name='idler')
        await a.start()
        await a.send(b'a LOGIN u p\r\n')
        writers = []
        for i in range(2):
            w = wire.Client(srv, fd=20 + i)
            await w.start()
            await w.send(b'w LOGIN u p\r\n')
            await w.send(b'w CREATE other\r\n')
            writers.append(w)
        cid = 1
        for _ in range(3):
            body = l3.msg_bytes(cid)
            cid += 1
            await writers[0].send(b'w APPEND INBOX {%d+}\r\n' % len(body) + body + b'\r\n')
        for wi_, w in enumerate(writers):
            if loose and wi_ == 1:
                continue        # a connection with nothing selected: what it delivers is claimed by nobody (maildir: the file stays in new/)
            await w.send(b'w SELECT INBOX\r\n')
        # what the idler did before IDLE: ['pre', examine?, [op, ...]] in front of the script (ops in the l3 format; refused commands and
        # `.SILENT` stores included — none of them may leave anything armed that delays or swallows what IDLE has to push)
        examine, prelude = False, []
        if script and script[0][0] == 'pre':
            examine, prelude = bool(script[0][1]), script[0][2]
            script = script[1:]
        raw = await a.send(b'a EXAMINE INBOX\r\n' if examine else b'a SELECT INBOX\r\n')
        sh = l3.ShadowClient()
        st, code, items = l3.canon_real(raw)
        sh.on_select([it[1] for it in items if it[0] == 'EXISTS'][-1], box=0, ro=examine)
        for op in prelude:
            raw = await a.send(l3.op_bytes(op))
            st, code, items = l3.canon_real(raw)
            if st == 'OK' and op[0] == 'store':
                sh.own_silent_store(op)
            sh.apply(items, op, l3.hides(op))
        raw = await a.send(b'i IDLE\r\n')
        if not raw.startswith(b'+'):
            part.violation('monitor', f'IDLE was not accepted: {raw!r}', case, signature='idle-refused')
            return
        sched.enabled = True
        m.ask('idle reset')
        m.ask('idle drain 1 8')
        stream = b''
        in_window = False
        uids = [101, 102, 103]       # what exists, by the writers' own commands
        nextuid = 104

        async def collect():
            nonlocal stream
            await sched.quiesce()
            stream += a.take()

        def feed_shadow():
            nonlocal stream
            # only complete lines
            k = stream.rfind(b'\r\n')
            if k < 0:
                return
            chunk, rest = stream[:k + 2], stream[k + 2:]
            stream = rest
            try:
                _, _, items = l3.canon_real(chunk)
            except imapresp.Malformed as exc:
                part.violation('monitor', f'malformed data pushed during IDLE: {exc}: {chunk[:200]!r}', case, signature='idle-malformed')
                return
            sh.apply(items, ['idle', 0], False)

        if backend != 'dict' and loose:
            # the idler has been polling for a while when the delivery arrives (whatever it remembers from one poll to the next is in place)
            await asyncio.sleep(2.4)
            await collect()
        for step in script:
            if step[0] == 'release':
                parked = [n for n, (lab, f) in sched.parked.items() if lab == 'drain']
                if parked:
                    await sched.release(parked[0])
                    m.ask('idle drain 1 8')
                await collect()
                continue
            _, wi, op = step[0], step[1], step[2:]
            w = writers[wi]
            parked_now = any(lab == 'drain' for lab, f in sched.parked.values())
            if op[0] == 'append':
                body = l3.msg_bytes(cid)
                cid += 1
                out = await w.send(b'w APPEND INBOX ' + l3.flag_list(op[1]) + b' {%d+}\r\n' % len(body) + body + b'\r\n')
                if b'w OK' in out:
                    uids.append(nextuid)
                    nextuid += 1
                    m.ask('idle step 1 change')
                    in_window = in_window or parked_now
            elif op[0] == 'store' and uids:
                u = uids[op[1] % len(uids)]
                out = await w.send(b'w UID STORE %d %s (%s)\r\n' % (u, [b'FLAGS', b'+FLAGS', b'-FLAGS'][op[2]], b' '.join(l3.FLAGS[f] for f in op[3])))
                m.ask('idle step 1 change')
                in_window = in_window or parked_now
            elif op[0] == 'expunge' and uids:
                u = uids[op[1] % len(uids)]
                await w.send(b'w UID STORE %d +FLAGS (\\Deleted)\r\n' % u)
                m.ask('idle step 1 change')
                out = await w.send(b'w UID EXPUNGE %d\r\n' % u)
                uids.remove(u)
                m.ask('idle step 1 change')
                in_window = in_window or parked_now
            elif op[0] == 'move' and uids:
                u = uids[op[1] % len(uids)]
                out = await w.send(b'w UID MOVE %d other\r\n' % u)
                uids.remove(u)
                m.ask('idle step 1 change')
                m.ask('idle step 1 change')
                in_window = in_window or parked_now
            if not any(lab == 'drain' for lab, f in sched.parked.values()):
                m.ask('idle drain 1 8')
            await collect()
        # quiescence: let the idler run to the end of what it can do on its own — no DONE, no further activity
        for _ in range(30):
            parked = [n for n, (lab, f) in sched.parked.items() if lab == 'drain']
            if not parked:
                break
            await sched.release(parked[0])
            m.ask('idle drain 1 8')
            await collect()
        if backend != 'dict':
            await asyncio.sleep(2.2)          # maildir polls once a second (two polls' worth: the wall clock is all there is here, and the machine may be busy)
            for _ in range(10):
                parked = [n for n, (lab, f) in sched.parked.items() if lab == 'drain']
                if not parked:
                    break
                await sched.release(parked[0])
                await asyncio.sleep(0.05)
            await asyncio.sleep(2.2)
            for _ in range(10):
                parked = [n for n, (lab, f) in sched.parked.items() if lab == 'drain']
                if not parked:
                    break
                await sched.release(parked[0])
                await asyncio.sleep(0.05)
        await collect()
        feed_shadow()
        sched.enabled = False
        # what is really there
        p = wire.Client(srv, fd=99)
        await p.start()
        await p.send(b'p LOGIN u p\r\n')
        await p.send(b'p EXAMINE INBOX\r\n')
        out = await p.send(b'p UID FETCH 1:* (UID FLAGS)\r\n')
        actual = []
        for resp in imapresp.parse(out):
            f = imapresp.fetch_items(resp)
            if f:
                actual.append(l3.canon_flags(f[1][b'FLAGS'])[0])
        await p.eof()
        mstate = m.ask('idle drain 1 8').split()
        model_delivered = mstate[0] == mstate[2]
        told_count = len(sh.msgs) if sh.msgs is not None else -1
        told_flags = [f[0] if f is not None else None for f in (sh.flags or [])]
        delivered = told_count == len(actual) and all(t is None or t == x for t, x in zip(told_flags, actual))
        part.case(key=repr((backend, case['script'], end)), nontrivial=in_window, sample=dict(backend=backend, script=[' '.join(map(str, s)) for s in script[:10]]))
        part.trace()
        for e in sh.errors:
            part.violation('monitor', f'sequence-number rules broken by data pushed during IDLE: {e} (script {script})', case, signature='idle-seq')
        if not delivered:
            part.violation('monitor', f'at quiescence (no DONE, no further activity) the idling client has been told {told_count} messages with flags {told_flags}; '
                           f'the mailbox holds {len(actual)} with flags {actual} (script {script})', case, signature='idle-not-delivered')
        if backend == 'dict' and model_delivered != delivered:
            part.violation('correspondence', f'Idle model says delivered={model_delivered} (state {mstate}), the real idler delivered={delivered} (script {script})', case,
                           signature='idle-model')
        # end of IDLE
        if race is not None:
            # DONE races with one more change: whatever the server took note of while it stopped idling must still reach the client —
            # the sequence numbers of the commands that follow are already based on it
            order, gap, wi, kind = race
            body = l3.msg_bytes(cid)
            mut = (b'w APPEND INBOX {%d+}\r\n' % len(body) + body + b'\r\n') if kind == 'append' or not uids else \
                (b'w UID MOVE %d other\r\n' % uids[0] if kind == 'move' else b'w UID STORE %d +FLAGS (\\Flagged)\r\n' % uids[-1])
            if order == 'done-first':
                a.feed(b'DONE\r\n')
                for _ in range(gap):
                    await asyncio.sleep(0)
                writers[wi].feed(mut)
            else:
                writers[wi].feed(mut)
                for _ in range(gap):
                    await asyncio.sleep(0)
                a.feed(b'DONE\r\n')
            await writers[wi].settle()
            writers[wi].take()
            raw = await a.settle()
            stream += raw if isinstance(raw, (bytes, bytearray)) else b''
            stream += a.take()
            if b'i OK' not in stream:
                part.violation('monitor', f'IDLE ended by DONE racing with a change ({race}): no tagged OK: {stream[-120:]!r}', case, signature='idle-done')
            feed_shadow()
            for line in (b'n NOOP\r\n', b'f FETCH 1:* (UID FLAGS)\r\n'):
                out2 = await a.send(line)
                out2 = (out2 if isinstance(out2, (bytes, bytearray)) else b'') + a.take()
                try:
                    _, _, items2 = l3.canon_real(out2)
                    sh.apply(items2, ['fetch', 0, False, '1:*', ['UID', 'FLAGS']] if line.startswith(b'f') else ['noop', 0], False)
                except imapresp.Malformed as exc:
                    part.violation('monitor', f'malformed answer after IDLE: {exc}', case, signature='idle-malformed')
            for e in sh.errors:
                part.violation('monitor', f'sequence-number rules broken after DONE raced with a change ({race}): {e} (script {case["script"]})', case, signature='idle-race')
            await a.eof()
            for w in writers:
                await w.eof()
            return
        raw = await a.send(end.encode() + b'\r\n')
        if backend != 'dict' and not any(l.startswith(b'i ') for l in raw.split(b'\r\n')):
            await asyncio.sleep(1.2)
            raw += a.take()
        tg = imapresp.tagged(imapresp.parse(raw), b'i') if raw else None
        want = b'OK' if end.upper() == 'DONE' else b'BAD'
        if tg is None or tg[1] != want:
            part.violation('monitor', f'IDLE ended with {end!r}: answered {raw[-80:]!r}, expected tagged {want.decode()}', case, signature='idle-done')
        await a.eof()
        for w in writers:
            await w.eof()
    finally:
        if base:
            backends.rmtree(base)


PRELUDE_OPS = [['store', 0, False, '1', 1, [1], False], ['store', 0, False, '1', 1, [1], True], ['store', 0, False, '1:*', 2, [0], True], ['store', 0, False, '2', 1, [3], True],
               ['store', 0, True, '101', 1, [4], True], ['fetch', 0, False, '1:*', ['FLAGS']], ['fetch', 0, True, '1:*', ['FLAGS']], ['search', 0, False, None, None, []],
               ['copy', 0, False, False, '1', 3, 0], ['copy', 0, True, False, '1', 3, 0], ['expunge', 0, None], ['fetch', 0, False, '9', ['FLAGS']], ['noop', 0]]


def gen_script(r):
    script = []
    if r.random() < 0.4:
        script.append(['pre', r.random() < 0.6, [r.choice(PRELUDE_OPS) for _ in range(r.randint(1, 2))]])
    for _ in range(r.randint(2, 9)):
        x = r.random()
        if x < 0.3:
            script.append(['release'])
        else:
            wi = r.randrange(2)
            y = r.random()
            if y < 0.4:
                script.append(['mut', wi, 'append', sorted(set(r.sample([0, 1, 2, 4], r.randint(0, 2))))])
            elif y < 0.7:
                script.append(['mut', wi, 'store', r.randint(0, 5), r.choice([0, 1, 2]), sorted(set(r.sample([0, 1, 2, 4], r.randint(1, 2))))])
            elif y < 0.9:
                script.append(['mut', wi, 'expunge', r.randint(0, 5)])
            else:
                script.append(['mut', wi, 'move', r.randint(0, 5)])
    return script


CORPUS = [
    # D70: a flag is added and removed again while the idler is stuck writing the notification of an earlier change to the same message
    [['mut', 1, 'append', [2]], ['mut', 0, 'store', 4, 1, [0, 4]], ['mut', 1, 'store', 3, 1, [4]], ['mut', 0, 'expunge', 1], ['release'], ['mut', 1, 'store', 1, 0, [1, 4]],
     ['mut', 1, 'store', 4, 1, [1, 2]], ['mut', 0, 'store', 5, 2, [1, 4]], ['release']],
    [['mut', 0, 'store', 0, 1, [1]], ['mut', 1, 'store', 0, 1, [4]], ['release'], ['mut', 1, 'store', 0, 2, [4]], ['release']],
    # a refused non-UID STORE (read-only selection) right before IDLE, then an EXPUNGE by someone else (seeded C16-b)
    [['pre', True, [['store', 0, False, '1', 1, [1], False]]], ['mut', 0, 'expunge', 0]],
    [['pre', True, [['store', 0, False, '2', 1, [1], True]]], ['mut', 0, 'store', 1, 1, [1]]],
    # D23: the second change lands while the idler drains the notification of the first
    [['mut', 0, 'append', []], ['mut', 1, 'append', [0]]],
    [['mut', 0, 'append', []], ['mut', 1, 'store', 0, 1, [1]], ['mut', 0, 'expunge', 1]],
    [['mut', 0, 'store', 0, 1, [0]], ['release'], ['mut', 1, 'append', []], ['mut', 1, 'append', []], ['release'], ['mut', 0, 'expunge', 0]],
    [['mut', 0, 'expunge', 0], ['mut', 0, 'expunge', 0], ['mut', 1, 'append', [2]]],
]


def l1_done(part, r, m, n):
    """`IdleCommand.parse_done` vs `Done.parseDone` (about which C16_done and C16_only_done are proved): which lines end IDLE, and what is left in the buffer"""
    from pymap.parsing.command.select import IdleCommand
    from pymap.parsing.exceptions import NotParseable
    from .common.model import nats
    cmd = IdleCommand(b't')
    words = [b'DONE', b'done', b'DoNe', b'dONE', b'DONE ', b' DONE', b'DONE\r', b'DO\rNE', b'\rDONE', b'DONEDONE', b'DON', b'', b'DONE\x00', b'D\xd6NE', b'DONE\t', b'x', b'\xc4\x90ONE', b'done\x0b']
    for _ in range(n):
        w = r.choice(words) if r.random() < 0.8 else bytes(r.choice(b'DONEdone \r\n\tx') for _ in range(r.randint(0, 6)))
        line = w + r.choice([b'\r\n', b'\n', b'\r\n', b'', b'\r', b'\r\r\n', b'\n\n']) + r.choice([b'', b'', b'a NOOP\r\n', b'\n'])
        try:
            d, rest = cmd.parse_done(memoryview(line))
            impl = ('1' if d else '0') + '|' + nats(bytes(rest))
        except NotParseable:
            impl = 'none'
        mod = m.ask('done ' + nats(line))
        part.stat('l1-done')
        part.case(key='done:' + line.hex(), nontrivial=w.upper().strip() == b'DONE' and w != b'DONE')
        if impl != mod:
            part.violation('correspondence', f'IdleCommand.parse_done({line!r}) = {impl}, Done.parseDone = {mod}', dict(level='L1', line=list(line)), signature='l1-done')


def worker(job):
    seed, n, corpus, maildir = job
    from . import c05       # installs imapresp.tagged_safe
    r = random.Random(seed)
    part = Part()
    m = Model()
    try:
        scripts = list(corpus) + [gen_script(r) for _ in range(n)]
        for k, sc in enumerate(scripts):
            end = 'DONE' if k % 4 else r.choice(['done', 'DONE', 'DoNe', 'junk', 'DONE x', '', 'DONE ', 'DONE\t', 'done \t ', 'DONE\x0b', 'DONE\r', ' DONE', 'DONEDONE', 'DONE\x00'])
            if end == '':
                end = 'x'
            race = None
            if k % 3 == 2:
                race = [r.choice(['done-first', 'mut-first']), r.choice([0, 0, 1, 2, 3]), r.randrange(2), r.choice(['append', 'append', 'move', 'store'])]
            with guarded(part, 'C16 idle', dict(script=sc, race=race)):
                asyncio.run(idle_case(part, m, r, sc, 'dict', end, race))
        for k in range(maildir):
            sc = [s for s in gen_script(r) if s[0] == 'release' or s[2] in ('append', 'store')][:5] or [['mut', 0, 'append', []]]
            loose = (seed + k) % 2 == 1
            if loose:
                # deliveries by a connection that has nothing selected, with nothing else happening afterwards
                sc = [s if s[0] == 'release' else ['mut', 1, 'append', []] for s in sc]
            with guarded(part, 'C16 idle maildir', dict(script=sc, backend='maildir', loose=loose)):
                asyncio.run(idle_case(part, m, r, sc, 'maildir', 'DONE', None, loose))
        with guarded(part, 'C16 L1 done', dict(level='L1', seed=seed)):
            l1_done(part, r, m, max(60, n * 4))
    finally:
        m.close()
    return part.result()


def run(ctx):
    ctx.rep.rule = RULE
    ctx.rep.assumptions = ['asyncio is cooperative: the only place the idler can be interrupted while writing is the await in drain() (and the shielded write task), which the harness parks',
                           'maildir polls with a 1 s timeout; it is exercised with real waiting, not with a virtual clock']
    nw = ctx.workers
    ctx.pmap(worker, [(ctx.seed * 1000 + 160 + k, ctx.budget(25, 500), CORPUS if k == 0 else [], 1 if k < ctx.budget(4, 16) else 0) for k in range(nw)])


def replay(case):
    case = case.get('case', case)
    from . import c05       # noqa
    part = Part()
    m = Model()
    asyncio.run(idle_case(part, m, random.Random(1), case['script'], case.get('backend', 'dict'), case.get('end', 'DONE'), case.get('race')))
    m.close()
    res = part.result()
    for v in res['violations']:
        print(f"[{v['kind']}] {v['what']}")
    print('reproduced' if res['violations'] else 'not reproduced')
    return 1 if res['violations'] else 0
