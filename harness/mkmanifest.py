"""Regenerates /verif/MANIFEST.json from the table below (run by hand after adding a check)."""
import json
import os

VERIF = os.path.dirname(os.path.dirname(os.path.abspath(__file__)))

# property -> (technique, level text, level note, design ref)
CHECKS = {
    'C03': ('Lean 4 theorems over a hand-written model of the line index / slicing code + differential correspondence with pymap.mime and wire-level monitors',
            'C03_raw, C03_size, C03_header_text, C03_partial are proved in Lean for every byte string (no length bound) about the model of MessageContent.parse / get_raw / _get_partial; '
            'the model is tied to /repo on every run by diffing it with MessageContent.parse on generated and exhaustively enumerated byte strings, and the property itself is monitored on the '
            'wire (APPEND then every FETCH form, COPY, MOVE - one message and several at once, every COPYUID pair followed to the bytes) on the dict and maildir backends. C03_copyuid_pairs: copies made in '
            'ascending UID order are exactly the pairs a client reads off COPYUID (both sides sorted independently); CopyUid is diffed with the model for copies made in any order.',
            'Trusted: Lean kernel; axioms propext, Classical.choice, Quot.sound; the correspondence harness. Not modelled: the email package (content-type / boundary decisions), nested part '
            'selection (_get_subpart) and BODYSTRUCTURE sizes are monitored on the wire only. Known findings D5, D6, D35 (see known_findings.json).',
            'DESIGN.md section 6 C03'),
    'C01': ('Lean 4 theorems over a hand-written model of selected.py (invariant + refinement of the ghost client) + command-level differential correspondence',
            'C01_coherent, C01_fork_sync, C01_hide_no_expunge, C01_fetch_labels and C01_system (any number of sessions, any operation list) are proved in Lean about the model of '
            'SynchronizedMessages/_Frozen/_compare and the closed System; merge_same_message / seq_stable_without_expunge justify the repaired FETCH merge. The model (Server.lean composes '
            'those functions) is diffed per command against 1-4 real IMAP connections on random interleaved programs, and a shadow client applies every untagged response of every session.',
            'Trusted: Lean kernel, axioms propext/Classical.choice/Quot.sound, the harness. Interleavings are command-atomic on the real server (what asyncio produces on the dict backend), plus '
            'a family interleaved at the lock boundaries of the backend (park before every acquisition and after every release of a write lock) under a watching client; finer ones are covered by the System theorem only. Server.lean (glue composing the proved functions) is validated by the correspondence, not proved. WeakSet/GC behaviour assumed.',
            'DESIGN.md section 6 C01'),
    'C02': ('Lean 4 invariants over the change-log model (_ModSequenceMapping) and convergence theorem + command-level differential correspondence',
            'C02_log_inv, C02_log_complete and C02_noop_converges (every history, every session) are proved in Lean; the real server is diffed against the model on mutation-heavy multi-session '
            'programs, _ModSequenceMapping is diffed through MailboxData public methods, and at every quiescent end each session\'s told view (from the bytes alone) must equal the probe\'s dump.',
            'Trusted: as C01. maildir (full rescan) is not diffed against the model here.',
            'DESIGN.md section 6 C02'),
    'C10': ('Lean 4 refinement theorems to a plain IMAP reference spec + differential correspondence + independent reference-model monitor',
            'C10_seqset, C10_store_refines, C10_expunge_refines, C10_append_refines, C10_permitted are proved in Lean (implementation model refines PymapSpec/Imap.lean for every view, set and flag list). '
            'Tie: single-session programs, real dict server vs Lean Server model per command; SequenceSet.flatten vs Seq.flatten. Monitor: an independent Python reference model stepped on dict, maildir(++), '
            'maildir(fs) with a full probe dump after every command.',
            'C10_copy_refines, C10_copy_uids, C10_move_refines (COPY/MOVE refine the reference spec), C10_server_copyMove/_copy_spec/_expunge (the command-level Server model the tie runs is literally these functions) are proved too; '
            'a third of the programs run two sessions addressing by explicit UIDs (stale caches). Trusted: as C01. The refinement of FETCH-sets-\\Seen and CLOSE is in the executable model and the reference monitor, not proved.',
            'DESIGN.md section 6 C10'),
    'C04': ('Lean 4 invariant by induction over mailbox operations (UID monotonicity, UIDNEXT, APPENDUID/COPYUID pairing) + differential correspondence + history monitor',
            'C04_uid_monotone (any operation list, incl. expunge-highest-then-append), C04_uidnext, C04_appenduid, C04_copyuid_pairing and C15_recover (maildir adoption hands out fresh UIDs only) are proved in Lean. '
            'Tie: APPENDUID/COPYUID/UIDNEXT values are diffed per command between the real dict server and the Lean Server model. Monitor: probe dump after every command on dict and both maildir layouts '
            '(monotone assignment, no reuse, no resurrection, truthful UIDNEXT/APPENDUID/COPYUID, content pairing), RENAME and MULTIAPPEND histories, and appends by several connections while another '
            'process holds the maildir UID list\'s lock file. C04_uidlist_no_reuse: writers that read the list inside its lock never report one UID twice, under any interleaving (UidRW model; tied through its conclusion only).',
            'Trusted: as C01. The crash/restart half of the property is decided by C15\'s check. UIDVALIDITY freshness of a re-created INBOX is an oracle hypothesis of the model (random 32-bit value in the code).',
            'DESIGN.md section 6 C04'),
    'C12': ('Lean 4 frame theorem over the session-command model + differential correspondence + per-command frame monitor',
            'C12_frame / C12_frame_program (every command list of a read-only selection leaves the mailbox model unchanged), C12_answers and C12_readonly_refuses are proved in Lean. Tie: real connections vs the Lean Server '
            'model with session 0 inside EXAMINE and 0-2 read-write sessions. Monitor: probe dump of all mailboxes after every command; a command of the read-only selection must leave them identical (APPEND/COPY add only), '
            'STORE/EXPUNGE NO, CLOSE OK, \\Recent not consumed; a backend read-only mailbox (demo Trash) is a directed scenario.',
            'Trusted: as C01. MOVE out of a read-only selection is refused since the fix: commit found by this check (D39).',
            'DESIGN.md section 6 C12'),
    'C17': ('Lean 4 invariant over the \\Recent bookkeeping model (at most one holder over the life of a message) + differential correspondence + attribution monitor',
            'C17_at_most_one, C17_first_rw_gets_it, C17_not_stored_after are proved in Lean for every history of select/examine/close/append/expunge and every any_selected oracle. Tie: real connections vs Lean Server '
            '(select/append/copyMove/pickDest are the executable form of Recent.step). Monitor: every FETCH showing \\Recent is attributed to (mailbox, uid, connection, selection epoch) from the bytes alone: at most one '
            'read-write selection, never a read-only one, first read-write SELECT gets what arrived unselected, RECENT counts agree, an EXAMINE-only probe never sees \\Recent.',
            'Trusted: as C01; which read-write session any_selected picks is read from the real run. The WeakSet/GC dependence was a genuine defect (D36, fixed).',
            'DESIGN.md section 6 C17'),
    'C05': ('Lean 4 theorems over a model of ConnectionState.do_command / _run_state (gate, handlers, bad-command counter) + exhaustive small-scope and random differential correspondence',
            'C05_gate, C05_state_only, C05_refused_noop, C05_select, C05_close, C05_logout are proved in Lean for every state and command (backend outcomes are universally quantified oracles). Tie: every sequence '
            'of length 1 (full 50-command alphabet) and 2 (26-command core; thorough: 3) in three TLS/peer configurations plus state-directed and random sequences is run on a real IMAPServer and diffed with the '
            'model per command (OK/NO/BAD/BYE classes) and at the end by state probes; refused commands are removed and the run repeated to show they had no effect.',
            'Trusted: Lean kernel, axioms propext/Classical.choice/Quot.sound, the harness; backend outcomes of each concrete command are supplied by the fixture (which credentials/mailboxes exist).',
            'DESIGN.md section 6 C05'),
    'C09': ('Lean 4 theorems (soundness of authentication as an invariant over command sequences) + differential correspondence + credential fuzzing',
            'C09_sound (authenticated as u only if an attempt presented credentials the backend accepted for u), C09_no_reauth, C09_logindisabled, C09_failed_keeps, C09_advertised_enforced and C09_login_accepted_was_offered (the LOGINDISABLED bit of the '
            'capability list the client holds - greeting included - is the bit the state machine acts on) are proved in Lean for every command sequence. '
            'Tie: the C05 machinery with an alphabet of every way to present credentials (LOGIN, PLAIN, LOGIN mech, authzid with/without admin role, cancel, malformed base64, unknown mechanism) in three TLS/peer '
            'configurations, identity observed through LIST; random credential byte strings never authenticate; the ManageSieve listener is driven with failed/successful AUTHENTICATE sequences against the Sieve model.',
            'Real-socket leg: IMAPServer and ManageSieveServer on loopback with a real TLS handshake; STARTTLS plus further commands written in one clear-text segment are never acted on after the handshake. '
            'C09_starttls_no_injection (model StartTls): what is written in clear text behind an accepted STARTTLS has no effect on the protected session; the as-found behaviour is stated as starttls_injection_as_found. '
            'Trusted: as C05. Credential verification (pysasl, password hashing) is an oracle: which credentials verify is known to the fixture, not modelled. TLS is a stub.',
            'DESIGN.md section 6 C09'),
    'C19': ('Lean 4 theorems (gate, well-formedness invariant, refinement to a name-to-bytes map with one active name, isolation) + exhaustive small-scope and random differential correspondence',
            'C19_gate, C19_wf, C19_put_get, C19_put_frame, C19_list, C19_delete_active, C19_delete, C19_rename, C19_isolation are proved in Lean over the model of ManageSieveConnection.run, FilterState and the dict FilterSet. '
            'Tie: every reply of a real ManageSieveServer (incl. LISTSCRIPTS order and active mark, script bytes) is diffed with the model on all command-kind sequences of length 2 (thorough 3) before and after '
            'authentication and on random multi-connection two-user programs; an independent Python reference map and a before/after dump of all stores around unauthenticated script commands are the monitors.',
            'Maildir backend (one script per user, SingleFilterSet): model SieveSingle with C19_single_put_get, C19_single_refused_unchanged, C19_single_reads, C19_single_no_ghosts, every reply diffed; monitor "what was acknowledged holds" (PUTSCRIPT OK then GETSCRIPT/LISTSCRIPTS, refusals change nothing, gate, isolation); the one-slot design is known finding D80. '
            'Trusted: as C05. The sieve compiler is an oracle (CHECKSCRIPT).',
            'DESIGN.md section 6 C19'),
    'C11': ('Lean 4 theorems over the namespace model (wildcard matcher, ListTree entries, create/delete/rename with object identities) + differential correspondence + EXAMINE-based existence monitor',
            'C11_star_all, C11_pct, C11_literal (incl. names with LF), C11_list, C11_inbox_guard, C11_errors_unchanged, C11_conflicts, C11_rename (objects move with their ids), C11_rename_inbox (inferiors of INBOX stay) are proved in Lean. '
            'Tie: OK/NO of every CREATE/DELETE/RENAME and the exact LIST entry set are diffed between the real dict server and the Namespace model; the compiled LIST pattern is diffed with Namespace.wild on short pattern/name pairs '
            '(exhaustive in the thorough tier). Monitor on dict and both maildir layouts: existence is re-established by EXAMINE over the whole name universe after every command; LIST, conflicts, guards, rename identity '
            '(UIDVALIDITY/UIDNEXT/messages) and modified-UTF-7 spelling are checked against an RFC matcher written from the RFC. C11_dp_matches: the position-set matcher of the repaired ListTree (Namespace.wildDP, what the L1 tie runs) equals the recursive semantics.',
            'Trusted: Lean kernel, axioms propext/Classical.choice/Quot.sound, the harness; Python re engine (pinned by the L1 diff). Known findings D28 (LSUB), D17b (maildir RENAME INBOX), D40 (Inbox/x superior). '
            'Which superiors CREATE makes real and whether DELETE of a parent is refused are backend-specific and left free.',
            'DESIGN.md section 6 C11'),
    'C08': ('Lean 4 theorems over a lexical path model of the maildir layouts + OS-call recording on the real backend',
            'C08_confined_default / C08_confined_fs: for every base directory and every name accepted by the validator, the lexically resolved path is a strict extension of the user directory; C08_escape_as_found records the escapes '
            'of the code as found. Tie: for every hostile name the real backend must refuse exactly what the Layout model refuses and create the maildir where the model says. Monitor: all path arguments of os/os.path/shutil/open '
            'are recorded while every mailbox-taking command runs with every hostile name on both layouts (confinement, never the user directory itself for mutating calls), the other user\'s tree and the password files are hashed '
            'before/after; dict: bob\'s observations unchanged.',
            'Trusted: as C11; lexical model only: no symlinks inside the store, no mount points, case-sensitive filesystem; the recorder sees Python-level calls (os, shutil, open), which is all pymap and the mailbox module use.',
            'DESIGN.md section 6 C08'),
    'C13': ('Lean 4 theorems (every key equals its RFC meaning, prefilter soundness, exactness, UID equivalence, algebraic laws) + differential correspondence + independent evaluator',
            'crit_iff, C13_prefilter_sound, C13_exact, C13_uid_equiv, C13_algebra, C13_set_semantics (the frozenset of top-level keys: order and repetition are immaterial) are proved in Lean for every view, key tree and message (string keys as oracles). Tie: SEARCH/UID SEARCH results of the real server '
            'are diffed with Search.search on random mailboxes x random key trees; an independent Python evaluator of RFC 3501 6.4.4 over the stored bytes is the monitor and supplies the oracle bits; equivalent '
            'rewritings and views with hidden expunged messages are exercised.',
            'Trusted: Lean kernel, axioms propext/Classical.choice/Quot.sound, the harness. String matching (email package, re) is an oracle of the model; messages are plain ASCII so that "contains" is unambiguous.',
            'DESIGN.md section 6 C13'),
    'C18': ('Lean 4 round-trip theorems (quoted strings, modified UTF-7 for all Unicode scalar values) + L1 differential correspondence + spelling-equivalence monitor on the wire',
            'C18_roundtrip_quoted (parse(ser v ++ rest) = (v, rest)), C18_roundtrip_number, C18_modutf7 (decode(encode s) = s for every list of scalar values), C18_encode_ascii, C18_framing (whatever the {n+} literals contain, the reader takes exactly the command), C18_astring_spelling (the atom, quoted and {n+} spellings of any value parse to the same value and rest, or are all refused over the length limit), C18_zone_roundtrip / C18_zone_canonical (the zone of a date-time: written and read back as the same offset; an accepted zone other than -0000 is how its offset is written), C18_seqset_roundtrip (SequenceSet.parse reads back what __bytes__ writes and leaves exactly what follows), C18_flag_norm_idem / C18_flag_case_insensitive / C18_flag_keyword (the value a flag is known by: stable, the same for every letter case of a system flag, the bytes themselves for a keyword) are proved in Lean. '
            'Tie: IMAPConnection.readline vs Framing.readCmd on hostile streams; AString.parse vs AStr.parse on spelled values and junk under both limits; DateTime zones vs Zone.fmt/Zone.parse; SequenceSet.parse vs SeqText.parse on generated sets and junk; QuotedString/String.build/modutf7_encode/decode '
            'vs the Wire and ModUtf7 models on hostile values. Monitors: round trips of literals, astrings, numbers, sequence sets, flags, date-times through the real parsers; an independent RFC 3501 5.1.3 encoder; whole command '
            'programs replayed under random spellings (atom/quoted/{n}/{n+}, command-word case) must answer and leave state identically; LIST reports names that decode to the created names.',
            'Trusted: as C13. The lenient utf-7 decoder of Python on non-canonical input is not modelled (one-sided correspondence). The date part of a date-time has no Lean model (monitored only).',
            'DESIGN.md section 6 C18'),
    'C07': ('Lean 4 theorem that every serialised response shape is accepted by an independent strict recogniser + twin-recogniser correspondence + output monitor',
            'C07_wellformed (every line built from atoms, String.build values and nested groups is accepted by Grammar.wf, by mutual induction with a fuel-independence lemma), C07_build_safe, C07_quoted_escape, C18_encode_ascii '
            'and C07_envelope / C07_body (what is written for any part tree, any address counts, with or without disposition/language/location is an envelope / body of RFC 3501 section 9) are proved in Lean. Tie: the Python recognisers used as monitors are diffed with Grammar.wf and with Structure.isEnvelope/isBody on all server outputs of the run and on damaged copies of them; String.build vs Wire.buildString on hostile values. Monitor: every byte '
            'the real server writes in scenario families that echo client data (names, keywords, tags, headers through ENVELOPE/BODYSTRUCTURE, MIME shapes, error paths, SASL exchanges) on dict and maildir must be accepted.',
            'Trusted: as C13. The mapping of each pymap response class onto the Item shape of the theorem is exercised by the monitor, not proved. Known finding D47 (BINARY fetch of undecodable part breaks off mid-line).',
            'DESIGN.md section 6 C07'),
    'C06': ('Lean 4 theorems over the outcome table of the command loop and termination of the modified-UTF-7 decoder model + line/message fuzzing with a watchdog',
            'C06_answered, C06_no_serverbug, C06_tagged (for every outcome class except "other": tagged completion, continuation or BYE; never closed without BYE) and C06_modutf7_total (the decoder model does not depend on fuel = it terminates) '
            'are proved in Lean. Tie: constructed outcome sequences (incl. five BADs) are diffed with Loop.handle; modutf7_decode runs under a watchdog on the model\'s inputs. Monitor: grammar-derived, mutated and raw command lines in three '
            'states (IMAP) and ManageSieve, hostile stored messages x every FETCH attribute and SEARCH key on dict and maildir: every line answered, no [SERVERBUG], no close without BYE, no spin (SIGALRM), other connections still served.',
            'Trusted: as C13. Partial by construction: the email package, re and codecs are not modelled; the command-line parser itself has no Lean model yet (C06_parse_total is not claimed). Known findings D47, D48, D49.',
            'DESIGN.md section 6 C06'),
    'C20': ('Lean 4 invariants over a transition system of the read-write lock on a model of asyncio.Lock (any number of tasks, any schedule, cancellation anywhere) and of the lock-file lock + exhaustive schedule exploration of the real primitive',
            'C20_thread_exclusion / C20_thread_no_deadlock / C20_thread_terminates (the threading twin the maildir backend runs, threads pre-empted between any two primitive mutex operations; the recorded acquisitions and releases of the real lock are replayed through the model), C20_no_deadlock (in every reachable state with an unfinished task some task can take a step), C20_terminates (every schedule is finite), C20_exclusion and C20_cancel_safe (reader counter = number of readers between acquire and release after cancelling any waiter) are proved for the RWLock model; C20_file_exclusion and C20_file_released for the FileLock model. '
            'Tie: pymap\'s real asyncio read-write lock under a deterministic scheduler; every step of every explored schedule (DFS over all schedules with at most one cancellation of all 2-task programs, thorough 3-task; random for 4) is replayed '
            'in the model and who-is-inside/waiting/finished plus the counter compared. Monitors: no overlap with a writer, drainable (no deadlock), usable and counter 0 afterwards; FileLock writers with yields, exceptions, cancellations, stale files.',
            'Trusted: Lean kernel, axioms propext/Classical.choice/Quot.sound, the harness. asyncio.Lock semantics (CPython 3.12) are modelled, validated by the correspondence, not proved; C20_no_deadlock is explored, not proved; threading twin not modelled; '
            'FileLock: the recorded _try_lock/_unlock steps of every run are replayed through the FileLock model (only a holder ever unlocks); it rests on O_EXCL. with_write (maildir control files) is monitored: lock file gone the moment the section is left.',
            'DESIGN.md section 6 C20'),
    'C16': ('Lean 4 safety invariant and bounded-progress theorem over the IDLE wake-up transition system + scheduler-driven correspondence on the real connection',
            'C16_no_lost_wakeup (parked on an unfired listener implies everything consumed) and C16_progress (from any reachable state at most 6 own steps deliver everything) are proved for the repaired wait; C16_lost_wakeup_as_found is the decide-checked '
            'witness against the code as found. Tie: a real idling connection parked inside drain() so that changes land mid-notification; every change and release is replayed as model labels and "everything delivered" compared at quiescence. '
            'Monitor: what the idling client was told (count, flags per position; C01 shadow rules) equals the mailbox with no DONE and no further activity; DONE -> OK, anything else -> BAD; maildir with real 1 s polling.',
            'C16_done / C16_only_done: the line that ends IDLE is exactly a case variant of DONE followed by CRLF or LF (model Done.parseDone, diffed against IdleCommand.parse_done on near-DONE lines). '
            'Trusted: as C20. The idler\'s steps between parks are taken as atomic (asyncio is cooperative); maildir has no model (polling), monitor only.',
            'DESIGN.md section 6 C16'),
    'C14': ('Lean 4 conservation invariant over MOVE under cancellation with a second session + fault enumeration at every park point of the real command',
            'C14_conservation (a message being moved is in source or destination in every reachable state, any cancellation point, other sessions active), C14_move_loses_as_found (decide), C14_multiappend_atomic_full_false/_partial (known finding D21) '
            'are proved. Tie: single-message MOVE runs on the real dict backend, parked at every lock acquisition, replayed as Faults labels and (in source, in destination) compared. Monitor: MOVE/COPY/EXPUNGE/APPEND(1-3) cut at EVERY park point by '
            'cancellation and by an exception from the n-th storage call, with a second session interleaved; probe dumps at every park point and at the end (conservation, exactly-one after OK, NO/BAD changes nothing, multi-APPEND atomicity).',
            'C14_client_cancel / C14_append_all (model AppendCancel): a multi-message APPEND the client calls off with an empty literal - after no message, one or many - is answered NO and stores nothing; every such command of the client-cancel family is diffed against the model. '
            'Trusted: as C20. The maildir leg kills a child process at every filesystem-operation boundary of MOVE/COPY histories (C15 machinery, conservation judged); uncontended cancellation k loop turns into each command; multi-message MOVE is monitored, the model is per message. Known finding D21.',
            'DESIGN.md section 6 C14'),
    'C15': ('Lean 4 theorems over an abstract maildir filesystem (every prefix of every command\'s system calls, any history) + exhaustive crash-point enumeration in a child process',
            'C15_prefix, C15_full, C15_recover, C15_crash_anywhere are proved: after any history and a crash at any system-call boundary, recovery keeps every acknowledged message under its UID, the UID list duplicate-free, next-UID monotone, UIDVALIDITY unchanged. '
            'Tie: the recorded system-call trace of each command must equal MaildirFS.ops and the UIDs served after each crash point must equal listing (recover prefix). Monitor: a child process exits instead of its k-th filesystem operation for EVERY k of each '
            'history (APPEND/STORE/COPY/MOVE/EXPUNGE/CREATE/RENAME/SUBSCRIBE/CHECK), a fresh server is started and compared with the acknowledged state; layouts ++/fs; temp dir on the same / another filesystem.',
            'C15_next_monotone / C15_next_monotone_recover / C15_append_uid_fresh: the next-UID counter of a folder never goes back, at any crash point or restart, and every UID handed out is the counter. '
            'Trusted: as C20. Partial: crash = process kill between Python-level filesystem calls (no fsync/power-loss, no torn writes, no foreign writers); the restart is observed after lock-file expiration; the model covers append/expunge/flags/cleanup on one folder.',
            'DESIGN.md section 6 C15'),
}

NOT_YET = 'check not built yet in this round (see DESIGN.md section 10 for the build order); nothing is claimed'


def main():
    props = [json.loads(l)['id'] for l in open(os.path.join(VERIF, 'properties.jsonl'))]
    checks = []
    na = []
    for p in props:
        if p in CHECKS:
            tech, text, note, ref = CHECKS[p]
            checks.append(dict(
                property_id=p,
                quick_cmd=f'./check {p} --tier quick',
                thorough_cmd=f'./check {p} --tier thorough',
                evidence_file=f'/verif/evidence/{p}.json',
                replay_cmd_template=f'./check {p} --replay {{path}}',
                engine='lean4+correspondence',
                level_claimed=dict(category='proof', text=text, design_ref=ref),
                level_note=note,
                technique=tech))
        else:
            na.append(dict(property_id=p, reason=NOT_YET))
    man = dict(
        version=1,
        setup_cmd='cd lean && lake build PymapModel PymapSpec PymapProofs driver',
        hooks=dict(guard='PYMAP_VERIF', enable='no source hooks are needed: the harness drives pymap through public constructor arguments '
                   '(subsystem=, cpu_subsystem=) and in-process stream objects; PYMAP_VERIF=1 is exported by ./check for future hooks',
                   baseline_off_cmd='cd /repo && /venv/bin/python -m pytest -q -p no:cacheprovider --timeout=900 --continue-on-collection-errors',
                   source_commits=[], add_only=True),
        engines=[dict(name='lean4+correspondence', path='lean/ , harness/', serves_properties=[c['property_id'] for c in checks],
                      kind_free_text='Lean 4 models + theorems (lake project, core only), compiled line-protocol driver over the models, '
                                     'Python differential harness importing pymap from /repo')],
        checks=checks,
        notes='See DESIGN.md. Genuine defects repaired in /repo by fix: commits and the ones recorded as known findings are listed in known_findings.json.',
        not_applicable=na)
    json.dump(man, open(os.path.join(VERIF, 'MANIFEST.json'), 'w'), indent=1)
    print('checks:', [c['property_id'] for c in checks], 'not claimed:', len(na))


if __name__ == '__main__':
    main()
