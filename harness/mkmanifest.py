"""Regenerates /verif/MANIFEST.json from the table below (run by hand after adding a check)."""
import json
import os

VERIF = os.path.dirname(os.path.dirname(os.path.abspath(__file__)))

# property -> (technique, level text, level note, design ref)
CHECKS = {
    'C03': ('Lean 4 theorems over a hand-written model of the line index / slicing code + differential correspondence with pymap.mime and wire-level monitors',
            'C03_raw, C03_size, C03_header_text, C03_partial are proved in Lean for every byte string (no length bound) about the model of MessageContent.parse / get_raw / _get_partial; '
            'the model is tied to /repo on every run by diffing it with MessageContent.parse on generated and exhaustively enumerated byte strings, and the property itself is monitored on the '
            'wire (APPEND then every FETCH form, COPY, MOVE) on the dict and maildir backends.',
            'Trusted: Lean kernel; axioms propext, Classical.choice, Quot.sound; the correspondence harness. Not modelled: the email package (content-type / boundary decisions), nested part '
            'selection (_get_subpart) and BODYSTRUCTURE sizes are monitored on the wire only. Known findings D5, D6, D35 (see known_findings.json).',
            'DESIGN.md section 6 C03'),
}

NOT_YET = 'check not built yet in this round (see DESIGN.md section 10 for the build order); nothing is claimed'


def main():
    props = [json.loads(l)['id'] for l in open(os.path.join(VERIF, 'properties.jsonl'))]
    checks = []
    na = []
    for p in props:
        if p in CHECKS:
            tech, text, note, ref = CHECKS[p]
            checks.append(dict(
                property_id=p,
                quick_cmd=f'./check {p} --tier quick',
                thorough_cmd=f'./check {p} --tier thorough',
                evidence_file=f'/verif/evidence/{p}.json',
                replay_cmd_template=f'./check {p} --replay {{path}}',
                engine='lean4+correspondence',
                level_claimed=dict(category='proof', text=text, design_ref=ref),
                level_note=note,
                technique=tech))
        else:
            na.append(dict(property_id=p, reason=NOT_YET))
    man = dict(
        version=1,
        setup_cmd='cd lean && lake build PymapModel PymapSpec PymapProofs driver',
        hooks=dict(guard='PYMAP_VERIF', enable='no source hooks are needed: the harness drives pymap through public constructor arguments '
                   '(subsystem=, cpu_subsystem=) and in-process stream objects; PYMAP_VERIF=1 is exported by ./check for future hooks',
                   baseline_off_cmd='cd /repo && /venv/bin/python -m pytest -q -p no:cacheprovider --timeout=900 --continue-on-collection-errors',
                   source_commits=[], add_only=True),
        engines=[dict(name='lean4+correspondence', path='lean/ , harness/', serves_properties=[c['property_id'] for c in checks],
                      kind_free_text='Lean 4 models + theorems (lake project, core only), compiled line-protocol driver over the models, '
                                     'Python differential harness importing pymap from /repo')],
        checks=checks,
        notes='See DESIGN.md. Genuine defects repaired in /repo by fix: commits and the ones recorded as known findings are listed in known_findings.json.',
        not_applicable=na)
    json.dump(man, open(os.path.join(VERIF, 'MANIFEST.json'), 'w'), indent=1)
    print('checks:', [c['property_id'] for c in checks], 'not claimed:', len(na))


if __name__ == '__main__':
    main()
