"""C18 — how an argument is spelled does not change what it means.

Tie (L1, model vs code): `QuotedString.parse` / `bytes(QuotedString)` vs `Wire.parseQuoted` / `Wire.serQuoted` (C18_roundtrip_quoted),
`modutf7_encode` vs `ModUtf7.encodeName` and `modutf7_decode` vs `ModUtf7.decodeName` (C18_modutf7, C18_encode_ascii; the decoder
correspondence is one-sided where the model rejects a non-canonical spelling: the code keeps Python's lenient utf-7 codec).
Monitors: parse(serialise(v) + rest) = (v, rest) for quoted strings, literals, astrings, numbers, sequence sets, flags and date-times
(round trip through the real parsers, consuming exactly their own bytes); decode(encode(name)) = name for Unicode names incl. lone
surrogates-free scalar values; encode(name) is printable ASCII and is what an independent RFC 3501 5.1.3 encoder produces.
L3: sibling spellings of whole commands — every string argument as atom / quoted / {n} / {n+}, command word in any case —
must give identical canonical responses and leave identical state (LIST, STATUS dumps); LIST and STATUS report every created
mailbox under a spelling that decodes to the name.
"""
from __future__ import annotations
import asyncio
import random

from .common import wire, backends, imapresp, mutf7, gen
from .common.model import Model, nats, unnats, batch
from .common.report import Part, guarded

RULE = ('L1: random byte strings / Unicode names (ASCII, &, controls, Latin-1, CJK, astral) through the real parsers and serialisers and the Lean models; '
        'L3: command programs (LOGIN CREATE SELECT STATUS APPEND LIST SEARCH STORE RENAME DELETE) replayed under 2-4 random spellings of every string argument and command word; '
        'non-trivial = the value needs quoting/escaping or encoding (contains SP, quote, backslash, &, non-ASCII, or is empty); distinct by value / program+spelling')

CODEPOINTS = [0x26, 0x41, 0x61, 0x2f, 0x2d, 0x20, 0x22, 0x5c, 0x25, 0x2a, 0x7e, 0x7f, 0x09, 0x0a, 0x0d, 0x01, 0xe9, 0xff, 0x100, 0x4e2d, 0xffff, 0x10000, 0x1f600, 0x10ffff, 0x2b, 0x2c]


def gen_name(r):
    return ''.join(chr(r.choice(CODEPOINTS)) for _ in range(r.randint(0, 6)))


def gen_bytes(r):
    pool = [b'a', b'B', b' ', b'"', b'\\', b'\r', b'\n', b'\x00', b'\xff', b'\xc3\xa9', b'{', b'}', b'(', b')', b'%', b'*', b'&', b'~', b'1', b'']
    return b''.join(r.choice(pool) for _ in range(r.randint(0, 8)))


def l1(part, r, n):
    from pymap.parsing import Params
    from pymap.parsing.exceptions import NotParseable
    from pymap.parsing.primitives import QuotedString, LiteralString, String, Number, Atom
    from pymap.parsing.specials import AString, SequenceSet, Flag, DateTime
    from pymap.parsing.modutf7 import modutf7_encode, modutf7_decode
    from pymap.parsing.state import ParsingState
    m = Model()
    try:
        for _ in range(n):
            v = gen_bytes(r)
            rest = r.choice([b'', b' x', b' "y"', b')', b'\r\n'])
            nt = any(c in v for c in b' "\\') or v == b''
            case = dict(level='L1', value=list(v), rest=list(rest))
            # ---- quoted strings
            if not any(c in v for c in b'\r\n'):
                with guarded(part, 'C18 L1 quoted', case):
                    ser = bytes(QuotedString(v))
                    mod_ser = bytes(unnats(m.ask('quoted ser ' + nats(v))))
                    part.case(key='q:' + v.hex() + rest.hex(), nontrivial=nt)
                    if ser != mod_ser:
                        part.violation('correspondence', f'bytes(QuotedString({v!r})) = {ser!r}, Wire.serQuoted = {mod_ser!r}', case, signature='l1-quoted-ser')
                    got, after = QuotedString.parse(ser + rest, Params())
                    mod = m.ask('quoted parse ' + nats(ser + rest))
                    impl = f'{nats(got.value)} {nats(bytes(after))}'
                    if impl != mod:
                        part.violation('correspondence', f'QuotedString.parse({ser + rest!r}) = ({got.value!r}, {bytes(after)!r}), Wire.parseQuoted = {mod}', case, signature='l1-quoted-parse')
                    if got.value != v or bytes(after) != rest:
                        part.violation('monitor', f'quoted round trip: {v!r} -> {ser!r} -> ({got.value!r}, rest {bytes(after)!r}); expected rest {rest!r}', case, signature='rt-quoted')
                    if bytes(got) != ser:
                        part.violation('monitor', f'bytes() of the parsed quoted string {ser!r} is {bytes(got)!r}: it did not consume exactly its own bytes', case, signature='rt-quoted-raw')
            # ---- String.build (quoted or literal) and astring
            with guarded(part, 'C18 L1 string', case):
                built = bytes(String.build(v))
                mod_b = bytes(unnats(m.ask('build 0 ' + nats(v))))
                if built != mod_b:
                    part.violation('correspondence', f'String.build({v!r}) = {built!r}, Wire.buildString = {mod_b!r}', case, signature='l1-build')
                if built.startswith(b'{'):
                    head, _, tail = built.partition(b'\r\n')
                    params = Params(ParsingState(continuations=[tail + rest]))
                    got, after = String.parse(head + b'\r\n', params)
                    if got.value != v or bytes(after) != rest:
                        part.violation('monitor', f'literal round trip: {v!r} -> {built!r} -> ({got.value!r}, {bytes(after)!r})', case, signature='rt-literal')
                    lp = b'{%d+}\r\n' % len(v) + v + rest
                    got, after = String.parse(lp, Params())
                    if got.value != v or bytes(after) != rest:
                        part.violation('monitor', f'non-synchronising literal {lp!r} parsed as ({got.value!r}, {bytes(after)!r})', case, signature='rt-literal-plus')
                else:
                    got, after = String.parse(built + rest, Params())
                    if got.value != v or bytes(after) != rest:
                        part.violation('monitor', f'string round trip: {v!r} -> {built!r} -> ({got.value!r}, {bytes(after)!r})', case, signature='rt-string')
                # a *parsed* astring serialises to something that parses to the same value
                src = b'{%d+}\r\n' % len(v) + v
                a1, after = AString.parse(src + b' z', Params())
                ab = bytes(a1)
                if ab.startswith(b'{') and not ab.split(b'\r\n')[0].endswith(b'+}'):
                    head, _, tail = ab.partition(b'\r\n')
                    a2, after2 = AString.parse(head + b'\r\n', Params(ParsingState(continuations=[tail + b' z'])))
                else:
                    a2, after2 = AString.parse(ab + b' z', Params())
                if a1.value != v or a2.value != v or bytes(after2) != b' z' or bytes(after) != b' z':
                    part.violation('monitor', f'astring round trip: {v!r} -> {src!r} -> {a1.value!r} -> {ab!r} -> ({a2.value!r}, {bytes(after2)!r})', case, signature='rt-astring')
            # ---- modified UTF-7
            name = gen_name(r)
            case = dict(level='L1', name=[ord(c) for c in name])
            with guarded(part, 'C18 L1 modutf7', case):
                enc = modutf7_encode(name)
                mod_enc = bytes(unnats(m.ask('modutf7enc ' + nats([ord(c) for c in name]))))
                part.case(key='u:' + repr(name), nontrivial=any(ord(c) > 0x7e or ord(c) < 0x20 or c == '&' for c in name))
                if enc != mod_enc:
                    part.violation('correspondence', f'modutf7_encode({name!r}) = {enc!r}, ModUtf7.encodeName = {mod_enc!r}', case, signature='l1-mutf7-enc')
                if enc != mutf7.encode(name):
                    part.violation('monitor', f'modutf7_encode({name!r}) = {enc!r}; RFC 3501 5.1.3 gives {mutf7.encode(name)!r}', case, signature='mutf7-rfc')
                if any(not (0x20 <= b <= 0x7e) for b in enc):
                    part.violation('monitor', f'modutf7_encode({name!r}) = {enc!r} is not printable ASCII', case, signature='mutf7-ascii')
                dec = modutf7_decode(enc)
                if dec != name:
                    part.violation('monitor', f'modutf7_decode(modutf7_encode({name!r})) = {dec!r}', case, signature='rt-mutf7')
            # decoder on arbitrary input: must terminate with a string or ValueError; agree with the model where the model accepts
            raw = bytes(r.choice(list(b'&-A,/+Q8=Ag ') + [0xe9, 0x7f]) for _ in range(r.randint(0, 7)))
            case = dict(level='L1', encoded=list(raw))
            with guarded(part, 'C18 L1 modutf7 decode', case):
                try:
                    impl = nats([ord(c) for c in modutf7_decode(raw)])
                except ValueError:
                    impl = 'ERR'
                mod = m.ask('modutf7dec ' + nats(raw))
                if mod != 'ERR' and impl != mod:
                    part.violation('correspondence', f'modutf7_decode({raw!r}) = {impl}, ModUtf7.decodeName = {mod}', case, signature='l1-mutf7-dec')
                part.stat('mutf7-dec:' + ('lenient' if mod == 'ERR' and impl != 'ERR' else 'agree'))
            # ---- numbers, sequence sets, flags, dates
            with guarded(part, 'C18 L1 specials', dict(level='L1')):
                num = r.choice([0, 1, 7, 42, 4294967295, r.randint(0, 10 ** 9)])
                nb = bytes(Number(num))
                if nb != bytes(unnats(m.ask(f'num ser {num}'))):
                    part.violation('correspondence', f'bytes(Number({num})) = {nb!r}, Wire.digits = {m.ask(f"num ser {num}")}', dict(level='L1', number=num), signature='l1-number-ser')
                got, after = Number.parse(nb + b' r', Params())
                mod = m.ask('num parse ' + nats(nb + b' r'))
                if f'{got.value} {nats(bytes(after))}' != mod:
                    part.violation('correspondence', f'Number.parse({nb + b" r"!r}) = ({got.value}, {bytes(after)!r}), Grammar.readNum = {mod}', dict(level='L1', number=num), signature='l1-number-parse')
                if got.value != num or bytes(after) != b' r':
                    part.violation('monitor', f'number round trip {num} -> {nb!r} -> {got.value} rest {bytes(after)!r}', dict(level='L1', number=num), signature='rt-number')
                txt = gen.seqset(r, r.randint(1, 30)).encode()
                ss, after = SequenceSet.parse(txt + b' r', Params())
                again, after2 = SequenceSet.parse(bytes(ss) + b' r', Params())
                mx = r.randint(1, 40)
                if sorted(ss.flatten(mx)) != sorted(again.flatten(mx)) or bytes(after2) != b' r' or bytes(after) != b' r':
                    part.violation('monitor', f'sequence set round trip {txt!r} -> {bytes(ss)!r}: {sorted(ss.flatten(mx))} vs {sorted(again.flatten(mx))}', dict(level='L1', set=txt.decode()),
                                   signature='rt-seqset')
                fl = r.choice([b'\\Seen', b'\\Answered', b'\\flagged', b'$Forwarded', b'kw', b'\\Custom', b'NonJunk'])
                f1, after = Flag.parse(fl + b' r', Params())
                f2, after2 = Flag.parse(bytes(f1) + b' r', Params())
                if f1 != f2 or bytes(after2) != b' r' or bytes(after) != b' r':
                    part.violation('monitor', f'flag round trip {fl!r} -> {bytes(f1)!r} -> {bytes(f2)!r}', dict(level='L1', flag=fl.decode()), signature='rt-flag')
                dtxt = b'"%2d-%s-%04d %02d:%02d:%02d %s%02d%02d"' % (r.randint(1, 28), r.choice(['Jan', 'Feb', 'Jul', 'Dec']).encode(), r.randint(1971, 2037), r.randint(0, 23),
                                                                     r.randint(0, 59), r.randint(0, 59), r.choice([b'+', b'-']), r.randint(0, 12), r.choice([0, 30, 30, 45, 1, 59]))
                d1, after = DateTime.parse(dtxt + b' r', Params())
                d2, after2 = DateTime.parse(bytes(d1) + b' r', Params())
                # a parsed value replays its own spelling; what is stored and reported later (INTERNALDATE) is written from the value
                fresh = bytes(DateTime(d1.value))
                d3, after3 = DateTime.parse(fresh + b' r', Params())
                if d3.value != d1.value or d3.value.utcoffset() != d1.value.utcoffset() or bytes(after3) != b' r':
                    part.violation('monitor', f'date-time {dtxt!r} written from its value is {fresh!r}, which reads back as {d3.value} (was {d1.value})', dict(level='L1', date=dtxt.decode()),
                                   signature='rt-datetime-fresh')
                if d1.value != d2.value or bytes(after2) != b' r' or bytes(after) != b' r':
                    part.violation('monitor', f'date-time round trip {dtxt!r} -> {bytes(d1)!r} -> {d2.value}', dict(level='L1', date=dtxt.decode()), signature='rt-datetime')
            # ---- the zone of a date-time vs Zone.fmt / Zone.parse (about which C18_zone_roundtrip / C18_zone_canonical are proved)
            with guarded(part, 'C18 L1 zone', dict(level='L1')):
                from datetime import datetime as _dt, timezone as _tz, timedelta as _td
                from pymap.parsing.exceptions import InvalidContent
                zm = r.choice([0, 1, -1, 59, -59, 60, -60, 330, -210, -570, 840, -720, 1439, -1439, r.randint(-1439, 1439), r.randint(-1439, 1439)])
                zreal = bytes(DateTime(_dt(2020, 1, 1, 12, 0, 0, tzinfo=_tz(_td(minutes=zm)))))[-6:-1]
                zmod = m.ask(f'zone fmt {zm}')
                part.stat('l1-zone')
                if nats(zreal) != zmod:
                    part.violation('correspondence', f'the zone of an offset of {zm} minutes is written {zreal!r}, Zone.fmt gives {bytes(unnats(zmod))!r}', dict(level='L1', zone_minutes=zm), signature='l1-zone-fmt')
                ztxt = r.choice([zreal, zreal, b'-0000', b'+2400', b'+0060', b'+1a00', b'+000', b'+00000', b'Z', b'+9959', b'-2359', b'+2359', b'-0059', bytes(r.choice(b'+-0123456789:Z ') for _ in range(5))])
                try:
                    off = DateTime.parse(b'"01-Jan-2020 12:00:00 ' + ztxt + b'" r', Params())[0].value.utcoffset()
                    zimpl = str(int(off.total_seconds() // 60))
                except (NotParseable, InvalidContent):
                    zimpl = 'none'
                zpm = m.ask('zone parse ' + nats(ztxt))
                if zimpl != zpm:
                    part.violation('correspondence', f'the zone {ztxt!r} is read as {zimpl} minutes, Zone.parse gives {zpm}', dict(level='L1', zone=ztxt.decode('latin1')), signature='l1-zone-parse')
            # ---- the text of a sequence set vs SeqText.parse (about which C18_seqset_roundtrip is proved)
            with guarded(part, 'C18 L1 seqtext', dict(level='L1')):
                from pymap.parsing.specials.sequenceset import MaxValue
                stxt = gen.seqset(r, r.randint(1, 30)).encode() if r.random() < 0.7 else bytes(r.choice(b'0123456789*:,, ') for _ in range(r.randint(0, 8)))
                sbuf = r.choice([b'', b'', b' ', b'  ']) + stxt + r.choice([b'', b' x', b'\r\n', b')', b',', b':', b',x', b' 1', b'*'])

                def show_idx(i_):
                    return '*' if isinstance(i_, MaxValue) else str(i_)
                try:
                    sval, safter = SequenceSet.parse(sbuf, Params())
                    simpl = ' '.join(show_idx(e_) if not isinstance(e_, tuple) else show_idx(e_[0]) + ':' + show_idx(e_[1]) for e_ in sval.sequences) + '|' + nats(bytes(safter))
                except NotParseable:
                    simpl = 'none'
                smod = m.ask('seqtext ' + nats(sbuf))
                part.stat('l1-seqtext')
                part.case(key='seqtext:' + sbuf.hex(), nontrivial=b':' in sbuf or b',' in sbuf)
                if simpl != smod:
                    part.violation('correspondence', f'SequenceSet.parse({sbuf!r}) = {simpl}, SeqText.parse = {smod}', dict(level='L1', seqtext=list(sbuf)), signature='l1-seqtext')
            # ---- the value a flag is known by vs FlagText.norm (C18_flag_norm_idem, C18_flag_case_insensitive, C18_flag_keyword)
            with guarded(part, 'C18 L1 flag', dict(level='L1')):
                base = r.choice([b'\\Seen', b'\\Recent', b'\\Deleted', b'\\Answered', b'\\Flagged', b'\\Draft', b'\\X-custom', b'\\', b'kw', b'$Forwarded', b'NonJunk', b'\\seeN2', b'k\\w', b'\\\xc9t\xe9'])
                sp1 = bytes((c ^ 0x20) if (65 <= c <= 90 or 97 <= c <= 122) and r.random() < 0.4 else c for c in base)
                sp2 = bytes((c ^ 0x20) if (65 <= c <= 90 or 97 <= c <= 122) and r.random() < 0.4 else c for c in base)
                fa, fb = Flag(sp1), Flag(sp2)
                ma, mb = m.ask('flagnorm ' + nats(sp1)), m.ask('flagnorm ' + nats(sp2))
                part.stat('l1-flag')
                part.case(key='flag:' + sp1.hex() + ':' + sp2.hex(), nontrivial=sp1 != sp2)
                if nats(fa.value) != ma:
                    part.violation('correspondence', f'Flag({sp1!r}).value = {fa.value!r}, FlagText.norm = {bytes(unnats(ma))!r}', dict(level='L1', flag=list(sp1)), signature='l1-flag')
                if (fa == fb) != (ma == mb) or (fa == fb and hash(fa) != hash(fb)) or (fa == fb) != (len({fa, fb}) == 1):
                    part.violation('monitor', f'Flag({sp1!r}) and Flag({sp2!r}): equal={fa == fb}, same hash={hash(fa) == hash(fb)}, as a set {len({fa, fb})} element(s); their values are '
                                   f'{"the same" if ma == mb else "different"}', dict(level='L1', flags=[list(sp1), list(sp2)]), signature='flag-eq-hash')
            part.stat('l1-rounds')
    finally:
        m.close()


# ------------------------------------------------------------------ L3: sibling spellings
def spell(r, b, kind):
    """kind: 'astring' (atom allowed) or 'string'"""
    atom_ok = b != b'' and all(0x21 <= c <= 0x7e and c not in b'(){%*"\\]' for c in b)
    if kind == 'listmb':
        # list-mailbox = 1*list-char / string: the wildcards and ] are allowed unquoted
        atom_ok = b != b'' and all(0x21 <= c <= 0x7e and c not in b'(){"\\' for c in b)
        kind = 'astring'
    quoted_ok = all(c not in (0, 10, 13) and c < 0x80 for c in b)
    choices = ['lit', 'lit+']
    if quoted_ok:
        choices.append('quoted')
    if atom_ok and kind == 'astring':
        choices.append('atom')
    c = r.choice(choices)
    if c == 'atom':
        return [b], 'atom'
    if c == 'quoted':
        return [b'"' + b.replace(b'\\', b'\\\\').replace(b'"', b'\\"') + b'"'], 'quoted'
    if c == 'lit+':
        return [b'{%d+}\r\n' % len(b) + b], 'lit+'
    return [b'{%d}\r\n' % len(b), b], 'lit'       # synchronising literal: two pieces, wait for the continuation in between


def build(r, template):
    """template: list of ('w', word) | ('s', bytes, kind) -> list of pieces to send (a new piece after each synchronising literal header)"""
    pieces = [b'']
    how = []
    first = True
    for item in template:
        if not first:
            pieces[-1] += b' '
        first = False
        if item[0] in ('j', 'sj'):
            pieces[-1] = pieces[-1][:-1] if pieces[-1].endswith(b' ') else pieces[-1]       # glued to what precedes it
        if item[0] == 'j':
            pieces[-1] += item[1]
        elif item[0] == 'w':
            w = item[1]
            pieces[-1] += r.choice([w, w.lower(), w.upper(), bytes(c ^ 0x20 if (65 <= c <= 90 or 97 <= c <= 122) and r.random() < 0.5 else c for c in w)])
        elif item[0] == 'raw':
            pieces[-1] += item[1]
        else:
            sp, h = spell(r, item[1], item[2])
            how.append(h)
            pieces[-1] += sp[0]
            if len(sp) == 2:
                pieces.append(sp[1])
    pieces[-1] += b'\r\n'
    return pieces, how


async def send_pieces(c, tag, pieces):
    raw = await c.send(tag + b' ' + pieces[0])
    for p in pieces[1:]:
        last = raw.rstrip(b'\r\n').split(b'\r\n')[-1] if raw else b''
        if not last.startswith(b'+'):
            return raw, False
        raw = await c.send(p)
    return raw, True


def canon(raw):
    """strip human-readable text and random ids from a response"""
    out = []
    try:
        resps = imapresp.parse(raw)
    except imapresp.Malformed as exc:
        return ('MALFORMED', str(exc))
    for r in resps:
        a0 = imapresp.atom(r[0])
        if a0 == b'+':
            continue
        if a0 == b'*':
            kind = imapresp.atom(r[2]) if len(r) > 2 and imapresp.atom(r[1]) and imapresp.atom(r[1]).isdigit() else imapresp.atom(r[1])
            if kind in (b'OK', b'NO', b'BAD'):
                code = imapresp.atom(r[2]) if len(r) > 2 else None
                code = code if code and code.startswith(b'[') else None
                if code and (code.startswith(b'[UIDVALIDITY') or code.startswith(b'[MAILBOXID') or code.startswith(b'[APPENDUID') or code.startswith(b'[COPYUID')):
                    code = code.split(b' ')[0]
                out.append((b'*', kind, code))
            elif kind in (b'LIST', b'LSUB', b'STATUS', b'SEARCH', b'FLAGS', b'FETCH'):
                out.append(tuple(repr(x) for x in r[1:] if not (isinstance(x, imapresp.Tok) and x.val.startswith(b'F') and len(x.val) == 33)))
            else:
                out.append(tuple(repr(x) for x in r[1:3]))
        else:
            code = imapresp.atom(r[2]) if len(r) > 2 else None
            code = code if code and code.startswith(b'[') else None
            if code and (code.startswith(b'[MAILBOXID') or code.startswith(b'[APPENDUID') or code.startswith(b'[UIDVALIDITY') or code.startswith(b'[COPYUID')):
                code = code.split(b' ')[0] + b' ' + b' '.join(code.split(b' ')[2:])
            out.append((b'tagged', imapresp.atom(r[1]), code))
    return tuple(out)


def gen_program(r):
    names = [gen_name(r) or 'n', r.choice(['plain', 'with space', 'q"uote', 'back\\slash', 'é', 'a&b', '中', 'x/y'])]
    enc = [mutf7.encode(n) for n in names]
    subj = r.choice([b'hello', b'two words', b'q"x', b'', b'caf\xc3\xa9'.decode('utf-8').encode('ascii', 'ignore') or b'cafe'])
    if r.random() < 0.3:
        # around the limit on the length of an ordinary string argument: refused or accepted, but the same however it is spelled
        subj = b'a' * r.choice([4095, 4096, 4097, 5000])
    # now and then longer than any limit that applies to ordinary string arguments (4096), but not to a message
    msg = b'Subject: hello two words q"x\r\n\r\nbody\r\n' + (b'0123456789abcdef' * r.choice([300, 1300]) + b'\r\n' if r.random() < 0.4 else b'')
    prog = [
        [('w', b'LOGIN'), ('s', b'u', 'astring'), ('s', b'p w"x', 'astring')],
        [('w', b'CREATE'), ('s', enc[0], 'astring')],
        [('w', b'CREATE'), ('s', enc[1], 'astring')],
        [('w', b'SUBSCRIBE'), ('s', enc[1], 'astring')],
        [('w', b'APPEND'), ('s', enc[0], 'astring'), ('raw', b'(\\Seen)'), ('s', msg, 'string')],
        [('w', b'STATUS'), ('s', enc[0], 'astring'), ('raw', b'(MESSAGES UIDNEXT)')],
        [('w', b'LIST'), ('s', b'', 'astring'), ('s', b'*', 'string')],
        [('w', b'LSUB'), ('s', b'', 'astring'), ('s', r.choice([b'%', b'*', enc[1]]), 'string')],
        # the pattern is a list-mailbox: an encoded name (with its & shifts) may be sent bare, and means the same as quoted
        [('w', b'LIST'), ('s', b'', 'astring'), ('s', r.choice([enc[0], enc[1], enc[1] + b'%', enc[0] + b'*']), 'listmb')],
        [('w', b'LSUB'), ('s', b'', 'astring'), ('s', r.choice([enc[1], enc[1] + b'*']), 'listmb')],
        [('w', b'LIST'), ('s', r.choice([enc[0], enc[1], b'']), 'astring'), ('s', r.choice([b'*', b'%', b'']), 'listmb')],
        [('w', b'SELECT'), ('s', enc[0], 'astring')],
        [('w', b'SEARCH'), ('w', b'SUBJECT'), ('s', subj, 'astring')],
        [('w', b'SEARCH'), ('w', b'HEADER'), ('s', b'Subject', 'astring'), ('s', subj, 'astring')],
        # header-fld-name is an astring too (and the item name is echoed back)
        [('w', b'FETCH'), ('raw', b'1'), ('raw', b'(BODY.PEEK[HEADER.FIELDS ('), ('sj', r.choice([b'Subject', b'subject', b'X-None']), 'astring'), ('j', b')])')],
        [('w', b'FETCH'), ('raw', b'1'), ('raw', b'(BODY.PEEK[HEADER.FIELDS.NOT ('), ('sj', b'Subject', 'astring'), ('s', b'From', 'astring'), ('j', b')])')],
        [('w', b'STORE'), ('raw', b'1'), ('w', b'+FLAGS'), ('raw', b'(\\Flagged)')],
        [('w', b'COPY'), ('raw', b'1'), ('s', enc[1], 'astring')],
        [('w', b'CLOSE')],
        [('w', b'RENAME'), ('s', enc[1], 'astring'), ('s', mutf7.encode(names[1] + '2'), 'astring')],
        [('w', b'STATUS'), ('s', mutf7.encode(names[1] + '2'), 'astring'), ('raw', b'(MESSAGES UNSEEN)')],
        [('w', b'DELETE'), ('s', enc[0], 'astring')],
        [('w', b'LIST'), ('s', b'', 'astring'), ('s', b'*', 'string')],
    ]
    return prog, names


async def run_spelling(r, prog):
    from pymap.imap import IMAPServer
    be, config = await backends.make_dict(users=[('u', 'p w"x', ())], bad_command_limit=None)
    srv = IMAPServer(be.login, config)
    c = wire.Client(srv)
    await c.start()
    out = []
    hows = []
    raws = []
    for t in prog:
        pieces, how = build(r, t)
        raw, complete = await send_pieces(c, b'a', pieces)
        out.append(canon(raw))
        hows.append(how)
        raws.append(raw)
    await c.eof()
    return out, hows, raws


def l3(part, r, n):
    for _ in range(n):
        prog, names = gen_program(r)
        case = dict(level='L3', names=[[ord(ch) for ch in nm] for nm in names])
        with guarded(part, 'C18 L3 spellings', case):
            base, how0, raws0 = asyncio.run(run_spelling(random.Random(0), prog))
            for v in range(r.randint(2, 3)):
                seed = r.randrange(1 << 30)
                other, how, raws = asyncio.run(run_spelling(random.Random(seed), prog))
                part.case(key=repr((names, seed)), nontrivial=any(h in ('lit', 'lit+', 'quoted') for hh in how for h in hh),
                          sample=dict(names=names, spellings=how[:6]))
                part.trace()
                for j, (a, b) in enumerate(zip(base, other)):
                    if a != b:
                        part.violation('monitor', f'command #{j} ({prog[j][0][1].decode()}) answers differently under two spellings of the same arguments {how0[j]} vs {how[j]}: '
                                       f'{raws0[j][:200]!r} vs {raws[j][:200]!r} (names {names})', dict(case, at=j, seed=seed), signature='spelling:' + prog[j][0][1].decode())
                        break
            # reported names decode to the names
            listing = raws0[6]
            try:
                for resp in imapresp.untagged(imapresp.parse(listing)):
                    if imapresp.atom(resp[1]) == b'LIST':
                        mutf7.decode(resp[4].val)
                got = {mutf7.decode(resp[4].val) for resp in imapresp.untagged(imapresp.parse(listing)) if imapresp.atom(resp[1]) == b'LIST'}
                for nm in names:
                    if nm.upper() != 'INBOX' and nm not in got and base[1][-1][1] == b'OK':
                        part.violation('monitor', f'created mailbox {nm!r} is not reported by LIST under a spelling that decodes to it: {sorted(got)}', case, signature='reported-name')
            except (ValueError, imapresp.Malformed) as exc:
                part.violation('monitor', f'LIST reports a name that is not valid modified UTF-7 / a malformed line ({exc}): {listing[:200]!r}', case, signature='reported-name-invalid')


def worker(job):
    seed, n1, n3 = job
    r = random.Random(seed)
    part = Part()
    l1(part, r, n1)
    l1_framing(part, r, max(50, n1 // 2))
    l1_astring(part, r, max(60, n1 // 2))
    l3(part, r, n3)
    return part.result()


def l1_framing(part, r, n):
    """`IMAPConnection.readline` on a byte stream vs `Framing.readCmd` (about which C18_framing is proved): how many bytes one command takes"""
    from pymap.imap import IMAPConnection
    lits = [b'', b'x', b'ends in {5+}', b'{5+}', b'{5+}\r\n', b'a {2', b'\r\n', b'{0+}\r\n{1+}\r\n', b'{12345678901234567890+}', b'}', b'+}\r\n', b'\xe9\xe9\\\xe9a {2', b'\n']
    texts = [b'', b'a APPEND INBOX ', b' ', b'000+}', b'x {3}', b'{', b'{+}', b'{1+', b'a LOGIN ', b'\r', b'{5 +}', b'{-1+}', b' {05+}']
    streams = []
    for _ in range(n):
        x = r.random()
        if x < 0.7:
            s = b''
            for _ in range(r.randint(0, 3)):
                lit = r.choice(lits) if r.random() < 0.7 else gen.raw_bytes(r, 12)
                s += r.choice(texts) + b'{%d+}' % len(lit) + r.choice([b'\r\n', b'\n']) + lit
            s += r.choice(texts) + r.choice([b'\r\n', b'\n', b''])
            s += r.choice([b'', b'b NOOP\r\n', b'{3+}\r\nabc\r\n'])
        else:
            s = gen.raw_bytes(r, 40).replace(b'\x00', b'{1+}\n')
        if r.random() < 0.15:
            s = s[:r.randint(0, len(s))]
        streams.append(s)
    res = batch(['frame ' + nats(s) for s in streams])

    from pymap.sieve.manage import ManageSieveConnection

    async def real(s):
        out = []
        for cls, meth in ((IMAPConnection, 'readline'), (ManageSieveConnection, '_read_data')):
            conn = cls.__new__(cls)
            conn.reader = asyncio.StreamReader()
            conn.reader.feed_data(s)
            conn.reader.feed_eof()
            try:
                out.append(str(len(await getattr(conn, meth)())))
            except (EOFError, asyncio.IncompleteReadError):
                out.append('none')
        return out
    import signal

    class Spin(Exception):
        pass

    def alarm(signum, frame):
        raise Spin()
    old_handler = signal.signal(signal.SIGPROF, alarm)
    for s, mres in zip(streams, res):
        with guarded(part, 'C18 L1 framing', dict(level='L1', stream=list(s))):
            signal.setitimer(signal.ITIMER_PROF, 2.0)
            try:
                got = asyncio.run(real(s))
            except Spin:
                got = 'spin'
                part.violation('monitor', f'IMAPConnection.readline spins without reading anything on {s[:120]!r} (stream ended)', dict(level='L1', stream=list(s)),
                               signature='framing-spin')
            finally:
                signal.setitimer(signal.ITIMER_PROF, 0)
            part.stat('l1-framing')
            part.case(key='frame:' + s.hex()[:200], nontrivial=b'+}' in s)
            if got != 'spin':
                for who, g in zip(('IMAPConnection.readline', 'ManageSieveConnection._read_data'), got):
                    if g != mres:
                        part.violation('correspondence', f'{who} took {g} bytes of {s[:120]!r}, Framing.readCmd {mres}', dict(level='L1', stream=list(s)), signature='l1-framing')
    signal.signal(signal.SIGPROF, old_handler)


def l1_astring(part, r, n):
    """`AString.parse` (atom / quoted / {n+} literal, with the length limit) vs `AStr.parse` (about which C18_astring_spelling is proved), and the
    metamorphic statement itself on the real parser: the spellings of one value parse to the same value and rest, or are all refused"""
    from pymap.parsing import Params
    from pymap.parsing.exceptions import NotParseable, UnexpectedType
    from pymap.parsing.specials import AString
    atom_chars = bytes(c for c in range(0x21, 0x7f) if c not in b'"%()*\\{}')
    jobs = []
    for _ in range(n):
        lim = r.choice([4096, 4096, 4096, 5, 0, 17])
        x = r.random()
        if x < 0.25:
            v = bytes(r.choice(atom_chars) for _ in range(r.choice([1, 2, 5, 6, 17, 18, 30])))
        elif x < 0.45:
            v = b'a' * r.choice([4095, 4096, 4097, 5000])
        else:
            v = gen_bytes(r)
        rest = r.choice([b'', b' x', b'\r\n', b')', b'"', b' {3+}\r\nabc', b'a', b'~', b'{', b'\x00'])
        lead = r.choice([b'', b'', b' ', b'   '])
        spellings = {'lit+': b'{%d+}' % len(v) + r.choice([b'\r\n', b'\n']) + v}
        if all(c not in (10, 13) for c in v):
            spellings['quoted'] = b'"' + v.replace(b'\\', b'\\\\').replace(b'"', b'\\"') + b'"'
        if v and all(c in atom_chars for c in v) and not (rest[:1] and rest[0] in atom_chars):
            spellings['atom'] = v
        jobs.append((lim, v, rest, lead, spellings))
        # and bytes that are no spelling of anything
        if r.random() < 0.3:
            junk = r.choice([b'{3}\r\nabc', b'~{2+}\r\nab', b'{+}\r\n', b'{2+}\r\na', b'{1+}x', b'"abc', b'"a\\x"', b'"a\rb"', b'', b' ', b'{02+}\nab c', b'%', b'"\\""', b'{1 +}\r\na',
                             b'{99999999999999999999+}\r\n', gen_bytes(r)])
            jobs.append((lim, None, b'', r.choice([b'', b' ']), {'junk': junk}))
    lines, index = [], []
    for j, (lim, v, rest, lead, spellings) in enumerate(jobs):
        for how, sp in spellings.items():
            lines.append(f'astring {lim} {nats(lead + sp + rest)}')
            index.append((j, how))
    res = batch(lines)

    def real(lim, buf):
        # the limit is a class constant for ordinary commands and a configuration value for APPEND: both paths are exercised
        if lim == 4096:
            params = Params(allow_continuations=False)
        else:
            params = Params(command_name=b'APPEND', max_append_len=lim, allow_continuations=False)
        try:
            got, after = AString.parse(memoryview(buf), params)
            return nats(got.value) + '|' + nats(bytes(after))
        except (NotParseable, UnexpectedType):
            return 'none'
    seen = {}
    for (j, how), mres in zip(index, res):
        lim, v, rest, lead, spellings = jobs[j]
        buf = lead + spellings[how] + rest
        case = dict(level='L1', astring=list(buf[:300]), limit=lim, spelling=how, length=len(buf))
        with guarded(part, 'C18 L1 astring', case):
            got = real(lim, buf)
            part.stat('l1-astring:' + how)
            part.case(key=f'astr:{lim}:{how}:' + buf[:80].hex() + f':{len(buf)}', nontrivial=how != 'atom')
            if got != mres:
                part.violation('correspondence', f'AString.parse({buf[:80]!r}…, limit {lim}) = {got[:80]}, AStr.parse = {mres[:80]}', case, signature='l1-astring')
            if v is not None:
                seen.setdefault(j, {})[how] = got
                want = (nats(v) + '|' + nats(rest)) if len(v) <= lim else 'none'
                if got != want:
                    part.violation('monitor', f'the {how} spelling of a {len(v)}-byte value {v[:40]!r} followed by {rest!r} parses to {got[:80]} under the limit {lim}; '
                                   f'the value and the rest are {want[:80]}', case, signature='astring-' + how)
    for j, outs in seen.items():
        if len(set(outs.values())) > 1:
            lim, v, rest, lead, spellings = jobs[j]
            part.violation('monitor', f'spellings of one {len(v)}-byte value {v[:40]!r} parse differently under the limit {lim}: ' + ', '.join(f'{h}: {o[:40]}' for h, o in outs.items()),
                           dict(level='L1', value=list(v[:300]), length=len(v), limit=lim), signature='astring-spellings-differ')


def run(ctx):
    ctx.rep.rule = RULE
    ctx.rep.assumptions = ["Python's lenient utf-7 *decoder* on malformed input is not modelled (the model rejects; agreement is required only where the model accepts)",
                           'strptime leniencies of DateTime.parse are not explored: dates are generated in the fixed RFC format']
    nw = ctx.workers
    ctx.pmap(worker, [(ctx.seed * 1000 + 800 + k, ctx.budget(400, 8000), ctx.budget(6, 120)) for k in range(nw)])


def replay(case):
    case = case.get('case', case)
    print(case)
    print('re-run the check with the same VERIF_SEED to reproduce')
    return 0
