"""C10 — message commands behave as the IMAP reference model says.

Tie: single-session programs, real server (dict) vs the Lean `Server` model command by command; `Server.store/expunge/
append` are `Session.storeCmd/expungeCmd/appendCmd`, which C10_store_refines / C10_expunge_refines / C10_append_refines
prove equal to the plain reference model `PymapSpec/Imap.lean`; `SequenceSet.flatten` vs `Seq.flatten` (C10_seqset) at L1.
Monitor: an independent Python rendering of the plain reference model (RFC 3501 semantics, own sequence-set evaluator)
is stepped alongside the real server on dict *and* maildir; after every command a probe connection dumps all mailboxes
(UID, FLAGS, size, INTERNALDATE) and the dump must equal the reference state; FETCH/STORE results are compared too.
"""
from __future__ import annotations
import asyncio
import random

from .common import l3, gen
from .common.model import Model, nats
from .common.report import Part, guarded

RULE = ('single-session programs over APPEND/STORE(.SILENT)/EXPUNGE/UID EXPUNGE/COPY/MOVE/FETCH(BODY[] and .PEEK)/CLOSE/SELECT/EXAMINE with all '
        'sequence-set shapes and flag sets incl. keywords, on dict, maildir(++) and maildir(fs); after every command all mailboxes are dumped and '
        'compared with the reference; non-trivial = the program changed flags or removed/copied a message through a multi-element or *-containing set; '
        'distinct by program text and backend')

PROFILE = dict(weights=dict(select=4, close=3, noop=3, check=1, append=12, store=22, fetch=10, expunge=9, uidexpunge=5, copy=8, move=7, search=0),
               examine=0.15, recent_in_flags=0.06, final_noops=False)


class Ref:
    """the plain reference model: three mailboxes, lists of [uid, flags(set), cid, day] in uid order"""

    def __init__(self, uid_base, keeps_keywords):
        self.boxes = [[], [], []]
        self.next = [uid_base + 1] * 3
        self.sel = None          # (box, readonly) of the session whose command is being applied
        self.sels = {}
        self.kk = keeps_keywords

    def msgs(self):
        return self.boxes[self.sel[0]]

    def targets(self, byuid, sset):
        ms = self.msgs()
        if byuid:
            mx = ms[-1][0] if ms else 0
            want = l3.rfc_set(sset, mx)
            return [m for m in ms if m[0] in want]
        want = l3.rfc_set(sset, len(ms))
        return [m for k, m in enumerate(ms, 1) if k in want]

    def step(self, op):
        self.sel = self.sels.get(op[1])
        r = self._step(op)
        self.sels[op[1]] = self.sel
        return r

    def _step(self, op):
        """returns (status, expected own results or None)"""
        k = op[0]
        if k == 'select':
            self.sel = None
            if op[2] > 2:
                return 'NO', None
            self.sel = (op[2], bool(op[3]))
            return 'OK', None
        if k == 'noop':
            return 'OK', None
        if k == 'append':
            _, i, box, fl, cid, day, _ = op
            if box > 2:
                return 'NO', None
            flags = set(f for f in fl if f != 9 and (self.kk or f < 5))
            self.boxes[box].append([self.next[box], flags, cid, 1 + day % 28])
            self.next[box] += 1
            return 'OK', None
        if self.sel is None:
            return 'BAD', None
        ro = self.sel[1]
        if k == 'check':
            return 'OK', None
        if k == 'close':
            if not ro:
                self.boxes[self.sel[0]] = [m for m in self.msgs() if 3 not in m[1]]
            self.sel = None
            return 'OK', None
        if k == 'store':
            _, i, byuid, sset, mode, fl, silent = op
            if ro:
                return 'NO', None
            operand = set(f for f in fl if f < 5)
            res = {}
            for m in self.targets(byuid, sset):
                if mode == 0:
                    m[1] = set(operand)
                elif mode == 1:
                    m[1] |= operand
                else:
                    m[1] -= operand
                res[m[0]] = tuple(sorted(m[1]))
            return 'OK', (None if silent else res)
        if k == 'fetch':
            _, i, byuid, sset, attrs = op
            res = {}
            for m in self.targets(byuid, sset):
                if l3.sets_seen(attrs) and not ro:
                    m[1].add(0)
                res[m[0]] = tuple(sorted(m[1]))
            return 'OK', (res if 'FLAGS' in attrs else {u: None for u in res})
        if k == 'expunge':
            if ro:
                return 'NO', None
            ms = self.msgs()
            if op[2]:
                mx = ms[-1][0] if ms else 0
                want = l3.rfc_set(op[2], mx)
                self.boxes[self.sel[0]] = [m for m in ms if not (3 in m[1] and m[0] in want)]
            else:
                self.boxes[self.sel[0]] = [m for m in ms if 3 not in m[1]]
            return 'OK', None
        if k == 'copy':
            _, i, move, byuid, sset, dest, _ = op
            if move and ro:
                return 'NO', None           # MOVE would remove messages from a read-only selection
            if dest > 2:
                return 'NO', None
            tg = self.targets(byuid, sset)
            pairs = []
            for m in tg:
                self.boxes[dest].append([self.next[dest], set(m[1]), m[2], m[3]])
                pairs.append((m[0], self.next[dest]))
                self.next[dest] += 1
            if move:
                gone = {m[0] for m in tg}
                self.boxes[self.sel[0]] = [m for m in self.boxes[self.sel[0]] if m[0] not in gone]
            return 'OK', ('copyuid', pairs)
        return 'OK', None

    def dump(self, b):
        return [(m[0], tuple(sorted(m[1])), m[2], m[3]) for m in self.boxes[b]]


def reference_monitor(part, backend, prog, canon, dumps, case, multi=False):
    ref = Ref(100 if backend == 'dict' else 0, backend == 'dict')
    for j, (op, c) in enumerate(zip(prog, canon)):
        status, expect = ref.step(op)
        if multi:
            expect = None       # several sessions: only the mailbox contents after every command are compared (views differ between sessions)
        if c[0] != status:
            part.violation('monitor', f'{backend}: command #{j} {op} answered {c[0]}, the reference model says {status}', dict(case, at=j),
                           signature='ref-status')
            return
        # results of the command itself
        if isinstance(expect, dict):
            got = {}
            seqs = {}
            for it in c[2]:
                if it[0] == 'FETCH':
                    seqs[it[1]] = it
            # map sequence numbers to uids through the reference state (single session: view = mailbox *before* removals of this command)
            if op[0] in ('store', 'fetch'):
                ms = ref.msgs()
                for n, it in seqs.items():
                    if 1 <= n <= len(ms):
                        u = it[4] if it[4] is not None else ms[n - 1][0]
                        if it[4] is not None and it[4] != ms[n - 1][0]:
                            part.violation('monitor', f'{backend}: command #{j} {op}: FETCH {n} labelled UID {it[4]}, the reference has UID {ms[n - 1][0]} at {n}',
                                           dict(case, at=j), signature='ref-label')
                        got[u] = it[2]
                missing = set(expect) - set(got)
                extra = {u for u in set(got) - set(expect) if op[0] == 'fetch'}
                if missing or extra:
                    part.violation('monitor', f'{backend}: command #{j} {op} addressed uids {sorted(got)}, the reference model addresses {sorted(expect)}',
                                   dict(case, at=j), signature='ref-targets')
                    return
                for u, fl in expect.items():
                    if fl is not None and got.get(u) is not None and got[u] != fl:
                        part.violation('monitor', f'{backend}: command #{j} {op}: flags reported for uid {u} are {got[u]}, the reference model has {fl}',
                                       dict(case, at=j), signature='ref-result-flags')
                        return
        elif isinstance(expect, tuple) and expect[0] == 'copyuid':
            pairs = expect[1]
            want = f'COPYUID {l3.mnats([a for a, _ in pairs])} {l3.mnats([b for _, b in pairs])}' if pairs else ''
            if c[1] != want:
                part.violation('monitor', f'{backend}: command #{j} {op}: response code {c[1]!r}, the reference model gives {want!r}', dict(case, at=j),
                               signature='ref-copyuid')
                return
        if dumps[j] is None:
            continue
        for b in range(3):
            real = dumps[j][b][0]
            if real != ref.dump(b):
                part.violation('monitor', f'{backend}: after command #{j} {op} mailbox {b} holds {real}, the reference model {ref.dump(b)}',
                               dict(case, at=j, box=b), signature='ref-contents')
                return


def nontrivial(prog):
    def sset(o):
        return o[3] if o[0] == 'store' else o[4]
    multi = any(o[0] in ('store', 'copy') and any(ch in sset(o) for ch in ',*:') for o in prog)
    return multi and any(o[0] == 'expunge' for o in prog)


def run_cases(part, cases):
    done = {'dict': [], 'maildir': [], 'maildir-fs': []}
    for backend, prog in cases:
        nsess = 1 + max(op[1] for op in prog)
        with guarded(part, f'C10 run {backend}', dict(backend=backend, nsess=nsess, program=prog)):
            dumps = []
            ext, outs, final = asyncio.run(l3.run_real(nsess, prog, backend=backend, dump_each=dumps, dumps=(backend == 'dict')))
            done[backend].append((nsess, ext, outs, final, dumps))
    # Lean correspondence (dict only: the Server model is the dict backend)
    l3.judge(part, [(n, e, o, f) for (n, e, o, f, d) in done['dict']], 'C10')
    for backend, lst in done.items():
        for (n, ext, outs, final, dumps) in lst:
            canon, errors, nt, shadows = l3.analyse(n, ext, outs)
            case = dict(backend=backend, nsess=n, program=ext)
            if backend != 'dict':
                part.case(key=backend + repr(ext), nontrivial=nontrivial(ext), sample=dict(backend=backend, program=[' '.join(map(str, o)) for o in ext[:10]]))
                for e in errors:
                    part.violation('monitor', f'{backend}: {e}', case, signature='shadow')
            reference_monitor(part, backend, ext, canon, dumps, case, multi=n > 1)
            part.stat('backend:' + backend + (':two-sessions' if n > 1 else ''))


def gen_two_sessions(r, backend, length):
    """two sessions on one mailbox, addressing by explicit UIDs only (no `*`, no sequence numbers), so that the plain reference model
    needs no notion of a view: a session's copy of a message may be *stale* (the other session changed its flags since) but it always
    knows which messages exist — after an APPEND the other session runs NOOP before its next command"""
    base = 100 if backend == 'dict' else 0
    prog = [['select', 0, 0, False], ['select', 1, 0, False]]
    n = 0
    cid = 1
    for _ in range(r.randint(2, 4)):
        prog.append(['append', 0, 0, sorted(r.sample([0, 1, 2, 3, 4], r.randint(0, 2))), cid, r.randint(0, 5), 0])
        n += 1
        cid += 1
    prog += [['noop', 0], ['noop', 1]]

    def uset():
        us = r.sample(range(base + 1, base + n + 1), r.randint(1, min(3, n)))
        return ','.join(f'{u}:{u}' if r.random() < 0.15 else str(u) for u in us)
    for _ in range(length):
        i = r.randrange(2)
        k = r.choice(['store', 'store', 'store', 'store', 'fetch', 'fetch', 'fetch', 'uidexpunge', 'copy', 'append', 'noop'])
        if k == 'store':
            prog.append(['store', i, True, uset(), r.choice([0, 1, 1, 2, 2]), sorted(r.sample([0, 1, 2, 3, 4], r.randint(0, 2))), r.random() < 0.3])
        elif k == 'fetch':
            prog.append(['fetch', i, True, uset(), r.choice([['BODY[]'], ['BODY[]'], ['RFC822'], ['BODY.PEEK[]'], ['FLAGS'], ['FLAGS', 'BODY[]'], ['BODY[HEADER]'], ['BODY[TEXT]'], ['BODY[HEADER.FIELDS (SUBJECT)]'], ['RFC822.HEADER'], ['BODY.PEEK[HEADER]']])])
        elif k == 'uidexpunge':
            prog.append(['expunge', i, uset()])
        elif k == 'copy':
            prog.append(['copy', i, r.random() < 0.3, True, uset(), r.choice([1, 2]), 0])
        elif k == 'append':
            prog.append(['append', i, 0, sorted(r.sample([0, 1, 2, 3, 4], r.randint(0, 2))), cid, r.randint(0, 5), 0])
            prog.append(['noop', 1 - i])
            n += 1
            cid += 1
        else:
            prog.append(['noop', i])
    return prog


def l1_set_seen(part, r, n):
    """which data items make a FETCH set \\Seen: `FetchAttribute.set_seen` on parsed items vs RFC 3501 6.4.5 / RFC 3516 as `l3.sets_seen` states it - every
    shape of section, partial, part number, header list, with and without .PEEK, in any letter case"""
    from pymap.parsing import Params
    from pymap.parsing.exceptions import NotParseable
    from pymap.parsing.specials import FetchAttribute
    sections = ['', 'HEADER', 'TEXT', '1', '1.2', '1.MIME', '2.HEADER', '1.TEXT', 'HEADER.FIELDS (SUBJECT)', 'HEADER.FIELDS.NOT (X-A "q q")', '1.HEADER.FIELDS (TO)']
    for _ in range(n):
        x = r.random()
        if x < 0.6:
            base = r.choice(['BODY', 'BODY.PEEK', 'BINARY', 'BINARY.PEEK', 'BINARY.SIZE'])
            sec = r.choice(sections if base.startswith('BODY') else ['', '1', '1.2'])
            txt = f'{base}[{sec}]' + (r.choice(['', '', '<0.5>', '<3.1>']) if base != 'BINARY.SIZE' else '')
        else:
            txt = r.choice(['RFC822', 'RFC822.TEXT', 'RFC822.HEADER', 'RFC822.SIZE', 'FLAGS', 'UID', 'INTERNALDATE', 'ENVELOPE', 'BODY', 'BODYSTRUCTURE', 'EMAILID', 'THREADID'])
        spelled = ''.join(ch.lower() if r.random() < 0.3 else ch for ch in txt)
        try:
            attr, _ = FetchAttribute.parse(memoryview(spelled.encode() + b' '), Params())
        except NotParseable:
            part.stat('l1-set-seen:unparsed')
            continue
        want = l3.sets_seen([txt])
        part.stat('l1-set-seen')
        part.case(key='seen:' + spelled, nontrivial='[' in txt)
        if bool(attr.set_seen) != want:
            part.violation('monitor', f'FETCH {spelled}: set_seen = {bool(attr.set_seen)}; RFC 3501 6.4.5 / RFC 3516: {"sets" if want else "does not set"} \\Seen', dict(level='L1', attribute=spelled),
                           signature='l1-set-seen')


def worker(job):
    seed, ncases, maxlen, corpus = job
    r = random.Random(seed)
    part = Part()
    cases = [(c['backend'], c['program']) for c in corpus]
    for k in range(ncases):
        backend = ['dict', 'dict', 'maildir', 'maildir-fs'][k % 4]
        if k % 3 == 2:
            prog = gen_two_sessions(r, backend, r.randint(4, maxlen))
        else:
            prog = l3.gen_program(r, 1, r.randint(4, maxlen), PROFILE, uid_base=100 if backend == 'dict' else 0)
        cases.append((backend, prog))
    run_cases(part, cases)
    l1_seq(part, random.Random(seed + 3), ncases * 20)
    with guarded(part, 'C10 L1 set_seen', dict(level='L1', seed=seed)):
        l1_set_seen(part, random.Random(seed + 4), ncases * 10)
    return part.result()


def l1_seq(part, r, n):
    from pymap.parsing.specials.sequenceset import SequenceSet, MaxValue
    from pymap.parsing import Params
    m = Model()
    try:
        for _ in range(n):
            mx = r.randint(0, 9)
            txt = gen.seqset(r, mx)
            with guarded(part, 'C10 L1 seqset', dict(level='L1', set=txt, max=mx)):
                ss, rest = SequenceSet.parse(txt.encode() + b' ', Params())
                impl = sorted(ss.flatten(mx))
                mod = sorted(set(int(x) for x in m.ask(f'seqflat {mx} {gen.seqset_model(txt)}').split(',') if x != '-'))
                ref = sorted(x for x in l3.rfc_set(txt, mx) if 1 <= x <= mx) if mx > 0 else []
                part.case(key=f'seq:{mx}:{txt}', nontrivial=('*' in txt or ':' in txt) and mx > 1)
                part.stat('l1-seqset-cases')
                if impl != mod:
                    part.violation('correspondence', f'SequenceSet({txt}).flatten({mx}) = {impl}, Seq.flatten = {mod}', dict(level='L1', set=txt, max=mx),
                                   signature='l1-seqset')
                if mx > 0 and [x for x in impl if x >= 1] != ref:
                    part.violation('monitor', f'SequenceSet({txt}).flatten({mx}) = {impl}, RFC 3501 meaning = {ref}', dict(level='L1', set=txt, max=mx),
                                   signature='l1-seqset-rfc')
    finally:
        m.close()


CORPUS = [
    dict(backend='dict', program=[['select', 0, 0, False], ['append', 0, 0, [3, 5], 1, 0, 0], ['append', 0, 0, [], 2, 1, 0], ['append', 0, 0, [0], 3, 2, 0],
                                  ['noop', 0], ['store', 0, False, '3:1', 1, [3, 6], False], ['store', 0, True, '*', 2, [3], False], ['fetch', 0, False, '2:*', ['BODY[]']],
                                  ['copy', 0, False, False, '1,3', 1, 0], ['copy', 0, True, True, '2:*', 2, 0], ['expunge', 0, '101'], ['expunge', 0, None], ['close', 0]]),
    dict(backend='maildir', program=[['select', 0, 0, False], ['append', 0, 0, [3], 1, 0, 0], ['append', 0, 0, [], 2, 1, 0], ['noop', 0],
                                     ['copy', 0, False, False, '1:2', 1, 0], ['copy', 0, True, False, '2', 2, 0], ['store', 0, False, '1', 1, [1], True], ['expunge', 0, None],
                                     ['select', 0, 1, False], ['fetch', 0, False, '1:*', ['FLAGS', 'BODY[]']], ['close', 0]]),
]


def run(ctx):
    ctx.rep.rule = RULE
    ctx.rep.assumptions = ['single session (the view equals the mailbox): what a session is *told* in the multi-session case is C01/C02; a third of the programs run two '
                           'sessions addressing by explicit UIDs, for which only the mailbox contents after every command are compared',
                           'dict keeps keywords given to APPEND, maildir drops them (neither offers keywords in PERMANENTFLAGS)']
    nw = ctx.workers
    ncases = ctx.budget(24, 400)
    jobs = [(ctx.seed * 1000 + 100 + k, ncases, ctx.budget(14, 40), CORPUS if k == 0 else []) for k in range(nw)]
    ctx.pmap(worker, jobs)


def replay(case):
    part = Part()
    case = case.get('case', case)
    if case.get('level') == 'L1':
        print('L1 case', case)
        return 0
    run_cases(part, [(case.get('backend', 'dict'), case['program'])])
    res = part.result()
    for v in res['violations']:
        print(f"[{v['kind']}] {v['what']}")
    print('reproduced' if res['violations'] else 'not reproduced')
    return 1 if res['violations'] else 0
