"""C01 — sequence numbers: the client view never diverges from the server.

Tie: real IMAP connections (dict backend) vs the Lean `Server` model (which composes `Sync.addUpdates`, `Sync.compare`,
`Mailbox.updateSelected`, `Session.targets` — the functions C01_coherent / C01_fork_sync / C01_hide_no_expunge /
C01_fetch_labels / C01_system are about — with the repaired response assembly, merge_same_message) on random
command-atomic interleavings of 1-4 sessions; canonical untagged streams are diffed per command.
L1: `SelectedMailbox.add_updates` + `fork` vs `Sync.addUpdates` + `Sync.compare` on adversarial deliveries.
Monitor: a shadow client per session applies every untagged response in order (the property's own statement).
"""
from __future__ import annotations
import asyncio
import random

from .common import l3, imapresp
from .common.model import Model, nats
from .common.report import Part, guarded

RULE = ('random programs of SELECT/EXAMINE/APPEND/STORE(.SILENT)/FETCH/EXPUNGE/UID EXPUNGE/COPY/MOVE/SEARCH/NOOP/CHECK/CLOSE by 1-4 '
        'sessions on 3 mailboxes, all sequence-set shapes, command-atomic interleavings; non-trivial = some session received an EXPUNGE '
        'or EXISTS caused by another session; distinct by program text')


def worker(job):
    seed, ncases, maxlen, corpus = job
    r = random.Random(seed)
    part = Part()
    cases = [(c['nsess'], c['program']) for c in corpus]
    for _ in range(ncases):
        nsess = r.choice([1, 2, 2, 3, 3, 4])
        prog = l3.gen_program(r, nsess, r.randint(3, maxlen), PROFILE)
        cases.append((nsess, l3.final_probes(prog, nsess)))
    done = []
    for nsess, prog in cases:
        with guarded(part, 'C01 L3 run', dict(nsess=nsess, program=prog)):
            ext, outs, final = asyncio.run(l3.run_real(nsess, prog))
            done.append((nsess, ext, outs, final))
    l3.judge(part, done, 'C01')
    # maildir (no model: sessions do not share their selections there): the shadow client alone.  Messages travel between two mailboxes and back - a file that
    # returns keeps its name, and whatever the source still remembers about it must not bring an old number back to life under the sessions that watched it go
    for k in range(max(6, ncases // 3)):
        nsess = r.choice([2, 2, 3])
        prof = dict(PROFILE, main_box=0, weights=dict(PROFILE.get('weights', {}), move=22, copy=6, select=10, noop=14, expunge=4, append=8, store=6, fetch=10, check=0))
        prog = l3.gen_program(r, nsess, r.randint(8, maxlen + 6), prof, uid_base=0)
        # one session sits in the other mailbox and sends things back
        prog[nsess - 1:nsess] = [['select', nsess - 1, 1, False]]
        prog = [(['copy', nsess - 1, True, op[3], op[4], 0, op[6]] if op[0] == 'copy' and op[1] == nsess - 1 else op) for op in prog]
        prog = [(op[:5] + [1] + op[6:] if op[0] == 'copy' and op[1] != nsess - 1 and op[2] else op) for op in prog]
        backend = r.choice(['maildir', 'maildir-fs'])
        with guarded(part, 'C01 maildir run', dict(nsess=nsess, program=prog, backend=backend)):
            ext, outs, final = asyncio.run(l3.run_real(nsess, l3.final_probes(prog, nsess), backend=backend))
            case = dict(nsess=nsess, program=ext, backend=backend)
            canon, errors, nt, shadows = l3.analyse(nsess, ext, outs)
            for e in errors:
                part.violation('monitor', f'{backend}: {e}', case, signature='shadow')
            part.case(key=backend + repr(ext), nontrivial=bool(nt), sample=dict(backend=backend, nsess=nsess, program=[' '.join(map(str, o)) for o in ext[:10]]))
            part.stat('backend:' + backend)
    for k in range(max(20, ncases)):
        with guarded(part, 'C01 publish order', dict(scenario='publish-order', seed=seed * 1000 + k)):
            asyncio.run(publish_order(part, seed * 1000 + k))
    l1_sync(part, random.Random(seed + 5), ncases * 3)
    return part.result()


# ------------------------------------------------------------------ L1: add_updates / fork
def l1_sync(part, r, n):
    from datetime import datetime
    from pymap.selected import SelectedMailbox
    from pymap.flags import PermanentFlags, SessionFlags
    from pymap.parsing.specials import ObjectId
    from pymap.parsing.specials.flag import Flag, Recent
    from pymap.parsing.command.any import NoOpCommand
    from pymap.parsing.response.specials import ExistsResponse, RecentResponse, ExpungeResponse, FetchResponse
    from pymap.backend.dict.mailbox import Message
    flagobjs = [Flag(b'\\Seen'), Flag(b'\\Flagged'), Flag(b'\\Answered'), Flag(b'\\Deleted'), Flag(b'\\Draft')]
    m = Model()
    try:
        for case in range(n):
            m.ask('sync reset')
            sel = SelectedMailbox(ObjectId(b'x'), False, PermanentFlags(flagobjs), SessionFlags([Recent]))
            sel, _ = sel.fork(NoOpCommand(b't'))
            m.ask('sync fork 0 0')
            nextuid = 1
            present = {}
            steps = []
            ok = True
            for step in range(r.randint(1, 6)):
                msgs = []
                exp = []
                for _ in range(r.randint(0, 3)):
                    if present and r.random() < 0.4:
                        u = r.choice(list(present))
                    else:
                        u = nextuid
                        nextuid += r.choice([1, 1, 2])
                    fl = sorted(set(r.sample(range(5), r.randint(0, 2))))
                    present[u] = fl
                    msgs.append((u, fl))
                for _ in range(r.randint(0, 2)):
                    if present and r.random() < 0.8:
                        u = r.choice(list(present))
                        del present[u]
                        exp.append(u)
                    else:
                        exp.append(r.randint(1, nextuid + 1))
                msgs = [(u, f) for (u, f) in msgs if u not in exp]
                if r.random() < 0.3:
                    r.shuffle(msgs)
                hide = r.random() < 0.3
                wu = r.random() < 0.5
                steps.append([msgs, exp, hide, wu])
                sel.hide_expunged = hide
                sel.add_updates([Message(u, datetime.now(), [flagobjs[i] for i in f]) for (u, f) in msgs], exp)
                mod_sorted = m.ask('sync add ' + (';'.join(f'{u}:{nats(f)}' for (u, f) in msgs) or '-') + ' ' + nats(exp) + ' ' + ('1' if hide else '0'))
                impl_sorted = nats(sel.messages._sorted) if hasattr(sel.messages, '_sorted') else mod_sorted
                cmd = NoOpCommand(b't')
                cmd.uid = wu
                sel, untagged = sel.fork(cmd)
                out = []
                for resp in untagged:
                    if isinstance(resp, ExpungeResponse):
                        out.append(f'EXPUNGE:{resp.seq}')
                    elif isinstance(resp, ExistsResponse):
                        out.append(f'EXISTS:{resp.num}')
                    elif isinstance(resp, RecentResponse):
                        out.append(f'RECENT:{resp.num}')
                    elif isinstance(resp, FetchResponse):
                        out.append(f'FETCH:{resp.seq}')
                mod_out = m.ask(f'sync fork {"1" if hide else "0"} {"1" if wu else "0"}')
                mod_canon = ' '.join(':'.join(t.split(':')[:2]) if t.startswith('FETCH') else t for t in mod_out.split(' ')) if mod_out != '-' else ''
                impl_canon = ' '.join(out)
                if impl_sorted != mod_sorted or impl_canon != mod_canon:
                    ok = False
                    part.violation('correspondence', f'SelectedMailbox.add_updates/fork vs Sync.addUpdates/compare: steps {steps}: '
                                   f'impl sorted={impl_sorted} out={impl_canon}; model sorted={mod_sorted} out={mod_canon}',
                                   dict(level='L1', steps=steps), signature='l1-sync')
                    break
            part.case(key='l1:' + repr(steps), nontrivial=any(s[1] for s in steps) and len(steps) > 1)
            part.stat('l1-sync-cases')
    finally:
        m.close()


PROFILE = dict(weights=dict(expunge=10, uidexpunge=4, store=16, fetch=12, append=14, noop=12, move=5, copy=4, search=6, select=3, close=1),
               examine=0.1, recent_in_flags=0.0)

CORPUS = [
    # B expunges message 2 while A is between a non-UID FETCH and the next NOOP, then C appends (DESIGN 4.6)
    dict(nsess=3, program=[['select', 0, 0, False], ['select', 1, 0, False], ['select', 2, 0, False],
                           ['append', 0, 0, [], 1, 0, 0], ['append', 0, 0, [3], 2, 0, 0], ['append', 0, 0, [], 3, 0, 0],
                           ['noop', 0], ['noop', 1], ['noop', 2],
                           ['expunge', 1, None], ['fetch', 0, False, '1:*', ['FLAGS']], ['append', 2, 0, [], 4, 0, 0],
                           ['store', 0, False, '2', 1, [1], False], ['noop', 0], ['fetch', 0, False, '1:*', ['UID']],
                           ['fetch', 1, False, '1:*', ['UID']], ['fetch', 2, False, '1:*', ['UID']]]),
    # D29: UID FETCH answered for a message whose new number equals the old number of one already answered
    dict(nsess=2, program=[['select', 0, 0, False], ['select', 1, 0, False],
                           ['append', 0, 0, [3], 1, 0, 0], ['append', 0, 0, [], 2, 0, 0], ['append', 0, 0, [], 3, 0, 0],
                           ['noop', 0], ['noop', 1], ['expunge', 1, None], ['store', 1, True, '103', 1, [1, 2], False],
                           ['fetch', 0, True, '102', ['FLAGS']], ['fetch', 0, False, '1:*', ['UID']]]),
    # D2: STORE on a message another session expunged
    dict(nsess=2, program=[['select', 0, 0, False], ['select', 1, 0, False], ['append', 0, 0, [3], 1, 0, 0], ['append', 0, 0, [], 2, 0, 0],
                           ['noop', 0], ['noop', 1], ['expunge', 0, None], ['store', 1, False, '1', 1, [0], False], ['noop', 1], ['noop', 1],
                           ['fetch', 1, False, '1:*', ['UID']]]),
]


async def publish_order(part, seed):
    """commands of several connections interleaved at the backend's lock boundaries (a park before every acquisition and after every release of a write lock - the
    granularity of a lock whose release can yield): a watching client that applies EXISTS / EXPUNGE in order and learns UIDs with FETCH n (UID) never sees a
    sequence number change its UID, the same UID at two numbers, or UIDs out of order"""
    import re
    from pymap.imap import IMAPServer
    from .common import wire, backends
    from .common.sched import Sched, ISubsystem
    r = random.Random(seed)
    s = Sched()
    s.enabled = False
    be, config = await backends.make_dict(users=[('u', 'p', ())], bad_command_limit=None, subsystem=ISubsystem(s, exit_points=True))
    srv = IMAPServer(be.login, config)
    nw = r.choice([2, 2, 3])
    writers = [wire.Client(srv, fd=10 + i, name=f'w{i}') for i in range(nw)]
    c = wire.Client(srv, fd=30, name='c')
    for x in writers + [c]:
        await x.start()
        await x.send(b'a LOGIN u p\r\n')
    await c.send(b'a CREATE other\r\n')
    serial = 0

    def msg():
        nonlocal serial
        serial += 1
        return b'Subject: m%d\r\n\r\nx\r\n' % serial
    for _ in range(r.randint(1, 4)):
        m_ = msg()
        await c.send(b'a APPEND %s {%d+}\r\n' % (r.choice([b'INBOX', b'other', b'INBOX']), len(m_)) + m_ + b'\r\n')
    for w in writers:
        await w.send(b'a SELECT %s\r\n' % r.choice([b'INBOX', b'other']))
    log = []
    case = dict(scenario='publish-order', seed=seed, log=log)
    view = []

    def apply(raw, what):
        for line in raw.split(b'\r\n'):
            mt = re.match(rb'\* (\d+) (EXISTS|EXPUNGE|FETCH)(.*)', line)
            if not mt:
                continue
            n, kind = int(mt.group(1)), mt.group(2)
            if kind == b'EXISTS':
                if n < len(view):
                    return f'{what}: EXISTS {n} with {len(view)} messages in view'
                view.extend([None] * (n - len(view)))
            elif kind == b'EXPUNGE':
                if not 1 <= n <= len(view):
                    return f'{what}: EXPUNGE {n} with {len(view)} messages in view'
                del view[n - 1]
            else:
                mu = re.search(rb'UID (\d+)', mt.group(3))
                if not mu:
                    continue
                u = int(mu.group(1))
                if not 1 <= n <= len(view):
                    return f'{what}: FETCH {n} with {len(view)} messages in view'
                if view[n - 1] not in (None, u):
                    return f'{what}: message {n} was UID {view[n - 1]} and is now UID {u}, with no EXPUNGE in between'
                if u in view and view.index(u) != n - 1:
                    return f'{what}: UID {u} is message {n} and message {view.index(u) + 1} at once'
                view[n - 1] = u
                known = [x for x in view if x is not None]
                if known != sorted(known):
                    return f'{what}: UIDs out of order in the view {view}'
        return None
    err = apply(await c.send(b'a SELECT INBOX\r\n'), 'SELECT')
    s.enabled = True
    s.only = {f'w{i}' for i in range(nw)}
    budget = r.randint(3, 7)
    busy = set()
    for step in range(80):
        if err:
            break
        idle = [i for i in range(nw) if f'w{i}' not in s.parked and writers[i].idle() and not writers[i].task.done()]
        for i in idle:
            busy.discard(i)
            writers[i].take()
        parked = sorted(n for n in s.parked)
        choices = (['feed'] if idle and budget > 0 else []) + ['release'] * (2 if parked else 0) + ['watch']
        act = r.choice(choices)
        if act == 'feed':
            i = r.choice(idle)
            x = r.random()
            if x < 0.6:
                m_ = msg()
                line = b'APPEND INBOX {%d+}\r\n' % len(m_) + m_
            elif x < 0.8:
                line = b'COPY 1 INBOX'
            else:
                line = b'STORE 1:* +FLAGS.SILENT (\\Deleted)\r\nx EXPUNGE' if r.random() < 0.5 else b'NOOP'
            writers[i].feed(b'x ' + line + b'\r\n')
            busy.add(i)
            budget -= 1
            log.append(f'w{i}: {line[:24].decode("latin1")}')
            await s.quiesce()
        elif act == 'release':
            n = r.choice(parked)
            lab = await s.release(n)
            log.append(f'{n} passes {lab}')
        else:
            q = r.choice([b'NOOP', b'NOOP', b'FETCH 1:* (UID)', b'FETCH %d:* (UID)' % max(1, len(view))])
            log.append('c: ' + q.decode())
            err = apply(await c.send(b'a ' + q + b'\r\n'), q.decode())
            part.stat('publish-order:watch')
        if not parked and not idle and not busy and budget <= 0:
            break
    s.enabled = False
    await s.release_all()
    await s.quiesce()
    if not err:
        err = apply(await c.send(b'a NOOP\r\n'), 'final NOOP') or apply(await c.send(b'a FETCH 1:* (UID)\r\n'), 'final FETCH 1:* (UID)')
    part.case(key=f'publish-order:{seed}', nontrivial=len(log) > 6, sample=dict(case, log=log[:12]))
    if err:
        part.violation('monitor', f'dict, lock-boundary interleaving: {err}', case, signature='publish-order')
    for x in writers + [c]:
        await x.eof()


def run(ctx):
    ctx.rep.rule = RULE
    ctx.rep.assumptions = ['whole commands are atomic on the dict backend under asyncio (no contended lock); finer interleavings are over-approximated by the System model',
                           'SelectedSet is a WeakSet: prompt refcount GC of dropped SelectedMailbox objects']
    nw = ctx.workers
    ncases = ctx.budget(40, 700)
    jobs = [(ctx.seed * 1000 + k, ncases, ctx.budget(14, 40), CORPUS if k == 0 else []) for k in range(nw)]
    ctx.pmap(worker, jobs)


def replay(case):
    part = Part()
    case = case.get('case', case)
    if case.get('scenario') == 'publish-order':
        asyncio.run(publish_order(part, case['seed']))
    else:
        nsess, prog = case['nsess'], case['program']
        ext, outs, final = asyncio.run(l3.run_real(nsess, prog))
        for op, raw in zip(ext, outs):
            print(op, '->', raw)
        l3.judge(part, [(nsess, ext, outs, final)], 'C01')
    res = part.result()
    for v in res['violations']:
        print(f"[{v['kind']}] {v['what']}")
    print('reproduced' if res['violations'] else 'not reproduced')
    return 1 if res['violations'] else 0
