"""C02 — cross-session convergence: no lost, phantom or stuck updates.

Tie: the same command-level engine as C01 (real connections vs the Lean `Server` model, whose `finish` is
`Mailbox.updateSelected` + `Sync.compare` over the `ModSeq` log — the functions C02_log_inv, C02_log_complete and
C02_noop_converges are about), with mutation-heavy programs biased to commands that touch a message another session
has just expunged, `.SILENT` stores racing other stores, and refused commands in between.
L1: `_ModSequenceMapping` (through `MailboxData`'s public methods) vs `ModSeq.set/findUpdated`.
Monitor: at the quiescent end of every program each session issues NOOP; what its client has been told since SELECT
(uids and flags, reconstructed from the byte stream alone) must equal the mailbox contents an independent probe sees.
"""
from __future__ import annotations
import asyncio
import random

from .common import l3, gen
from .common.model import Model, nats, unnats
from .common.report import Part, guarded

RULE = ('mutation-heavy programs (APPEND/STORE(.SILENT)/EXPUNGE/UID EXPUNGE/COPY/MOVE, 2-4 sessions, mostly one mailbox) ending in NOOP + FETCH 1:* (UID) '
        'per session; non-trivial = at the end some session had been told about an expunge, arrival or flag change made by another session; '
        'distinct by program text')

PROFILE = dict(weights=dict(expunge=12, uidexpunge=5, store=26, fetch=6, append=12, noop=6, move=6, copy=4, search=2, select=2, close=1, check=1),
               examine=0.12, recent_in_flags=0.0)


def converge_monitor(part, case, canon, final, shadows):
    """after the final NOOPs: told view == actual contents"""
    nontrivial = False
    for i, sh in enumerate(shadows):
        if sh.msgs is None or sh.box is None or sh.box > 2:
            continue
        actual = {u: fl for (u, fl, cid, day) in final[sh.box][0]}
        told = {}
        unknown = 0
        for u, f in zip(sh.msgs, sh.flags):
            if u is None:
                unknown += 1
            else:
                told[u] = f
        if unknown:
            continue            # a response the parser could not label; the shadow monitor of C01 reports those
        if set(told) != set(actual):
            stuck = sorted(set(told) - set(actual))
            missing = sorted(set(actual) - set(told))
            part.violation('monitor', f'session {i} after NOOP believes uids {sorted(told)} but the mailbox holds {sorted(actual)} '
                           f'(never told expunged: {stuck}; never told new: {missing})', case,
                           signature='converge-uids:' + ('stuck' if stuck else 'missing'))
            continue
        for u, f in told.items():
            if f is not None and f[0] != actual[u]:
                part.violation('monitor', f'session {i} after NOOP was last told flags {f[0]} for uid {u} but the mailbox holds {actual[u]}',
                               case, signature='converge-flags')
        # was this session told something caused by someone else?
        for op, c in zip(case['program'], canon):
            if op[1] == i and op[0] in ('noop', 'check') and any(it[0] in ('EXPUNGE', 'EXISTS', 'FETCH') for it in c[2]):
                nontrivial = True
    return nontrivial


def tail(prog, nsess):
    for i in range(nsess):
        prog.append(['noop', i])
    for i in range(nsess):
        prog.append(['fetch', i, False, '1:*', ['UID']])
    return prog


def worker(job):
    seed, ncases, maxlen, corpus = job
    r = random.Random(seed)
    part = Part()
    cases = [(c['nsess'], c['program']) for c in corpus]
    for _ in range(ncases):
        nsess = r.choice([2, 2, 3, 3, 4])
        prof = dict(PROFILE, final_noops=False)
        prog = l3.gen_program(r, nsess, r.randint(4, maxlen), prof)
        if r.random() < 0.6:
            # every session first learns the flags of what it selected: from then on "last told" is defined for every message,
            # and a change that is never reported shows as a difference at the end
            prog[nsess:nsess] = [['fetch', i, False, '1:*', ['FLAGS']] for i in range(nsess)]
        cases.append((nsess, tail(prog, nsess)))
    for _ in range(max(2, ncases // 3)):
        # echo family: what session 0 stores (silently or not, by UID or not; refused when it holds the mailbox read-only) is stored again
        # by session 1 straight afterwards - the prediction, refusal or silencing of one session meets the same change coming from outside
        prog = [['select', 0, 0, r.random() < 0.5], ['select', 1, 0, False]]
        prog += [['append', 1, 0, l3.gen_flags(r, PROFILE), cid, r.randint(0, 5), 0] for cid in range(1, r.randint(3, 5))]
        prog += [['noop', 0], ['noop', 1], ['fetch', 0, False, '1:*', ['FLAGS']], ['fetch', 1, False, '1:*', ['FLAGS']]]
        for _ in range(r.randint(1, 4)):
            byuid = r.random() < 0.5
            st = ['store', 0, byuid, gen.seqset(r, 4, 100 if byuid else 0), r.choice([0, 1, 1, 2]), l3.gen_flags(r, PROFILE, store=True), r.random() < 0.6]
            prog.append(st)
            if r.random() < 0.85:
                prog.append(['store', 1] + st[2:6] + [False])
            x = r.random()
            if x < 0.3:
                prog.append(['noop', 0])
            elif x < 0.4:
                prog.append(['fetch', 0, False, '1:*', ['UID']])
        cases.append((2, tail(prog, 2)))
    done = []
    for nsess, prog in cases:
        with guarded(part, 'C02 L3 run', dict(nsess=nsess, program=prog)):
            ext, outs, final = asyncio.run(l3.run_real(nsess, prog))
            done.append((nsess, ext, outs, final))
    l3.judge(part, done, 'C02', extra_monitor=converge_monitor)
    l1_modseq(part, random.Random(seed + 9), ncases * 4)
    return part.result()


# ------------------------------------------------------------------ L1: the change log behind update_selected
def l1_modseq(part, r, n):
    """dict MailboxData public methods (append/update/delete) + update_selected of two observers at random positions
    vs ModSeq.Log + findUpdated: the sets delivered to each observer must agree"""
    from pymap.backend.dict.mailbox import MailboxData, _ContentCache, _ThreadCache, Message
    from pymap.parsing.message import AppendMessage
    from pymap.flags import FlagOp, PermanentFlags, SessionFlags
    from pymap.parsing.specials.flag import Flag, Recent, Seen
    from pymap.selected import SelectedMailbox
    from datetime import datetime, timezone
    m = Model()

    async def one(case_no):
        mbx = MailboxData(_ContentCache(), _ThreadCache())
        m.ask('log reset')
        ops = []
        uids = []
        obs = []
        for k in range(2):
            sel = SelectedMailbox(mbx.mailbox_id, False, PermanentFlags(mbx.permanent_flags), SessionFlags(mbx.session_flags))
            obs.append(sel)
            m.ask(f'log observer {k}')
        ok = True
        for step in range(r.randint(2, 10)):
            x = r.random()
            if x < 0.3 or not uids:
                msg = await mbx.append(AppendMessage(b'A: b\r\n\r\nx\r\n', datetime.now(timezone.utc), frozenset()))
                uids.append(msg.uid)
                ops.append(['append'])
                m.ask('log update ' + nats([msg.uid]))
            elif x < 0.55:
                u = r.choice(uids)
                cached = Message(u, datetime.now(timezone.utc), [])
                msg = await mbx.update(u, cached, frozenset({Seen}), FlagOp.ADD)
                ops.append(['update', u])
                if not msg.expunged:
                    m.ask('log update ' + nats([u]))
            elif x < 0.75:
                us = sorted(set(r.sample(uids, min(len(uids), r.randint(1, 2)))))
                await mbx.delete(us)
                ops.append(['delete', us])
                m.ask('log expunge ' + nats(us))
            else:
                k = r.randrange(2)
                sel = obs[k]
                before = set(sel.messages._uids) if hasattr(sel.messages, '_uids') else None
                await mbx.update_selected(sel)
                impl_view = sorted(sel.messages._uids) if before is not None else None
                ops.append(['sync', k])
                mod = m.ask(f'log sync {k}')          # -> the view's uid set after consuming the log from its position
                if impl_view is not None and nats(impl_view) != mod:
                    part.violation('correspondence', f'update_selected over the change log: ops {ops}: implementation view {impl_view} model {mod}',
                                   dict(level='L1', ops=ops), signature='l1-modseq')
                    ok = False
                    break
        part.case(key='log:' + repr(ops), nontrivial=sum(1 for o in ops if o[0] == 'sync') >= 2 and any(o[0] == 'delete' for o in ops))
        part.stat('l1-modseq-cases')
        return ok
    try:
        for c in range(n):
            with guarded(part, 'C02 L1 modseq', dict(level='L1', case=c)):
                asyncio.run(one(c))
    finally:
        m.close()


CORPUS = [
    # D2: a STORE that touches a message another session expunged must not erase the expunge record
    dict(nsess=3, program=[['select', 0, 0, False], ['select', 1, 0, False], ['select', 2, 0, False],
                           ['append', 0, 0, [3], 1, 0, 0], ['append', 0, 0, [], 2, 0, 0], ['noop', 0], ['noop', 1], ['noop', 2],
                           ['expunge', 0, None], ['store', 1, False, '1', 1, [0], False], ['noop', 1], ['noop', 2],
                           ['fetch', 0, False, '1:*', ['UID']], ['fetch', 1, False, '1:*', ['UID']], ['fetch', 2, False, '1:*', ['UID']]]),
    # D3: .SILENT store racing another session's flag change
    dict(nsess=2, program=[['select', 0, 0, False], ['select', 1, 0, False], ['append', 0, 0, [], 1, 0, 0], ['noop', 0], ['noop', 1],
                           ['store', 1, False, '1', 1, [0], False], ['store', 0, False, '1', 1, [3], True], ['noop', 0], ['noop', 1],
                           ['fetch', 0, False, '1:*', ['UID']], ['fetch', 1, False, '1:*', ['UID']]]),
    # D4: a refused STORE inside EXAMINE, then changes by another session
    dict(nsess=2, program=[['select', 0, 0, True], ['select', 1, 0, False], ['append', 1, 0, [3], 1, 0, 0], ['append', 1, 0, [], 2, 0, 0],
                           ['noop', 0], ['noop', 1], ['store', 0, False, '1', 1, [0], True], ['store', 1, False, '2', 1, [1], False],
                           ['expunge', 1, '101'], ['noop', 0], ['noop', 0], ['fetch', 0, False, '1:*', ['UID']], ['fetch', 1, False, '1:*', ['UID']]]),
]


def run(ctx):
    ctx.rep.rule = RULE
    ctx.rep.assumptions = ['whole commands are atomic on the dict backend under asyncio; finer interleavings are over-approximated by the System model',
                           'the maildir backend (full rescan via set_messages) is exercised by C15/C10, not here']
    nw = ctx.workers
    ncases = ctx.budget(40, 700)
    jobs = [(ctx.seed * 1000 + 500 + k, ncases, ctx.budget(16, 40), CORPUS if k == 0 else []) for k in range(nw)]
    ctx.pmap(worker, jobs)


def replay(case):
    part = Part()
    case = case.get('case', case)
    if case.get('level') == 'L1':
        print('L1 case: re-run the check with the same VERIF_SEED')
        return 0
    nsess, prog = case['nsess'], case['program']
    ext, outs, final = asyncio.run(l3.run_real(nsess, prog))
    for op, raw in zip(ext, outs):
        print(op, '->', raw)
    l3.judge(part, [(nsess, ext, outs, final)], 'C02', extra_monitor=converge_monitor)
    res = part.result()
    for v in res['violations']:
        print(f"[{v['kind']}] {v['what']}")
    print('reproduced' if res['violations'] else 'not reproduced')
    return 1 if res['violations'] else 0
