"""C11 — mailbox namespace commands behave as the reference model says.

Tie: real connections (dict) vs the Lean `Namespace` model (`create`, `delete`, `rename`, `listMatching`, `wild` — about which
C11_star_all, C11_pct, C11_literal, C11_list, C11_inbox_guard, C11_errors_unchanged, C11_conflicts, C11_rename,
C11_rename_inbox are proved): the OK/NO of every CREATE/DELETE/RENAME and the exact entry set (name, \\Noselect, children) of
every LIST are diffed; `ListTree.list_matching`'s compiled pattern vs `Namespace.wild` on all short name/pattern pairs (L1).
Monitor (dict + both maildir layouts, independent of the model): existence is established by EXAMINE on every name of the
program's universe after each command (never by LIST); LIST must return exactly the existing names and their missing superiors
that match under an RFC matcher written from the RFC; CREATE/DELETE/RENAME/SELECT/STATUS outcomes and effects follow the
reference (conflicts and missing names NO and nothing changes, INBOX guards, inferiors move, messages/UIDs/UIDVALIDITY travel,
renamed INBOX leaves an empty one); reported names must decode (modified UTF-7, own decoder) to the names created.
Known finding D28: LSUB always lists INBOX and drops subscribed names that do not exist.
"""
from __future__ import annotations
import asyncio
import itertools
import random
import re

from .common import wire, backends, imapresp, mutf7, l3
from .common.model import Model, nats
from .common.report import Part, guarded

DELIM = '/'
PARTS = ['a', 'b', 'A', 'c d', '%', '*', 'x%y', 'q"t', 'b\\s', 'n\nl', 'r\rc', 'é', '中文', '&', 'a&b', 'é&b', '中&', 't\t&x', '&é', 'inbox', 'INBOX', 'Inbox', 'z' * 30, 'L' * 300, 'cur', 'new', 'tmp', 'subscriptions', 'dovecot-uidlist', 'dovecot.sieve', 'dovecot-keywords', 'maildirfolder', 'subscriptions.lock', '\u0131nbox', '~', '#n', 't\tb', '.', '..', '', '.h', 'h.', 'a.b']
PATTERNS = ['*/%', '*%', 'a*%', '%/*/%', '*/%/%', '%*/%', '*/%b', '*', '%', '%/%', 'a*', '*b', 'a/%', 'a/*', '%/b', 'INBOX', 'inbox', 'inbox*', 'Inb%', '*/*', 'a', 'a/b', '%%', '**', '*%*', 'a%b', '', 'n\nl', '*\n*', 'é', '%é%', 'x%y', '&', 'q"t']
RULE = ('programs of CREATE/DELETE/RENAME/SUBSCRIBE/UNSUBSCRIBE/LIST/LSUB/STATUS/SELECT/APPEND over hierarchical names built from a hostile part alphabet (wildcards, quote, '
        'backslash, CR, LF, TAB, non-ASCII, &, INBOX case variants, ., .., empty parts) and 34 patterns x 3 references, on dict, maildir(++), maildir(fs); existence re-established by '
        'EXAMINE over the whole name universe after every command; non-trivial = a RENAME or DELETE succeeded and a LIST with a wildcard returned at least two names; distinct by program')


def rfc_wild(pat, name, ci=False):
    """RFC 3501 6.3.8: * any string, % any string without the delimiter; plain recursion over code points"""
    from functools import lru_cache

    @lru_cache(None)
    def go(i, j):
        if i == len(pat):
            return j == len(name)
        p = pat[i]
        if p == '*':
            return any(go(i + 1, k) for k in range(j, len(name) + 1))
        if p == '%':
            k = j
            while True:
                if go(i + 1, k):
                    return True
                if k == len(name) or name[k] == DELIM:
                    return False
                k += 1
        if j < len(name) and (p == name[j] or (ci and p.isascii() and name[j].isascii() and p.upper() == name[j].upper())):
            return go(i + 1, j + 1)
        return False
    return go(0, 0)


def norm(name):
    # INBOX is case-insensitive in ASCII; a name that merely *upper-cases* to INBOX (dotless i) is a different name
    return 'INBOX' if name.isascii() and name.upper() == 'INBOX' else name


def superiors(name):
    out = []
    parts = name.split(DELIM)
    for k in range(1, len(parts)):
        out.append(norm(DELIM.join(parts[:k])))
    return out


def inbox_variant_superior(E):
    """a mailbox below a case variant of INBOX other than INBOX itself (e.g. Inbox/x): known finding D40"""
    return any(x.split(DELIM)[0].upper() == 'INBOX' and x.split(DELIM)[0] != 'INBOX' and DELIM in x for x in E)


def gen_name(r):
    depth = r.choice([1, 1, 1, 2, 2, 3])
    return DELIM.join(r.choice(PARTS[:6] if r.random() < 0.5 else PARTS) for _ in range(depth))


class Conn:
    def __init__(self, backend):
        self.backend = backend
        self.base = None

    async def start(self):
        from pymap.imap import IMAPServer
        if self.backend == 'dict':
            be, config = await backends.make_dict(users=[('u', 'p', ())], bad_command_limit=None)
            login = be.login
        else:
            self.base = backends.scratch_dir()
            config, login = await backends.make_maildir(self.base, layout='++' if self.backend == 'maildir' else 'fs', users=[('u', 'p', ())], bad_command_limit=None)
        self.srv = IMAPServer(login, config)
        self.c = await self.connect()
        self.p = await self.connect()

    async def connect(self):
        c = wire.Client(self.srv)
        await c.start()
        await c.send(b'a LOGIN u p\r\n')
        return c

    async def cmd(self, line, probe=False):
        c = self.p if probe else self.c
        if c.task.done():
            await c.finish()
            c = await self.connect()
            if probe:
                self.p = c
            else:
                self.c = c
        raw = await c.send(b't ' + line + b'\r\n')
        try:
            resps = imapresp.parse(raw)
            tg = imapresp.tagged(resps, b't')
        except imapresp.Malformed as exc:
            return raw, None, ('MALFORMED', str(exc))
        return raw, resps, tg

    async def exists(self, name):
        """independent existence test + identity: (uidvalidity, uidnext, [(uid, size)]) or None"""
        raw, resps, tg = await self.cmd(b'EXAMINE ' + mutf7.wire_name(name), probe=True)
        if tg is None or tg == ('MALFORMED',) or tg[1] != b'OK':
            return None
        m1 = re.search(rb'\[UIDVALIDITY (\d+)\]', raw)
        m2 = re.search(rb'\[UIDNEXT (\d+)\]', raw)
        raw2, resps2, tg2 = await self.cmd(b'UID FETCH 1:* (UID RFC822.SIZE)', probe=True)
        msgs = []
        for r in resps2 or []:
            f = imapresp.fetch_items(r)
            if f:
                msgs.append((int(f[1][b'UID'].val), int(f[1][b'RFC822.SIZE'].val)))
        await self.cmd(b'CLOSE', probe=True)
        return (int(m1.group(1)) if m1 else None, int(m2.group(1)) if m2 else None, tuple(sorted(msgs)))

    async def stop(self):
        for c in (self.c, self.p):
            try:
                await c.eof()
            except Exception:
                pass
        if self.base:
            backends.rmtree(self.base)


def parse_list(resps, kind=b'LIST'):
    """-> {decoded name: (noselect, haschildren or None)} ; raises ValueError for undecodable names"""
    out = {}
    for r in imapresp.untagged(resps):
        if len(r) >= 5 and imapresp.atom(r[1]) == kind:
            attrs = {imapresp.atom(a).lower() for a in r[2]} if isinstance(r[2], list) else set()
            name = mutf7.decode(r[4].val)
            ch = True if b'\\haschildren' in attrs else (False if b'\\hasnochildren' in attrs else None)
            out[name] = (b'\\noselect' in attrs, ch)
    return out


async def run_program(part, m, backend, prog, universe):
    conn = Conn(backend)
    await conn.start()
    case = dict(backend=backend, program=prog)
    if backend == 'dict':
        m.ask('ns reset')
    try:
        state = {}
        for n in universe:
            state[n] = await conn.exists(n)
        subs = set()
        cid = 1
        ok_mut = False
        wide = False
        model_ok = backend == 'dict'
        for j, op in enumerate(prog):
            k = op[0]
            before = dict(state)
            E = {n for n, v in before.items() if v is not None}
            at = dict(case, at=j)
            if k in ('create', 'delete', 'rename', 'subscribe', 'unsubscribe', 'status', 'select', 'append'):
                if k == 'rename':
                    line = b'RENAME ' + mutf7.wire_name(op[1]) + b' ' + mutf7.wire_name(op[2])
                elif k == 'status':
                    line = b'STATUS ' + mutf7.wire_name(op[1]) + b' (MESSAGES UIDNEXT)'
                elif k == 'append':
                    body = l3.msg_bytes(cid)
                    cid += 1
                    line = b'APPEND ' + mutf7.wire_name(op[1]) + b' {%d+}\r\n' % len(body) + body
                else:
                    line = k.upper().encode() + b' ' + mutf7.wire_name(op[1])
                raw, resps, tg = await conn.cmd(line)
                if k == 'select':
                    await conn.cmd(b'CLOSE')
                if tg is None or tg[0] == 'MALFORMED':
                    part.violation('monitor', f'{backend}: command #{j} {op}: no well-formed tagged answer: {raw[:200]!r}', at, signature='ns-no-answer')
                    break
                status = tg[1].decode()
                part.stat(f'{k}:{status}')
                # re-establish existence over the universe
                if k in ('create', 'delete', 'rename', 'append'):
                    for n in universe:
                        state[n] = await conn.exists(n)
                after = state
                Ea = {n for n, v in after.items() if v is not None}
                n1 = norm(op[1])
                def ident(st_):
                    return {n_: (v_ if v_ is None or v_[2] else 'empty') for n_, v_ in st_.items()}
                if status != 'OK' and k != 'append' and ident(after) != ident(before):
                    part.violation('monitor', f'{backend}: command #{j} {op} answered {status} but changed the mailboxes: '
                                   f'{sorted(E ^ Ea) or [(n_, before[n_], after[n_]) for n_ in before if ident(before)[n_] != ident(after)[n_]]}', at, signature='ns-error-changed')
                if k == 'create':
                    if n1 == 'INBOX' or n1 in E:
                        if status == 'OK':
                            part.violation('monitor', f'{backend}: CREATE of the existing name {op[1]!r} answered OK', at, signature='ns-create-existing')
                    elif status == 'OK':
                        extra = Ea - E - {n1}
                        if n1 not in Ea:
                            part.violation('monitor', f'{backend}: CREATE {op[1]!r} answered OK but the mailbox cannot be examined', at, signature='ns-create-missing')
                        if not extra <= set(superiors(n1)) or E - Ea:
                            part.violation('monitor', f'{backend}: CREATE {op[1]!r} also changed {sorted((extra - set(superiors(n1))) | (E - Ea))}', at, signature='ns-create-frame')
                elif k == 'delete':
                    if n1 == 'INBOX' or n1 not in E:
                        if status == 'OK':
                            part.violation('monitor', f'{backend}: DELETE of {"INBOX" if n1 == "INBOX" else "the missing name"} {op[1]!r} answered OK', at, signature='ns-delete-missing')
                    elif status == 'OK':
                        ok_mut = True
                        if Ea != E - {n1}:
                            part.violation('monitor', f'{backend}: DELETE {op[1]!r}: existing names went from {sorted(E)} to {sorted(Ea)}', at, signature='ns-delete-frame')
                    else:
                        has_inf = any(x.startswith(n1 + DELIM) for x in E)
                        if not has_inf:
                            part.violation('monitor', f'{backend}: DELETE of the existing leaf mailbox {op[1]!r} answered {status}', at, signature='ns-delete-refused')
                elif k == 'rename':
                    n2 = norm(op[2])
                    src_nodes = {x for x in E if x == n1 or x.startswith(n1 + DELIM)} if n1 != 'INBOX' else {'INBOX'}
                    placeholder_dest = any(x.startswith(n2 + DELIM) for x in E) and backend == 'dict'     # dict refuses the whole subtree; accepted
                    if not src_nodes or n2 == 'INBOX' or n2 in E or (placeholder_dest and status != 'OK'):
                        if status == 'OK' and (not src_nodes or n2 == 'INBOX' or n2 in E):
                            part.violation('monitor', f'{backend}: RENAME {op[1]!r} {op[2]!r} answered OK although '
                                           f'{"the source does not exist" if not src_nodes else "the destination exists"}', at, signature='ns-rename-accepted')
                    elif status == 'OK':
                        ok_mut = True
                        moved = {x: n2 + x[len(n1):] for x in src_nodes}
                        clash = sorted(y for y in moved.values() if y in E and y not in moved)
                        if clash:
                            part.violation('monitor', f'{backend}: RENAME {op[1]!r} {op[2]!r} answered OK and replaced the existing mailbox(es) {clash} by the moved inferiors '
                                           f'(before {[before[y] for y in clash]}, after {[after.get(y) for y in clash]})', at, signature='ns-rename-overwrite')
                        want = (E - set(moved)) | set(moved.values())
                        if n1 == 'INBOX':
                            want |= {'INBOX'}
                        new_sup = set()
                        for x in moved.values():
                            new_sup |= set(superiors(x))
                        if not (want <= Ea and Ea - want <= new_sup):
                            part.violation('monitor', f'{backend}: RENAME {op[1]!r} {op[2]!r}: existing names went from {sorted(E)} to {sorted(Ea)}, expected {sorted(want)}', at,
                                           signature='ns-rename-frame')
                        else:
                            for x, y in moved.items():
                                if y in universe and after.get(y) is not None and before[x] is not None and after[y] != before[x] and (before[x][2] or after[y][2]):
                                    part.violation('monitor', f'{backend}: RENAME {op[1]!r} {op[2]!r}: {x!r} was (uidvalidity, uidnext, messages) {before[x]}, {y!r} is {after[y]}', at,
                                                   signature='ns-rename-identity')
                            if n1 == 'INBOX' and after.get('INBOX') is not None and after['INBOX'][2]:
                                part.violation('monitor', f'{backend}: after RENAME INBOX the new INBOX holds {after["INBOX"][2]}', at, signature='ns-rename-inbox')
                    else:
                        if backend != 'dict' and n1 == 'INBOX':
                            part.violation('monitor', 'maildir: RENAME INBOX is not supported (NO [CANNOT])', at, signature='maildir-rename-inbox')
                        elif not any(ch in n2 for ch in ('\x00',)) and backend == 'dict':
                            part.violation('monitor', f'{backend}: RENAME {op[1]!r} {op[2]!r} of an existing mailbox to a free name answered {status}', at, signature='ns-rename-refused')
                elif k in ('status', 'select'):
                    if (n1 in E) != (status == 'OK'):
                        part.violation('monitor', f'{backend}: {k.upper()} {op[1]!r} answered {status}; the mailbox does {"" if n1 in E else "not "}exist', at, signature='ns-status')
                elif k == 'subscribe' and status == 'OK':
                    subs.add(n1)
                elif k == 'unsubscribe' and status == 'OK':
                    subs.discard(n1)
                # Lean correspondence (dict)
                if model_ok and k in ('create', 'delete', 'rename'):
                    if k == 'rename':
                        mod = m.ask(f'ns rename {nats([ord(c) for c in op[1]])} {nats([ord(c) for c in op[2]])}')
                    else:
                        mod = m.ask(f'ns {k} {nats([ord(c) for c in op[1]])}')
                    if mod != status:
                        part.violation('correspondence', f'dict: command #{j} {op}: implementation {status}, Namespace model {mod}', at, signature='ns-model-status')
                        model_ok = False
            elif k in ('list', 'lsub'):
                ref, pat = op[1], op[2]
                line = k.upper().encode() + b' ' + mutf7.wire_name(ref) + b' ' + mutf7.wire_name(pat)
                raw, resps, tg = await conn.cmd(line)
                if tg is None or tg[0] == 'MALFORMED' or tg[1] != b'OK':
                    part.violation('monitor', f'{backend}: {k.upper()} {ref!r} {pat!r} answered {tg}: {raw[:160]!r}', at, signature='ns-list-failed')
                    continue
                try:
                    got = parse_list(resps, k.upper().encode())
                except ValueError as exc:
                    part.violation('monitor', f'{backend}: {k.upper()} {ref!r} {pat!r} reports a name that is not valid modified UTF-7 ({exc}): {raw[:200]!r}', at,
                                   signature='ns-list-undecodable')
                    continue
                full = ref + pat
                if pat == '':
                    continue        # LIST with an empty pattern asks for the delimiter, not for names
                if k == 'list':
                    nodes = set(E)
                    for x in E:
                        nodes |= set(superiors(x))
                    want = {x for x in nodes if (rfc_wild(full, 'INBOX', ci=True) if x == 'INBOX' else rfc_wild(full, x))}
                    want2 = {x for x in want if not (x.upper() == 'INBOX' and x != 'INBOX')}
                    if set(got) != want and inbox_variant_superior(E) and set(got) in (want2, want2 | {'INBOX'}):
                        part.violation('monitor', f'LIST {ref!r} {pat!r}: the superior of a mailbox below a case variant of INBOX is reported as a second, \\Noselect INBOX: '
                                       f'{sorted(got)} for {sorted(want)}', at, signature='list-inbox-variant-superior')
                    elif set(got) != want:
                        part.violation('monitor', f'{backend}: LIST {ref!r} {pat!r} returned {sorted(got)}, the existing names (by EXAMINE) and their superiors that match are {sorted(want)}',
                                       at, signature='ns-list-set')
                    else:
                        for x, (nosel, ch) in got.items():
                            if x == 'INBOX' and inbox_variant_superior(E):
                                continue
                            if nosel != (x not in E):
                                part.violation('monitor', f'{backend}: LIST marks {x!r} {"" if nosel else "not "}\\Noselect but it does {"" if x in E else "not "}exist', at,
                                               signature='ns-list-noselect')
                    if len(got) >= 2 and ('*' in pat or '%' in pat):
                        wide = True
                    if model_ok and not inbox_variant_superior(E):
                        mod = m.ask(f'ns list {nats([ord(c) for c in ref])} {nats([ord(c) for c in pat])}')
                        mset = {}
                        if mod != '-':
                            for tok in mod.split(' '):
                                nm, ex, ch = tok.split('|')
                                mset[''.join(chr(int(x)) for x in nm.split(',') if x != '-')] = (ex == '0', ch == '1')
                        gset = {x: (v[0], v[1] if v[1] is not None else mset.get(x, (0, None))[1]) for x, v in got.items()}
                        if gset != mset:
                            part.violation('correspondence', f'dict: LIST {ref!r} {pat!r}: implementation {sorted(gset.items())}, Namespace model {sorted(mset.items())}', at,
                                           signature='ns-model-list')
                else:
                    want = {x for x in subs if (rfc_wild(full, 'INBOX', ci=True) if x == 'INBOX' else rfc_wild(full, x))}
                    names = {x for x, v in got.items() if not v[0]}
                    if names != want:
                        known = {x for x in (subs & E) | {'INBOX'} if (rfc_wild(full, 'INBOX', ci=True) if x == 'INBOX' else rfc_wild(full, x))}
                        if names == known:
                            part.violation('monitor', f'LSUB {ref!r} {pat!r} returned {sorted(names)}; subscribed names matching are {sorted(want)} (INBOX is always listed, subscribed names '
                                           'that do not exist are dropped)', at, signature='lsub-inbox-always-missing-dropped')
                        else:
                            part.violation('monitor', f'{backend}: LSUB {ref!r} {pat!r} returned {sorted(names)}; subscribed names matching are {sorted(want)}', at, signature='ns-lsub-set')
        part.case(key=backend + repr(prog), nontrivial=ok_mut and wide, sample=dict(backend=backend, program=[repr(o)[:60] for o in prog[:8]]))
        part.trace()
    finally:
        await conn.stop()


def universe_of(prog):
    universe = set(['INBOX'])
    for op in prog:
        if op[0] not in ('list', 'lsub'):
            for n in op[1:]:
                n = norm(n)
                universe.add(n)
                universe.update(superiors(n))
    # rename targets of inferiors (closure over the renames in program order, twice for chains)
    for _ in range(2):
        for op in prog:
            if op[0] == 'rename':
                a, b = norm(op[1]), norm(op[2])
                for u in list(universe):
                    if u.startswith(a + DELIM):
                        universe.add(b + u[len(a):])
                        universe.update(superiors(b + u[len(a):]))
    return universe


def gen_program(r):
    names = [gen_name(r) for _ in range(r.randint(2, 5))]
    # make inferiors/superiors of some names likely
    names += [names[0] + DELIM + r.choice(PARTS[:6]), r.choice(['INBOX', 'inbox', 'Inbox/x', 'INBOX/k'])]
    prog = []
    if r.random() < 0.3:
        # a name this session has already looked up, then gone by way of its superior (renamed or deleted above it): the next look-up is a
        # plain NO, whatever the session remembers about the name
        top, sub = r.choice(PARTS[:4]) + 'T', r.choice(PARTS[:4])
        inf = top + DELIM + sub
        names += [top, inf, top + 'moved', top + 'moved' + DELIM + sub]
        prog += [['create', inf], [r.choice(['status', 'select', 'append']), inf], ['status', inf]]
        prog += [['rename', top, top + 'moved']] if r.random() < 0.7 else [['delete', inf], ['create', inf], ['delete', inf]]
        prog += [[k_, inf] for k_ in r.sample(['status', 'select', 'append', 'subscribe', 'delete'], 3)] + [['list', '', '*']]
    if r.random() < 0.25:
        # a destination that exists only as the superior of an existing mailbox, whose inferior collides with an inferior of the source:
        # whatever RENAME answers, the existing D/c must not be replaced
        src, dst, c = r.choice(PARTS[:4]), r.choice(['D', 'x%y', 'é']), r.choice(PARTS[:3])
        names += [src, dst, src + DELIM + c, dst + DELIM + c]
        prog += [['create', dst + DELIM + c], ['append', dst + DELIM + c], ['create', src + DELIM + c], ['rename', src, dst]]
    if r.random() < 0.25:
        # subscriptions are kept by name: white space at the ends and line breaks inside must survive (or the SUBSCRIBE be refused)
        # ... and the other characters some line splitters take for a line boundary (U+2028, U+2029, NEL, FF, VT, FS..RS) are ordinary name characters
        ws = [r.choice(['foo ', ' foo', 'n\nl', 'a\tb ', 'x\ry', 'foo', 'n\u2028l', 'n\u2029l', 'n\x85l', 'n\x0cl', 'n\x0bl', 'n\x1cl', 'n\x1el', 'foo\u2028']) for _ in range(2)]
        names += ws + ['foo', 'n', 'l']
        prog += [['create', 'foo'], ['create', 'n'], ['create', 'l']] + [['create', w] for w in ws] + [['subscribe', w] for w in ws] + [['lsub', '', '*']]
        if r.random() < 0.5:
            prog += [['unsubscribe', ws[0]], ['lsub', '', '*']]
    if r.random() < 0.5:
        # siblings whose names extend another name as a *string* but not as a hierarchy (foo / foobar / foo-old): a RENAME or
        # DELETE of the shorter one must leave them alone
        base = r.choice(names[:-1])
        twins = [base + r.choice(['bar', '-old', 'b', ' 2', 'é'])]
        if r.random() < 0.5:
            twins.append(base + DELIM + r.choice(PARTS[:3]))
        names += twins
        prog += [['create', base]] + [['create', t] for t in twins]
        if r.random() < 0.7:
            prog.append(['append', twins[0]])
        prog.append(['rename', base, gen_name(r)] if r.random() < 0.7 else ['delete', base])
    for _ in range(r.randint(4, 14)):
        x = r.random()
        n = r.choice(names)
        if x < 0.3:
            prog.append(['create', n])
        elif x < 0.4:
            prog.append(['delete', n])
        elif x < 0.55:
            t = r.choice(names) if r.random() < 0.4 else gen_name(r)
            names.append(t)
            prog.append(['rename', n, t])
        elif x < 0.62:
            prog.append([r.choice(['subscribe', 'unsubscribe']), n])
        elif x < 0.68:
            prog.append([r.choice(['status', 'select']), n])
        elif x < 0.76:
            prog.append(['append', n])
        else:
            ref = r.choice(['', '', '', 'a/', 'a', 'INBOX/', r.choice(names) + '/'])
            pat = r.choice(PATTERNS) if r.random() < 0.8 else r.choice(names)
            prog.append([r.choice(['list', 'list', 'list', 'lsub']), ref, pat])
    prog.append(['list', '', '*'])
    universe = universe_of(prog)
    return prog, sorted(universe)


def worker(job):
    seed, ncases, corpus, l1 = job
    r = random.Random(seed)
    part = Part()
    m = Model()
    try:
        cases = [(c['backend'], c['program'], c['universe']) for c in corpus]
        for k in range(ncases):
            prog, uni = gen_program(r)
            cases.append((['dict', 'dict', 'maildir', 'maildir-fs'][k % 4], prog, uni))
        for backend, prog, uni in cases:
            with guarded(part, f'C11 {backend}', dict(backend=backend, program=prog)):
                asyncio.run(run_program(part, m, backend, prog, uni))
        # L1: compiled pattern vs Namespace.wild
        from pymap.listtree import ListTree
        for (pat, name) in l1:
            tree = ListTree(DELIM).update(name)
            impl = any(e.name == name for e in tree.list_matching('', pat))
            mod = m.ask(f'wild 0 {nats([ord(c) for c in pat])} {nats([ord(c) for c in name])}') == '1'
            ref = rfc_wild(pat, name)
            part.case(key=f'w:{pat!r}:{name!r}', nontrivial=('*' in pat or '%' in pat) and len(name) > 1)
            if impl != mod:
                part.violation('correspondence', f'ListTree.list_matching(pattern {pat!r}) on name {name!r}: implementation {impl}, Namespace.wild {mod}', dict(level='L1', pat=pat, name=name),
                               signature='l1-wild')
            if impl != ref and name.upper() != 'INBOX':
                part.violation('monitor', f'LIST pattern {pat!r} vs name {name!r}: implementation {impl}, RFC 3501 matcher {ref}', dict(level='L1', pat=pat, name=name), signature='l1-wild-rfc')
    finally:
        m.close()
    return part.result()


CORPUS = [
    dict(backend='dict', program=[['create', 'INBOX/sub'], ['create', 'a\nb'], ['create', 'abc'], ['create', 'abc\n'], ['list', '', '*'], ['list', '', 'abc'], ['list', '', 'a%'], ['create', 'x/y/z'], ['list', '', 'x/%'],
                                  ['list', '', '%/%/%'], ['rename', 'x', 'w'], ['list', '', '*'], ['rename', 'INBOX', 'old'], ['list', '', '*'], ['create', 'inbox'], ['delete', 'Inbox'],
                                  ['rename', 'abc', 'INBOX'], ['create', 'abc'], ['delete', 'nope'], ['subscribe', 'abc'], ['subscribe', 'gone'], ['unsubscribe', 'INBOX'], ['lsub', '', '*']],
         universe=['INBOX', 'INBOX/sub', 'old/sub', 'a\nb', 'abc', 'abc\n', 'x', 'x/y', 'x/y/z', 'w', 'w/y', 'w/y/z', 'old', 'nope', 'gone']),
    dict(backend='maildir', program=[['create', 'foo'], ['create', 'foo'], ['rename', 'nope', 'other'], ['rename', 'foo', 'bar'], ['create', 'bar/baz'], ['list', '', '*'], ['delete', 'bar'],
                                     ['rename', 'INBOX', 'old'], ['create', '.'], ['create', '..'], ['create', 'a//b'], ['create', ''], ['delete', '.'], ['list', '', '*']],
         universe=['INBOX', 'foo', 'bar', 'bar/baz', 'nope', 'other', 'old', '.', '..', 'a//b', 'a', 'a/', '']),
    dict(backend='maildir-fs', program=[['create', 'foo'], ['create', 'foo'], ['rename', 'nope', 'other'], ['rename', 'foo', 'bar'], ['create', 'bar/baz'], ['list', '', '*'], ['delete', 'bar/baz'],
                                        ['create', '..'], ['create', '../x'], ['delete', '..'], ['list', '', '*']],
         universe=['INBOX', 'foo', 'bar', 'bar/baz', 'nope', 'other', '..', '../x']),
]


def run(ctx):
    ctx.rep.rule = RULE
    ctx.rep.assumptions = ['which superiors CREATE makes real is backend-specific and left free (dict: none; maildir: all)',
                           'DELETE of a mailbox with inferiors may be refused (maildir) — accepted either way as long as nothing else changes',
                           'a \\Noselect superior counts as existing for RENAME (pymap renames its inferiors); the property text does not decide it']
    nw = ctx.workers
    alpha = ['a', '/', '%', '*', '\n']
    k = ctx.budget(3, 4)
    pairs = [(''.join(p), ''.join(n)) for lp in range(1, k + 1) for p in itertools.product(alpha, repeat=lp)
             for ln in range(1, k + 1) for n in itertools.product(['a', '/', '\n', 'b'], repeat=ln)]
    if ctx.quick:
        rr = random.Random(ctx.seed)
        pairs = rr.sample(pairs, min(len(pairs), 6000))
    else:
        ctx.rep.extra['exhaustive_l1'] = f'all {len(pairs)} pattern/name pairs up to length {k} over a,/,%,*,LF (patterns) and a,/,LF,b (names)'
    chunks = [pairs[i::nw] for i in range(nw)]
    ctx.pmap(worker, [(ctx.seed * 1000 + 300 + i, ctx.budget(12, 250), CORPUS if i == 0 else [], chunks[i]) for i in range(nw)])


def replay(case):
    part = Part()
    case = case.get('case', case)
    if case.get('level') == 'L1':
        print(case)
        return 0
    prog = case['program']
    uni = universe_of(prog)
    m = Model()
    asyncio.run(run_program(part, m, case.get('backend', 'dict'), prog, sorted(uni)))
    m.close()
    res = part.result()
    for v in res['violations']:
        print(f"[{v['kind']}] {v['what']}")
    print('reproduced' if res['violations'] else 'not reproduced')
    return 1 if res['violations'] else 0
