"""C19 on the maildir backend (monitors only).

The maildir backend keeps one script per user (`pymap/filter.py` `SingleFilterSet`, file `dovecot.sieve`), so the Lean
`Sieve` model (a map with any number of names) is not its model.  What is checked here is the part of the property that does
not depend on how many names a store can hold — *what the server acknowledged holds afterwards*:

  * a PUTSCRIPT answered OK is followed by GETSCRIPT returning those bytes and by LISTSCRIPTS showing the name;
    a store may refuse a name (NO), it may not say OK and keep nothing;
  * a command answered NO changes nothing; GETSCRIPT / LISTSCRIPTS show exactly the acknowledged map;
  * SETACTIVE answered OK names a stored script; at most one ACTIVE mark; a script marked ACTIVE is not deleted with an OK;
  * before authentication every script command is NO and no store changes; one user's script never shows for the other.

The single-slot design itself departs from the map in one way that is recorded as known finding D80: the one script is active
by being stored (no SETACTIVE needed, none possible to undo) and DELETESCRIPT removes it although LISTSCRIPTS marks it ACTIVE.
"""
from __future__ import annotations
import asyncio
import random

from . import c19
from .common import wire, backends, imapresp
from .common.model import Model, nats
from .common.report import Part, guarded

NAMES = ['active', 'active', 'active', 'a', 'foo', 'Active', 'active ', 'café', 'dovecot.sieve', '../active']
SCRIPTS = [b'keep;', b'discard;\r\n', b'', b'\x00\xff bin', b'if true { keep; }', b'keep;\r\n# see {3+}', b'x' * 150]


def gen(r):
    k = r.choice(['put', 'put', 'put', 'get', 'get', 'list', 'list', 'setactive', 'setactive', 'delete', 'delete', 'rename', 'check', 'havespace', 'noop', 'unauth', 'auth', 'auth-bad'])
    n, n2, sc = r.choice(NAMES), r.choice(NAMES), r.choice(SCRIPTS)
    if k == 'put':
        return b'PUTSCRIPT ' + c19.qs(n) + b' ' + c19.lit(sc) + b'\r\n', f'put:{n}', ('put', n, sc)
    if k == 'get':
        return b'GETSCRIPT ' + c19.qs(n) + b'\r\n', 'get:' + n, ('get', n)
    if k == 'list':
        return b'LISTSCRIPTS\r\n', 'list', ('list',)
    if k == 'setactive':
        if r.random() < 0.25:
            return b'SETACTIVE ""\r\n', 'setactive:none', ('setactive', None)
        return b'SETACTIVE ' + c19.qs(n) + b'\r\n', 'setactive:' + n, ('setactive', n)
    if k == 'delete':
        return b'DELETESCRIPT ' + c19.qs(n) + b'\r\n', 'delete:' + n, ('delete', n)
    if k == 'rename':
        return b'RENAMESCRIPT ' + c19.qs(n) + b' ' + c19.qs(n2) + b'\r\n', 'rename', ('rename', n, n2)
    if k == 'check':
        return b'CHECKSCRIPT ' + c19.lit(b'keep;') + b'\r\n', 'check', ('check',)
    if k == 'havespace':
        return b'HAVESPACE ' + c19.qs(n) + b' 10\r\n', 'havespace', ('havespace',)
    if k == 'noop':
        return b'NOOP\r\n', 'noop', ('noop',)
    if k == 'unauth':
        return b'UNAUTHENTICATE\r\n', 'unauth', ('unauth',)
    if k == 'auth':
        ui = r.randrange(len(c19.USERS))
        u, p = c19.USERS[ui]
        return b'AUTHENTICATE "PLAIN" "' + c19.b64plain('', u, p) + b'"\r\n', 'auth', ('auth', ui)
    return b'AUTHENTICATE "PLAIN" "' + c19.b64plain('', 'alice', 'wrong') + b'"\r\n', 'auth-bad', ('auth-bad',)


def listing(got):
    """'LIST:nats=1;nats=0' -> [(name bytes, active)]"""
    out = []
    body = got[5:]
    for item in body.split(';') if body else []:
        nm, a = item.rsplit('=', 1)
        out.append((bytes(int(x) for x in nm.split(',') if x != ''), a == '1'))
    return out


async def md_case(part, r, key, m=None):
    from pymap.sieve.manage import ManageSieveServer
    base = backends.scratch_dir('pymap-verif-c19md-')
    log = []
    case = dict(scenario='sieve-maildir', log=log)
    try:
        config, login = await backends.make_maildir(base, users=[(u, p, ()) for u, p in c19.USERS])
        srv = ManageSieveServer(login, config)
        store = {i: ({}, [None]) for i in range(len(c19.USERS))}      # what was acknowledged: name -> bytes, active name
        slot = {i: 'none' for i in range(len(c19.USERS))}             # the SieveSingle model's slot per user
        nontrivial = False
        for ci in range(r.choice([1, 2, 3])):
            c = wire.Client(srv)
            await c.start()
            user = None
            cmds = [gen(r) for _ in range(r.randint(3, 12))]
            if r.random() < 0.8:
                ui = r.randrange(len(c19.USERS))
                u, p = c19.USERS[ui]
                cmds.insert(0, (b'AUTHENTICATE "PLAIN" "' + c19.b64plain('', u, p) + b'"\r\n', 'auth', ('auth', ui)))
            for w, tok, op in cmds:
                if c.task.done():
                    break
                before = await c19.dump_users(srv) if user is None and op[0] in ('put', 'delete', 'rename', 'setactive', 'get', 'list', 'check', 'havespace') else None
                raw = await c.send(w)
                got = c19.canon_reply(raw, 'get:' if op[0] == 'get' else ('list' if op[0] == 'list' else tok))
                log.append([ci, w.decode('latin1')[:60], got[:60]])
                part.stat('md-sieve-op:' + op[0])
                k = op[0]
                if got.startswith('MALFORMED') or got in ('NONE', 'OTHER'):
                    part.violation('monitor', f'C19 maildir: {w[:50]!r} answered {got}: {raw[:100]!r}', case, signature='md-sieve-malformed')
                    continue
                if user is None:
                    if k == 'auth':
                        if got == 'OK':
                            user = op[1]
                        else:
                            part.violation('monitor', f'C19 maildir: valid AUTHENTICATE answered {got}', case, signature='md-sieve-auth')
                    elif k in ('noop',):
                        pass
                    elif k == 'auth-bad':
                        if got == 'OK':
                            part.violation('monitor', 'C19 maildir: wrong password accepted', case, signature='md-sieve-auth-bad')
                    else:
                        if not got.startswith('NO'):
                            part.violation('monitor', f'C19 maildir: {w[:50]!r} before authentication answered {got}', case, signature='md-sieve-gate-answer')
                        if before is not None and await c19.dump_users(srv) != before:
                            part.violation('monitor', f'C19 maildir: {w[:50]!r} before authentication changed a script store', case, signature='md-sieve-gate-effect')
                    continue
                d, act = store[user]
                ok = got == 'OK' or got.startswith(('SCRIPT:', 'LIST:'))
                if m is not None and k in ('put', 'get', 'list', 'setactive', 'delete', 'rename', 'check', 'havespace'):
                    # tie: the reply and the slot of the SieveSingle model (C19_single_put_get, _refused_unchanged, _reads, _no_ghosts)
                    nb = lambda x: nats(c19.nbytes(x))       # noqa: E731
                    mtok = {'put': lambda: f'put:{nb(op[1])}:{nats(op[2])}', 'get': lambda: f'get:{nb(op[1])}', 'list': lambda: 'list',
                            'setactive': lambda: 'setactive:' + ('none' if op[1] is None else nb(op[1])), 'delete': lambda: f'delete:{nb(op[1])}',
                            'rename': lambda: f'rename:{nb(op[1])}:{nb(op[2])}', 'check': lambda: f'check:{nats(b"keep;")}:1', 'havespace': lambda: 'havespace:-:10'}[k]()
                    mod = m.ask(f'sieve1 1000000000 {slot[user]} {mtok}')
                    mreply, mslot = mod.rsplit('|', 1)
                    part.stat('md-sieve-tie')
                    impl = got if not got.startswith('NO:') or got[3:] in ('QUOTA/MAXSIZE', 'NONEXISTENT', 'ACTIVE', 'ALREADYEXISTS', 'Bad command.') else 'NO:'
                    if impl != mreply:
                        part.violation('correspondence', f'C19 maildir: {w[:50]!r} answered {impl[:80]}, the SieveSingle model {mreply[:80]} (slot {slot[user][:40]})', case, signature='md-sieve-model')
                    slot[user] = mslot
                if k == 'unauth':
                    if ok:
                        user = None
                elif k in ('auth', 'auth-bad'):
                    if ok:
                        part.violation('monitor', f'C19 maildir: AUTHENTICATE on an authenticated connection answered {got}', case, signature='md-sieve-reauth')
                elif k == 'put':
                    if ok:
                        d[op[1]] = op[2]
                        nontrivial = True
                elif k == 'get':
                    if op[1] in d:
                        if got != 'SCRIPT:' + nats(d[op[1]]):
                            part.violation('monitor', f'C19 maildir: PUTSCRIPT {op[1]!r} was answered OK, GETSCRIPT of it now answers {got[:80]} (stored: {d[op[1]][:40]!r})', case,
                                           signature='md-sieve-put-get')
                    elif ok:
                        part.violation('monitor', f'C19 maildir: GETSCRIPT {op[1]!r} returns {got[:80]}; no such script was ever acknowledged', case, signature='md-sieve-get-ghost')
                elif k == 'list':
                    if not got.startswith('LIST:'):
                        part.violation('monitor', f'C19 maildir: LISTSCRIPTS answered {got}', case, signature='md-sieve-list')
                        continue
                    items = listing(got)
                    names = sorted(n for n, _ in items)
                    if names != sorted(c19.nbytes(n) for n in d):
                        part.violation('monitor', f'C19 maildir: LISTSCRIPTS shows {names}, acknowledged were {sorted(d)}', case, signature='md-sieve-list-names')
                    marks = [n for n, a in items if a]
                    if len(marks) > 1:
                        part.violation('monitor', f'C19 maildir: LISTSCRIPTS marks {marks} ACTIVE', case, signature='md-sieve-two-active')
                    want = [c19.nbytes(act[0])] if act[0] is not None and act[0] in d else []
                    if marks != want:
                        # single-slot store: the one script is active by being stored (D79)
                        part.violation('monitor', f'C19 maildir: LISTSCRIPTS marks {marks} ACTIVE; SETACTIVE was acknowledged for {act[0]!r}', case, signature='md-sieve-active-implicit')
                        act[0] = marks[0].decode('utf-8', 'surrogateescape') if marks else None
                elif k == 'setactive':
                    if ok:
                        if op[1] is None:
                            act[0] = None
                        elif op[1] not in d:
                            part.violation('monitor', f'C19 maildir: SETACTIVE {op[1]!r} answered OK; no such script is stored', case, signature='md-sieve-setactive-ghost')
                        else:
                            act[0] = op[1]
                elif k == 'delete':
                    if ok:
                        if op[1] not in d:
                            part.violation('monitor', f'C19 maildir: DELETESCRIPT {op[1]!r} answered OK; no such script is stored', case, signature='md-sieve-delete-ghost')
                        else:
                            # is it marked active right now?
                            if act[0] == op[1]:
                                part.violation('monitor', f'C19 maildir: DELETESCRIPT {op[1]!r} answered OK while that script is the active one', case, signature='md-sieve-delete-active')
                                act[0] = None
                            del d[op[1]]
                elif k == 'rename':
                    if ok:
                        if op[1] not in d or op[2] in d:
                            part.violation('monitor', f'C19 maildir: RENAMESCRIPT {op[1]!r} {op[2]!r} answered OK (stored: {sorted(d)})', case, signature='md-sieve-rename')
                        else:
                            d[op[2]] = d.pop(op[1])
                            if act[0] == op[1]:
                                act[0] = op[2]
            await c.eof()
        # the stores as fresh connections see them: exactly what was acknowledged, each user's own
        final = await c19.dump_users(srv)
        for ui, (u, _) in enumerate(c19.USERS):
            d, act = store[ui]
            got = [(n, b) for n, b, _ in final[ui]]
            want = sorted((c19.nbytes(n), bytes(b)) for n, b in d.items())
            if got != want:
                part.violation('monitor', f'C19 maildir: at the end user {u} holds {got!r}; acknowledged were {want!r}', case, signature='md-sieve-final')
        part.case(key=key, nontrivial=nontrivial, sample=dict(log=log[:6]))
    finally:
        backends.rmtree(base)


def worker(job):
    seed, n = job
    r = random.Random(seed)
    part = Part()
    m = Model()
    try:
        for k in range(n):
            with guarded(part, 'C19 maildir', dict(scenario='sieve-maildir', seed=seed, k=k)):
                asyncio.run(md_case(part, r, f'md:{seed}:{k}', m))
    finally:
        m.close()
    return part.result()
