"""C03 — message bytes are stored and returned verbatim.

Tie (correspondence):
  L1  MessageContent.parse(b) (raw, header, body) and the partial-range slice  vs  Lean `Mime.parse`, `Mime.getPartial`
      (the functions the theorems C03_raw / C03_size / C03_header_text / C03_partial are about)
Monitors (the property itself, on the real server, wire level):
  L3  APPEND b ; UID FETCH (RFC822.SIZE BODY[] RFC822 BODY[HEADER] BODY[TEXT] BODY[]<o.n> BODYSTRUCTURE BODY[part]...)
      on dict and maildir; COPY and MOVE copies fetched again.
Known findings: D5 (BODYSTRUCTURE octets include the part header), D6 (maildir stores through Python's
`mailbox`/`email` round trip, so what comes back is that round trip of b, not b).
"""
from __future__ import annotations
import asyncio
import random
import re

from .common import gen, imapresp, wire, backends
from .common.model import Model, nats
from .common.report import Part, guarded

RULE = ('messages from a MIME shape grammar (separator present/absent, final newline or not, CRLF/LF/mixed, NUL/8-bit, nested '
        'multipart and message/rfc822) plus raw byte strings; non-trivial = at least 2 lines and (no blank separator line, or a '
        'whitespace-only separator, or nested) or a partial range inside the message; distinct by message bytes')


def _nontrivial(b):
    return b.count(b'\n') >= 1 and (b'\r\n\r\n' not in b or b'boundary' in b or b'\n \r\n' in b or b'rfc822' in b)


# ------------------------------------------------------------------ L1
def l1_case(m, part, data, o, n):
    from pymap.mime import MessageContent
    with guarded(part, 'C03 L1 MessageContent.parse', dict(level='L1', data=list(data), o=o, n=n)):
        c = MessageContent.parse(data)
        impl = f'{nats(bytes(c))} {nats(bytes(c.header))} {nats(bytes(c.body))}'
        mod = m.ask('mime ' + nats(data))
        part.case(key=data.hex(), nontrivial=_nontrivial(data))
        if impl != mod:
            part.violation('correspondence', f'MessageContent.parse != Mime.parse on {data!r}: impl={impl} model={mod}',
                           dict(level='L1', data=list(data), impl=impl, model=mod), signature='L1-parse')
            # failing-input search: does the implementation itself break the property here?
            if bytes(c) != data:
                part.violation('monitor', f'MessageContent.parse({data!r}) raw = {bytes(c)!r}', dict(level='L1', data=list(data)),
                               signature='L1-raw')
            elif bytes(c.header) + bytes(c.body) != data:
                part.violation('monitor', f'header+body != message for {data!r}: {bytes(c.header)!r} + {bytes(c.body)!r}',
                               dict(level='L1', data=list(data)), signature='L1-header-text')


# ------------------------------------------------------------------ L3
def leaf_parts(bs, prefix=()):
    """leaf parts of a BODYSTRUCTURE token tree -> list of (part number tuple, announced octets)"""
    out = []
    if bs and isinstance(bs[0], list):               # multipart: children first, then subtype
        k = 0
        while k < len(bs) and isinstance(bs[k], list):
            out += leaf_parts(bs[k], prefix + (k + 1,))
            k += 1
        return out
    # single part: type subtype params id desc enc size ...
    try:
        size = int(bs[6].val)
    except Exception:
        return out
    typ = (bs[0].val or b'').lower() if isinstance(bs[0], imapresp.Tok) else b''
    sub = (bs[1].val or b'').lower() if isinstance(bs[1], imapresp.Tok) else b''
    out.append((prefix or (1,), size, typ + b'/' + sub))
    return out


async def l3_backend(part, kind, msgs, r):
    base = None
    if kind == 'dict':
        backend, config = await backends.make_dict(users=[('alice', 'pw', ())])
        login = backend.login
        userpw = b'alice pw'
    else:
        base = backends.scratch_dir()
        config, login = await backends.make_maildir(base, layout=r.choice(['++', 'fs']))
        userpw = b'alice pwalice'
    from pymap.imap import IMAPServer
    srv = IMAPServer(login, config)

    async def connect(first):
        c = wire.Client(srv)
        await c.start()
        await c.send(b'a LOGIN ' + userpw + b'\r\n')
        if first:
            await c.send(b'a CREATE other\r\n')
            await c.send(b'a CREATE third\r\n')
        await c.send(b'a SELECT INBOX\r\n')
        return c
    c = await connect(True)
    try:
        twins = []
        for b in msgs:
            t = checksum_twin(b)
            twins.append(b)
            if t is not None and r.random() < 0.5:
                twins.append(t)         # stored while the original is still in the mailbox
        for b in twins:
            try:
                await one_message(part, kind, c, b, r)
            except imapresp.Malformed as exc:
                part.violation('monitor', f'{kind}: the response carrying the message data does not parse ({exc}) for {b!r}',
                               dict(level='L3', backend=kind, data=list(b)), signature='malformed-response')
            if c.task.done():
                # an internal error while storing/fetching is C06's subject; C03 only speaks about accepted messages
                part.stat(f'{kind}:connection-ended')
                await c.finish()
                c = await connect(False)
    finally:
        await c.eof()
        if base:
            backends.rmtree(base)


async def l3_two_sessions(part, kind, msgs, r):
    """the bytes returned under a UID are the bytes appended under that UID - also while another session removes and changes messages:
    session A fetches whole ranges (by UID and by number) with a stale view, session B expunges and flags in between"""
    base = None
    if kind == 'dict':
        backend, config = await backends.make_dict(users=[('alice', 'pw', ())])
        login = backend.login
        userpw = b'alice pw'
    else:
        base = backends.scratch_dir()
        config, login = await backends.make_maildir(base, layout=r.choice(['++', 'fs']))
        userpw = b'alice pwalice'
    from pymap.imap import IMAPServer
    srv = IMAPServer(login, config)
    try:
        async def connect():
            c = wire.Client(srv)
            await c.start()
            await c.send(b'a LOGIN ' + userpw + b'\r\n')
            return c
        a, b = await connect(), await connect()
        stored = {}
        for m_ in msgs:
            raw = await a.send(b'a APPEND INBOX {%d+}\r\n' % len(m_) + m_ + b'\r\n')
            mt = re.search(rb'APPENDUID \d+ (\d+)', raw)
            if mt:
                stored[int(mt.group(1))] = m_ if kind == 'dict' else expected_store(kind, m_)
        if len(stored) < 3:
            return
        await a.send(b'a SELECT INBOX\r\n')
        await b.send(b'b SELECT INBOX\r\n')
        log = []
        case = dict(level='L3', scenario='two-sessions', backend=kind, messages=[list(m_) for m_ in msgs], log=log)
        live = sorted(stored)
        for _ in range(r.randint(2, 5)):
            # B changes the mailbox behind A's back
            for _ in range(r.randint(1, 3)):
                u = r.choice(live)
                x = r.random()
                if x < 0.45 and len(live) > 1:
                    cmdb = b'b UID STORE %d +FLAGS.SILENT (\\Deleted)\r\nb EXPUNGE\r\n' % u
                    await b.send(b'b UID STORE %d +FLAGS.SILENT (\\Deleted)\r\n' % u)
                    await b.send(b'b EXPUNGE\r\n')
                    live.remove(u)
                    log.append(['B', 'expunge', u])
                else:
                    await b.send(b'b UID STORE %d %sFLAGS (\\Flagged)\r\n' % (u, r.choice([b'+', b'-'])))
                    log.append(['B', 'flag', u])
            # A, not told yet, asks for everything
            q = r.choice([b'a UID FETCH 1:* (BODY.PEEK[])', b'a UID FETCH 1:* (UID RFC822.SIZE BODY.PEEK[])', b'a FETCH 1:* (UID BODY.PEEK[])', b'a UID FETCH 1:* (RFC822.SIZE)',
                          b'a UID FETCH 1:* (BODY.PEEK[]<0.5>)'])
            out = await a.send(q + b'\r\n')
            log.append(['A', q.decode()])
            part.stat(f'{kind}:two-session-fetch')
            if a.task.done():
                part.stat(f'{kind}:connection-ended')
                return
            try:
                resps = imapresp.parse(out)
            except imapresp.Malformed:
                part.stat(f'{kind}:two-session-unreadable')
                continue
            for resp in resps:
                f = imapresp.fetch_items(resp)
                if not f or b'UID' not in f[1]:
                    continue
                uid = int(f[1][b'UID'].val)
                want = stored.get(uid)
                if want is None or uid not in live:
                    # a message another session has expunged meanwhile is no longer there to be returned (maildir answers with nothing): not this property's subject
                    continue
                for name, v in f[1].items():
                    if not isinstance(v, imapresp.Tok):
                        continue
                    if name == b'BODY[]' and v.val != want:
                        whose = [u for u, w in stored.items() if w == v.val]
                        part.violation('monitor', f'{kind}: {q.decode()} with another session expunging and flagging: under UID {uid} came {v.val[:60]!r} ({len(v.val)} bytes), '
                                       f'appended under that UID was {want[:60]!r} ({len(want)} bytes); these are the bytes of UID {whose}', case, signature='uid-content-crossed')
                    if name == b'RFC822.SIZE' and int(v.val) != len(want):
                        part.violation('monitor', f'{kind}: {q.decode()}: RFC822.SIZE {int(v.val)} under UID {uid}, the message appended under it has {len(want)} bytes', case,
                                       signature='uid-size-crossed')
                    if name == b'BODY[]<0>' and v.val != want[:5]:
                        part.violation('monitor', f'{kind}: {q.decode()}: BODY[]<0.5> under UID {uid} is {v.val!r}, the message appended under it starts {want[:5]!r}', case,
                                       signature='uid-content-crossed')
            await a.send(b'a NOOP\r\n') if r.random() < 0.5 else None
        part.case(key='two:' + kind + repr(log)[:300], nontrivial=True, sample=dict(scenario='two-sessions', log=log[:6]))
        await a.eof()
        await b.eof()
    finally:
        if base:
            backends.rmtree(base)


def expected_store(kind, b, copy=False):
    """what the backend is *known* to return for BODY[] (known finding D6 for maildir); b itself for dict.
    `copy`: what a COPY of the stored message is known to hold (read with the mailbox module, written again)"""
    if kind == 'dict':
        return b
    import mailbox
    import tempfile
    import shutil
    d = tempfile.mkdtemp(prefix='c03-md-', dir=backends.SCRATCH_ROOT)
    try:
        md = mailbox.Maildir(d + '/m', create=True)
        key = md.add(mailbox.MaildirMessage(b))
        if copy:
            key = md.add(mailbox.MaildirMessage(md.get_message(key)))
        return bytes(md.get_message(key))
    finally:
        shutil.rmtree(d, ignore_errors=True)


def checksum_twin(b):
    """a different message of the same length with the same adler32 (and byte sum): (x, y, z) -> (x+1, y-2, z+1)"""
    bb = bytearray(b)
    for i in range(len(bb) - 3, -1, -1):
        x, y, z = bb[i], bb[i + 1], bb[i + 2]
        if x < 255 and y >= 2 and z < 255 and all(v not in (10, 13) for v in (x, y, z, x + 1, y - 2, z + 1)):
            bb[i], bb[i + 1], bb[i + 2] = x + 1, y - 2, z + 1
            return bytes(bb)
    return None


async def one_message(part, kind, c, b, r):
    rep = dict(level='L3', backend=kind, data=list(b))
    out = await c.send(b'a APPEND INBOX {%d+}\r\n' % len(b) + b + b'\r\n')
    tg = imapresp.tagged(imapresp.parse(out))
    part.case(key=kind + b.hex(), nontrivial=_nontrivial(b), sample=dict(backend=kind, message=repr(b)[:120]))
    part.trace()
    if tg is None or tg[1] != b'OK':
        part.stat(f'{kind}:append-refused')       # the property speaks about accepted messages only
        return
    if not tg[2] or not tg[2].startswith(b'[APPENDUID'):
        part.violation('monitor', f'{kind}: APPEND without APPENDUID: {out!r}', rep, signature='no-appenduid')
        return
    uid = int(tg[2].rstrip(b']').split()[2])
    o = r.randint(0, len(b) + 2)
    n = r.randint(0, len(b) + 2)
    if n == 0:
        n = 1
    q = (b'a UID FETCH %d (RFC822.SIZE BODY.PEEK[] RFC822 BODY.PEEK[HEADER] BODY.PEEK[TEXT] RFC822.HEADER RFC822.TEXT '
         b'BODY.PEEK[]<%d.%d>)\r\n' % (uid, o, n))
    out = await c.send(q)
    resps = imapresp.parse(out)
    items = None
    for resp in resps:
        f = imapresp.fetch_items(resp)
        if f and b'UID' in f[1] and int(f[1][b'UID'].val) == uid and b'BODY[]' in f[1]:
            items = f[1]
    if items is None:
        part.violation('monitor', f'{kind}: no FETCH data for appended uid {uid}: {out[:300]!r}', rep, signature='no-fetch')
        return
    want = b
    full = items[b'BODY[]'].val
    if full != b:
        exp = expected_store(kind, b)
        if kind == 'maildir' and full == exp:
            part.violation('monitor', 'maildir returns the mailbox/email round trip of the message, not its bytes '
                           f'(in {b!r} out {full!r})', rep, signature='maildir-email-roundtrip')
            want = full          # judge the remaining equalities relative to what the store holds
        else:
            part.violation('monitor', f'{kind}: BODY[] != appended bytes: in {b!r} out {full!r}', rep, signature='body-differs')
            return

    def chk(name, got, exp_, sig):
        if got != exp_:
            part.violation('monitor', f'{kind}: {name} = {got!r}, expected {exp_!r} (message {b!r})', rep, signature=sig)

    chk('RFC822', items[b'RFC822'].val, want, 'rfc822-differs')
    chk('RFC822.SIZE', int(items[b'RFC822.SIZE'].val), len(want), 'size-differs')
    chk('BODY[HEADER]+BODY[TEXT]', items[b'BODY[HEADER]'].val + items[b'BODY[TEXT]'].val, want, 'header-text-differs')
    chk('RFC822.HEADER+RFC822.TEXT', items[b'RFC822.HEADER'].val + items[b'RFC822.TEXT'].val, want, 'header-text-differs')
    pkey = b'BODY[]<%d>' % o
    if pkey in items:
        chk(f'BODY[]<{o}.{n}>', items[pkey].val, want[o:o + n], 'partial-differs')
        if 0 < o < len(want):
            part.stat('partial-inside')
    else:
        part.violation('monitor', f'{kind}: no {pkey!r} in the response: {sorted(items)!r}', rep, signature='partial-missing')
    # several ranges in one command, some with the same origin: every one of them is answered with its own slice
    ranges = [(r.randint(0, len(want) + 1), r.randint(1, len(want) + 2)) for _ in range(r.randint(2, 3))]
    if r.random() < 0.6:
        ranges.append((ranges[0][0], ranges[0][1] + r.randint(1, 5)))
    if r.random() < 0.35:
        # numbers that differ by 2**61 - 1 have the same Python hash: they are different ranges all the same
        o_, n_ = ranges[0]
        ranges.append(r.choice([(o_ + (2 ** 61 - 1), n_), (o_, n_ + (2 ** 61 - 1))]))
    r.shuffle(ranges)
    ranges = list(dict.fromkeys(ranges))
    out = await c.send(b'a UID FETCH %d (' % uid + b' '.join(b'BODY.PEEK[]<%d.%d>' % rg for rg in ranges) + b')\r\n')
    got_pairs = []
    try:
        for resp in imapresp.parse(out):
            if len(resp) >= 4 and imapresp.atom(resp[0]) == b'*' and imapresp.atom(resp[2]) == b'FETCH' and isinstance(resp[3], list):
                it = resp[3]
                for k in range(0, len(it) - 1, 2):
                    nm = imapresp.atom(it[k]) or b''
                    if nm.upper().startswith(b'BODY[]<') and isinstance(it[k + 1], imapresp.Tok):
                        got_pairs.append((int(nm[7:-1]), it[k + 1].val))
        part.stat('grouped-partials')
        want_pairs = sorted((o_, want[o_:o_ + n_]) for o_, n_ in ranges)
        if sorted(got_pairs) != want_pairs:
            part.violation('monitor', f'{kind}: one FETCH asking for the ranges {ranges} was answered with {sorted(got_pairs)!r}, expected {want_pairs!r} (message {b!r})', rep,
                           signature='grouped-partials')
    except (imapresp.Malformed, ValueError):
        part.stat(f'{kind}:grouped-partials-unreadable')
    # BODYSTRUCTURE octet counts vs BODY[part]  (its own command: a failure to *describe* the structure is C06/C07's subject)
    try:
        out = await c.send(b'a UID FETCH %d (BODYSTRUCTURE)\r\n' % uid)
        bs = None
        for resp in imapresp.parse(out):
            f = imapresp.fetch_items(resp)
            if f and b'BODYSTRUCTURE' in f[1]:
                bs = f[1][b'BODYSTRUCTURE']
    except imapresp.Malformed:
        part.stat(f'{kind}:bodystructure-unreadable')
        return
    if c.task.done():
        return
    if isinstance(bs, list):
        leaves = leaf_parts(bs)[:4]
        if leaves:
            q = b'a UID FETCH %d (' % uid + b' '.join(
                b'BODY.PEEK[%s] BODY.PEEK[%s.MIME] BODY.PEEK[%s.HEADER] BODY.PEEK[%s.TEXT]' % ((b'.'.join(b'%d' % k for k in p),) * 4)
                for p, _, _ in leaves) + b')\r\n'
            out2 = await c.send(q)
            items2 = {}
            for resp in imapresp.parse(out2):
                f = imapresp.fetch_items(resp)
                if f:
                    items2.update(f[1])
            for p, size, ctype in leaves:
                ps = b'.'.join(b'%d' % k for k in p)
                data = items2.get(b'BODY[%s]' % ps)
                mime = items2.get(b'BODY[%s.MIME]' % ps)
                if not isinstance(data, imapresp.Tok):
                    continue
                part.stat('bodystructure-leaf')
                if size != len(data.val):
                    hdr_len = len(mime.val) if isinstance(mime, imapresp.Tok) else -1
                    ih = items2.get(b'BODY[%s.HEADER]' % ps)
                    it = items2.get(b'BODY[%s.TEXT]' % ps)
                    if ctype == b'message/rfc822' and isinstance(mime, imapresp.Tok) and size > len(data.val) \
                            and (mime.val + data.val) in want:
                        part.violation('monitor', f'BODY[{ps.decode()}] of a message/rfc822 part returns the embedded message\'s body '
                                       f'({len(data.val)} octets) instead of the embedded message; BODYSTRUCTURE announces {size}', rep,
                                       signature='rfc822-part-body-is-inner-text')
                    elif size == len(data.val) + hdr_len:
                        part.violation('monitor', f'BODYSTRUCTURE announces {size} octets for part {ps.decode()} but BODY[{ps.decode()}] has '
                                       f'{len(data.val)} (the part header is counted)', rep, signature='bodystructure-octets-include-part-header')
                    else:
                        part.violation('monitor', f'{kind}: BODYSTRUCTURE announces {size} octets for part {ps.decode()} but BODY[{ps.decode()}] has '
                                       f'{len(data.val)} (part header {hdr_len}) for {b!r}', rep, signature='bodystructure-octets')
    # copies
    for verb, dest in ((b'COPY', b'other'), (b'MOVE', b'third')):
        out = await c.send(b'a UID %s %d %s\r\n' % (verb, uid, dest))
        tg = imapresp.tagged(imapresp.parse(out))
        code = None
        for resp in imapresp.parse(out):
            for t in resp:
                if isinstance(t, imapresp.Tok) and t.val.startswith(b'[COPYUID'):
                    code = t.val
        if tg is None or tg[1] != b'OK' or code is None:
            part.violation('monitor', f'{kind}: UID {verb.decode()} of uid {uid} failed: {out!r}', rep, signature='copy-failed')
            continue
        duid = int(code.rstrip(b']').split()[3])
        await c.send(b'a EXAMINE %s\r\n' % dest)
        out = await c.send(b'a UID FETCH %d (RFC822.SIZE BODY.PEEK[])\r\n' % duid)
        got = None
        for resp in imapresp.parse(out):
            f = imapresp.fetch_items(resp)
            if f and b'BODY[]' in f[1]:
                got = f[1]
        await c.send(b'a SELECT INBOX\r\n')
        if got is None:
            part.violation('monitor', f'{kind}: {verb.decode()} copy uid {duid} not found in {dest.decode()}: {out!r}', rep,
                           signature='copy-missing')
            continue
        cwant = want
        if kind == 'maildir' and verb == b'COPY' and got[b'BODY[]'].val != want and got[b'BODY[]'].val == expected_store(kind, b, copy=True):
            # the copy went through the mailbox/email round trip once more (known finding D6)
            part.violation('monitor', f'maildir: the COPY of a message is its mailbox/email round trip ({want!r} -> {got[b"BODY[]"].val!r})',
                           rep, signature='maildir-email-roundtrip')
            cwant = got[b'BODY[]'].val
        chk(f'{verb.decode()} copy BODY[]', got[b'BODY[]'].val, cwant, 'copy-differs')
        chk(f'{verb.decode()} copy RFC822.SIZE', int(got[b'RFC822.SIZE'].val), len(cwant), 'copy-size-differs')


def _expand_set(text):
    out = []
    for piece in text.split(b','):
        lo, _, hi = piece.partition(b':')
        lo, hi = int(lo), int(hi or lo)
        out.extend(range(lo, hi + 1) if lo <= hi else range(lo, hi - 1, -1))
    return out


async def l3_multi_copy(part, kind, msgs, r):
    """COPY and MOVE of several messages at once: the copy that COPYUID announces for message u holds the bytes of u (and every requested message has one)"""
    base = None
    if kind == 'dict':
        backend, config = await backends.make_dict(users=[('alice', 'pw', ())])
        login = backend.login
        userpw = b'alice pw'
    else:
        base = backends.scratch_dir()
        config, login = await backends.make_maildir(base, layout=r.choice(['++', 'fs']))
        userpw = b'alice pwalice'
    from pymap.imap import IMAPServer
    srv = IMAPServer(login, config)
    c = wire.Client(srv)
    try:
        await c.start()
        await c.send(b'a LOGIN ' + userpw + b'\r\n')
        orig = {}
        for m_ in msgs:
            raw = await c.send(b'a APPEND INBOX {%d+}\r\n' % len(m_) + m_ + b'\r\n')
            mt = re.search(rb'APPENDUID \d+ (\d+)', raw)
            if mt:
                orig[int(mt.group(1))] = m_
        await c.send(b'a SELECT INBOX\r\n')

        async def bodies(box):
            await c.send(b'a EXAMINE %s\r\n' % box)
            out = await c.send(b'a UID FETCH 1:* (UID RFC822.SIZE BODY.PEEK[])\r\n')
            res = {}
            for resp in imapresp.parse(out):
                f = imapresp.fetch_items(resp)
                if f and b'UID' in f[1] and isinstance(f[1].get(b'BODY[]'), imapresp.Tok):
                    res[int(f[1][b'UID'].val)] = (f[1][b'BODY[]'].val, int(f[1][b'RFC822.SIZE'].val))
            await c.send(b'a SELECT INBOX\r\n')
            return res
        src = await bodies(b'INBOX')
        if len(src) < 4:
            return
        log = []
        case = dict(level='L3', scenario='multi-copy', backend=kind, messages=[list(m_) for m_ in msgs], log=log)
        live = sorted(src)
        dests = [b'other', b'third', b'fourth', b'fifth']
        for d in dests:
            await c.send(b'a CREATE %s\r\n' % d)
        # sets of two to four UIDs that straddle a multiple of 8 come out of a Python set in another order than ascending
        directed = [b'%d:%d' % (u - k, u) for u in live for k in (1, 3) if u % 8 == 0 and u - k in live]
        for n in range(r.randint(4, 7)):
            if len(live) < 3:
                break
            x = r.random()
            if directed and (n == 0 or x < 0.25):
                spec, by_uid = directed.pop(r.randrange(len(directed))), True
            elif x < 0.5:
                lo = r.choice(live[:-1])
                spec, by_uid = b'%d:%d' % (lo, r.choice([u for u in live if u > lo])), True
            elif x < 0.7:
                ks = r.sample(live, r.randint(2, min(5, len(live))))
                spec, by_uid = b','.join(b'%d' % u for u in ks), True
            elif x < 0.8:
                spec, by_uid = b'%d:*' % r.choice(live), True
            else:
                lo = r.randint(1, len(live) - 1)
                spec, by_uid = b'%d:%d' % (lo, r.randint(lo + 1, len(live))), False
            verb = b'MOVE' if r.random() < 0.3 else b'COPY'
            dest = r.choice(dests)
            asked = set(_expand_set(spec.replace(b'*', b'%d' % (live[-1] if by_uid else len(live)))))
            asked = (asked & set(live)) if by_uid else {live[k - 1] for k in asked if 1 <= k <= len(live)}
            if b'*' in spec:
                asked.add(live[-1])
            cmd = b'a %s%s %s %s' % (b'UID ' if by_uid else b'', verb, spec, dest)
            log.append(cmd.decode())
            out = await c.send(cmd + b'\r\n')
            part.stat(f'{kind}:multi-{verb.decode().lower()}')
            mt = re.search(rb'\[COPYUID \d+ (\S+) (\S+)\]', out)
            if mt is None or b'a OK' not in out:
                part.violation('monitor', f'{kind}: {cmd!r} failed or announced no COPYUID: {out[-200:]!r}', dict(case), signature='copy-failed')
                return
            su, du = _expand_set(mt.group(1)), _expand_set(mt.group(2))
            if len(su) != len(du) or set(su) != asked:
                part.violation('monitor', f'{kind}: {cmd!r} announces {mt.group(0)!r} for the requested messages {sorted(asked)}', dict(case), signature='copyuid-sets')
                return
            there = await bodies(dest)
            for u, d in zip(su, du):
                want = src[u]
                got = there.get(d)
                ok = got is not None and (got == want or (kind == 'maildir' and u in orig and got[0] == expected_store(kind, orig[u], copy=True) and got[1] == len(got[0])))
                if got is not None and got != want and ok:
                    part.stat('maildir:copy-roundtrip(D6)')
                if not ok:
                    whose = [v for v, w in src.items() if got is not None and w[0] == got[0]]
                    part.violation('monitor', f'{kind}: after {cmd!r} ({mt.group(0).decode()}) the copy announced for uid {u} - uid {d} of {dest.decode()} - '
                                   + (f'is missing' if got is None else f'holds the bytes of uid {whose}' if whose else f'holds {got[0][:60]!r} (size {got[1]}), the message is {want[0][:60]!r}'),
                                   dict(case), signature='copy-differs')
                    return
            part.case(key=f'multi-copy:{kind}:{verb.decode()}:{"uid" if by_uid else "seq"}:{min(len(su), 5)}', nontrivial=True)
            if verb == b'MOVE':
                live = [u for u in live if u not in asked]
                directed = [sp for sp in directed if set(_expand_set(sp)) <= set(live)]
        await c.eof()
    finally:
        if c.task is not None and c.task.done() and not c.task.cancelled() and c.task.exception() is not None:
            part.stat(f'{kind}:connection-died:{type(c.task.exception()).__name__}')      # e.g. known finding D5 on maildir
        else:
            await c.finish()
        if base:
            backends.rmtree(base)


def l1_copyuid(m, part, r, n):
    """`CopyUid` against the Lean `CopyUid.announce`: the pairs a client reads off the response code for the copies (src_i, dst_i), made in any order"""
    from pymap.parsing.response.code import CopyUid
    for _ in range(n):
        k = r.randint(1, 9)
        srcs = r.sample(range(1, 140), k)
        if r.random() < 0.5:
            srcs.sort()
        nxt = r.randint(1, 130)
        dsts = list(range(nxt, nxt + k)) if r.random() < 0.7 else r.sample(range(1, 140), k)
        raw = bytes(CopyUid(1, zip(srcs, dsts)))
        mt = re.match(rb'\[COPYUID 1 (\S+) (\S+)\]$', raw)
        real = 'unreadable' if not mt else ','.join(map(str, _expand_set(mt.group(1)))) + '|' + ','.join(map(str, _expand_set(mt.group(2))))
        mod = m.ask(f'copyuid {",".join(map(str, srcs))} {",".join(map(str, dsts))}')
        part.stat('L1-copyuid')
        part.case(key=f'copyuid:{srcs}:{dsts}', nontrivial=srcs != sorted(srcs) or k > 2)
        if mod != real:
            part.violation('correspondence', f'CopyUid for the copies {list(zip(srcs, dsts))}: the code announces {raw!r} (read as {real}), the model {mod}',
                           dict(level='L1', scenario='copyuid', srcs=srcs, dsts=dsts), signature='L1-copyuid')


def l1_get_uids(part, r, n):
    """the hypothesis of C03_copyuid_pairs on the real code: `get_uids` hands out the requested messages in strictly ascending UID order (and by UID exactly the
    requested ones that exist), whatever the order and shape of the set"""
    from datetime import datetime
    from pymap.selected import SelectedMailbox
    from pymap.flags import PermanentFlags, SessionFlags
    from pymap.parsing.specials import ObjectId, SequenceSet
    from pymap.parsing.specials.flag import Recent
    from pymap.parsing.command.any import NoOpCommand
    from pymap.backend.dict.mailbox import Message
    for _ in range(n):
        base = r.choice([1, 97, 101, 250])
        uids = sorted(r.sample(range(base, base + 40), r.randint(2, 24)))
        sel = SelectedMailbox(ObjectId(b'x'), False, PermanentFlags([]), SessionFlags([Recent]))
        sel.add_updates([Message(u, datetime.now(), []) for u in uids], [])
        sel, _ = sel.fork(NoOpCommand(b't'))
        asked = r.sample(range(base - 2, base + 44), r.randint(1, 8))
        if r.random() < 0.4:
            lo = r.choice(uids)
            asked += list(range(lo, lo + r.randint(1, 9)))
        by_uid = r.random() < 0.7
        if not by_uid:
            asked = [a - base + 1 for a in asked if 1 <= a - base + 1 <= len(uids)] or [1]
        got = list(sel.messages.get_uids(SequenceSet.build(asked, uid=by_uid)))
        want = [(s, u) for s, u in enumerate(uids, 1) if (u if by_uid else s) in set(asked)]
        part.stat('L1-get-uids')
        part.case(key=f'get_uids:{uids}:{asked}:{by_uid}', nontrivial=len(want) > 1)
        if got != want:
            part.violation('monitor', f'get_uids of {"UID " if by_uid else ""}{sorted(set(asked))} in a view with UIDs {uids} returns {got}; the messages in ascending order are {want}',
                           dict(level='L1', scenario='get-uids', uids=uids, asked=asked, by_uid=by_uid), signature='L1-get-uids')


# ------------------------------------------------------------------ driver
def worker(job):
    seed, n_l1, n_l3, corpus = job
    r = random.Random(seed)
    part = Part()
    m = Model()
    try:
        for b in corpus:
            l1_case(m, part, b, 0, 1)
        for i in range(n_l1):
            b = gen.message(r) if i % 4 else gen.raw_bytes(r, 9, [b'a', b':', b' ', b'\r', b'\n', b'\t', b'\r\n'])
            l1_case(m, part, b, r.randint(0, len(b) + 1), r.randint(1, len(b) + 2))
            # the partial-range function
            o, n = r.randint(0, len(b) + 2), r.randint(1, len(b) + 2)
            mod = m.ask(f'partial {nats(b)} {o} {n}')
            if mod != nats(b[o:o + n]):
                part.violation('correspondence', f'getPartial {b!r} {o} {n}: model {mod}', dict(level='L1', data=list(b), o=o, n=n),
                               signature='L1-partial')
        l1_copyuid(m, part, r, max(40, n_l1 // 10))
        l1_get_uids(part, r, max(60, n_l1 // 10))
    finally:
        m.close()
    msgs = list(corpus) + [gen.message(r) for _ in range(n_l3)]
    msgs = [b for b in msgs if b]
    if msgs:
        for kind in ('dict', 'maildir'):
            with guarded(part, f'C03 L3 {kind}', dict(level='L3', backend=kind, seed=seed)):
                asyncio.run(l3_backend(part, kind, msgs, random.Random(seed * 7 + 1)))
        r2 = random.Random(seed * 7 + 2)
        for k in range(max(2, n_l3 // 6)):
            kind = 'dict' if k % 3 else 'maildir'
            with guarded(part, f'C03 L3 two sessions {kind}', dict(level='L3', backend=kind, seed=seed, scenario='two-sessions')):
                pool = [b for b in msgs if b.strip()]
                asyncio.run(l3_two_sessions(part, kind, [bytes(b'X-N: %d\r\n' % j) + r2.choice(pool) for j in range(r2.randint(3, 6))], r2))
            with guarded(part, f'C03 L3 multi copy {kind}', dict(level='L3', backend=kind, seed=seed, scenario='multi-copy')):
                asyncio.run(l3_multi_copy(part, kind, [bytes(b'X-N: %d\r\n' % j) + r2.choice(pool) for j in range(r2.randint(8, 14))], r2))
    return part.result()


CORPUS = [b' ', b'A: b', b'A: b\r\n', b'\r\n', b'\n', b'x', b'A: b\r\n\r\n', b'A: b\r\n\r\nbody', b'A: b\r\n \r\nbody\r\n',
          b'\r\n\r\n', b'a\r\n\r\nb\r\n\r\nc', b'A: b\nC: d\n\nbody\n', b'\x00\xff\r\n\r\nq\r\n', b'A: b\r\n\r\nbo\rdy\r\n',
          b'Content-Type: multipart/mixed; boundary=xx\r\n\r\npre\r\n--xx\r\nA: b\r\n\r\nhello\r\n--xx\r\n\r\nworld\r\n--xx--\r\n',
          b'Content-Type: message/rfc822\r\n\r\nSubject: inner\r\n\r\ninner body\r\n',
          b'Content-Type: multipart/mixed; boundary=xx\r\n\r\n--xx\r\n--xx--\r\n', b'A: b\r\n\t\r\nrest']


def run(ctx):
    ctx.rep.rule = RULE
    ctx.rep.assumptions = ['the `email` package decides content types and boundaries (read from the real parse, not modelled)',
                           'maildir: Python mailbox/email round trip is the stored form (known finding D6)']
    nw = ctx.workers
    n_l1 = ctx.budget(1500, 25000)
    n_l3 = ctx.budget(40, 500)
    jobs = [(ctx.seed * 1000 + k, n_l1, n_l3, CORPUS if k == 0 else []) for k in range(nw)]
    ctx.pmap(worker, jobs)
    if not ctx.quick:
        # exhaustive small scope: all byte strings of length <= 6 over {a : SP CR LF}
        import itertools
        alpha = [97, 58, 32, 13, 10]
        allb = [bytes(t) for k in range(0, 7) for t in itertools.product(alpha, repeat=k)]
        chunks = [allb[i::nw] for i in range(nw)]
        ctx.pmap(exhaustive_worker, chunks)
        ctx.rep.extra['exhaustive_small_scope'] = f'all {len(allb)} byte strings of length <= 6 over a,:,SP,CR,LF (L1)'


def exhaustive_worker(chunk):
    part = Part()
    m = Model()
    try:
        for b in chunk:
            l1_case(m, part, b, 0, 1)
    finally:
        m.close()
    return part.result()


def replay(case):
    part = Part()
    data = bytes(case.get('data') or case.get('case', {}).get('data') or [])
    if case.get('level') == 'L1' or 'backend' not in case:
        m = Model()
        l1_case(m, part, data, case.get('o', 0), case.get('n', 1))
        m.close()
    elif case.get('scenario') in ('multi-copy', 'two-sessions'):
        # the recorded messages again, under a sweep of schedules of the same family
        fn = l3_multi_copy if case['scenario'] == 'multi-copy' else l3_two_sessions
        for k in range(40):
            asyncio.run(fn(part, case['backend'], [bytes(m_) for m_ in case['messages']], random.Random(k)))
            if part.result()['violations']:
                break
    else:
        asyncio.run(l3_backend(part, case['backend'], [data], random.Random(1)))
    res = part.result()
    for v in res['violations']:
        print(f"[{v['kind']}] {v['what']}")
    print('reproduced' if res['violations'] else 'not reproduced')
    return 1 if res['violations'] else 0
